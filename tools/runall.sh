#!/bin/sh
# tools/runall.sh [quick|thorough] [seed]  — run every registered check, print one line each
cd "$(dirname "$0")/.."
TIER="${1:-quick}"; SEED="${2:-0}"
for id in $(python3 -c "import json;print(' '.join(c['property_id'] for c in json.load(open('MANIFEST.json'))['checks']))"); do
  s=$(date +%s)
  out=$(VERIF_SEED=$SEED ./check $id --tier $TIER 2>&1); rc=$?
  e=$(date +%s)
  echo "$id rc=$rc $((e-s))s $(echo "$out" | grep -E 'VIOLATION|KNOWN-FINDING|INFRA' | head -2 | tr '\n' ' ')"
done

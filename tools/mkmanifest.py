#!/usr/bin/env python3
"""Regenerate MANIFEST.json from the table below (keeps it valid and consistent)."""
import json
from pathlib import Path

V = Path(__file__).resolve().parent.parent
ids = [json.loads(l)["id"] for l in open(V / "properties.jsonl")]

COMMON_NOTE = ("Trusted: Lean 4.33 kernel; axioms ⊆ {propext, Classical.choice, Quot.sound} (audited every run, no "
               "sorry/native_decide/bv_decide); translator/*.py for Generated/* (its output is re-proved equal to the frozen "
               "reference the proofs use by generated Bridge obligations every run); the correspondence harness "
               "(differential testing bounds the model↔code tie for hand-written parts); NumPy/numba/OS modelled, not verified.")

# id -> (technique, level text, level note extra, design_ref)
CHECKS = {
    "C18": ("Lean 4 proof of the row arithmetic of PFITSReader.read_block / read_plan (divmod by NSBLK, rows to read, "
            "slice) against the whole-file read, reusing the C01 block plan + differential correspondence on synthetic "
            "PSRFITS files + independently calibrated-sample oracle",
            "Theorems readSubints_eq, readRows_eq, readBlock_eq_whole (every in-range request, aligned or not), "
            "readBlock_out_of_range, readPlan_blocks / readPlan_covers (every gulp: each row exactly once, in order), "
            "readBlock_map (per-element calibration / flip commute with every read).",
            "Rows are abstract (unpacking, polarisation selection, scale/offset/weight, frequency flip are per-element "
            "and validated by the oracle against samples calibrated independently from the generator's inputs); only "
            "NPOL=4 Stokes/Coherence layouts are readable by the library (others are outside the property); "
            "astropy.io.fits is trusted.", "§5 C18"),
    "C20": ("Lean 4 proof that every streaming writer's op sequence is append-only with the header first and that "
            "EVERY byte-length truncation reads back as the first k complete samples (on top of C04/C05) + file-op "
            "inventory REGENERATED from the source + write-by-write disk snapshots, truncation sweep and SIGKILL runs + the header codec re-translated from io/sigproc.py and proved equal to the hand model (Tie/SigprocCodec)",
            "Theorems append_only, states_writerOps, prefix_chain(_ordered), header_never_patched, complete_on_return, "
            "truncation_readable, state_readable(_cwrite), truncation_mono, writer_ops_inventory (decide over the "
            "generated inventory: only open('w+')/write/tofile/close reach an output file; header written once, first).",
            "OS-level durability/atomicity of write(2) is outside the model (exercised by SIGKILL runs only); the op "
            "sequences of the streaming loops are tied by wrapping FileWriter.write/cwrite from the harness; a "
            "truncated file is read with read_block.", "§5 C20"),
    "C15": ("Lean 4 proof over ℚ of the affine laws of order statistics and of every modelled estimator (sort under "
            "monotone/antitone maps, median, percentile, IQR, MAD incl. fallback, Qn, Sn, gapper, variance), of z-score "
            "equivariance for any law-abiding (loc, scale) pair, of the zero-scale guard and of per-lane axis semantics "
            "+ exact-rational correspondence + relational oracle (affine maps, per-lane vs per-axis) + the estimators, the dispatch tables, the zero-scale guard and apply_along_axes RE-TRANSLATED from core/stats.py / utils.py on every run (NumPy lane translator) and proved equal to the hand model (Tie/StatsLane); doublemad proved affine-equivariant for the translated source itself",
            "Theorems sortQ_aff_pos/neg, median_aff, percentile_aff, iqr/mad/qn/sn/gapper/variance_aff, "
            "zscore_equivariant, zscore_divisor_ne_zero, zscore_const, alongAxis_*. Source tie: scale_iqr/mad/qn/sn/gapper_is_model, zscore_is_model, alongAxes_is_model, scale_dispatch, lane_wrappers, loc_dispatch, doublemad_aff_pos/neg, doublemad_length.",
            "doublemad, diffcov and astropy's biweight are validated by the correspondence/oracle run only; irrational "
            "normalising constants are positive rational parameters; float tolerance 1e-9 (float64) / 2e-4 (float32 "
            "z-scores, conditioning-aware).", "§5 C15"),
    "C14": ("Lean 4 proof over ℚ of the running-filter geometry (symmetric reflection, window placement, output length "
            "for every width), decimators (1-D, 2-D, flat-kernel index arithmetic = 2-D) and the least-squares "
            "normal equations of detrend_1d + exhaustive small-lattice correspondence + definition oracle",
            "Theorems running_len (every width incl. > length), refl_*, windowIdx_*, runningMean_get/_const, "
            "downsample1d_*, flat_eq_2d (row/column roles for non-square shapes), downsample2d_shape, "
            "detrend_normal_eqs, detrend_line. Source tie (re-translated every run): Kernels/Downsample1d/2d, "
            "Tie/FilterGeom, Tie/Detrend (detrend_1d_is_model), Tie/DecimWrap (the Python wrappers downsample_1d/2d/2d_flat: "
            "down*_accepts_iff, down1d_median_is_groups, down2d_is_groups, down2d_mean_is_model, down2dflat_groups_are_model).",
            "bottleneck's move_mean/move_median and np.pad('symmetric') are modelled by their definitions and tied by "
            "correspondence over all lengths 1..16(24) x widths 1..2n+3; float rounding compared with tolerance.",
            "§5 C14"),
    "C16": ("Lean 4 proof of the Boolean mask algebra (union, monotonicity, closed-range user mask), of the equality "
            "of RFIMask.apply_mask/apply_method/apply_funcn TRANSLATED from rfi.py on every run with that algebra "
            "(Tie/StateMachines), and of the cleaned "
            "file as an instance of C07's row-local streaming theorem + differential correspondence of every mask after "
            "every call + independent outlier/masking oracle on real files",
            "Theorems mask_union, mask_monotone(_trace), user_mask_spec, stats_mask_spec, threshold_spec, "
            "cleaned_file_spec / cleaned_sample (masked channels constant, others identical, every gulp). Source tie: "
            "Tie/StateMachines (apply_*_is_model), Tie/CleanRfi (clean_rfi_is_model: the orchestration of Filterbank.clean_rfi, "
            "translated over the translated RFIMask methods, is Rfi.cleanRfi; default fill value; conversions_spec), Tie/StatsLane (doublemad).",
            "Which channels are statistical outliers is C15's z-score thresholding (compared with an independent NumPy "
            "implementation); the HDF5 mask-file round trip is validated only (external container).", "§5 C16"),
    "C12": ("Lean 4 proof of the padding/slicing/lag bookkeeping around the FFT (circular convolution of zero-padded "
            "inputs = full linear convolution for every transform size ≥ n1+n2-1; correlation lags; rfft/irfft lengths) "
            "+ numerical correspondence over EVERY length 1..256 (1..1024 thorough) against float64 direct evaluation",
            "Theorems fftconvolve_eq_lconv, fftconvolve_size_independent, lconv_get/length, correlate_lags (Nat and "
            "integer-lag forms), correlate_eq_lconv, irfft_default_len (default inverse length = N iff N even), "
            "ifftLen_roundtrip, padTo_*. Source tie (Tie/FftLengths): fftconv_out_len_is_model, ifft_len_is_model, "
            "correlate_is_model (TimeSeries.correlate re-translated: one convolution with the reversed operand for every pair).",
            "The transform pair (rocket-fft) enters only through the circular-convolution identity it implements; DFT "
            "equality, Parseval and the round trip are validated numerically within an explicit float32 bound, not "
            "proved.", "§5 C12"),
    "C13": ("Lean 4 proof over ℚ that the roll/reverse/normalise/circular-product pipeline of convolve_templates is the "
            "inner product of the data with the normalised template placed at t, and of the argmax + numerical "
            "correspondence of every response value + normalised-correlation oracle + the zero-scale guard / standardisation arithmetic of estimate_zscore re-translated from core/stats.py (Tie/StatsLane)",
            "Theorems response_is_correlation (no reversal/misalignment left over), prepTemplate_get, argmaxFirst_spec, "
            "peakOf_spec (first row-major maximum), correlation_add_const / correlation_scale / normTemplate_sum_zero "
            "(affine invariance given zero-mean templates), correlation_sq_le (Cauchy–Schwarz bound). Source tie: Tie/TemplatePrep "
            "(prepared_is_model), Tie/MfCompute (compute_is_max: MatchedFilter._compute re-translated), Tie/OnPulse (on_pulse_boxcar: "
            "Template.get_on_pulse re-translated), Tie/StatsLane.",
            "Template normalisation constants (mean, root sum of squares) are parameters computed outside the model; "
            "the FFT pair enters through the circular-convolution identity; z-scores are C15's; float32 FFT error is "
            "bounded numerically, not proved.", "§5 C13"),
    "C17": ("Lean 4 proof by induction over update histories (invariant: every profile is the original rolled by the "
            "shifts on record), stated both for the hand model and for FoldedData.update_dm/update_period/_get_dmdelays/"
            "_get_pdelays TRANSLATED statement by statement from foldedcube.py on every run (Tie/StateMachines: "
            "generated_history_irrelevant, generated_return_restores) + differential correspondence after every call + "
            "fresh-cube oracle + drift-law / drift-consistency oracle",
            "Theorems cube_after_history (the cube depends only on the LAST dm and period targets), history_irrelevant, "
            "idempotent_dm/period, return_restores (bit for bit), multiset_preserved, one_shot, dm_period_commute; "
            "np.roll as rollRow with rollP_rollP composition; update_dm_is_model / update_period_is_model tie the translated "
            "methods to the model; the drift of a target is measured from the FOLDING values. Histories are unbounded.",
            "Array aliasing / in-place mutation of NumPy objects is not visible to the functional translation (exercised "
            "by the correspondence run: the drift of a target must be the same vector whenever it is measured in the "
            "process and agree with the drift law). The float maps target→drift vector are parameters of each operation (taken from the implementation per "
            "target, required only to be what the implementation computes relative to the folding values).", "§5 C17"),
    "C19": ("Lean 4 proof of schedule independence from footprint disjointness (any permutation / chunking / thread "
            "count) + per-kernel store-index obligations REGENERATED from kernels.py on every run + thread-count / "
            "chunk-size / repetition sweep of the compiled kernels",
            "Theorems perm_independent, schedule_eq_seq, chunks_eq_seq, schedules_agree, footprint_disjoint, and per "
            "kernel *_disjoint instantiations of the generated obligations (store index injective in the prange "
            "variable, slices disjoint, no foreign reads of written arrays); chan_to_sub_lt for the caller-side bound.",
            "Partial by nature: numba's lowering, gufunc scheduler and the hardware memory model are not modelled; "
            "schedules are orders of whole iterations (step-level interleavings of loads/stores are not modelled); a "
            "moved prange axis breaks an obligation deterministically even when no run exhibits the race.", "§5 C19"),
    "C09": ("Lean 4 proof of the delay law's algebra over ℚ (round-half-even odd/monotone/nearest) and of the index form of "
            "every block dedispersion path (np.roll as List.rotate), with kernels.roll_block / roll_block_valid / "
            "dmt_block / dmt_block_valid TRANSLATED statement by statement on every run and proved equal to the model "
            "(Kernels/RollBlock, Kernels/DmtBlock: *_spec, *_in_row no-wrap, *_none_iff, *_link) + differential "
            "correspondence (incl. the translated kernels on tiny blocks) incl. exact-rational "
            "delay law vs float32 delays + x[c,t+delay_c] oracle on unique-valued data + the loop of FilReader.read_dedisp_block RE-TRANSLATED statement by statement (reader position in the loop state) and proved equal to the window specification for every band, delay vector and length (Tie/DedispBlock)",
            "Theorems delay_zero_at_ref, delay_antisymm, delay_mono_freq, delay_is_rounded_law; rollRow_get (circular "
            "index form), rollRow_inverse / blockDedisperse_inverse (DM then −DM = id), blockDedisperseValid_get, "
            "dmtTransform_row, readDedispBlock_get/_rejects, valid_eq_roll_prefix, pulse_restored; the streamed path is "
            "C06's dedisperse_eq. Source tie: read_dedisp_block_is_model.",
            "The float32 evaluation of the law is validated (accepted iff equal to the exact rounding or within the "
            "float32 error bound of a .5 boundary), not proved; valid-samples and streamed paths index from the "
            "earliest needed sample (offset max(0,−min delay)).", "§5 C09"),
    "C11": ("Lean 4 proof that the fold accumulations over the C01 block plan are exactly one per (sample, channel) for "
            "every gulp, and of the specification of kernels.fold TRANSLATED loop by loop from kernels.py on every run, "
            "phase formula included (exact rationals): Kernels/Fold fold_spec, srcCell_lt, srcPhaseBin_documented, "
            "fold_counts_total + differential correspondence of cube/counts and of the translated kernel on tiny blocks "
            "+ independent per-sample assignment oracle",
            "Theorems foldWrites_eq, fold_gulp_independent, fold_partition (counts sum to samples×channels; each cell is "
            "the sum of exactly the samples the tables assign to it), cell_lt, applyAdd_cell, periodic_single_bin over ℚ.",
            "In the streaming model the phase-bin / sub-integration / sub-band assignments are tables (fold_cell_link "
            "shows the tables of the translated source's own functions give the source's cell); IEEE rounding of the "
            "phase formula at a bin boundary is validated, not proved; whole-file folds.",
            "§5 C11"),
    "C07": ("Lean 4 proof that each streaming transform (per-block kernel over the C01 block plan, appended by cwrite) "
            "equals the whole-array transform for every gulp + differential correspondence on the raw output bytes + "
            "NumPy whole-array oracle",
            "Theorems rowLocal_stream (+ invert/mask/extract instances and row-kernel specs), downsample_stream (gulp "
            "rounded to a multiple of tfactor ⇒ grouping commutes with block boundaries, remainder dropped), "
            "subband_stream, bandStarts_spec, shape theorems, zerodmRow_sum over ℚ, gulp-independence corollaries. Source tie: "
            "generated kernels (Kernels/*), Tie/Plan, Tie/Subband, Tie/StreamCalls (which kernel gets which array / offset / "
            "overlap, what is written), Tie/CleanRfi.conversions_spec (fill value only rounded to float32 and cast).",
            "Values are integers; reduction to the output depth is C04's cwrite; the float64 zero-DM arithmetic and its "
            "cast are compared with the exact ℚ model to one quantum; kernels' index expressions are hand-modelled and "
            "tied by correspondence on the output file bytes.", "§5 C07"),
    "C08": ("Lean 4 proof over ℚ about header-update functions REGENERATED from the Python source on every run "
            "(translator: every new_header/prep_outfile update dict of base.py, readers.py, block.py, timeseries.py) + "
            "differential correspondence of real product headers against the generated functions + provenance oracle",
            "Theorems tstart_<site> for all 15 streaming sites, shape/depth/dm fields, invert/extract label identities, "
            "downsample/subband labels inside the span of their inputs with scaled spacing, frequency→channel index via "
            "round-half-even (robust to |ε|<1/2, unlike truncation), no silently dropped update keys.",
            "Floats enter as exact rationals; astropy Time arithmetic in mjd_after_nsamps is modelled as tstart + "
            "n*tsamp/86400 and validated to 5 µs; translator is in the trusted base and cross-checked by the "
            "correspondence run.", "§5 C08"),
    "C04": ("Lean 4 proof of sample encode/decode at every depth, cwrite width, chunked writes and the header+data "
            "write→read composition (on top of the C03 and C05 theorems) + byte-exact differential correspondence + "
            "read-back oracle over all (dtype, depth, format) + the header codec re-translated from io/sigproc.py and proved equal to the hand model (Tie/SigprocCodec: nsamples inferred by the translated parse_header is Samples.inferNsamples)",
            "Theorems decode_encode, cwrite_width (never a different width than declared), cwrite_refuses_iff, "
            "cwrite_dtype_irrelevant, cwriteAll_flatten, infer_nsamples, decode_prefix, readback_fil (a SIGPROC file = "
            "encoded header ++ encoded samples reads back as (nbits, nchans, n, values)).",
            "A float32 is an opaque 32-bit pattern; dtype conversion of in-range integer values is the identity by "
            "assumption (NumPy astype); .tim/.dat/.spec/.fft/.inf paths are validated by the correspondence run and "
            "the oracle only (PRESTO .inf is decimal text).", "§5 C04"),
    "C06": ("Lean 4 proof that each streaming reduction (as writes over the C01 block plan) equals its whole-array "
            "definition for every gulp + differential correspondence on real files + NumPy oracle",
            "Theorems collapse_eq, readChan_eq, bandpass_eq, dedisperse_eq (incl. gulp<2*maxdelay, gulp>range, every "
            "output cell written exactly once) and their gulp-independence corollaries; per-channel statistics by "
            "C10's chunk_independent over the same block stream.",
            "Integer-valued data (float32 sums exact); the delay vector is a parameter (its law is C09); output "
            "allocation/headers are covered by the correspondence run and C08.", "§5 C06"),
    "C05": ("Lean 4 proof of the header byte codec (parse∘encode = id, encode∘parse = bytes, edit touches only its key) "
            "over tables regenerated from source + byte-exact differential correspondence + independent parser oracle + the codec itself (_read_string, encode_key, encode_header, parse_header, edit_header, parse_radec, frame flags, id defaults) RE-TRANSLATED from io/sigproc.py / header.py on every run and proved equal to the hand model (Tie/SigprocCodec), and executed by the driver on every correspondence request",
            "Theorems parse_encode / encode_parse for any list of well-typed entries and any trailing data; edit_exact / "
            "edit_ok_shape / edit_invalid_key for in-place edits; frame_roundtrip; telescope/machine id round trips by "
            "decide +kernel over the generated tables; radec_roundtrip over ℚ including -1°<dec<0. Source tie: encode_key/encode_header/read_string/parse_header/edit_header_is_model, parse_header_bad_magic/_too_short, parse_radec_dec/ra_is_model, flagsOfFrame/frameOfFlags_is_model, frame_roundtrip_source, id_defaults_are_model.",
            "Doubles are opaque 8-byte patterns; astropy's sexagesimal formatting/parsing and the float64 DDMMSS.S "
            "representation are validated to 0.01 arcsec by the correspondence run, not proved; strings are ASCII.",
            "§5 C05"),
    "C02": ("Lean 4 refinement proof (concrete multi-file reader state → flat byte-array spec), induction over operation "
            "histories; the concrete reader (_open, _seek2hdr, _seek_set, seek, cur_data_pos_stream, eos, the creadinto "
            "and cread loops) is TRANSLATED statement by statement from fileio.py on every run and proved equal to the "
            "model (Tie/SeekArith, Tie/ReadLoops) + differential correspondence on real file sets + byte-array oracle",
            "Theorems step_refines / history_refines: for every file list (incl. empty data sections), every state "
            "satisfying the invariant and every history of seek/cread/creadinto, outputs and reported stream positions "
            "equal those of the byte-array model over the concatenated data sections (headers never leak; short read at "
            "EOS; counted read past the end raises); readBlock_in_range / _out_of_range for read_block. Histories are "
            "unbounded, which tests enumerate one at a time.",
            "Hand-written model (Model/Stream.lean) tied to fileio.py by correspondence (random long histories; thorough: "
            "all histories of length ≤3 on tiny files; all depths). cread is modelled in bytes under the precondition "
            "that data sections and positions are whole items; np.fromfile/readinto semantics are assumed.", "§5 C02"),
    "C10": ("Lean 4 proof over ℚ (Mathlib ring/field_simp) of the one-pass recurrence and the Pébay merge + differential "
            "correspondence (float32 vs exact model, tolerance) + two-pass float64 oracle",
            "Theorems push_exact (recurrence = two-pass central sums), chunk_independent / partition_irrelevant (every "
            "partition into chunks), split_merge / merge_chunked (every split point), basic_agrees, constant_channel "
            "(zero variance/skew, guards), minmax_partition, count_exact — exact over ℚ for streams of any length.",
            "Float32 rounding (and fastmath) is not modelled: the implementation is compared with the exact model within "
            "an explicit tolerance; skew is modelled through its square and sign.", "§5 C10"),
    "C01": ("Lean 4 proof by induction over the block list of a model of read_plan whose arithmetic is re-translated "
            "from readers.py on every run (Tie/Plan), on top of the translated reader position arithmetic and read loops "
            "(Tie/SeekArith, Tie/ReadLoops) and the translated block loop of read_plan itself (Tie/ReadPlanLoop: "
            "plan_loop_is_model composes plan arithmetic, loop and file reader down to the bytes read) + differential "
            "correspondence on real multi-file SIGPROC sets + independent concatenation oracle",
            "Theorem plan_covers: for all gulp/start/nsamps/skipback/N the model of the generator either yields nothing "
            "and raises ValueError, or its blocks laid end to end are exactly samples [start,start+nsamps) once each, "
            "in order, each block ≤ gulp and inside the range; rejection is forced for skipback ≥ gulp and excluded for "
            "skipback ≤ gulp/2. Unbounded in every parameter, which sampling cannot reach.",
            "Hand-written model (Model/Plan.lean) tied to readers.py by the correspondence run over depths 1-32, 1-3 "
            "files and all plan regimes; the flat-stream abstraction is justified by C02. Buffer-view semantics of the "
            "yielded array and files whose data section is not a whole number of samples are outside the model.",
            "§5 C01"),
    "C03": ("Lean 4 proof over kernels regenerated from source (decide +kernel on the full per-byte domain, induction "
            "over array length), argument validation of bits.unpack/pack re-translated and proved equal to the model's "
            "decision logic (Tie/BitsValidation) + exhaustive per-byte correspondence and every near-size buffer",
            "Theorems pack∘unpack=id, unpack∘pack=id, unpack=bit-field definition for arrays of every length, about "
            "per-byte kernels re-translated from kernels.py on every run; validation logic as decision-logic theorems. "
            "The per-byte domain is enumerated completely by the kernel, so a proof is the right level.",
            "numba integer promotion modelled as %256 at the store; dispatch-by-name and validation are hand-modelled "
            "and tied by exhaustive correspondence.", "§5 C03"),
}
NA_REASON = "check not built yet (work in progress); see DESIGN.md §5"

checks = []
for i in ids:
    if i in CHECKS:
        tech, text, note, ref = CHECKS[i]
        checks.append({
            "property_id": i,
            "quick_cmd": f"./check {i} --tier quick",
            "thorough_cmd": f"./check {i} --tier thorough",
            "evidence_file": f"evidence/{i}.json",
            "replay_cmd_template": f"./check {i} --replay {{path}}",
            "engine": "lean4-model+correspondence",
            "level_claimed": {"category": "proof", "text": text, "design_ref": ref},
            "level_note": note + " " + COMMON_NOTE,
            "technique": tech,
        })
m = {
    "version": 1,
    "setup_cmd": "./setup.sh",
    "hooks": {"guard": "SIGPYPROC3_VERIF", "enable": "no source hooks are needed: the harness imports /repo's working tree "
              "via PYTHONPATH and wraps FileWriter from outside at run time",
              "baseline_off_cmd": "cd /repo && /venv/bin/python -m pytest -ra -q -p no:cacheprovider --timeout=900 "
              "--continue-on-collection-errors", "source_commits": [], "add_only": True},
    "engines": [{"name": "lean4-model+correspondence", "path": "lean/ + translator/ + harness/",
                 "serves_properties": sorted(CHECKS),
                 "kind_free_text": "Lean 4 model (hand-written + regenerated from source) with kernel-checked theorems; "
                 "Python differential harness drives the real code and the model through a line protocol; independent "
                 "property oracles search for failing inputs when a proof or the correspondence breaks"}],
    "checks": checks,
    "notes": "./check <id> --tier quick|thorough [--replay f]; VERIF_SEED seeds all random choices. See DESIGN.md.",
    "not_applicable": [{"property_id": i, "reason": NA_REASON} for i in ids if i not in CHECKS],
}
json.dump(m, open(V / "MANIFEST.json", "w"), indent=1, ensure_ascii=False)
print("checks:", sorted(CHECKS), "n/a:", len(m["not_applicable"]))

#!/bin/sh
# tools/seedtest.sh <seeded-dir> [prop ...]
# Apply /verif/seeded/<dir>/patch.diff to /repo, run the quick check of the property it breaks
# (or the listed ones), undo the patch.  Prints one line per check.
cd "$(dirname "$0")/.."
D="$1"; shift
PATCH="$(pwd)/seeded/$D/patch.diff"
[ -f "$PATCH" ] || { echo "no $PATCH"; exit 2; }
PROPS="$*"
[ -n "$PROPS" ] || PROPS=$(python3 -c "import json;print(json.load(open('seeded/$D/meta.json'))['property'])")
git -C "${VERIF_REPO:-/repo}" diff --quiet || { echo "/repo has uncommitted changes"; exit 2; }
git -C "${VERIF_REPO:-/repo}" apply "$PATCH" || exit 2
trap 'git -C "${VERIF_REPO:-/repo}" checkout -- . ; git -C "${VERIF_REPO:-/repo}" clean -fdq -- sigpyproc; python3 translator/gen.py >/dev/null 2>&1' EXIT
for p in $PROPS; do
  s=$(date +%s)
  out=$(./check $p --tier quick 2>&1); rc=$?
  e=$(date +%s)
  echo "$D $p rc=$rc $((e-s))s $(echo "$out" | grep -E 'VIOLATION' | head -1)"
  echo "$out" | grep -E '^  (oracle|broken)' | head -3
done

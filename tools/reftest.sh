#!/bin/sh
# tools/reftest.sh <refactor-dir> [prop ...]
# Apply /verif/refactors/<dir>/patch.diff (a BEHAVIOUR-PRESERVING refactor of /repo written by an independent
# sub-agent) to /repo, run the quick checks (all, or the listed ones), undo the patch.  Any VIOLATION printed
# here is an alarm on code where the properties still hold.
cd "$(dirname "$0")/.."
D="$1"; shift
PATCH="$(pwd)/refactors/$D/patch.diff"
[ -f "$PATCH" ] || { echo "no $PATCH"; exit 2; }
PROPS="$*"
[ -n "$PROPS" ] || PROPS=$(python3 -c "import json;print(' '.join(c['property_id'] for c in json.load(open('MANIFEST.json'))['checks']))")
git -C "${VERIF_REPO:-/repo}" diff --quiet || { echo "/repo has uncommitted changes"; exit 2; }
git -C "${VERIF_REPO:-/repo}" apply "$PATCH" || exit 2
trap 'git -C "${VERIF_REPO:-/repo}" checkout -- . ; git -C "${VERIF_REPO:-/repo}" clean -fdq -- sigpyproc; python3 translator/gen.py >/dev/null 2>&1' EXIT
for p in $PROPS; do
  s=$(date +%s)
  out=$(./check $p --tier quick 2>&1); rc=$?
  e=$(date +%s)
  echo "$D $p rc=$rc $((e-s))s $(echo "$out" | grep -E 'VIOLATION' | head -1)"
  echo "$out" | grep -E '^  (oracle|broken)' | head -4
done

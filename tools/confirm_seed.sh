#!/bin/sh
# tools/confirm_seed.sh <worktree> <property> <name>
# Independently confirm a seeded change living (uncommitted) in a scratch worktree:
#   demo fails with the change, passes without it, pinned test suite still passes with it.
# On success store it as /verif/seeded/<name>/{patch.diff,demo.py,meta.json}.
WT="$1"; PID="$2"; NAME="$3"
V="$(cd "$(dirname "$0")/.." && pwd)"
cd "$WT" || exit 2
DEMO=$(ls demo_*.py 2>/dev/null | head -1)
[ -n "$DEMO" ] || { echo "no demo"; exit 2; }
git diff -- sigpyproc > /tmp/seed_$NAME.diff
[ -s /tmp/seed_$NAME.diff ] || { echo "empty diff"; exit 2; }
mkdir -p sigpyproc.egg-info; [ -f sigpyproc.egg-info/PKG-INFO ] || printf 'Metadata-Version: 2.1\nName: sigpyproc\nVersion: 2.0.0\n' > sigpyproc.egg-info/PKG-INFO
export NUMBA_DISABLE_PERFORMANCE_WARNINGS=1 PYTHONWARNINGS=ignore
/venv/bin/python $DEMO > /tmp/seed_$NAME.with 2>&1; RC_WITH=$?
# (no `git stash`: the stash is shared by all worktrees of a repository)
git apply -R /tmp/seed_$NAME.diff || { echo "cannot revert"; exit 2; }
/venv/bin/python $DEMO > /tmp/seed_$NAME.without 2>&1; RC_WITHOUT=$?
git apply /tmp/seed_$NAME.diff || { echo "cannot re-apply"; exit 2; }
SUITE=$(/venv/bin/python -m pytest -q -p no:cacheprovider --timeout=900 tests 2>&1 | tail -1)
echo "demo with change: rc=$RC_WITH ($(tail -1 /tmp/seed_$NAME.with | cut -c1-160))"
echo "demo without    : rc=$RC_WITHOUT ($(tail -1 /tmp/seed_$NAME.without | cut -c1-80))"
echo "suite with change: $SUITE"
case "$SUITE" in *"2 failed, 495 passed"*|*"495 passed"*) OKS=1;; *) OKS=0;; esac
if [ $RC_WITH -ne 0 ] && [ $RC_WITHOUT -eq 0 ] && [ $OKS -eq 1 ]; then
  mkdir -p "$V/seeded/$NAME"
  cp /tmp/seed_$NAME.diff "$V/seeded/$NAME/patch.diff"
  cp $DEMO "$V/seeded/$NAME/demo.py"
  python3 - "$V/seeded/$NAME/meta.json" "$PID" "$RC_WITH" "$RC_WITHOUT" "$SUITE" <<'PY'
import json,sys
json.dump({"property": sys.argv[2], "needs": "", "confirmed": {"demo_rc_with_change": int(sys.argv[3]),
  "demo_rc_without": int(sys.argv[4]), "pytest_summary_with_change": sys.argv[5],
  "commands": ["/venv/bin/python demo.py (cwd = worktree with the patch)", "git apply -R patch; demo; git apply patch",
               "/venv/bin/python -m pytest -q -p no:cacheprovider --timeout=900 tests"]},
  "source": "independent sub-agent given only the property text and a scratch worktree"}, open(sys.argv[1],"w"), indent=1)
PY
  echo "CONFIRMED -> seeded/$NAME"
else
  echo "NOT CONFIRMED"
fi

#!/usr/bin/env python3
"""tools/mkseedwt.py <round> [prop ...] - scratch worktrees of /repo under /tmp/seedwt with the TASK.md handed to a
fresh sub-agent (property text only, earlier mechanisms excluded).  Nothing from /verif goes into the worktree."""
import json, subprocess, os, glob, re
os.chdir('/verif')
props = {json.loads(l)['id']: json.loads(l) for l in open('properties.jsonl')}
prev = {}
for d in sorted(glob.glob('seeded/C*/meta.json')):
    m = json.load(open(d)); prev.setdefault(m['property'], []).append(m['needs'])
import sys
R=sys.argv[1]
ONLY=sys.argv[2:]
for pid, p in props.items():
    if ONLY and pid not in ONLY: continue
    wt = f"/tmp/seedwt/{pid}-{R}"
    if not os.path.exists(wt):
        subprocess.run(["git","-C","/repo","worktree","add","--detach",wt,"HEAD"],check=True,capture_output=True)
    os.makedirs(f"{wt}/sigpyproc.egg-info", exist_ok=True)
    open(f"{wt}/sigpyproc.egg-info/PKG-INFO","w").write("Metadata-Version: 2.1\nName: sigpyproc\nVersion: 2.0.0\n")
    anchors = json.dumps(p['anchors'], indent=1)
    avoid = "\n".join(f"  - {x}" for x in prev.get(pid, []) if x)
    task = f"""# Task: seed a subtle defect that breaks one semantic property

You are working in a scratch git worktree of the Python/numba library FRBs/sigpyproc3 at
`{wt}` (this directory). Work ONLY inside this directory. Do not read or write `/repo`, `/verif`
or any other worktree under /tmp. NEVER use `git stash` (the stash is shared between worktrees and other people
are working in them); never commit.

## The property (id {pid})

**{p['title']}**

Statement: {p['statement']}

Quantifier (what it must hold for): {p['quantifier']}

Why the existing tests cannot settle it: {p['why_tests_cant']}

Code anchors: {anchors}

## What to produce

A *realistic* change to the library source (files under `sigpyproc/` only; do not edit tests) of the kind a
maintainer could plausibly make (a refactor, an optimisation, a "simplification", a fast path, caching, an
off-by-one in an edge case, a changed default, reordering of two operations, a dtype / rounding / sign convention
change, an error-handling change, a change in argument / option handling or in a conversion between representations, …) such that:

1. the library still imports/compiles and the existing test suite still passes exactly as before
   (run it: `cd {wt} && /venv/bin/python -m pytest -q -p no:cacheprovider --timeout=900 tests 2>&1 | tail -3` —
   the unchanged tree gives "2 failed, 495 passed" (two permission tests fail in this sandbox because it runs as root);
   with your change the result must be the same 2 failures and 495 passes);
2. the property above is broken by it — but NOT in a way ordinary use would expose at once. The breakage must need
   something specific to manifest: a particular multi-step sequence of operations, an unusual but legal input
   (size, alignment, parameter combination, value range, dtype), a particular interleaving / thread count, a crash or
   fault at a particular point, or two cooperating code sites that each look fine alone. Prefer a change that looks
   innocent in review.
3. Do NOT reuse these ideas, which have been tried already for this property:
{avoid}
   Find a DIFFERENT mechanism, in a different function / code path / parameter regime covered by the property
   (the property usually spans several APIs and several clauses: look at all the anchors and at every sentence of
   the statement, and pick a clause or an API the ideas above did not touch; the glue code - argument defaults, option
   handling, conversions, allocation sizes - is fair game).

Also write a demonstration `demo_{pid}.py` in the worktree root: a small self-contained program (it may create
small temporary files in a `tempfile.TemporaryDirectory()`; it must not depend on network or on large data; it should
run in well under a minute) that exercises the real library API, checks the property on the triggering input,
and **exits with a non-zero status (and prints what went wrong) when the property is violated, and exits 0 when it holds**.
It must fail with your change and pass on the unchanged tree. Verify both yourself WITHOUT git stash: save your change with
`git diff -- sigpyproc > /tmp/{pid}-{R}.patch`, revert it with `git apply -R /tmp/{pid}-{R}.patch`, run the demo, and re-apply it
with `git apply /tmp/{pid}-{R}.patch`. Run the demo with `cd {wt} && /venv/bin/python demo_{pid}.py` (the library is imported
from the current directory; `/venv/bin/python` has numpy, numba, astropy, h5py, scipy, hypothesis). Test data shipped with
the repo is under `tests/data`.

Notes on the environment: no network. Editing `sigpyproc/core/kernels.py` makes numba recompile the kernels on next
import (about a minute, once). `sigpyproc.egg-info/PKG-INFO` already exists (untracked, harmless). The machine is shared and
busy: the test suite can take 3-6 minutes; run it at most twice.

Leave your source change UNCOMMITTED in the worktree. Finally write `NOTES.md` in the worktree root with: (a) one paragraph
describing the change and why it looks plausible, (b) exactly what is needed for the breakage to manifest, (c) the commands
you ran and their results (suite summary line with the change; demo exit status with and without the change).

Your final answer should be a 5-10 line summary of (a)-(c).
"""
    open(f"{wt}/TASK.md","w").write(task)
print(len(os.listdir('/tmp/seedwt')))

#!/bin/sh
# tools/refall.sh  (REFS="R3 R16" to restrict) — run every quick check against every behaviour-preserving refactor in refactors/ (R1…);
# prints one line per (refactor, property) that is not silent.
cd "$(dirname "$0")/.."
for r in ${REFS:-$(ls refactors | sort -V)}; do
  [ -f refactors/$r/patch.diff ] || continue
  git -C "${VERIF_REPO:-/repo}" apply --check "$(pwd)/refactors/$r/patch.diff" 2>/dev/null || { echo "$r: patch does not apply"; continue; }
  tools/reftest.sh $r | grep -E "rc=[12]|broken" | head -60
  echo "$r done"
done

"""Write tiny SIGPROC files directly with struct (independent of sigpyproc's encoder)."""
from __future__ import annotations

import struct
from pathlib import Path

import numpy as np

DEFAULT_ORDER = {1: "little", 2: "big", 4: "big"}


def enc_str(s: str) -> bytes:
    return struct.pack("<I", len(s)) + s.encode()


def encode_header(kvs: list[tuple[str, str, object]]) -> bytes:
    """kvs: (key, fmt in {'I','d','b','str'}, value)"""
    out = enc_str("HEADER_START")
    for k, fmt, v in kvs:
        out += enc_str(k)
        if fmt == "str":
            out += enc_str(v)
        elif fmt == "I":
            out += struct.pack("<I", v)
        elif fmt == "d":
            out += struct.pack("<d", v)
        elif fmt == "b":
            out += struct.pack("<b", v)
        else:
            raise ValueError(fmt)
    return out + enc_str("HEADER_END")


def std_header(nchans, nbits, fch1=1500.0, foff=-1.0, tsamp=0.001, tstart=58000.0, source="X",
               extra=None, order=None):
    kv = {"telescope_id": ("I", 4), "machine_id": ("I", 10), "data_type": ("I", 1), "source_name": ("str", source),
          "barycentric": ("I", 0), "pulsarcentric": ("I", 0), "az_start": ("d", 0.0), "za_start": ("d", 0.0),
          "src_raj": ("d", 0.0), "src_dej": ("d", 0.0), "tstart": ("d", tstart), "tsamp": ("d", tsamp),
          "nbits": ("I", nbits), "fch1": ("d", fch1), "foff": ("d", foff), "nchans": ("I", nchans),
          "nifs": ("I", 1), "ibeam": ("I", 0), "nbeams": ("I", 1)}
    if extra:
        kv.update(extra)
    keys = order or list(kv)
    return [(k, kv[k][0], kv[k][1]) for k in keys]


def pack_bits(vals: np.ndarray, nbits: int) -> bytes:
    """Pack with plain integer arithmetic (not with sigpyproc's kernels)."""
    k = 8 // nbits
    v = np.asarray(vals, dtype=np.int64).reshape(-1, k)
    order = DEFAULT_ORDER[nbits]
    out = np.zeros(v.shape[0], dtype=np.int64)
    for j in range(k):
        sh = nbits * (k - 1 - j) if order == "big" else nbits * j
        out |= (v[:, j] & ((1 << nbits) - 1)) << sh
    return out.astype(np.uint8).tobytes()


def encode_samples(data: np.ndarray, nbits: int) -> bytes:
    flat = np.asarray(data).ravel()
    if nbits in (1, 2, 4):
        return pack_bits(flat, nbits)
    if nbits == 8:
        return flat.astype(np.uint8).tobytes()
    if nbits == 16:
        return flat.astype("<u2").tobytes()
    if nbits == 32:
        return flat.astype("<f4").tobytes()
    raise ValueError(nbits)


def write_fil(path, data, nbits, **hdr) -> Path:
    """data: (nsamps, nchans)"""
    data = np.asarray(data)
    nchans = data.shape[1]
    h = encode_header(std_header(nchans, nbits, **hdr))
    Path(path).write_bytes(h + encode_samples(data, nbits))
    return Path(path)


def write_fil_set(dirpath, data, nbits, splits, tsamp=0.001, tstart=58000.0, name="f", **hdr) -> list[str]:
    """Split (nsamps, nchans) data over len(splits) contiguous files of the given sample counts."""
    assert sum(splits) == data.shape[0]
    files, pos = [], 0
    for i, n in enumerate(splits):
        p = Path(dirpath) / f"{name}{i}.fil"
        # members of one observation legitimately differ in `rawdatafile` (match_header exempts it), hence in
        # header length: every member gets its own, so that no code path may assume equal header lengths
        extra = dict(hdr.pop("extra", None) or {})
        extra.setdefault("rawdatafile", ("str", "raw_" + "x" * ((i * 7) % 11) + f"{i}.dada"))
        write_fil(p, data[pos:pos + n], nbits, tsamp=tsamp, tstart=tstart + pos * tsamp / 86400.0, extra=extra, **hdr)
        files.append(str(p))
        pos += n
    return files


def rand_data(rng, nsamps, nchans, nbits, unique=False):
    """Integer-valued sample matrix valid at the depth (float32-exact for 32-bit)."""
    if nbits == 32:
        hi = 1 << 12
    else:
        hi = 1 << nbits
    a = np.array([[rng.randrange(hi) for _ in range(nchans)] for _ in range(nsamps)], dtype=np.int64)
    return a.reshape(nsamps, nchans)


def splits_of(rng, n, k):
    """A composition of n into k non-negative parts (each part >= 1 if possible)."""
    if k == 1:
        return [n]
    if n >= k:
        cuts = sorted(rng.sample(range(1, n), k - 1))
        cuts = [0] + cuts + [n]
        return [cuts[i + 1] - cuts[i] for i in range(k)]
    return [1] * n + [0] * (k - n)

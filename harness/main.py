#!/usr/bin/env python3
"""./check <Cxx> [--tier quick|thorough] [--replay file]

Verdict logic (DESIGN.md §2.5):
  proofs discharged ∧ audit clean ∧ correspondence agrees ∧ oracle passes  -> exit 0
  oracle failure on the real code, not a listed finding                     -> VIOLATION (replay = the input)
  broken proof / correspondence, search finds no failing input             -> VIOLATION … no-failing-input-found
  infrastructure problems                                                   -> exit 2
"""
from __future__ import annotations

import argparse
import importlib
import json
import os
import sys
import time
import traceback
from collections import Counter
from pathlib import Path

sys.path.insert(0, str(Path(__file__).resolve().parent))
import common  # noqa: E402
from common import InfraError, VERIF  # noqa: E402

TRUSTED_BASE = [
    "Lean 4.33.0 kernel (leanchecker re-check in thorough tier)",
    "axioms ⊆ {propext, Classical.choice, Quot.sound}; no sorry/native_decide/bv_decide/user axioms (audited each run)",
    "translator/gen.py (Python ast → Lean) for SppModel/Generated/*",
    "correspondence harness: generators, canonicalisation and independent property oracles (differential testing, not proof)",
    "CPython/NumPy/numba/rocket-fft/astropy/h5py/bottleneck and the OS file API: modelled, not verified",
]


def load_known():
    p = VERIF / "known_findings.json"
    if not p.exists():
        return {"findings": [], "fixed": []}
    return json.loads(p.read_text())


def write_replay(pid: str, payload: dict) -> Path:
    d = VERIF / "evidence" / "replay"
    d.mkdir(parents=True, exist_ok=True)
    p = d / f"{pid}-{common.case_hash(payload)}.json"
    p.write_text(json.dumps(payload, indent=1, default=str))
    return p


def evaluate(prop, cases, deadline, stats, want_model=True):
    """Run impl + oracle on each case, then the model on all of them in one batch."""
    results = []
    for case in cases:
        if time.time() > deadline:
            stats["truncated_by_time"] = True
            break
        try:
            obs = prop.observe(case)
        except InfraError:
            raise
        except Exception as e:  # noqa: BLE001
            # observe() must canonicalise implementation exceptions itself;
            # anything escaping is a harness bug
            raise InfraError(f"observe crashed on {case}: {type(e).__name__}: {e}\n{traceback.format_exc()}") from e
        orc = prop.oracle(case, obs)
        results.append({"case": case, "obs": obs, "oracle": orc, "model": None, "seq": len(results)})
    if want_model and results:
        reqs, spans = [], []
        for r in results:
            ls = prop.model_requests(r["case"], r["obs"])
            spans.append((len(reqs), len(ls)))
            reqs.extend(ls)
        answers = common.run_model(reqs)
        for r, (a, n) in zip(results, spans):
            r["model"] = prop.model_compare(r["case"], r["obs"], answers[a:a + n])
    return results


def main() -> int:
    ap = argparse.ArgumentParser()
    ap.add_argument("pid")
    ap.add_argument("--tier", default=os.environ.get("VERIF_TIER", "quick"), choices=["quick", "thorough"])
    ap.add_argument("--replay")
    ap.add_argument("--no-proof", action="store_true", help="(development) skip the Lean pipeline")
    args = ap.parse_args()
    pid = args.pid
    seed = int(os.environ.get("VERIF_SEED", "0") or 0)
    t0 = time.time()
    try:
        # the library must import from the tree under test before anything is concluded from its behaviour:
        # an import failure is an infrastructure problem (exit 2), never a property violation
        try:
            for m in ("sigpyproc.readers", "sigpyproc.core.kernels", "sigpyproc.core.stats", "sigpyproc.core.rfi",
                      "sigpyproc.foldedcube", "sigpyproc.timeseries", "sigpyproc.fourierseries", "sigpyproc.block"):
                importlib.import_module(m)
        except Exception as e:  # noqa: BLE001
            raise InfraError(f"the library does not import from {common.REPO}: {type(e).__name__}: {e}") from e
        common.quiet_progress()
        mod = importlib.import_module(f"props.{pid.lower()}")
        prop = mod.PROP
        if args.replay:
            return replay(prop, Path(args.replay))
        return check(prop, pid, args.tier, seed, t0, args.no_proof)
    except InfraError as e:
        print(f"INFRA-ERROR property={pid}: {e}", file=sys.stderr)
        return 2
    finally:
        common.cleanup()


def replay(prop, path: Path) -> int:
    payload = json.loads(path.read_text())
    if "case" not in payload:
        print(f"replay file names a broken obligation, not an input: {payload.get('broken')}")
        return 1
    case = payload["case"]
    obs = prop.observe(case)
    orc = prop.oracle(case, obs)
    print("case:", json.dumps(case)[:2000])
    print("observation:", json.dumps(obs, default=str)[:2000])
    if not orc and payload.get("history"):
        # the failure may depend on what ran before it in the same process (caches, reused buffers):
        # replay the cases that preceded it in the original run, then the case again
        print(f"passes in isolation; replaying the {len(payload['history'])} preceding cases of the original run first")
        for h in payload["history"]:
            prop.observe(h)
        obs = prop.observe(case)
        orc = prop.oracle(case, obs)
    if orc:
        print(f"REPLAY-FAILS property={prop.id}: {orc}")
        return 1
    print(f"REPLAY-PASSES property={prop.id}")
    return 0


def check(prop, pid, tier, seed, t0, no_proof) -> int:
    known = load_known()
    known_ids = {f["id"]: f for f in known["findings"] if f["property"] == pid}
    thorough = tier == "thorough"
    budget = prop.budget_s[1 if thorough else 0]

    # ---- 1. proofs ----------------------------------------------------------
    if no_proof:
        proof = {"ok": True, "obligations": 0, "discharged": 0, "failures": [], "skipped": True}
    else:
        proof = common.lean_pipeline(pid, thorough=thorough)

    # ---- 2. correspondence + oracle ----------------------------------------
    stats: dict = {}
    rng = common.prng(pid, seed)
    cases = list(prop.corpus()) + list(prop.gen(rng, tier))
    # the model can only be run when the library built
    model_ok = proof["ok"] or (proof.get("build_rc") == 0) or no_proof
    if not model_ok:
        # is the executable model still buildable on its own?
        r = common.run(["lake", "build", "SppModel"], cwd=common.LEAN, timeout=3000)
        model_ok = r.returncode == 0
    try:
        results = evaluate(prop, cases, time.time() + budget, stats, want_model=model_ok)
    except InfraError as e:
        # the driver names every generated definition: when a translation failed so badly that the driver no
        # longer elaborates, the executable model is unavailable - that is a broken correspondence (the proofs are
        # already broken), not an infrastructure problem
        if proof["ok"] or "driver failed" not in str(e):
            raise
        model_ok = False
        stats["driver_error"] = str(e)[-300:]
        results = evaluate(prop, cases, time.time() + budget, stats, want_model=False)

    mismatches = [r for r in results if r["model"]]
    failures = [r for r in results if r["oracle"]]

    # ---- 3. failing-input search when something is broken -------------------
    broken = []
    if not proof["ok"]:
        broken += [f"proof: {f}" for f in proof["failures"]]
    if mismatches:
        broken.append(f"correspondence: {len(mismatches)} of {len(results)} cases disagree "
                      f"(first: {mismatches[0]['model'][:200]})")
    if not model_ok:
        broken.append("correspondence: executable model does not build / run")
    searched = 0
    if broken and not [f for f in failures if classify(prop, f, known_ids) is None]:
        srng = common.prng(pid, seed, "search")
        extra = evaluate(prop, prop.search(srng, tier), time.time() + prop.search_budget_s[1 if thorough else 0],
                         stats, want_model=False)
        for r in extra:
            r["seq"] += 10 ** 6          # the search ran after the main sweep
        searched = len(extra)
        failures += [r for r in extra if r["oracle"]]
        results += extra

    # ---- 4. verdict ---------------------------------------------------------
    new_fail, known_hit = [], {}
    for f in failures:
        k = classify(prop, f, known_ids)
        if k is None:
            new_fail.append(f)
        else:
            known_hit.setdefault(k, f)
    for k, f in known_hit.items():
        print(f"KNOWN-FINDING: property={pid} {k}: {known_ids[k]['what']}")

    rc = 0
    violations = 0
    if new_fail:
        f0 = new_fail[0]
        f = prop.shrink(f0)
        # cases that ran before it in this process (a failure may depend on state they left behind)
        lo = f0.get("seq", 0) // 10 ** 6 * 10 ** 6
        hist = [r["case"] for r in results if lo <= r.get("seq", -1) < f0.get("seq", 0)][-40:]
        path = write_replay(pid, {"property": pid, "kind": "failing-input", "case": f["case"], "obs": f["obs"],
                                  "oracle": f["oracle"], "broken": broken, "seed": seed, "history": hist,
                                  "replay_cmd": f"./check {pid} --replay <this file>"})
        print(f"VIOLATION property={pid} replay={path}")
        print(f"  oracle: {f['oracle'][:500]}")
        violations = len(new_fail)
        rc = 1
    elif broken:
        payload = {"property": pid, "kind": "broken-obligation", "broken": broken, "seed": seed,
                   "searched_cases": len(results)}
        if mismatches:
            payload["first_disagreement"] = {"case": mismatches[0]["case"], "obs": mismatches[0]["obs"],
                                             "diff": mismatches[0]["model"]}
        path = write_replay(pid, payload)
        for b in broken[:5]:
            print(f"  broken: {b[:300]}")
        print(f"VIOLATION property={pid} replay={path} no-failing-input-found")
        violations = 1
        rc = 1

    # ---- 5. evidence --------------------------------------------------------
    regimes: Counter = Counter()
    for r in results:
        tag = prop.regime(r["case"], r["obs"])
        regimes.update(tag if isinstance(tag, (list, tuple)) else [tag])
    distinct = {prop.key(r["case"]) for r in results if prop.nontrivial(r["case"], r["obs"])}
    samples = [{"case": r["case"], "obs": trunc(r["obs"])} for r in results[:: max(1, len(results) // 3)][:3]]
    cov = {
        "obligations": max(1, proof["obligations"]),
        "discharged": proof["discharged"],
        "checker_cmd": f"cd lean && lake build SppModel.Props.{pid} && lake env lean .work/Audit_{pid}.lean "
                       f"(#print axioms on every theorem)" + (" && lake env leanchecker" if thorough else ""),
        "trusted_base": TRUSTED_BASE + prop.trusted_extra,
        "theorems": proof.get("theorems", []),
        "axioms_used": proof.get("axioms_used", []),
        "translator": proof.get("translator", {}),
        "proof_failures": proof["failures"],
        "evaluations": len(results),
        "distinct_nontrivial": len(distinct),
        "rule": prop.rule,
        "samples": samples or [{"note": "no cases"}],
        "regimes": dict(regimes),
        "regimes_unhit": [g for g in prop.regimes_expected if regimes.get(g, 0) == 0],
        "correspondence_mismatches": len(mismatches),
        "oracle_failures_new": len(new_fail),
        "oracle_failures_known": sorted(known_hit),
        "search_cases": searched,
        "exhaustive": bool(getattr(prop, "exhaustive", False)),
    }
    if cov["discharged"] < 1:
        # schema: a proof-level record needs discharged >= 1; a run whose proofs broke falls back to the
        # exploration-style keys (evaluations / distinct_nontrivial) and says so
        cov["discharged_count"] = cov.pop("discharged")
        cov["proof_status"] = "BROKEN: no obligation counted as discharged in this run"
    cov.update(stats)
    cov.update(prop.extra_coverage())
    ev = {
        "property_id": pid,
        "tier": tier,
        "seed": seed,
        "level": prop.level,
        "coverage": cov,
        "assumptions": prop.assumptions,
        "wall_s": round(time.time() - t0, 2),
        "violations": violations,
    }
    (VERIF / "evidence").mkdir(exist_ok=True)
    (VERIF / "evidence" / f"{pid}.json").write_text(json.dumps(ev, indent=1, default=str))
    print(f"{pid} {tier} seed={seed}: obligations {proof['discharged']}/{proof['obligations']}, "
          f"cases {len(results)} (distinct non-trivial {len(distinct)}), mismatches {len(mismatches)}, "
          f"oracle failures new={len(new_fail)} known={len(known_hit)}, {ev['wall_s']}s -> exit {rc}")
    return rc


def classify(prop, f, known_ids):
    for k in known_ids:
        pred = prop.known.get(k)
        if pred and pred(f["case"], f["obs"]):
            return k
    return None


def trunc(o, n=600):
    s = json.dumps(o, default=str)
    return o if len(s) <= n else s[:n] + "…"


if __name__ == "__main__":
    sys.exit(main())

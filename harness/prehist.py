"""Warm-up operations on a reader object before the operation under test.

The streaming APIs are specified as functions of the file and their arguments; nothing a previous call on
the same `Filterbank` object did (statistics left in `chan_stats`, file position, reused buffers, caches)
may change their result.  A case may therefore carry a `pre` list; `run_pre` executes it on the reader and
ignores results and (legitimate) errors.  The models are not told about it: any influence shows up as a
correspondence / oracle failure of the operation under test.
"""
from __future__ import annotations


def gen_pre(rng, N, s, n, prob=0.35):
    """0-2 warm-up ops on ranges related to the tested range [s, s+n): same length elsewhere, same range,
    unrelated range"""
    if rng.random() >= prob or N < 1:
        return []
    ops = []
    for _ in range(rng.choice((1, 1, 2))):
        kind = rng.choice(("stats", "stats", "stats_basic", "bandpass", "collapse", "read_block", "chan"))
        how = rng.choice(("same-length", "same-range", "other"))
        if how == "same-length" and n <= N:
            n2 = n
            s2 = rng.randrange(0, N - n2 + 1)
        elif how == "same-range":
            s2, n2 = s, n
        else:
            s2 = rng.randrange(0, N)
            n2 = rng.randint(1, N - s2)
        ops.append([kind, s2, n2, rng.choice((1, 3, 7, 64))])
    return ops


def run_pre(fil, pre):
    for kind, s, n, g in pre or []:
        try:
            if kind == "stats":
                fil.compute_stats(gulp=g, start=s, nsamps=n, quiet=True)
            elif kind == "stats_basic":
                fil.compute_stats_basic(gulp=g, start=s, nsamps=n, quiet=True)
            elif kind == "bandpass":
                fil.bandpass(gulp=g, start=s, nsamps=n, quiet=True)
            elif kind == "collapse":
                fil.collapse(gulp=g, start=s, nsamps=n, quiet=True)
            elif kind == "read_block":
                fil.read_block(s, n)
            elif kind == "chan":
                fil.read_chan(0, gulp=g, start=s, nsamps=n, quiet=True)
        except Exception:  # noqa: BLE001, S110  (a warm-up op may legitimately reject its arguments)
            pass

"""Base class for per-property correspondence/oracle modules."""
from __future__ import annotations

import json


class Prop:
    id = "C00"
    level = "proof"
    rule = ""
    assumptions: list[str] = []
    trusted_extra: list[str] = []
    regimes_expected: list[str] = []
    budget_s = (60, 600)          # correspondence time budget (quick, thorough)
    search_budget_s = (60, 600)   # failing-input search budget
    known: dict = {}              # finding id -> predicate(case, obs)

    def corpus(self):
        return []

    def gen(self, rng, tier):
        raise NotImplementedError

    def search(self, rng, tier):
        return self.gen(rng, "thorough")

    def observe(self, case):
        raise NotImplementedError

    def model_requests(self, case, obs):
        return []

    def model_compare(self, case, obs, answers):
        return None

    def oracle(self, case, obs):
        return None

    def regime(self, case, obs):
        return "all"

    def nontrivial(self, case, obs):
        return True

    def key(self, case):
        return json.dumps(case, sort_keys=True, default=str)

    def shrink(self, failing):
        return failing

    def extra_coverage(self):
        return {}


def exc_name(e: BaseException) -> str:
    """Canonical error class."""
    for cls in (ValueError, OSError, TypeError, IndexError, RuntimeError):
        if isinstance(e, cls):
            return cls.__name__
    return "Other"

"""C14 — time-domain filters and decimators equal their definitions."""
from __future__ import annotations

import math

import numpy as np

from .base import Prop, exc_name

OPS = ("running", "down1d", "down2d", "down2dflat", "detrend", "detrend-long", "deredden", "ts_down", "blk_down")
DT = {"f4": np.float32, "f8": np.float64, "u1": np.uint8}


def refl(n, i):
    """symmetric reflection (edge value repeated), period 2n"""
    i %= 2 * n
    return i if i < n else 2 * n - 1 - i


def data_for(case, size):
    rng = np.random.default_rng(case["dseed"])
    if case.get("long"):
        return (1000.0 + rng.integers(-12, 13, size=size) / 4.0).astype(np.float32)
    if case["dt"] == "u1":
        return rng.integers(200, 256, size=size).astype(np.uint8)      # near the top: provokes overflow in a narrow accumulator
    return rng.integers(-50, 51, size=size).astype(DT[case["dt"]])


def lay2d(x, how):
    """the same 2-D values in another memory layout"""
    d1, d2 = x.shape
    if how == "F":
        return np.asfortranarray(x)
    if how == "slicedT":
        big = np.zeros((d2, d1 + 3), dtype=x.dtype)      # stored transposed, with extra rows around
        big[:, 2:2 + d1] = x.T
        return big.T[2:2 + d1]
    if how == "strided":
        big = np.zeros((d1, 2 * d2), dtype=x.dtype)
        big[:, ::2] = x
        return big[:, ::2]
    return x


class C14(Prop):
    id = "C14"
    rule = ("running mean/median for ALL lengths 1..24 x widths 1..2n+3 (quick: a random half), decimation of 1-D, 2-D "
            "and flattened arrays by every factor pair on non-square shapes, both methods, float32/float64/uint8 "
            "(values near 255), linear detrending, de-reddening and the container wrappers; each compared with its "
            "definition in float64. Non-trivial = window > 1 or factor > 1; distinct by full case.")
    assumptions = ["bottleneck move_mean/move_median and np.pad('symmetric') are modelled, not verified"]
    regimes_expected = ["running-odd", "running-even", "running-wide", "down1d", "down2d", "down2dflat", "detrend", "detrend-long",
                        "deredden", "ts_down", "blk_down", "chain"]
    budget_s = (150, 900)

    def gen(self, rng, tier):
        cases = []
        for n in range(1, 25 if tier == "thorough" else 17):
            for w in range(1, 2 * n + 4):
                if tier == "quick" and rng.random() < 0.5:
                    continue
                cases.append({"op": "running", "n": n, "w": w, "method": rng.choice(("mean", "median")),
                              "dt": rng.choice(("f4", "f8")), "dseed": rng.randrange(1 << 30)})
        k = 1 if tier == "quick" else 5
        for _ in range(60 * k):
            n = rng.randint(1, 40)
            cases.append({"op": "down1d", "n": n, "f": rng.randint(1, n), "method": rng.choice(("mean", "median")),
                          "dt": rng.choice(("f4", "f8", "u1")), "dseed": rng.randrange(1 << 30)})
        for op in ("down2d", "down2dflat", "blk_down"):
            for _ in range(40 * k):
                d1, d2 = rng.randint(1, 9), rng.randint(1, 12)
                cases.append({"op": op, "d1": d1, "d2": d2, "f1": rng.randint(1, d1), "f2": rng.randint(1, d2),
                              "method": rng.choice(("mean", "median")), "dt": rng.choice(("f4", "f8", "u1")) if op != "blk_down" else "f4",
                              "dseed": rng.randrange(1 << 30),
                              # memory layout of the 2-D input: C order, Fortran order (what the readers hand out), a
                              # slice of a transposed array (a sub-band of a block: neither C nor F contiguous), strided
                              "layout": rng.choice(("c", "c", "F", "slicedT", "strided")) if op != "down2dflat" else "c"})
        for _ in range(40 * k):
            cases.append({"op": "detrend", "n": rng.choice((1, 2, 3, 5, 17, 64)), "dt": rng.choice(("f4", "f8")),
                          "dseed": rng.randrange(1 << 30)})
        # groups of several 1e5 samples of float32 data on a large baseline: the group sum has to be accumulated in
        # double precision (the kernels declare a float64 accumulator), a float32 running sum is off by ~1e-3 here
        for n, f in (((400000, 400000), (600001, 300000)) if tier == "quick" else ((400000, 400000), (600001, 300000), (1000000, 500000))):
            cases.append({"op": "down1d", "n": n, "f": f, "method": "mean", "dt": "f4", "dseed": rng.randrange(1 << 30), "long": True})
            cases.append({"op": "down2dflat", "d1": n // 100, "d2": 100, "f1": f // 100, "f2": 100, "method": "mean", "dt": "f4",
                          "dseed": rng.randrange(1 << 30), "long": True})
        # long series: the closed-form sums m(m-1)/2, m(m-1)(2m-1)/6 and m*Sxx - Sx^2 pass 2^53 / 2^63 here
        for n in ((120001, 300000) if tier == "quick" else (120001, 300000, 1000003)):
            cases.append({"op": "detrend", "n": n, "dt": "f8", "dseed": rng.randrange(1 << 30)})
        for _ in range(30 * k):
            n = rng.randint(4, 40)
            cases.append({"op": "deredden", "n": n, "w": rng.randint(1, n + 3), "method": rng.choice(("mean", "median")),
                          "dt": "f4", "dseed": rng.randrange(1 << 30)})
            cases.append({"op": "ts_down", "n": n, "f": rng.randint(1, n), "method": rng.choice(("mean", "median")),
                          "dt": "f4", "dseed": rng.randrange(1 << 30)})
        # the window of `deredden` is given in SECONDS: every width 1..45 bins as `w * tsamp` (several such quotients
        # are one ulp below the integer: 3e-3 / 1e-3 = 2.9999999999999996)
        for w in range(1, 46):
            tsamp = rng.choice((0.1, 1e-3, 0.00016384, 64e-6))
            cases.append({"op": "deredden", "n": 50, "w": w, "method": rng.choice(("mean", "median")), "dt": "f4",
                          "dseed": rng.randrange(1 << 30), "tsamp": tsamp,
                          "window_s": float(f"{w * tsamp:.10g}")})       # the decimal a user would type
        # two operations on the SAME series: the second must still equal its definition on the data supplied
        # (an operation that rearranges or rescales its input in place is only visible to the next one)
        for _ in range(60 * k):
            n = rng.randint(6, 40)
            first = {"op": rng.choice(("down1d", "running")), "n": n, "f": rng.randint(2, max(2, n // 2)),
                     "w": rng.randint(2, n), "method": rng.choice(("mean", "median", "median"))}
            second = {"op": rng.choice(("down1d", "running")), "n": n, "f": rng.randint(1, max(1, n // 2)),
                      "w": rng.randint(1, n), "method": rng.choice(("mean", "median"))}
            via = rng.choice(("fn", "ts"))
            cases.append({"op": "chain", "via": via, "first": first, "second": second, "n": n,
                          "dt": rng.choice(("f4", "f8", "u1")) if via == "fn" else "f4", "dseed": rng.randrange(1 << 30)})
        return cases

    # ------------------------------------------------------------------
    def observe(self, case):
        from sigpyproc.core import kernels as K
        from sigpyproc.core import stats as S

        op = case["op"]
        try:
            if op == "chain":
                x = data_for(case, case["n"])
                if case["via"] == "ts":
                    from .c12 import mk_ts
                    x = x.astype(np.float32)
                    ts = mk_ts(x)
                    run = lambda o: (ts.downsample(o["f"], filter_method=o["method"]).data if o["op"] == "down1d" else  # noqa: E731
                                     ts.data - ts.deredden(method=o["method"], window=o["w"] * 1e-3).data)
                else:
                    run = lambda o: (S.downsample_1d(x, o["f"], method=o["method"]) if o["op"] == "down1d" else  # noqa: E731
                                     S.running_filter(x, o["w"], method=o["method"]))
                run(case["first"])
                out = np.asarray(run(case["second"]))
                return {"out": [float(v) for v in out.ravel()], "shape": list(out.shape), "dtype": str(out.dtype)}
            if op == "running":
                x = data_for(case, case["n"])
                out = S.running_filter(x, case["w"], method=case["method"])
            elif op == "down1d":
                x = data_for(case, case["n"])
                out = S.downsample_1d(x, case["f"], method=case["method"])
            elif op == "down2d":
                x = lay2d(data_for(case, case["d1"] * case["d2"]).reshape(case["d1"], case["d2"]), case.get("layout", "c"))
                out = S.downsample_2d(x, (case["f1"], case["f2"]), method=case["method"])
            elif op == "down2dflat":
                x = data_for(case, case["d1"] * case["d2"])
                out = S.downsample_2d_flat(x, case["f1"], case["f2"], case["d1"], case["d2"], method=case["method"])
            elif op == "detrend":
                x = data_for(case, case["n"])
                out = K.detrend_1d(x)
            elif op in ("deredden", "ts_down"):
                from .c12 import mk_ts
                x = data_for(case, case["n"])
                ts = mk_ts(x)
                if "tsamp" in case:
                    from sigpyproc.timeseries import TimeSeries
                    from .c04 import mk_header
                    ts = TimeSeries(x, mk_header(1, 32, nsamples=len(x), tsamp=case["tsamp"], data_type="time series"))
                if op == "deredden":
                    o = ts.deredden(method=case["method"], window=case.get("window_s", case["w"] * 1e-3))
                else:
                    o = ts.downsample(case["f"], filter_method=case["method"])
                return {"out": [float(v) for v in o.data], "shape": [len(o.data)], "dtype": str(o.data.dtype),
                        "hns": int(o.header.nsamples)}
            else:
                from sigpyproc.block import FilterbankBlock
                from .c04 import mk_header
                x = lay2d(data_for(case, case["d1"] * case["d2"]).reshape(case["d1"], case["d2"]), case.get("layout", "c"))
                b = FilterbankBlock(x, mk_header(case["d1"], 32, nsamples=case["d2"]))
                o = b.downsample(ffactor=case["f1"], tfactor=case["f2"], filter_method=case["method"])
                return {"out": [float(v) for v in o.data.ravel()], "shape": list(o.data.shape), "dtype": str(o.data.dtype),
                        "hns": int(o.header.nsamples), "hnc": int(o.header.nchans)}
            out = np.asarray(out)
            return {"out": [float(v) for v in out.ravel()], "shape": list(out.shape), "dtype": str(out.dtype)}
        except Exception as e:  # noqa: BLE001
            import traceback
            return {"err": exc_name(e), "msg": traceback.format_exc()[-250:]}

    # ------------------------------------------------------------------
    def expected(self, case):
        op = case["op"]
        if op == "chain":
            sub = dict(case["second"], dt=case["dt"] if case["via"] == "fn" else "f4", dseed=case["dseed"])
            if case["via"] == "ts" and sub["op"] == "down1d":
                sub["op"] = "ts_down"
            return self.expected(sub)
        red = np.mean if case.get("method", "mean") == "mean" else np.median
        if op in ("running", "deredden"):
            x = data_for(case, case["n"]).astype(np.float64)
            n, w = len(x), case["w"]
            run = np.array([red([x[refl(n, j)] for j in range(t - w // 2, t - w // 2 + w)]) for t in range(n)])
            return (x - run) if op == "deredden" else run
        if op in ("down1d", "ts_down"):
            x = data_for(case, case["n"]).astype(np.float64)
            f = case["f"]
            m = len(x) // f
            y = red(x[: m * f].reshape(m, f), axis=1)
            return np.floor(y) if (case["dt"] == "u1" and case["method"] == "mean" and op == "down1d") else y
        if op in ("down2d", "down2dflat", "blk_down"):
            x = data_for(case, case["d1"] * case["d2"]).astype(np.float64).reshape(case["d1"], case["d2"])
            f1, f2 = case["f1"], case["f2"]
            n1, n2 = case["d1"] // f1, case["d2"] // f2
            y = red(x[: n1 * f1, : n2 * f2].reshape(n1, f1, n2, f2), axis=(1, 3))
            if op == "down2dflat" and case["dt"] == "u1" and case["method"] == "mean":
                y = np.floor(y)
            return y.ravel() if op == "down2dflat" else y
        x = data_for(case, case["n"]).astype(np.float64)
        if len(x) == 1:
            return np.zeros(1)
        i = np.arange(len(x))
        sl, ic = np.polyfit(i, x, 1)
        return x - (sl * i + ic)

    def oracle(self, case, obs):
        op = case["op"]
        if "err" in obs:
            return f"{op} {case} raised {obs['err']}: {obs['msg'][-120:]}"
        want = self.expected(case)
        got = np.array(obs["out"]).reshape(obs["shape"])
        if list(got.shape) != list(want.shape):
            return f"{op}: output shape {list(got.shape)}, the definition has {list(want.shape)} ({ {k: v for k, v in case.items() if k != 'dseed'} })"
        tol = 1e-4 if case["dt"] == "f4" or op in ("detrend",) or case.get("via") == "ts" else 1e-9
        if case.get("long"):
            tol = 2e-7          # one float32 rounding of the result
        bad = np.argwhere(np.abs(got - want) > tol * (1 + np.abs(want)))
        if len(bad):
            i = tuple(bad[0])
            return f"{op}: output{list(i)} = {got[i]}, the definition gives {want[i]} ({ {k: v for k, v in case.items() if k != 'dseed'} })"
        if "hns" in obs and obs["hns"] != got.shape[-1]:
            return f"{op}: header nsamples {obs['hns']} != {got.shape[-1]}"
        return None

    # ------------------------------------------------------------------
    def model_requests(self, case, obs):
        if "err" in obs:
            return []
        op = case["op"]
        if op == "running" and case["method"] == "mean":
            x = data_for(case, case["n"])
            return [f"C14 runmean {case['n']} {case['w']} {' '.join(str(int(v)) for v in x)}"]
        if op == "running":
            return [f"C14 runidx {case['n']} {case['w']}"]
        if case.get("long"):
            return []
        if op == "down1d" and case["method"] == "mean":
            x = data_for(case, case["n"])
            return [f"C14 down1d {case['n']} {case['f']} {' '.join(str(int(v)) for v in x)}"]
        if op in ("down2d", "down2dflat") and case["method"] == "mean":
            x = data_for(case, case["d1"] * case["d2"])
            return [f"C14 down2d {case['d1']} {case['d2']} {case['f1']} {case['f2']} {' '.join(str(int(v)) for v in x)}"]
        if op == "detrend" and case["n"] <= 200:
            x = data_for(case, case["n"])
            return [f"C14 detrend {case['n']} {' '.join(str(int(v)) for v in x)}"]
        return []

    def model_compare(self, case, obs, answers):
        from fractions import Fraction
        if not answers:
            return None
        op = case["op"]
        t = answers[0].split()
        if t[0] != "ok":
            return f"model {answers[0][:40]}"
        got = obs["out"]
        if op == "running" and case["method"] == "median":
            # model returns the window index sets; medians taken here
            x = data_for(case, case["n"]).astype(np.float64)
            n, w = case["n"], case["w"]
            idx = [int(v) for v in t[1:]]
            want = [float(np.median([x[j] for j in idx[k * w:(k + 1) * w]])) for k in range(n)]
        else:
            want = [float(Fraction(v)) for v in t[1:]]
            if case["dt"] == "u1" and case.get("method") == "mean" and op in ("down1d", "down2dflat"):
                want = [math.floor(v) for v in want]
        if len(want) != len(got):
            return f"{op}: impl {len(got)} values vs model {len(want)}"
        tol = 1e-4 if case["dt"] == "f4" or op == "detrend" else 1e-9
        for g_, w_ in zip(got, want):
            if abs(g_ - w_) > tol * (1 + abs(w_)):
                return f"{op}: impl {g_} vs exact model {w_}"
        return None

    def regime(self, case, obs):
        if case["op"] == "running":
            if case["w"] > case["n"]:
                return "running-wide"
            return "running-odd" if case["w"] % 2 else "running-even"
        if case["op"] == "detrend" and case["n"] > 100000:
            return "detrend-long"
        return case["op"]

    def nontrivial(self, case, obs):
        if case["op"] == "chain":
            return True
        return case.get("w", 1) > 1 or case.get("f", 1) > 1 or case.get("f1", 1) * case.get("f2", 1) > 1 or case["op"] == "detrend"


PROP = C14()

"""C16 — RFI cleaning masks exactly the flagged channels and nothing else."""
from __future__ import annotations

import random

import numpy as np

import common
import spfiles
from .base import Prop, exc_name
from .c07 import read_out

FCH1, FOFF = 1500.0, -2.0


def ref_doublemad_mask(x, thr):
    x = np.asarray(x, dtype=np.float32).astype(np.float64)
    loc = np.median(x)
    d = np.abs(x - loc)
    nl, nr = x <= loc, x >= loc
    k, kaad = 0.6744897501960817, np.sqrt(2 / np.pi)
    ml = np.median(d[nl]) / k
    mr = np.median(d[nr]) / k
    if np.isclose(ml, 0):
        ml = d[nl].mean() / kaad
    if np.isclose(mr, 0):
        mr = d[nr].mean() / kaad
    sc = np.where(x < loc, ml, np.where(x > loc, mr, 0.5 * (ml + mr)))
    sc = np.where(np.isclose(sc, 0), 1.0, sc)
    return np.abs((x - loc) / sc) > thr


def ref_iqrm_mask(x, thr, radius=5):
    x = np.asarray(x, dtype=np.float64)
    n = len(x)
    mask = np.zeros(n, dtype=bool)
    for lag in list(range(-radius, 0)) + list(range(1, radius + 1)):
        sh = np.array([x[min(max(i + lag, 0), n - 1)] for i in range(n)])
        d = (x - sh).astype(np.float32).astype(np.float64)
        med = np.median(d)
        q1, q3 = np.percentile(d, [25, 75])
        sc = (q3 - q1) / 1.3489795003921634
        if np.isclose(sc, 0):
            sc = 1.0
        mask |= np.abs((d - med) / sc) > thr
    return mask


class C16(Prop):
    id = "C16"
    rule = ("(a) RFIMask composition on synthetic channel-statistics vectors (planted outliers, all-equal vectors), "
            "thresholds, both methods, frequency-range lists (empty, overlapping, outside the band), custom functions, "
            "sequences of 1-6 apply_* calls where each call carries its own arguments (so component masks get overwritten); (b) clean_rfi on tiny real files (depths 1..32, gulps incl. non-divisible): "
            "masked channels constant, all other samples bit-identical; (c) mask file round trip incl. sky position. "
            "Non-trivial = at least one masked and one unmasked channel; distinct by full case.")
    assumptions = ["outlier detection itself (double-MAD / IQRM z-scores) is compared with an independent NumPy "
                   "implementation; HDF5 container behaviour is h5py's"]
    regimes_expected = ["compose-mad", "compose-iqrm", "clean", "roundtrip"]
    budget_s = (200, 1200)

    def _compose(self, rng):
        C = rng.choice((8, 16, 33, 64))
        kind = rng.choice(("noise", "planted", "equal", "tied"))
        def vec():
            if kind == "equal":
                return [5.0] * C
            if kind == "tied":
                # most channels exactly at the median (zero MAD on one or both sides) and outliers of DIFFERENT
                # magnitude below and above it: each side has its own fall-back scale
                v = [4.0] * C
                lo = rng.sample(range(C), rng.randint(1, max(1, C // 8)))
                hi = [i for i in rng.sample(range(C), rng.randint(1, max(1, C // 8))) if i not in lo]
                for i in lo:
                    v[i] = 4.0 - rng.choice((0.5, 1.0, 3.0))
                for i in hi:
                    v[i] = 4.0 + rng.choice((8.0, 60.0, 500.0))
                return v
            v = [rng.gauss(10, 1) for _ in range(C)]
            if kind == "planted":
                for _ in range(rng.randint(1, 3)):
                    v[rng.randrange(C)] += rng.choice((30, -25, 100))
            return v
        fmin, fmax = FCH1 + FOFF * (C - 1), FCH1

        # the channel centres as the header computes them (float32 arithmetic); NumPy compares a Python-float bound
        # with them in float32, so a bound closer than a float32 rounding step to a centre without being equal to
        # it would be compared differently by an exact oracle: bounds are either exactly a centre or well away
        centres = [float(v) for v in (np.arange(C, dtype=np.float32) * FOFF + FCH1)]

        def clear(v):
            while any(0 < abs(v - c) < 1e-2 for c in centres):
                v += 0.013
            return v

        def mk_ranges():
            ranges = []
            for _ in range(rng.choice((0, 1, 2, 3))):
                a = clear(rng.uniform(fmin - 10, fmax + 10))
                ranges.append([a, clear(a + rng.choice((0.0, 2.0, 7.5, 30.0)))])
            if rng.random() < 0.2 and C > 3:
                f = centres[rng.randrange(C)]
                ranges.append([f, f])       # a closed range holding exactly one channel centre
            return ranges

        def mk_step(op):
            if op == "mask":
                return ["mask", mk_ranges()]
            if op == "method":
                return ["method", rng.choice(("mad", "iqrm"))]
            return ["funcn", sorted(rng.sample(range(C), k=rng.randint(0, 3)))]

        # every step carries its own arguments: a later apply_mask / apply_method / apply_funcn with different
        # arguments overwrites the component mask, and must still only ever add channels to chan_mask
        if rng.random() < 0.5:
            ops = rng.sample(["mask", "method", "funcn"], k=rng.randint(1, 3))
            ops = ops + rng.sample(ops, k=1)
        else:
            ops = [rng.choice(("mask", "method", "funcn")) for _ in range(rng.randint(2, 6))]
        steps = [mk_step(op) for op in ops]
        if rng.random() < 0.3:           # the old shape: the same arguments every time an op recurs
            first = {}
            steps = [first.setdefault(st[0], st) for st in steps]
        return {"kind": "compose", "C": C, "var": vec(), "skew": vec(), "kurt": vec(), "thr": rng.choice((2.0, 3.0, 5.0)),
                "steps": steps, "method": next((st[1] for st in steps if st[0] == "method"), "mad"),
                "ranges": next((st[1] for st in steps if st[0] == "mask"), [])}

    def _clean(self, rng):
        nbits = rng.choice((1, 2, 4, 8, 32))
        C = rng.choice((8, 16))
        N = rng.choice((40, 64, 100))
        # float files hold any value: baselines below zero (e.g. bandpass-subtracted data) and negative or fractional
        # fill values are ordinary there
        off = rng.choice((0, 0, -40, -1000)) if nbits == 32 else 0
        mvals = (None, 0, 1) if nbits < 32 else (None, None, 0, 1, -1.5, -0.25, 2.75, -300)
        return {"kind": "clean", "nbits": nbits, "C": C, "N": N, "g": rng.choice((7, 16, N, N + 3)),
                "method": rng.choice(("mad", "iqrm")), "thr": rng.choice((2.0, 3.0)), "off": off,
                "ranges": [[FCH1 + FOFF * 2.2, FCH1 + FOFF * 0.9]] if rng.random() < 0.5 else [],
                # a custom function, returning Booleans or the 0/1 integers `apply_channel_mask` documents
                "custom": None if rng.random() < 0.5 else sorted(rng.sample(range(C), k=rng.randint(0, 2))),
                "custom_dt": rng.choice(("bool", "int", "uint8")), "slope": rng.choice((0, 5)) if nbits == 32 else 0,
                "mval": rng.choice(mvals), "bad": sorted(rng.sample(range(C), k=rng.randint(0, 2))),
                "dseed": rng.randrange(1 << 30)}

    def _round(self, rng):
        c = self._compose(rng)
        c["kind"] = "roundtrip"
        c["ra"] = [rng.randrange(24), rng.randrange(60), rng.randrange(0, 599999) / 10000]
        c["dec"] = [rng.choice((1, -1)), rng.randrange(90), rng.randrange(60), rng.randrange(0, 599999) / 10000]
        return c

    def gen(self, rng, tier):
        k = 1 if tier == "quick" else 6
        return ([self._compose(rng) for _ in range(200 * k)] + [self._clean(rng) for _ in range(40 * k)]
                + [self._round(rng) for _ in range(30 * k)])

    # ------------------------------------------------------------------
    def _mk_mask(self, case, hdr=None):
        from sigpyproc.core.rfi import RFIMask
        from .c04 import mk_header
        C = case["C"]
        if hdr is None:
            from sigpyproc.header import Header
            hdr = Header(filename="x.fil", data_type="filterbank", nchans=C, foff=FOFF, fch1=FCH1, nbits=8, tsamp=1e-3,
                         tstart=58000.0, nsamples=1000)
        z = np.zeros(C, dtype=np.float32)
        f = lambda v: np.array(v, dtype=np.float32)   # noqa: E731
        return RFIMask(case["thr"], hdr, z + 1, f(case["var"]), f(case["skew"]), f(case["kurt"]), z + 9, z)

    def observe(self, case):
        try:
            if case["kind"] == "compose":
                m = self._mk_mask(case)
                from sigpyproc.core import rfi as R
                steps = []
                for op, arg in case["steps"]:
                    rec = {}
                    if op == "mask":
                        m.apply_mask([tuple(r) for r in arg])
                    elif op == "method":
                        m.apply_method(arg)
                        fn = R.double_mad_mask if arg == "mad" else R.iqrm_mask
                        rec["method_masks"] = [[bool(v) for v in fn(np.array(case[k], dtype=np.float32), case["thr"])]
                                               for k in ("var", "skew", "kurt")]
                    else:
                        cust = np.zeros(case["C"], dtype=bool)
                        cust[arg] = True
                        m.apply_funcn(lambda cur, cust=cust: cust)
                    rec.update({k: [bool(v) for v in getattr(m, k)] for k in ("chan_mask", "user_mask", "stats_mask", "custom_mask")})
                    steps.append(rec)
                return {"steps": steps, "freqs": [float(v) for v in m.header.chan_freqs]}
            if case["kind"] == "clean":
                return self._obs_clean(case)
            return self._obs_round(case)
        except Exception as e:  # noqa: BLE001
            import traceback
            return {"err": exc_name(e), "msg": traceback.format_exc()[-300:]}

    def _data(self, case):
        rng = np.random.default_rng(case["dseed"])
        N, C, nbits = case["N"], case["C"], case["nbits"]
        hi = (1 << nbits) if nbits < 32 else 64
        x = rng.integers(0, hi, size=(N, C))
        for b in case["bad"]:
            if nbits >= 8:
                x[:, b] = rng.integers(0, hi, size=N) * (np.arange(N) % 5 == 0) * 3 % (255 if nbits == 8 else 4096)
            else:
                x[:, b] = 0
        return x.astype(np.int64) + case.get("off", 0) + case.get("slope", 0) * np.arange(C)[None, :]

    def _obs_clean(self, case):
        from sigpyproc.readers import FilReader
        d = common.tmpdir()
        x = self._data(case)
        p = spfiles.write_fil(d / "in.fil", x, case["nbits"], fch1=FCH1, foff=FOFF, tsamp=1e-3)
        fil = FilReader(str(p))
        fn = None
        if case.get("custom") is not None:
            cust = np.zeros(case["C"], dtype={"bool": bool, "int": np.int64, "uint8": np.uint8}[case["custom_dt"]])
            cust[case["custom"]] = 1
            fn = lambda cur, cust=cust: cust       # noqa: E731
        out, m = fil.clean_rfi(method=case["method"], threshold=case["thr"], freq_mask=[tuple(r) for r in case["ranges"]] or None,
                               custom_funcn=fn, mask_value=case["mval"], outfile_name=str(d / "c.fil"), gulp=case["g"], quiet=True)
        fil._file.close()
        h, hl, vals, dl = read_out(out)
        st = fil.chan_stats
        return {"mask": [bool(v) for v in m.chan_mask], "user": [bool(v) for v in m.user_mask],
                "stats": [bool(v) for v in m.stats_mask], "custom": [bool(v) for v in m.custom_mask], "vals": vals, "nbits": h["nbits"], "nchans": h["nchans"],
                "mean": [float(v) for v in st.mean], "freqs": [float(v) for v in fil.header.chan_freqs]}

    def _obs_round(self, case):
        from astropy.coordinates import SkyCoord
        from sigpyproc.core.rfi import RFIMask
        from sigpyproc.header import Header
        d = common.tmpdir()
        ra, dec = case["ra"], case["dec"]
        coord = SkyCoord(f"{ra[0]}h{ra[1]}m{ra[2]}s", f"{'-' if dec[0] < 0 else '+'}{dec[1]}d{dec[2]}m{dec[3]}s")
        hdr = Header(filename="obs.fil", data_type="filterbank", nchans=case["C"], foff=FOFF, fch1=FCH1, nbits=8,
                     tsamp=64e-6, tstart=58123.25, nsamples=4321, coord=coord, source="J1234-56", telescope="Parkes",
                     backend="BPSR", ibeam=3, nbeams=13, dm=12.5)
        m = self._mk_mask(case, hdr)
        m.apply_mask([tuple(r) for r in case["ranges"]])
        m.apply_method(case["method"])
        # ... and refined further, as a user does: the channel mask accumulates over ALL calls while each component
        # mask only holds the latest one, so the file must carry the channel mask itself
        for op, arg in case.get("steps", []):
            if op == "mask":
                m.apply_mask([tuple(r) for r in arg])
            elif op == "method":
                m.apply_method(arg)
            else:
                cust = np.zeros(case["C"], dtype=bool)
                cust[arg] = True
                m.apply_funcn(lambda cur, cust=cust: cust)
        fn = m.to_file(str(d / "m.h5"))
        g = RFIMask.from_file(fn)
        arrs = {}
        for k in ("chan_mean", "chan_var", "chan_skew", "chan_kurt", "chan_maxima", "chan_minima", "chan_mask", "user_mask", "stats_mask", "custom_mask"):
            arrs[k] = bool(np.array_equal(getattr(m, k), getattr(g, k)) and getattr(m, k).dtype == getattr(g, k).dtype)
        hb = {}
        for k in ("nchans", "foff", "fch1", "nbits", "tsamp", "tstart", "nsamples", "source", "telescope", "backend",
                  "ibeam", "nbeams", "dm", "filename", "data_type"):
            hb[k] = bool(getattr(m.header, k) == getattr(g.header, k))
        return {"arrays": arrs, "hdr": hb, "thr": float(g.threshold), "sep": float(coord.separation(g.header.coord).arcsec)}

    # ------------------------------------------------------------------
    def _user(self, freqs, ranges):
        return [any(lo <= f <= hi for lo, hi in ranges) for f in freqs]

    def oracle(self, case, obs):
        if "err" in obs:
            return f"{case['kind']} raised {obs['err']}: {obs['msg'][-160:]}"
        if case["kind"] == "compose":
            C = case["C"]
            prev = [False] * C
            user = stats = cust = [False] * C
            for k, ((op, arg), st) in enumerate(zip(case["steps"], obs["steps"])):
                if op == "mask":
                    user = self._user(obs["freqs"], arg)
                    if st["user_mask"] != user:
                        return f"user mask {st['user_mask']} != channels whose centre lies in {arg}"
                elif op == "method":
                    fm = ref_doublemad_mask if arg == "mad" else ref_iqrm_mask
                    stats = [bool(v) for v in np.logical_or.reduce([fm(case[q], case["thr"]) for q in ("var", "skew", "kurt")])]
                    if st["stats_mask"] != stats:
                        bad = [i for i in range(C) if st["stats_mask"][i] != stats[i]]
                        return f"statistics mask ({arg}, thr {case['thr']}) differs from the definition at channels {bad[:6]}"
                else:
                    cust = [i in arg for i in range(C)]
                    if st["custom_mask"] != cust:
                        return "custom mask is not what the custom function returned"
                # the union of everything applied so far (not only of the *current* component masks)
                want = [a or b or c or p for a, b, c, p in zip(user, stats, cust, prev)]
                if any(p and not q for p, q in zip(prev, st["chan_mask"])):
                    gone = [i for i in range(C) if prev[i] and not st["chan_mask"][i]]
                    return f"step {k} ({op} {arg}) removed previously masked channels {gone} (steps {case['steps'][:k + 1]})"
                if st["chan_mask"] != want:
                    return f"after {case['steps'][:k + 1]} the channel mask is not the union of the masks applied so far"
                prev = st["chan_mask"]
            return None
        if case["kind"] == "clean":
            x = self._data(case)
            N, C = x.shape
            mask = obs["mask"]
            user = self._user(obs["freqs"], case["ranges"])
            cst = [c in (case.get("custom") or []) for c in range(C)]
            if obs["user"] != user or obs.get("custom", cst) != cst or any(
                    m != (u or s or k) for m, u, s, k in zip(mask, obs["user"], obs["stats"], cst)):
                return "returned mask is not the union of the user, statistics and custom masks"
            got = np.array(obs["vals"], dtype=np.float64).reshape(N, C)
            if case["mval"] is None:
                um = [obs["mean"][c] for c in range(C) if not mask[c]]
                mv = float(np.median(um)) if um else float("nan")
                mv = float(np.float32(mv).astype(np.uint8 if case["nbits"] <= 8 else np.float32)) if um else mv
            else:
                mv = float(case["mval"])
            for c in range(C):
                if mask[c]:
                    if um_ok(mv) and not (got[:, c] == mv).all():
                        return f"masked channel {c} is not constant {mv} in the cleaned file (gulp {case['g']})"
                elif not (got[:, c] == x[:, c]).all():
                    t = int(np.argmax(got[:, c] != x[:, c]))
                    return f"unmasked channel {c} differs from the input at sample {t} (gulp {case['g']})"
            return None
        bad = [k for k, v in obs["arrays"].items() if not v] + [k for k, v in obs["hdr"].items() if not v]
        if bad:
            return f"mask file round trip does not reproduce {bad}"
        if abs(obs["thr"] - case["thr"]) > 0 or obs["sep"] > 0.01:
            return f"mask file round trip: threshold {obs['thr']}, sky position off by {obs['sep']:.3f} arcsec"
        return None

    # ------------------------------------------------------------------ model
    def model_requests(self, case, obs):
        from fractions import Fraction
        if case["kind"] != "compose" or "err" in obs:
            return []
        q = lambda v: (lambda f: f"{f.numerator}/{f.denominator}")(Fraction(float(v)))   # noqa: E731
        C = case["C"]
        toks = [f"C16 trace {C}", " ".join(q(f) for f in obs["freqs"]), str(len(case["steps"]))]
        for (op, arg), st in zip(case["steps"], obs["steps"]):
            if op == "mask":
                toks.append(f"m {len(arg)} " + " ".join(f"{q(a)} {q(b)}" for a, b in arg))
            elif op == "method":
                toks.append("s " + " ".join("1" if b else "0" for m in st["method_masks"] for b in m))
            else:
                toks.append("c " + " ".join("1" if i in arg else "0" for i in range(C)))
        return [" ".join(t for t in toks if t)]

    def model_compare(self, case, obs, answers):
        if not answers:
            return None
        parts = answers[0].split(" ; ")
        if len(parts) != len(obs["steps"]):
            return f"model: {answers[0][:60]}"
        for k, (p, st) in enumerate(zip(parts, obs["steps"])):
            got = " ".join("".join("1" if b else "0" for b in st[f]) for f in ("chan_mask", "user_mask", "stats_mask", "custom_mask"))
            if got != p:
                return f"after step {k} ({case['steps'][k]}): impl {got} vs model {p}"
        return None

    def regime(self, case, obs):
        if case["kind"] == "compose":
            return "compose-" + case["method"]
        return case["kind"]

    def nontrivial(self, case, obs):
        if case["kind"] == "compose" and "steps" in obs:
            m = obs["steps"][-1]["chan_mask"]
            return any(m) and not all(m)
        return True


def um_ok(v):
    return v == v


PROP = C16()

"""C13 — matched-filter S/N is the normalised template correlation and its argmax."""
from __future__ import annotations

import math

import numpy as np

from .base import Prop, exc_name


def make_data(case):
    rng = np.random.default_rng(case["dseed"])
    n = case["n"]
    if case["dkind"] == "boxcar":
        x = np.zeros(n, dtype=np.float32)
        s, w = case["start"], case["width"]
        x[s:s + w] = 1.0
        return x
    x = rng.integers(-20, 21, size=n).astype(np.float32)
    if case["dkind"] == "pulse":
        s, w = case["start"], case["width"]
        x[s:min(n, s + w)] += 60.0
    return x


class C13(Prop):
    id = "C13"
    rule = ("MatchedFilter on series of FFT-good and non-good lengths (incl. lengths whose real-FFT good size is odd), "
            "all three template kinds, several bank sizes/spacings, pulses at both edges and inside, offsets and "
            "positive scalings; every response value compared with the float64 inner product of the standardised data "
            "with the zero-mean unit-norm template placed at t; S/N, peak bin and best template vs the argmax; noiseless "
            "boxcars of bank widths at every start bin class. Non-trivial = >= 2 templates; distinct by full case.")
    assumptions = ["the standardised data are the implementation's own z-scores (their properties are C15)",
                   "a template placed near the end wraps around (ring of the data length)"]
    regimes_expected = ["good-length", "bad-length", "odd-goodsize", "boxcar-edge", "boxcar-inside", "affine", "ring-filled"]
    budget_s = (200, 1200)

    def _case(self, rng, n=None):
        n = n or rng.choice((32, 40, 45, 46, 64, 75, 81, 97, 100, 125, 128, 135, 200, 211, 256))
        kind = rng.choice(("boxcar", "boxcar", "gaussian", "lorentzian"))
        nbmax = rng.choice((4, 8, 12))
        dk = rng.choice(("noise", "pulse", "boxcar", "boxcar"))
        widths = [1]
        sf = rng.choice((1.5, 2.0))
        while True:
            nw = int(max(widths[-1] + 1, sf * widths[-1]))
            if nw > nbmax:
                break
            widths.append(nw)
        w = rng.choice(widths) if dk == "boxcar" else rng.randint(1, 6)
        pos = rng.choice(("start", "end", "inside"))
        w = max(1, min(w, n - 1))
        if n - w - 1 < 1 and pos == "inside":
            pos = "start"
        s = {"start": 0, "end": n - w, "inside": rng.randint(1, max(1, n - w - 1))}[pos]
        c = {"n": n, "kind": kind if dk != "boxcar" else "boxcar", "nbmax": nbmax, "sf": sf, "dkind": dk, "start": s,
             "width": w, "dseed": rng.randrange(1 << 30), "a": 1.0, "b": 0.0}
        if rng.random() < 0.3 and dk != "boxcar":   # a noiseless boxcar has zero IQR: unit-scale fallback, not invariant
            c["a"] = rng.choice((0.25, 2.0, 8.0))
            # offsets up to ~1e5 times the spread (exact in float32: integer data on a 2**21 / 2**22 baseline): the
            # zero-scale guard must not mistake a large baseline for a vanishing scale
            c["b"] = rng.choice((-16.0, 3.0, 100.0, 2.0 ** 21, -(2.0 ** 22)))
            if abs(c["b"]) > 1e6:
                c["a"] = rng.choice((1.0, 2.0, 8.0))      # a*x stays integer: the shifted series is exact in float32
        return c

    @staticmethod
    def widest_len(kind, nbmax):
        """length of the widest template of a bank (boxcar: its width; gaussian / lorentzian: 2*ceil(3.5*sigma)+1)"""
        if kind == "boxcar":
            return nbmax
        sig = nbmax / (2 * math.sqrt(2 * math.log(2))) if kind == "gaussian" else nbmax / 2
        return 2 * int(math.ceil(3.5 * sig)) + 1

    def _ring_case(self, rng, kind, nbmax, extra):
        """the series is exactly as long as (or `extra` longer than) the widest template: the smallest legal input"""
        n = self.widest_len(kind, nbmax) + extra
        c = self._case(rng, max(n, 8))
        w = rng.randint(1, 3)
        c.update(n=max(n, 8), kind=kind, nbmax=nbmax, dkind=rng.choice(("noise", "pulse")), width=w,
                 start=rng.randint(0, max(0, max(n, 8) - w - 1)), a=1.0, b=0.0)
        return c

    def gen(self, rng, tier):
        k = 1 if tier == "quick" else 6
        cases = [self._case(rng) for _ in range(150 * k)]
        for n in (45, 75, 81, 46, 64):
            cases.append(self._case(rng, n))
        for kind in ("gaussian", "lorentzian", "boxcar"):
            for nbmax in (4, 8, 12, 32):
                for extra in (0, 1):
                    cases.append(self._ring_case(rng, kind, nbmax, extra))
        return cases

    def corpus(self):
        return [{"n": 45, "kind": "boxcar", "nbmax": 8, "sf": 1.5, "dkind": "pulse", "start": 10, "width": 3, "dseed": 1, "a": 1.0, "b": 0.0},
                {"n": 46, "kind": "boxcar", "nbmax": 8, "sf": 1.5, "dkind": "boxcar", "start": 0, "width": 2, "dseed": 1, "a": 1.0, "b": 0.0}]

    # ------------------------------------------------------------------
    def observe(self, case):
        from sigpyproc.core import kernels as K
        from sigpyproc.core.filters import MatchedFilter

        x = make_data(case)
        try:
            mf = MatchedFilter(x, temp_kind=case["kind"], nbins_max=case["nbmax"], spacing_factor=case["sf"])
            # another filter of the same shape (same bank, same length, other data) is built BEFORE the first one is
            # looked at: the responses of an object must be its own, whatever was filtered afterwards
            decoy = MatchedFilter(np.roll(x[::-1].copy(), 3) * np.float32(1.5) + np.float32(2.0), temp_kind=case["kind"],
                                  nbins_max=case["nbmax"], spacing_factor=case["sf"])
            del decoy
            res = {"convs": [[float(v) for v in r] for r in mf.convs], "snr": float(mf.snr), "peak": int(mf.peak_bin),
                   "bestw": float(mf.best_temp.width), "z": [float(v) for v in mf.zscores.data],
                   "temps": [{"data": [float(v) for v in t.data], "ref": int(t.ref_bin), "w": float(t.width)} for t in mf.temp_bank],
                   "onpulse": [int(v) for v in mf.on_pulse], "goodsize": int(K.nb_fft_good_size(len(x), True))}
            if case["a"] != 1.0 or case["b"] != 0.0:
                mf2 = MatchedFilter((case["a"] * x + case["b"]).astype(np.float32), temp_kind=case["kind"],
                                    nbins_max=case["nbmax"], spacing_factor=case["sf"])
                res["convs2"] = [[float(v) for v in r] for r in mf2.convs]
                res["peak2"], res["bestw2"] = int(mf2.peak_bin), float(mf2.best_temp.width)
            return res
        except Exception as e:  # noqa: BLE001
            import traceback
            return {"err": exc_name(e), "msg": traceback.format_exc()[-300:]}

    # ------------------------------------------------------------------
    def oracle(self, case, obs):
        n = case["n"]
        if "err" in obs and "is larger than the data size" in obs.get("msg", ""):
            return None    # a template bank wider than the series is refused up front
        if "err" in obs:
            return f"MatchedFilter on {n} samples ({case['kind']}) raised {obs['err']}: {obs['msg'][-160:]}"
        z = np.array(obs["z"], dtype=np.float64)
        convs = np.array(obs["convs"])
        znorm = float(np.linalg.norm(z)) + 1e-30
        tol = 2e-5 * (2 + math.log2(n)) * znorm + 1e-5
        for i, t in enumerate(obs["temps"]):
            tp = np.zeros(n)
            tp[:len(t["data"])] = t["data"]
            tp = tp - tp.mean()
            nr = np.linalg.norm(tp)
            tn = tp / nr if nr else tp
            # response at bin u: template rolled so that its reference bin sits at u
            want = np.array([float(np.dot(z, np.roll(tn, u - t["ref"]))) for u in range(n)])
            d = np.abs(convs[i] - want)
            if d.max() > tol:
                u = int(np.argmax(d))
                return (f"n={n} (fft size {obs['goodsize']}), template width {t['w']}: response at bin {u} is "
                        f"{convs[i][u]:.5f}, the normalised correlation is {want[u]:.5f}")
        it, pk = np.unravel_index(int(np.argmax(convs)), convs.shape)
        if obs["peak"] != pk or abs(obs["snr"] - convs[it, pk]) > 0 or obs["bestw"] != obs["temps"][it]["w"]:
            return f"reported (snr, peak, width) = ({obs['snr']}, {obs['peak']}, {obs['bestw']}) is not the argmax of the responses"
        if "convs2" in obs:
            c2 = np.array(obs["convs2"])
            if np.abs(c2 - convs).max() > 5e-4 * (np.abs(convs).max() + 1):
                return f"responses change under x -> {case['a']}*x + {case['b']}"
        if case["dkind"] == "boxcar":
            if obs["peak"] != case["start"] or obs["bestw"] != case["width"]:
                return (f"noiseless boxcar (start {case['start']}, width {case['width']}, n={n}) recovered at bin "
                        f"{obs['peak']} with width {obs['bestw']}")
            want = [case["start"], case["start"] + case["width"]]
            if obs["onpulse"] != want:
                return (f"noiseless boxcar (start {case['start']}, width {case['width']}, n={n}): on-pulse region "
                        f"{obs['onpulse']}, the pulse occupies the half-open range {want}")
        return None

    # ------------------------------------------------------------------ model
    @staticmethod
    def _q(x):
        from fractions import Fraction
        f = Fraction(float(x))
        return f"{f.numerator}/{f.denominator}"

    def model_requests(self, case, obs):
        if "err" in obs:
            return []
        n = case["n"]
        reqs = []
        if n <= 46:
            z = " ".join(self._q(v) for v in obs["z"])
            for t in obs["temps"][:3]:
                tp = np.zeros(n)
                tp[:len(t["data"])] = t["data"]
                mu = tp.mean()
                sg = float(np.linalg.norm(tp - mu)) or 1.0
                reqs.append(f"C13 resp {n} {len(t['data'])} {t['ref']} {self._q(mu)} {self._q(sg)} {z} "
                            f"{' '.join(self._q(v) for v in t['data'])}")
        rows = len(obs["convs"])
        reqs.append(f"C13 peak {rows} {n} {' '.join(self._q(v) for r in obs['convs'] for v in r)}")
        return reqs

    def model_compare(self, case, obs, answers):
        from fractions import Fraction
        if not answers:
            return None
        n = case["n"]
        z = np.array(obs["z"])
        tol = 2e-5 * (2 + math.log2(n)) * (float(np.linalg.norm(z)) + 1e-30) + 1e-5
        for i, a in enumerate(answers[:-1]):
            body = a[3:]
            resp = [float(Fraction(v)) for v in body.split("|")[0].split()]
            corr = [float(Fraction(v)) for v in body.split("|")[1].split()]
            if max(abs(x - y) for x, y in zip(resp, corr)) > 1e-9 * (1 + max(map(abs, corr))):
                return f"model: pipeline response differs from the correlation form (template {i})"
            if max(abs(x - y) for x, y in zip(resp, obs["convs"][i])) > tol:
                return f"template {i}: impl responses differ from the exact model"
        t = answers[-1].split()
        it, pk = int(t[1]), int(t[2])
        if pk != obs["peak"] or obs["temps"][it]["w"] != obs["bestw"]:
            return f"argmax: impl (peak {obs['peak']}, width {obs['bestw']}) vs model (template {it}, peak {pk})"
        return None

    def regime(self, case, obs):
        if obs.get("temps") and max(len(t["data"]) for t in obs["temps"]) == case["n"]:
            return "ring-filled"          # the widest template is exactly as long as the series
        if case["a"] != 1.0 or case["b"] != 0.0:
            return "affine"
        if case["dkind"] == "boxcar":
            return "boxcar-edge" if case["start"] in (0, case["n"] - case["width"]) else "boxcar-inside"
        g = obs.get("goodsize", case["n"])
        if g % 2:
            return "odd-goodsize"
        return "good-length" if g == case["n"] else "bad-length"

    def nontrivial(self, case, obs):
        return len(obs.get("temps", [])) >= 2


PROP = C13()

"""C01 — gulped reading delivers every requested sample exactly once, in order."""
from __future__ import annotations

import numpy as np

import common
import spfiles
from .base import Prop, exc_name

DEPTHS = (1, 2, 4, 8, 16, 32)


def make_stream(case, d):
    """Write the file set for a case; returns (filenames, data (N, C))."""
    import random

    rng = random.Random(case["dseed"])
    data = spfiles.rand_data(rng, case["N"], case["C"], case["nbits"])
    files = spfiles.write_fil_set(d, data, case["nbits"], case["splits"])
    return files, data


class C01(Prop):
    id = "C01"
    rule = ("structured (gulp,start,nsamps,skipback) requests over tiny real SIGPROC file sets (depths 1..32, "
            "1-3 files) drawn per regime; thorough adds the full lattice N<=12. Non-trivial = plan accepted with "
            ">=2 blocks or rejected; distinct by (depth,C,N,splits,g,s,n,k).")
    assumptions = ["the yielded array is a view of a reused buffer: the harness copies on receipt",
                   "requests with start+nsamps>N are outside the property's quantifier (compared with the model, "
                   "not judged by the oracle)"]
    regimes_expected = ["gulp>=n", "gulp|n", "lastread<skipback", "skipback=0", "skipback<=g/2", "g/2<skipback<g",
                        "skipback>=g", "ends-before-eof", "start>0", "multi-file", "partial-last"]
    budget_s = (90, 1200)

    def _case(self, rng, N=None):
        nbits = rng.choice(DEPTHS)
        cmul = {1: 8, 2: 4, 4: 2}.get(nbits, 1)
        C = cmul * rng.choice((1, 1, 2, 3))
        N = N if N is not None else rng.choice((1, 2, 3, 5, 8, 10, 13, 20, 31, 40))
        nfiles = rng.choice((1, 1, 2, 3))
        splits = spfiles.splits_of(rng, N, min(nfiles, max(1, N)))
        s = rng.choice((0, 0, rng.randrange(0, N)))
        nmax = N - s
        n = rng.choice((nmax, nmax, rng.randint(1, nmax), rng.randint(1, nmax)))
        if rng.random() < 0.04:
            n = 0                       # an explicit empty range: nothing may be delivered (rejected up front)
        mode = rng.randrange(10)
        g = rng.randint(1, max(1, n + 2))
        if mode == 0:
            g = n + rng.randint(0, 3)
        elif mode == 1:
            divs = [x for x in range(1, n + 1) if n % x == 0]
            g = rng.choice(divs or [1])
        ge = min(n, g)
        kmode = rng.randrange(8)
        if kmode <= 1:
            k = 0
        elif kmode <= 4:
            k = rng.randint(0, ge // 2)
        elif kmode == 5:
            k = ge // 2
        elif kmode == 6:
            k = rng.randint(ge // 2, max(ge // 2, ge - 1))
        else:
            k = ge + rng.randint(0, 2)
        return {"nbits": nbits, "C": C, "N": N, "splits": splits, "g": g, "s": s, "n": n, "k": k,
                "dseed": rng.randrange(1 << 30), "none_n": bool(n == nmax and rng.random() < 0.5),
                # a plan is a description of a read: creating it and iterating it need not be adjacent
                "defer": rng.choice((None, None, None, "block", "plan"))}

    def corpus(self):
        base = {"nbits": 8, "C": 1, "dseed": 1, "none_n": False}
        return [
            dict(base, N=20, splits=[20], g=4, s=0, n=6, k=0),       # F1: partial last block before EOF
            dict(base, N=12, splits=[12], g=4, s=0, n=10, k=3),      # F2: unhonourable plan
            dict(base, N=20, splits=[7, 13], g=4, s=3, n=10, k=1),
            dict(base, N=20, splits=[7, 6, 7], g=5, s=2, n=17, k=2),
        ]

    def gen(self, rng, tier):
        cases = [self._case(rng) for _ in range(400 if tier == "quick" else 3000)]
        if tier == "thorough":
            for nbits, C, splits_f in ((8, 1, lambda N: [N]), (2, 4, lambda N: [N // 2, N - N // 2]),
                                       (32, 2, lambda N: [N])):
                for N in range(1, 11):
                    for s in range(0, N):
                        for n in range(1, N - s + 1):
                            for g in range(1, n + 2):
                                for k in range(0, min(n, g) + 1):
                                    cases.append({"nbits": nbits, "C": C, "N": N, "splits": splits_f(N), "g": g,
                                                  "s": s, "n": n, "k": k, "dseed": N * 7 + 1, "none_n": False})
        return cases

    def search(self, rng, tier):
        # dense small lattice on one 8-bit file: reaches every plan regime
        cases = []
        for N in range(1, 12):
            for s in range(0, min(N, 3)):
                for n in range(1, N - s + 1):
                    for g in range(1, n + 2):
                        for k in range(0, min(n, g) + 1):
                            cases.append({"nbits": 8, "C": 1, "N": N, "splits": [N], "g": g, "s": s, "n": n, "k": k,
                                          "dseed": 3, "none_n": False})
        rng.shuffle(cases)
        return cases + [self._case(rng) for _ in range(500)]

    # ------------------------------------------------------------------
    def observe(self, case):
        from sigpyproc.readers import FilReader

        d = common.tmpdir()
        files, data = make_stream(case, d)
        obs = {"blocks": [], "err": None}
        try:
            fil = FilReader(files if len(files) > 1 else files[0])
        except Exception as e:  # noqa: BLE001
            return {"blocks": [], "err": {"cls": exc_name(e), "after": 0, "phase": "open"}}
        if fil.header.nsamples != case["N"]:
            return {"blocks": [], "err": {"cls": "nsamples-mismatch", "after": 0, "phase": "open"}}
        n = None if case["none_n"] else case["n"]
        try:
            plan = fil.read_plan(gulp=case["g"], start=case["s"], nsamps=n, skipback=case["k"], quiet=True)
            if case.get("defer") == "block" and case["N"] >= 1:
                fil.read_block(case["N"] - 1, 1)        # the reader is used for something else before the plan is iterated
            elif case.get("defer") == "plan":
                other = fil.read_plan(gulp=3, start=case["N"] // 2, nsamps=None, quiet=True)
                next(iter(other), None)                 # ... e.g. a second plan, prepared and started in between
            for nsamps_r, ii, arr in plan:
                obs["blocks"].append({"nr": int(nsamps_r), "ii": int(ii),
                                      "vals": [int(x) for x in np.array(arr, copy=True)]})
        except Exception as e:  # noqa: BLE001
            obs["err"] = {"cls": exc_name(e), "after": len(obs["blocks"])}
        finally:
            fil._file.close()
        return obs

    # ------------------------------------------------------------------
    def model_requests(self, case, obs):
        return [f"C01 run {case['g']} {case['s']} {case['n']} {case['k']} {case['N']}"]

    def model_compare(self, case, obs, answers):
        import random

        a = answers[0].split()
        if a[0] != "run":
            return f"model answered {answers[0][:60]}"
        m = int(a[1])
        nums = list(map(int, a[2:2 + 3 * m]))
        err = a[2 + 3 * m]
        rng = random.Random(case["dseed"])
        data = spfiles.rand_data(rng, case["N"], case["C"], case["nbits"])
        C = case["C"]
        if len(obs["blocks"]) != m:
            return f"impl yielded {len(obs['blocks'])} blocks, model {m} (model err {err}, impl err {obs['err']})"
        for j, b in enumerate(obs["blocks"]):
            ii, off, ln = nums[3 * j:3 * j + 3]
            want = [int(x) for x in data[off:off + ln].ravel()]
            if b["ii"] != ii or b["nr"] != ln or b["vals"] != want:
                return f"block {j}: impl (ii={b['ii']}, nr={b['nr']}, {len(b['vals'])} vals) vs model (ii={ii}, off={off}, len={ln})"
        ie = obs["err"]["cls"] if obs["err"] else "none"
        if ie != err:
            return f"impl error {obs['err']} vs model {err}"
        return None

    # ------------------------------------------------------------------
    def oracle(self, case, obs):
        import random

        g, s, n, k, N, C = case["g"], case["s"], case["n"], case["k"], case["N"], case["C"]
        if not (g >= 1 and 0 <= s and s + n <= N and k >= 0):
            return None  # outside the quantifier
        ge = min(n, g)
        e = obs["err"]
        if e is not None:
            if e["cls"] != "ValueError" or e["after"] != 0:
                return f"error {e['cls']} after {e['after']} yielded block(s): plans must be rejected with ValueError before anything is yielded"
            if n > 0 and 2 * k <= ge:
                return f"plan with skipback {k} <= half the effective gulp {ge} was rejected"
            return None
        if k >= ge:
            return f"plan with skipback {k} >= effective gulp {ge} was accepted"
        rng = random.Random(case["dseed"])
        data = spfiles.rand_data(rng, N, C, case["nbits"])
        want = [int(x) for x in data[s:s + n].ravel()]
        got: list[int] = []
        for j, b in enumerate(obs["blocks"]):
            if len(b["vals"]) % C:
                return f"block {j} holds {len(b['vals'])} values, not a whole number of samples"
            ns = len(b["vals"]) // C
            if ns > g or ns == 0:
                return f"block {j} holds {ns} samples (gulp {g})"
            if b["nr"] != ns:
                return f"block {j} reports {b['nr']} samples but holds {ns}"
            if j > 0 and b["vals"][:k * C] != obs["blocks"][j - 1]["vals"][len(obs["blocks"][j - 1]["vals"]) - k * C:][:k * C] \
                    and len(obs["blocks"][j - 1]["vals"]) >= k * C:
                return (f"block {j}: its leading {k} samples do not repeat the tail of block {j - 1} "
                        f"(gulp {g}, start {s}, nsamps {n}, files {case['splits']})")
            got.extend(b["vals"] if j == 0 else b["vals"][k * C:])
        if got != want:
            i = next((i for i, (x, y) in enumerate(zip(got, want)) if x != y), min(len(got), len(want)))
            return (f"laid end to end the blocks give {len(got) // C} samples, want {n}; first difference at "
                    f"value {i} (sample {i // C})")
        return None

    def regime(self, case, obs):
        """every regime the case belongs to (a case usually exercises several)"""
        g, n, k = case["g"], case["n"], case["k"]
        ge = min(n, g)
        tags = []
        if k >= ge:
            return ["skipback>=g"]
        st = ge - k
        if k == 0:
            tags.append("skipback=0")
        elif 2 * k > ge:
            tags.append("g/2<skipback<g")
        else:
            tags.append("skipback<=g/2")
        if k and n % st < k:
            tags.append("lastread<skipback")
        if case["s"] + n < case["N"] and n % st:
            tags.append("ends-before-eof")
        if len(case["splits"]) > 1:
            tags.append("multi-file")
        if g >= n:
            tags.append("gulp>=n")
        if case["s"] > 0:
            tags.append("start>0")
        if g < n and n % st == 0:
            tags.append("gulp|n")
        if g < n and n % st:
            tags.append("partial-last")
        return tags

    def nontrivial(self, case, obs):
        return len(obs["blocks"]) >= 2 or obs["err"] is not None

    def key(self, case):
        return str((case["nbits"], case["C"], case["N"], tuple(case["splits"]), case["g"], case["s"], case["n"], case["k"]))

    def shrink(self, failing):
        best = failing
        c = dict(failing["case"])
        for field in ("splits", "nbits", "C", "s", "N", "g", "k", "n"):
            for cand in self._smaller(c, field):
                obs = self.observe(cand)
                o = self.oracle(cand, obs)
                if o:
                    c = cand
                    best = {"case": cand, "obs": obs, "oracle": o}
                    break
        return best

    def _smaller(self, c, field):
        out = []
        if field == "splits" and len(c["splits"]) > 1:
            out.append(dict(c, splits=[c["N"]]))
        if field == "nbits" and c["nbits"] != 8:
            out.append(dict(c, nbits=8, C=1))
        if field == "C" and c["nbits"] >= 8 and c["C"] > 1:
            out.append(dict(c, C=1))
        if field == "s" and c["s"] > 0:
            out.append(dict(c, s=0, N=c["N"] - c["s"], splits=[c["N"] - c["s"]] if len(c["splits"]) == 1 else c["splits"]))
        if field == "N" and c["s"] + c["n"] < c["N"] and len(c["splits"]) == 1:
            out.append(dict(c, N=c["s"] + c["n"] + 1, splits=[c["s"] + c["n"] + 1]))
        return [x for x in out if sum(x["splits"]) == x["N"]]


PROP = C01()

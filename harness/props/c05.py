"""C05 — SIGPROC headers survive encode/parse; in-place edits touch only their key."""
from __future__ import annotations

import math
import random
import struct

import numpy as np

import common
import spfiles
from .base import Prop, exc_name

KEYS = {"signed": "b", "telescope_id": "I", "ibeam": "I", "nbeams": "I", "refdm": "d", "nifs": "I", "nchans": "I",
        "foff": "d", "fch1": "d", "nbits": "I", "tsamp": "d", "tstart": "d", "src_dej": "d", "src_raj": "d",
        "za_start": "d", "az_start": "d", "source_name": "str", "rawdatafile": "str", "data_type": "I",
        "machine_id": "I", "barycentric": "I", "pulsarcentric": "I"}
TELESCOPES = {"Fake": 0, "Arecibo": 1, "Ooty": 2, "Nancay": 3, "Parkes": 4, "Jodrell": 5, "GBT": 6, "GMRT": 7,
              "Effelsberg": 8, "Effelsberg LOFAR": 9, "SRT": 10, "LOFAR": 11, "VLA": 12, "CHIME": 20, "MWA": 30,
              "MeerKAT": 64}
MACHINES = {"FAKE": 0, "PSPM": 1, "WAPP": 2, "AOFTM": 3, "BPP": 4, "OOTY": 5, "SCAMP": 6, "GMRTFB": 7,
            "PULSAR2000": 8, "PARSPEC": 9, "BPSR": 10, "COBALT": 11, "GMRTNEW": 14, "CHIME": 20, "MWA-VCS": 30,
            "MWAX-VCS": 31, "MWAX-RTB": 32}


def d2h(x: float) -> str:
    return struct.pack("<d", x).hex()


def rand_double(rng):
    r = rng.random()
    if r < 0.2:
        return float(rng.randrange(-1000, 1000))
    if r < 0.4:
        return rng.uniform(-1e3, 1e3)
    if r < 0.5:
        return rng.choice((0.0, -0.0, 1e-300, 1e300, -1.5e-7, 5e-324, 1.7976931348623157e308))
    return struct.unpack("<d", struct.pack("<Q", rng.getrandbits(64) & 0x7FEFFFFFFFFFFFFF | (rng.getrandbits(1) << 63)))[0]


def rand_str(rng):
    n = rng.choice((0, 1, 3, 8, 20, 80, 81, 120, 255, 256, 700))      # no length limit in the format: an archive path can be long
    s = "".join(rng.choice("abcXYZ019_-+. /") for _ in range(n))
    if rng.random() < 0.25:
        # file names in the wild spell out parameters: a string VALUE may contain the name of any header key (and the
        # framing words); a codec must find fields by structure, never by searching for a key's bytes
        words = rng.sample(sorted(KEYS) + ["HEADER_END", "HEADER_START"], rng.randint(1, 3))
        s = s[:10] + "_".join(f"{w}{rng.randrange(100)}" for w in words) + ".raw"
    return s


class C05(Prop):
    id = "C05"
    rule = ("(a) random well-formed headers (any subset/order of the 22 keys, extreme doubles as bit patterns, empty/"
            "long strings) through encode_header/parse_header, byte-exact; (b) random Header objects (all frames, all "
            "telescope/machine ids, sky positions incl. |dec|<1deg and near rollover) through prep_outfile/"
            "from_sigproc; (c) valid and invalid in-place edits with whole-file comparison. Non-trivial = >=4 keys, "
            "or a physical round trip, or an edit; distinct by full case.")
    assumptions = ["astropy's sexagesimal string formatting/parsing and float64 DDMMSS.S representation are validated "
                   "to 0.01 arcsec, not proved", "strings are ASCII"]
    regimes_expected = ["codec", "phys-topo", "phys-bary", "phys-pulsar", "phys-south-small", "edit-valid",
                        "edit-invalid-key", "edit-length-change", "edit-bad-type"]
    budget_s = (120, 900)

    # ------------------------------------------------------------------ gen
    def _codec_case(self, rng):
        keys = [k for k in KEYS if k not in ("nbits", "nchans") and rng.random() < 0.6]
        keys += ["nbits", "nchans"]
        rng.shuffle(keys)
        kvs = []
        for k in keys:
            f = KEYS[k]
            if k == "nbits":
                v = rng.choice((1, 2, 4, 8, 16, 32))
            elif k == "nchans":
                v = rng.choice((1, 2, 8, 64, 4096))
            elif f == "I":
                v = rng.choice((0, 1, 7, 255, 256, 65535, 2 ** 32 - 1, rng.randrange(2 ** 32)))
            elif f == "b":
                v = rng.choice((0, 1, -1, 127, -128))
            elif f == "d":
                v = d2h(rand_double(rng))
            else:
                v = rand_str(rng)
            kvs.append([k, f, v])
        return {"kind": "codec", "kvs": kvs, "ndata": rng.choice((0, 1, 17, 64))}

    def _phys_case(self, rng):
        frame = rng.choice(("topocentric", "barycentric", "pulsarcentric"))
        mode = rng.randrange(6)
        if mode == 0:   # |dec| < 1 deg, south
            dec = [-1, 0, rng.randrange(60), rng.randrange(0, 600000) / 10000]
        elif mode == 1:
            dec = [1, 0, rng.randrange(60), rng.randrange(0, 600000) / 10000]
        elif mode == 2:  # near rollover
            dec = [rng.choice((1, -1)), rng.randrange(0, 90), 59, rng.choice((59.9999, 59.99996, 59.5, 0.0))]
        else:
            dec = [rng.choice((1, -1)), rng.randrange(0, 90), rng.randrange(60), rng.randrange(0, 600000) / 10000]
        if mode == 2:
            ra = [rng.randrange(24), 59, rng.choice((59.9999, 59.99996, 59.99999, 0.0))]
        else:
            ra = [rng.randrange(24), rng.randrange(60), rng.randrange(0, 600000) / 10000]
        return {"kind": "phys", "frame": frame, "ra": ra, "dec": dec,
                "telescope": rng.choice(list(TELESCOPES) + ["Unknown Dish"]),
                "backend": rng.choice(list(MACHINES) + ["MYSTERY"]),
                "nchans": rng.choice((1, 8, 64, 1024)), "foff": rng.choice((-4.0, -0.1, 0.390625, -1 / 3, 1.0)),
                "fch1": rng.choice((1500.0, 1382.3, 433.968, 800.1953125)), "nbits": rng.choice((1, 2, 4, 8, 16, 32)),
                "tsamp": rng.choice((64e-6, 1e-3, 5.12e-5, 0.000327680)),
                "tstart": rng.choice((58000.0, 55041.5, 60123.123456789, 59999.99999999)),
                "source": rng.choice(("J0437-4715", "B0329+54", "", "x" * 40, "field_" + "y" * 90)),
                "az": rng.uniform(0, 360), "za": rng.uniform(0, 90), "aunit": rng.choice(("deg", "deg", "rad", "hourangle", "arcmin")),
                "ibeam": rng.randrange(0, 14),
                "nbeams": rng.randrange(0, 14), "dm": rng.choice((0.0, 2.64476, 1234.5)), "nifs": rng.choice((1, 2, 4)),
                "signed": rng.choice((False, True))}

    def _edit_case(self, rng):
        base = self._codec_case(rng)
        kvs = base["kvs"]
        if not any(k == "source_name" for k, _, _ in kvs) and rng.random() < 0.7:
            kvs.append(["source_name", "str", "PSR_J0000"])
        r = rng.random()
        present = [k for k, _, _ in kvs]
        if r < 0.15 and len(present) > 2:
            # a string value that names a later key, then an edit of that key
            strs = [i for i, (k, f, _) in enumerate(kvs) if f == "str"]
            if not strs:
                kvs.insert(0, ["rawdatafile", "str", "x"])
                strs = [0]
                present = [k for k, _, _ in kvs]
            i = rng.choice(strs)
            later = [k for k, f, _ in kvs[i + 1:] if f != "str"]
            if later:
                key = rng.choice(later)
                kvs[i][2] = f"obs_{key}{rng.randrange(100)}_beam2.raw"
            else:
                key = rng.choice(present)
        elif r < 0.5:
            key = rng.choice(present)
        elif r < 0.7:
            key = rng.choice([k for k in KEYS if k not in present] or present)
        else:
            key = rng.choice(("bogus", "nsamples", "HEADER_END", ""))
        f = KEYS.get(key, "I")
        r = rng.random()
        if f == "str":
            val = ["s", rand_str(rng)]
        elif f == "d":
            val = ["d", d2h(rand_double(rng))] if r < 0.8 else ["s", "oops"]
        elif f == "b":
            val = ["i", rng.choice((0, 1, -1, 127, 128, -129))] if r < 0.8 else ["s", "x"]
        else:
            val = ["i", rng.choice((0, 5, 2 ** 32 - 1, 2 ** 32, -1, rng.randrange(2 ** 32)))] if r < 0.8 else \
                  rng.choice((["d", d2h(1.5)], ["s", "str"]))
        return {"kind": "edit", "kvs": kvs, "ndata": rng.choice((0, 5, 64)), "key": key, "val": val}

    def corpus(self):
        ph = {"kind": "phys", "frame": "pulsarcentric", "ra": [0, 42, 30.1234], "dec": [-1, 0, 12, 0.1234],
              "telescope": "Parkes", "backend": "BPSR", "nchans": 8, "foff": -0.1, "fch1": 1382.3, "nbits": 8,
              "tsamp": 64e-6, "tstart": 58000.0, "source": "J0437-4715", "az": 10.5, "za": 20.25, "ibeam": 3,
              "nbeams": 13, "dm": 2.64476, "nifs": 1, "signed": False}
        return [ph, dict(ph, frame="barycentric", dec=[1, 41, 12, 0.1234])]

    def gen(self, rng, tier):
        n = 1 if tier == "quick" else 8
        return ([self._codec_case(rng) for _ in range(150 * n)] + [self._phys_case(rng) for _ in range(120 * n)]
                + [self._edit_case(rng) for _ in range(150 * n)])

    # ------------------------------------------------------------------ impl
    @staticmethod
    def _pyval(f, v):
        return struct.unpack("<d", bytes.fromhex(v))[0] if f == "d" else v

    def observe(self, case):
        from sigpyproc.io import sigproc

        d = common.tmpdir()
        if case["kind"] == "codec":
            hdr = {k: self._pyval(f, v) for k, f, v in case["kvs"]}
            try:
                enc = sigproc.encode_header(hdr)
            except Exception as e:  # noqa: BLE001
                return {"err": "encode:" + exc_name(e)}
            p = d / "h.fil"
            data = bytes(range(256))[: case["ndata"]] * 1
            p.write_bytes(enc + data)
            try:
                ph = sigproc.parse_header(p)
            except Exception as e:  # noqa: BLE001
                return {"enc": enc.hex(), "err": "parse:" + exc_name(e)}
            parsed = []
            for k, v in ph.items():
                if k in KEYS:
                    parsed.append([k, KEYS[k], d2h(v) if KEYS[k] == "d" else v])
            re_enc = sigproc.encode_header(ph)
            return {"enc": enc.hex(), "parsed": parsed, "hdrlen": int(ph["hdrlen"]), "reenc": re_enc.hex(),
                    "nsamples": int(ph["nsamples"])}
        if case["kind"] == "phys":
            return self._observe_phys(case, d)
        return self._observe_edit(case, d)

    def _observe_phys(self, case, d):
        from astropy import units
        from astropy.coordinates import Angle, SkyCoord

        from sigpyproc.header import Header

        ra, dec = case["ra"], case["dec"]
        sgn = "-" if dec[0] < 0 else "+"
        coord = SkyCoord(f"{ra[0]}h{ra[1]}m{ra[2]}s", f"{sgn}{dec[1]}d{dec[2]}m{dec[3]}s")
        try:
            h = Header(filename="x.fil", data_type="filterbank", nchans=case["nchans"], foff=case["foff"],
                       fch1=case["fch1"], nbits=case["nbits"], tsamp=case["tsamp"], tstart=case["tstart"],
                       nsamples=0, nifs=case["nifs"], coord=coord,
                       # the pointing angles are `Angle`s of ANY unit; what is written is their value in degrees
                       azimuth=Angle(case["az"] * units.deg).to(getattr(units, case.get("aunit", "deg"))),
                       zenith=Angle(case["za"] * units.deg).to(getattr(units, case.get("aunit", "deg"))), telescope=case["telescope"], backend=case["backend"],
                       source=case["source"], frame=case["frame"], ibeam=case["ibeam"], nbeams=case["nbeams"],
                       dm=case["dm"], signed=case["signed"])
            p = d / "o.fil"
            w = h.prep_outfile(str(p))
            w.close()
            g = Header.from_sigproc(str(p))
        except Exception as e:  # noqa: BLE001
            return {"err": exc_name(e), "msg": str(e)[:200]}
        sep = float(coord.separation(g.coord).arcsec)
        raw = dict(self._parse(p.read_bytes())[0])
        return {"nchans": g.nchans, "foff": d2h(g.foff), "fch1": d2h(g.fch1), "nbits": g.nbits, "tsamp": d2h(g.tsamp),
                "tstart": d2h(g.tstart), "source": g.source, "sep_arcsec": sep, "dec_deg": float(g.coord.dec.deg),
                "az": float(g.azimuth.deg), "za": float(g.zenith.deg), "telescope": g.telescope,
                "backend": g.backend, "ibeam": g.ibeam, "nbeams": g.nbeams, "dm": d2h(float(g.dm)), "frame": g.frame,
                "nifs": g.nifs, "data_type": g.data_type, "signed": bool(g.signed),
                "raw": {"pulsarcentric": raw.get("pulsarcentric"), "barycentric": raw.get("barycentric"),
                        "telescope_id": raw.get("telescope_id"), "machine_id": raw.get("machine_id"),
                        "src_raj": struct.unpack("<d", bytes.fromhex(raw["src_raj"]))[0],
                        "src_dej": struct.unpack("<d", bytes.fromhex(raw["src_dej"]))[0]}}

    def _observe_edit(self, case, d):
        from sigpyproc.io import sigproc

        hdr = spfiles.encode_header([(k, f, self._pyval(f, v)) for k, f, v in case["kvs"]])
        data = bytes((i * 7 + 3) % 256 for i in range(case["ndata"]))
        p = d / "e.fil"
        p.write_bytes(hdr + data)
        t, v = case["val"]
        val = self._pyval("d", v) if t == "d" else v
        try:
            sigproc.edit_header(p, case["key"], val)
            res = {"ok": True}
        except Exception as e:  # noqa: BLE001
            res = {"ok": False, "err": exc_name(e)}
        res["before"] = (hdr + data).hex()
        res["after"] = p.read_bytes().hex()
        res["hdrlen"] = len(hdr)
        return res

    # ------------------------------------------------------------------ model
    @staticmethod
    def _hx(s):
        b = s if isinstance(s, bytes) else s.encode()
        return b.hex() if b else "-"

    def _kv_tokens(self, kvs):
        out = []
        for k, f, v in kvs:
            out += [self._hx(k), f, self._hx(v) if f == "str" else str(v)]
        return " ".join(out)

    def model_requests(self, case, obs):
        if case["kind"] == "codec":
            reqs = [f"C05 enc {self._kv_tokens(case['kvs'])}"]
            if "enc" in obs:
                data = bytes(range(256))[: case["ndata"]]
                reqs.append(f"C05 parse {obs['enc']}{data.hex()}")
            return reqs
        if case["kind"] == "phys":
            from fractions import Fraction
            dec, ra = case["dec"], case["ra"]
            sd = Fraction(round(dec[3] * 10000), 10000)
            sr = Fraction(round(ra[2] * 10000), 10000)
            return [f"C05 frame {case['frame']}", f"C05 ids {self._hx(case['telescope'])} {self._hx(case['backend'])}",
                    f"C05 radec {1 if dec[0] < 0 else 0} {dec[1]} {dec[2]} {sd.numerator} {sd.denominator}",
                    f"C05 radec 0 {ra[0]} {ra[1]} {sr.numerator} {sr.denominator}"]
        t, v = case["val"]
        tok = {"i": lambda: str(v), "d": lambda: v, "s": lambda: self._hx(v)}[t]()
        return [f"C05 edit {obs['before']} {self._hx(case['key'])} {t} {tok}"]

    def model_compare(self, case, obs, answers):
        """the hand model's answer, then the outcome of the TRANSLATED codec on the same request (`| gen …`): the
        translated source must succeed exactly when the implementation does and agree with the hand model"""
        gens = [a.split(" | gen ")[1] if " | gen " in a else None for a in answers]
        answers = [a.split(" | gen ")[0] for a in answers]
        hand = self._hand_compare(case, obs, answers)
        if hand is not None:
            return hand
        impl_ok = ("enc" in obs, "parsed" in obs) if case["kind"] == "codec" else \
            (True, True, True, True) if case["kind"] == "phys" else (obs.get("ok", False),)
        for g, ok in zip(gens, impl_ok):
            if g is None:
                if case["kind"] == "phys":
                    continue                       # the id tables are tied by Generated.Tables, not by the codec
                return "driver gave no answer for the translated codec"
            if case["kind"] == "phys" and "err" in obs:
                continue
            if ok and g != "ok same":
                return f"translated codec (Generated.SigprocCodec): {g}, implementation succeeded"
            if not ok and g.startswith("ok"):
                return f"translated codec (Generated.SigprocCodec) succeeds ({g}), implementation raised"
        return None

    def _hand_compare(self, case, obs, answers):
        from fractions import Fraction
        if case["kind"] == "codec":
            a = answers[0].split()
            if "enc" not in obs:
                return f"impl {obs.get('err')} vs model {answers[0][:40]}"
            if a[0] != "ok" or a[1] != obs["enc"]:
                return "encode_header bytes differ from the model's"
            p = answers[1].split()
            if "parsed" not in obs:
                return None if p[0] == "err" else f"impl {obs['err']} vs model parse ok"
            if p[0] != "ok" or int(p[1]) != obs["hdrlen"]:
                return f"parse: impl hdrlen {obs['hdrlen']} vs model {answers[1][:40]}"
            toks = p[3:]
            got = []
            for i in range(0, len(toks), 3):
                k = bytes.fromhex(toks[i]).decode() if toks[i] != "-" else ""
                f, v = toks[i + 1], toks[i + 2]
                if f == "str":
                    v = bytes.fromhex(v).decode() if v != "-" else ""
                elif f in ("I", "b"):
                    v = int(v)
                got.append([k, f, v])
            return None if got == obs["parsed"] else f"parse: impl {obs['parsed'][:2]} vs model {got[:2]}"
        if case["kind"] == "phys":
            if "err" in obs:
                return f"impl raised {obs['err']}"
            fr = answers[0].split()
            if [obs["raw"]["pulsarcentric"], obs["raw"]["barycentric"]] != [int(fr[1]), int(fr[2])] or obs["frame"] != fr[3]:
                return f"frame flags/read-back: impl {obs['raw']} {obs['frame']} vs model {answers[0]}"
            ids = answers[1].split()
            tn = bytes.fromhex(ids[3]).decode()
            mn = bytes.fromhex(ids[4]).decode()
            if [obs["raw"]["telescope_id"], obs["raw"]["machine_id"], obs["telescope"], obs["backend"]] != \
                    [int(ids[1]), int(ids[2]), tn, mn]:
                return f"ids: impl {obs['raw']} {obs['telescope']} {obs['backend']} vs model {answers[1]}"
            for which, ans, rawv in (("dec", answers[2], obs["raw"]["src_dej"]), ("ra", answers[3], obs["raw"]["src_raj"])):
                t = ans.split()
                v = Fraction(t[1])
                # astropy rounds the seconds to 4 decimals when formatting; a carry (59.99996 -> 60.0000) is its business
                if abs(Fraction(rawv) - v) > Fraction(1, 5000) and abs(case[which][-1] - round(case[which][-1], 4)) < 4e-5 \
                        and case[which][-1] < 59.9999:
                    return f"{which}: header holds {rawv}, model packs {float(v)}"
            t = answers[2].split()
            neg, d, m, sec = int(t[2]), int(t[3]), int(t[4]), Fraction(t[5])
            want = (-1 if neg else 1) * (d + Fraction(m, 60) + sec / 3600)
            if abs(Fraction(obs["dec_deg"]) - want) * 3600 > Fraction(1, 100) and case["dec"][3] < 59.9999:
                return f"dec read back {obs['dec_deg']} deg, model parse gives {float(want)}"
            return None
        a = answers[0].split()
        if a[0] == "ok":
            if not obs["ok"] or obs["after"] != (a[1] if a[1] != "-" else ""):
                return f"edit: model ok, impl {'ok but different bytes' if obs['ok'] else obs.get('err')}"
            return None
        if obs["ok"] or obs["err"] != a[1]:
            return f"edit: model err {a[1]}, impl {'ok' if obs['ok'] else obs['err']}"
        return None

    # ------------------------------------------------------------------ oracle
    def oracle(self, case, obs):
        if case["kind"] == "codec":
            if "err" in obs:
                return f"well-formed header: {obs['err']}"
            want = spfiles.encode_header([(k, f, self._pyval(f, v)) for k, f, v in case["kvs"]])
            if obs["enc"] != want.hex():
                return "encode_header bytes differ from the SIGPROC layout"
            if obs["parsed"] != case["kvs"]:
                return f"parse(encode(h)) != h: {obs['parsed'][:3]} vs {case['kvs'][:3]}"
            if obs["hdrlen"] != len(want) or obs["reenc"] != obs["enc"]:
                return "re-encoding the parsed header does not reproduce the original bytes"
            nb = dict((k, v) for k, _, v in case["kvs"])
            if obs["nsamples"] != 8 * case["ndata"] // nb["nbits"] // nb["nchans"]:
                return "nsamples inferred from file length is wrong"
            return None
        if case["kind"] == "phys":
            if "err" in obs:
                return f"writing/reading a Header raised {obs['err']}: {obs.get('msg')}"
            bad = []
            for k in ("nchans", "nbits", "source", "ibeam", "nbeams", "nifs"):
                if obs[k] != case[k]:
                    bad.append(f"{k}: {obs[k]!r} != {case[k]!r}")
            for k in ("foff", "fch1", "tsamp", "tstart", "dm"):
                if obs[k] != d2h(float(case[k])):
                    bad.append(f"{k}: not bit-identical")
            if obs["sep_arcsec"] > 0.01:
                bad.append(f"sky position off by {obs['sep_arcsec']:.4f} arcsec (dec read back {obs['dec_deg']:.6f} deg)")
            if abs(obs["az"] - case["az"]) > 1e-9 * (1 + case["az"]) or abs(obs["za"] - case["za"]) > 1e-9 * (1 + case["za"]):
                bad.append("pointing angles differ")
            if obs["telescope"] != (case["telescope"] if case["telescope"] in TELESCOPES else "Fake"):
                bad.append(f"telescope {obs['telescope']!r}")
            if obs["backend"] != (case["backend"] if case["backend"] in MACHINES else "FAKE"):
                bad.append(f"backend {obs['backend']!r}")
            if obs["frame"] != case["frame"]:
                bad.append(f"frame {obs['frame']!r} != {case['frame']!r}")
            return "; ".join(bad) or None
        # edit
        before, after, hl = bytes.fromhex(obs["before"]), bytes.fromhex(obs["after"]), obs["hdrlen"]
        if not obs["ok"]:
            return None if before == after else "edit_header raised but the file changed"
        if len(after) != len(before) or after[hl:] != before[hl:]:
            return "edit changed the header length or the data bytes"
        # the new header must parse to the old one with exactly `key` replaced
        old = self._parse(before)
        new = self._parse(after)
        if old is None or new is None or new[1] != hl:
            return "edited header does not parse / header length changed"
        key = case["key"]
        t, v = case["val"]
        okv = dict(old[0])
        nkv = dict(new[0])
        if set(nkv) - {key} != set(okv) - {key}:
            return "edit added or removed other keys"
        for k in okv:
            if k != key and okv[k] != nkv.get(k):
                return f"edit changed key {k}"
        if key not in nkv:
            return "edited key missing afterwards"
        f = KEYS[key]
        want = v
        if f == "str":
            if key == "source_name":
                ol = len(okv["source_name"])
                want = v[:ol] + " " * (ol - len(v))
        if nkv[key] != want:
            return f"edited key holds {nkv[key]!r}, want {want!r}"
        return None

    @staticmethod
    def _parse(b):
        """independent SIGPROC header parser"""
        pos = 0

        def rs():
            nonlocal pos
            n = struct.unpack_from("<I", b, pos)[0]
            pos += 4
            s = b[pos:pos + n].decode()
            pos += n
            return s
        try:
            if rs() != "HEADER_START":
                return None
            kvs = []
            while True:
                k = rs()
                if k == "HEADER_END":
                    return kvs, pos
                f = KEYS[k]
                if f == "str":
                    kvs.append((k, rs()))
                elif f == "I":
                    kvs.append((k, struct.unpack_from("<I", b, pos)[0])); pos += 4
                elif f == "d":
                    kvs.append((k, b[pos:pos + 8].hex())); pos += 8
                else:
                    kvs.append((k, struct.unpack_from("<b", b, pos)[0])); pos += 1
        except Exception:  # noqa: BLE001
            return None

    def regime(self, case, obs):
        if case["kind"] == "codec":
            return "codec"
        if case["kind"] == "phys":
            if case["dec"][0] < 0 and case["dec"][1] == 0:
                return "phys-south-small"
            return {"topocentric": "phys-topo", "barycentric": "phys-bary", "pulsarcentric": "phys-pulsar"}[case["frame"]]
        if case["key"] not in KEYS:
            return "edit-invalid-key"
        if obs.get("ok"):
            return "edit-valid"
        return "edit-bad-type" if obs.get("err") not in ("ValueError",) else "edit-length-change"

    def nontrivial(self, case, obs):
        return case["kind"] != "codec" or len(case["kvs"]) >= 4


PROP = C05()

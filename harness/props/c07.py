"""C07 — streaming file-to-file transforms equal their whole-array definitions."""
from __future__ import annotations

import math
import random
import struct

import numpy as np

import common
import prehist
import spfiles
from .base import Prop, exc_name
from .c05 import C05
from .c03 import spec_unpack
from .c06 import FCH1, FOFF, TSAMP, band_of, delays_for, rereference

BITFACT = {1: 8, 2: 4, 4: 2}


def decode_data(raw: bytes, nbits: int) -> list:
    if nbits in BITFACT:
        order = spfiles.DEFAULT_ORDER[nbits]
        return [v for b in raw for v in spec_unpack(b, nbits, order)]
    if nbits == 8:
        return list(raw)
    if nbits == 16:
        return [int(x) for x in np.frombuffer(raw, dtype="<u2")]
    return [float(x) for x in np.frombuffer(raw[: len(raw) // 4 * 4], dtype="<f4")]


def read_out(path):
    """independent reader: header dict, hdrlen, flat values, raw data length"""
    raw = open(path, "rb").read()
    kvs, hl = C05._parse(raw)
    h = dict(kvs)
    return h, hl, decode_data(raw[hl:], h["nbits"]), len(raw) - hl


class C07(Prop):
    id = "C07"
    rule = ("each streaming transform (invert, mask, extract samps/chans/bands, downsample, subband, zero-DM) on tiny "
            "real files of depth 1,2,4,8,32 for random gulps (incl. non-divisible, > range, < 2*maxdelay) and "
            "sub-ranges; the raw bytes of every output file are decoded independently and compared with the NumPy "
            "whole-array definition. Non-trivial = >=2 blocks; distinct by full case.")
    assumptions = ["one output sample is a whole number of bytes", "integer-valued samples",
                   "descending band and DM >= 0 for subband"]
    regimes_expected = ["invert", "mask", "samps", "chans", "bands", "downsample", "subband", "zerodm"]
    budget_s = (180, 1500)

    def _case(self, rng, op=None):
        op = op or rng.choice(("invert", "mask", "samps", "chans", "bands", "downsample", "downsample", "subband",
                               "subband", "zerodm"))
        nbits = rng.choice((1, 2, 4, 8, 32))
        if op == "downsample":
            C = rng.choice((8, 16)) if nbits < 8 else rng.choice((2, 4, 8, 7, 14))
        elif op in ("bands",):
            C = 16 if nbits < 8 else rng.choice((4, 8))
        else:
            cm = {1: 8, 2: 4, 4: 2}.get(nbits, 1)
            C = cm * rng.choice((1, 2)) if nbits < 8 else rng.choice((2, 4, 8))
        N = rng.choice((4, 6, 9, 13, 24, 40))
        sub = rng.random() < 0.4 and op != "samps"
        s = rng.randrange(0, N) if sub else 0
        n = rng.randint(1, N - s) if sub else N - s
        if op == "samps":
            s = rng.randrange(0, N)
            n = rng.randint(1, N - s)
        g = rng.choice((1, 2, 3, 5, n, n + 2, rng.randint(1, n + 1)))
        c = {"op": op, "nbits": nbits, "C": C, "N": N, "splits": spfiles.splits_of(rng, N, rng.choice((1, 1, 2))),
             "g": g, "s": s, "n": n, "none_n": not sub and op != "samps", "dseed": rng.randrange(1 << 30),
             "pre": prehist.gen_pre(rng, N, s, n)}
        if op == "mask":
            c["mask"] = [rng.random() < 0.4 for _ in range(C)]
            c["mval"] = rng.choice((0, 1, 0)) if nbits < 8 else rng.choice((0, 3, 7))
            if nbits == 32:
                # float files: any fill value is representable, and baselines below zero are ordinary
                c["mval"] = rng.choice((0, 3, -1.5, -0.25, 2.75, -300))
                c["off"] = rng.choice((0, -2000))
                c["nonfinite"] = rng.random() < 0.4
        if op == "chans":
            # any order: ascending, descending, and orders whose sorting permutation is not its own inverse
            c["chans"] = rng.sample(range(C), rng.randint(1, min(C, 6)))
            c["batch"] = rng.choice((1, 2, 200))
        if op == "bands":
            per = rng.choice([p for p in (2, 4, 8) if p <= C and (p * nbits) % 8 == 0] or [C])
            nb = rng.randint(1, C // per)
            cs = rng.randrange(0, C - nb * per + 1)
            c.update(chanstart=cs, nch=nb * per, per=per, batch=rng.choice((1, 2, 3, 200)))
        if op == "downsample":
            # factors whose product is not a power of two: the mean of a group is then not a dyadic scaling
            # (7 x 7 = 49 is the smallest product for which a reciprocal multiplication differs from a division)
            c["tf"] = rng.choice((1, 2, 3, 4, 7, 7))
            c["dconst"] = rng.random() < 0.35
            if c["tf"] == 7:
                c["N"] = max(N, 14)
                c["s"], c["n"], c["none_n"] = 0, c["N"], True
                c["splits"] = [c["N"]]
                c["g"] = rng.choice((3, 7, 14, 20))
            ffs = [f for f in (1, 2, 4, 7) if C % f == 0 and ((C // f) * nbits) % 8 == 0]
            c["ff"] = rng.choice(ffs)
        if op == "subband":
            c["dm"] = rng.choice((0.0, 5.0, 20.0, 50.0, -20.0, -50.0))
            c["asc"] = rng.random() < 0.35        # delays negative relative to fch1: ascending band at DM > 0, or DM < 0
            c["nsub"] = rng.choice([k for k in (1, 2, 4, 8) if C % k == 0])
        return c

    def gen(self, rng, tier):
        k = 1 if tier == "quick" else 6
        cases = [self._case(rng) for _ in range(320 * k)]
        # every transform after statistics / a bandpass computed on ANOTHER range of the same length on the same
        # reader (state left on the reader must not leak into the transform)
        for iop, op in enumerate(("invert", "mask", "chans", "bands", "downsample", "subband", "zerodm", "zerodm", "zerodm")):
            for _ in range(k):
                c = self._case(rng, op)
                N = max(c["N"], 12)
                n = rng.randint(3, N // 2)
                s = rng.randint(1, N - n)
                s2 = rng.choice([x for x in range(0, N - n + 1) if x != s])
                c.update(N=N, splits=[N], s=s, n=n, none_n=False, g=rng.choice((2, 3, 5, n)),
                         pre=[[("stats", "stats_basic", "bandpass")[iop % 3] if op == "zerodm" else
                               rng.choice(("stats", "stats", "bandpass", "stats_basic")), s2, n, rng.choice((1, 3, 64))]])
                cases.append(c)
        # channel lists given in a cyclically rotated order (sorting them is a permutation that is not an involution)
        for _ in range(4 * k):
            c = self._case(rng, "chans")
            if c["C"] >= 3:
                base = sorted(rng.sample(range(c["C"]), rng.randint(3, min(c["C"], 5))))
                r = rng.randint(1, len(base) - 1)
                c["chans"] = base[r:] + base[:r]
                cases.append(c)
        # decimation by a product that is not a power of two, on data whose group means are exact integers
        for _ in range(6 * k):
            c = self._case(rng, "downsample")
            nbits = rng.choice((8, 8, 32))
            C = rng.choice((7, 14))
            N = rng.choice((14, 21, 30))
            c.update(nbits=nbits, C=C, N=N, splits=[N], s=0, n=N, none_n=True, tf=7, ff=7, dconst=True,
                     g=rng.choice((3, 7, 14, 40)), pre=[])
            cases.append(c)
        return cases

    def corpus(self):
        b = {"nbits": 8, "N": 12, "splits": [12], "dseed": 5, "none_n": True, "s": 0, "n": 12}
        return [dict(b, op="downsample", C=4, g=4, tf=2, ff=2),
                dict(b, op="downsample", C=2, g=5, tf=3, ff=1),
                dict(b, op="subband", C=8, g=4, dm=20.0, nsub=2),
                dict(b, op="bands", C=8, g=5, chanstart=0, nch=4, per=2),
                dict(b, op="chans", C=4, g=5, chans=[2, 0]),
                dict(b, op="zerodm", C=4, g=5, s=3, n=6, none_n=False)]

    # ------------------------------------------------------------------
    def _data(self, case):
        rng = random.Random(case["dseed"])
        x = spfiles.rand_data(rng, case["N"], case["C"], case["nbits"]) + case.get("off", 0)
        if case.get("nonfinite") and case["op"] == "mask":
            # saturated / flagged float data: inf and NaN samples in the channels that are going to be masked
            x = x.astype(np.float64)
            cols = [c for c, m in enumerate(case["mask"]) if m]
            for j, c in enumerate(cols):
                x[(3 * j) % case["N"], c] = (np.inf, -np.inf, np.nan)[j % 3]
        if case.get("dconst"):
            # every group mean is an exact integer: the reduction to the output depth must not lose a level
            x[:] = x[0, 0]
        return x

    def observe(self, case):
        from sigpyproc.readers import FilReader

        d = common.tmpdir()
        data = self._data(case)
        fch1, foff = band_of(case)
        files = spfiles.write_fil_set(d, data, case["nbits"], case["splits"], tsamp=TSAMP, fch1=fch1, foff=foff)
        fil = FilReader(files if len(files) > 1 else files[0])
        prehist.run_pre(fil, case.get("pre"))
        kw = {"gulp": case["g"], "start": case["s"], "nsamps": None if case["none_n"] else case["n"], "quiet": True}
        op = case["op"]
        out = str(d / "out.fil")
        try:
            if op == "invert":
                outs = [fil.invert_freq(outfile_name=out, **kw)]
            elif op == "mask":
                outs = [fil.apply_channel_mask(np.array(case["mask"]), case["mval"], outfile_name=out, **kw)]
            elif op == "samps":
                outs = [fil.extract_samps(case["s"], case["n"], outfile_name=out, gulp=case["g"], quiet=True)]
            elif op == "chans":
                outs = fil.extract_chans(np.array(case["chans"]), outfile_base=str(d / "c"), batch_size=case.get("batch", 200), **kw)
            elif op == "bands":
                outs = fil.extract_bands(case["chanstart"], case["nch"], case["per"], outfile_base=str(d / "b"),
                                         batch_size=case.get("batch", 200), **kw)
            elif op == "downsample":
                outs = [fil.downsample(case["tf"], case["ff"], outfile_name=out, **kw)]
            elif op == "subband":
                dl = [int(x) for x in rereference(np.atleast_1d(fil.header.get_dmdelays(case["dm"])))]
                if max(dl) >= case["n"]:
                    return {"skip": True}
                outs = [fil.subband(case["dm"], case["nsub"], outfile_name=out, **kw)]
            else:
                outs = [fil.remove_zerodm(outfile_name=out, **kw)]
        except Exception as e:  # noqa: BLE001
            import traceback
            return {"err": exc_name(e), "msg": traceback.format_exc()[-300:]}
        finally:
            fil._file.close()
        import gc
        gc.collect()
        res = {"files": []}
        for o in outs:
            h, hl, vals, dl_ = read_out(o)
            res["files"].append({"nbits": h["nbits"], "nchans": h["nchans"], "vals": vals, "datalen": dl_})
        if op == "subband":
            res["delays"] = dl
        return res

    # ------------------------------------------------------------------
    def expected(self, case, obs):
        """list of (nbits, nchans, 2-D array (T, F)) per output file, from the whole-array definition"""
        x = self._data(case)[case["s"]:case["s"] + case["n"]].astype(np.float64)
        n, C = x.shape
        nbits, op = case["nbits"], case["op"]
        if op == "invert":
            return [(nbits, C, x[:, ::-1], 0)]
        if op == "mask":
            y = x.copy()
            y[:, np.array(case["mask"])] = case["mval"]
            return [(nbits, C, y, 0)]
        if op == "samps":
            return [(nbits, C, x, 0)]
        if op == "chans":
            return [(32, 1, x[:, [c]], 0) for c in case["chans"]]
        if op == "bands":
            return [(nbits, case["per"], x[:, case["chanstart"] + i * case["per"]: case["chanstart"] + (i + 1) * case["per"]], 0)
                    for i in range(case["nch"] // case["per"])]
        if op == "downsample":
            tf, ff = case["tf"], case["ff"]
            T = n // tf
            y = x[: T * tf].reshape(T, tf, C // ff, ff).mean(axis=(1, 3))
            if nbits != 32:
                y = np.floor(y)          # block mean reduced to the (integer) output depth
            return [(nbits, C // ff, y, 1e-6)]
        if op == "subband":
            dl = rereference(delays_for(C, case["dm"], *band_of(case)))
            if list(dl) != obs["delays"]:
                return None
            md, ns = int(dl.max()), case["nsub"]
            per = C // ns
            y = np.array([[sum(x[t + dl[c], c] for c in range(sb * per, (sb + 1) * per)) for sb in range(ns)]
                          for t in range(n - md)]).reshape(n - md, ns)
            return [(32, ns, y, 0)]
        # zero-DM: x - rowsum*w + bpass, bandpass of the selected input
        bp = x.mean(axis=0)
        w = bp / bp.sum() if bp.sum() != 0 else None
        if w is None:
            return None
        y = x - x.sum(axis=1, keepdims=True) * w + bp
        hi = (1 << nbits) - 1 if nbits != 32 else None
        if hi is not None and (y.min() < 0 or y.max() > hi):
            return None   # a value leaves the representable range: outside the property
        return [(nbits, C, y, 1.0 if nbits != 32 else 1e-3)]

    def oracle(self, case, obs):
        if obs.get("skip"):
            return None
        what = f"{case['op']}(gulp={case['g']}, start={case['s']}, nsamps={case['n']})"
        if "err" in obs:
            return f"{what} raised {obs['err']}: {obs['msg'][-140:]}"
        exp = self.expected(case, obs)
        if exp is None:
            return None
        if len(exp) != len(obs["files"]):
            return f"{what} wrote {len(obs['files'])} files, the definition has {len(exp)}"
        for i, ((nb, nc, y, tol), f) in enumerate(zip(exp, obs["files"])):
            if f["nbits"] != nb or f["nchans"] != nc:
                return f"{what} file {i}: header nbits/nchans {f['nbits']}/{f['nchans']}, expected {nb}/{nc}"
            want_bytes = y.size * nb // 8
            if f["datalen"] != want_bytes:
                return (f"{what} file {i}: data section is {f['datalen']} bytes; {y.shape[0]} samples x {nc} chans at "
                        f"{nb} bits need {want_bytes}")
            got = np.array(f["vals"], dtype=np.float64).reshape(y.shape)
            if tol == 0:
                bad = np.argwhere(got != y)
            else:
                bad = np.argwhere(np.abs(got - y) > tol + 1e-4) if tol >= 1 else np.argwhere(np.abs(got - y) > tol * (1 + np.abs(y)))
            if len(bad):
                t, c = bad[0]
                return f"{what} file {i}: sample {t} chan {c} is {got[t, c]}, definition gives {y[t, c]}"
        return None

    # ------------------------------------------------------------------
    def model_requests(self, case, obs):
        if obs.get("skip") or "err" in obs:
            return []
        if case["op"] == "mask" and case.get("nonfinite"):
            return []          # the exact model is over integers
        x = self._data(case)
        flat = " ".join(str(int(v)) for v in x.ravel())
        C, op = case["C"], case["op"]
        head = f"{case['g']} {case['s']} {case['n']} {case['N']} {C}"
        zeros = " ".join(["0"] * C)
        if op in ("invert", "samps", "zerodm"):
            return [f"C07 {op} {head} 0 0 0 {zeros} {flat}"]
        if op == "mask" and (case["mval"] != int(case["mval"]) or case.get("off") or case.get("nonfinite")):
            return []          # the exact model is over integers
        if op == "mask":
            return [f"C07 mask {head} {int(case['mval'])} 0 0 {' '.join('1' if m else '0' for m in case['mask'])} {flat}"]
        if op == "chans":
            return [f"C07 chan {head} 0 {c} 0 {zeros} {flat}" for c in case["chans"]]
        if op == "bands":
            reqs = [f"C07 bandstarts {case['chanstart']} {case['nch']} {case['per']} 0 0 0 0 0"]
            return reqs + [f"C07 band {head} 0 {case['chanstart'] + i * case['per']} {case['per']} {zeros} {flat}"
                           for i in range(len(obs["files"]))]
        if op == "downsample":
            return [f"C07 downsample {head} 0 {case['tf']} {case['ff']} {zeros} {flat}"]
        return [f"C07 subband {head} 0 {case['nsub']} 0 {' '.join(map(str, obs['delays']))} {flat}"]

    def model_compare(self, case, obs, answers):
        from fractions import Fraction
        if not answers:
            return None
        op = case["op"]
        files = obs["files"]
        if op == "bands":
            starts = answers[0].split()[1:]
            if len(starts) != len(files):
                return f"extract_bands wrote {len(files)} files, model {len(starts)}"
            answers = answers[1:]
        if len(answers) != len(files):
            return f"{len(files)} files vs {len(answers)} model outputs"
        for i, (a, f) in enumerate(zip(answers, files)):
            t = a.split()
            if t[0] != "ok":
                return f"model {a[:40]} but impl wrote a file"
            got = f["vals"]
            if op == "zerodm":
                want = [Fraction(v) for v in t[2:]]
                tol = 1 + 1e-4 if case["nbits"] != 32 else None
                if len(want) != len(got):
                    return f"zerodm: {len(got)} values vs model {len(want)}"
                hi = (1 << case["nbits"]) - 1
                if case["nbits"] != 32 and (min(want) < 0 or max(want) > hi):
                    return None
                for g_, w in zip(got, want):
                    if (tol and abs(g_ - float(w)) > tol) or (tol is None and abs(g_ - float(w)) > 1e-3 * (1 + abs(float(w)))):
                        return f"zerodm: impl {g_} vs exact model {float(w)}"
                continue
            want = [int(v) for v in t[2:]]
            if op == "downsample":
                tot = case["tf"] * case["ff"]
                if case["nbits"] != 32:
                    want = [w // tot for w in want]
                else:
                    if len(want) != len(got) or any(abs(g_ - w / tot) > 1e-5 * (1 + abs(w / tot)) for g_, w in zip(got, want)):
                        return f"downsample: impl {got[:6]} vs model sums {want[:6]}/{tot}"
                    continue
            if [float(v) for v in want] != [float(v) for v in got]:
                return f"{op} file {i}: impl {got[:8]} ({len(got)}) vs model {want[:8]} ({len(want)})"
        return None

    def regime(self, case, obs):
        return case["op"]

    def nontrivial(self, case, obs):
        return case["g"] < case["n"]


PROP = C07()

"""C03 — bit packing/unpacking: correspondence (validates translator + dispatch) and oracle."""
from __future__ import annotations

import numpy as np

from .base import Prop, exc_name

DTYPES = {"u8": np.uint8, "f4": np.float32, "i8": np.int64, "u2": np.uint16}


def spec_unpack(byte: int, d: int, order: str) -> list[int]:
    """bit-field definition with Python integers (independent of model and code)"""
    k = 8 // d
    mask = (1 << d) - 1
    if order == "big":
        return [(byte >> (d * (k - 1 - j))) & mask for j in range(k)]
    return [(byte >> (d * j)) & mask for j in range(k)]


def spec_pack(vals: list[int], d: int, order: str) -> int:
    k = 8 // d
    b = 0
    for j, v in enumerate(vals):
        sh = d * (k - 1 - j) if order == "big" else d * j
        b |= (v & ((1 << d) - 1)) << sh
    return b


class C03(Prop):
    id = "C03"
    rule = ("exhaustive: all 256 bytes through unpack and all 256 in-range field tuples through pack for "
            "each depth × order × {with, without caller buffer}; plus random arrays of length 0..64 and a "
            "malformed stream (dtype/depth/order/buffer size). Non-trivial = valid call with non-empty input; "
            "distinct by (op, depth, order, buffer, data).")
    assumptions = ["numba integer promotion inside the kernels is modelled as `% 256` at the store",
                   "inputs to pack outside [0, 2^nbits) are outside the property"]
    regimes_expected = ["unpack-valid", "pack-valid", "invalid-dtype", "invalid-depth", "invalid-order",
                        "invalid-bufsize", "empty"]
    exhaustive = True

    def gen(self, rng, tier):
        cases = []
        # gulp-sized arrays (>= 128 Ki output elements), every depth, both directions, default order
        for d in (1, 2, 4):
            cases.append({"op": "unpack", "dt": "u8", "d": d, "order": "big", "buf": "-", "nbig": 140000 * d // 8 + 8, "dseed": d})
            cases.append({"op": "pack", "dt": "u8", "d": d, "order": "little", "buf": "-", "nbig": 140000 * 8 // d, "dseed": 10 + d})
        for d in (1, 2, 4):
            k = 8 // d
            for order in ("big", "little"):
                for buf in (False, True):
                    # all bytes, in one array (positions within the array matter too)
                    allb = list(range(256))
                    rng.shuffle(allb)
                    cases.append({"op": "unpack", "dt": "u8", "d": d, "order": order, "buf": "ok" if buf else "-",
                                  "data": allb})
                    # all in-range tuples
                    tuples = []
                    for b in allb:
                        tuples.extend(spec_unpack(b, d, "big"))
                    cases.append({"op": "pack", "dt": "u8", "d": d, "order": order, "buf": "ok" if buf else "-",
                                  "data": tuples})
                # every byte alone (so a per-byte failure is a minimal replay)
                for b in range(256):
                    cases.append({"op": "unpack", "dt": "u8", "d": d, "order": order, "buf": "-", "data": [b]})
                    cases.append({"op": "pack", "dt": "u8", "d": d, "order": order, "buf": "-",
                                  "data": spec_unpack(b, d, order)})
        n = 200 if tier == "quick" else 3000
        for _ in range(n):
            d = rng.choice((1, 2, 4))
            order = rng.choice(("big", "little", "b", "l", "bigendian"))
            op = rng.choice(("unpack", "pack"))
            ln = rng.choice((0, 1, 2, 3, 5, 7, 8, 9, 15, 16, 17, rng.randrange(0, 65)))
            if op == "unpack":
                data = [rng.randrange(256) for _ in range(ln)]
            else:
                data = [rng.randrange(1 << d) for _ in range(ln)]
            buf = rng.choice(("-", "ok", "ok"))
            cases.append({"op": op, "dt": "u8", "d": d, "order": order, "buf": buf, "data": data})
        # malformed stream
        for _ in range(60 if tier == "quick" else 600):
            d = rng.choice((1, 2, 4, 4, 3, 8, 0, 10, 16))
            order = rng.choice(("big", "little", "invalid", "", "x", "Big"))
            dt = rng.choice(("u8", "u8", "f4", "i8", "u2"))
            op = rng.choice(("unpack", "pack"))
            ln = rng.randrange(0, 20)
            data = [rng.randrange(2) for _ in range(ln)]
            buf = rng.choice(("-", "ok", "+1", "-1", "0"))
            cases.append({"op": op, "dt": dt, "d": d, "order": order, "buf": buf, "data": data})
        # otherwise valid calls with a caller buffer of EVERY size near the right one (off by less than, exactly
        # and more than one byte's worth of samples): only the exact size may be accepted
        for d in (1, 2, 4):
            k = 8 // d
            for order in ("big", "little"):
                for op in ("unpack", "pack"):
                    for ln in range(0, 4 if op == "unpack" else 3 * k + 1):
                        data = [rng.randrange(256 if op == "unpack" else 1 << d) for _ in range(ln)]
                        for off in range(-(k + 1), k + 2):
                            if off == 0:
                                continue
                            cases.append({"op": op, "dt": "u8", "d": d, "order": order, "buf": f"{off:+d}", "data": data})
        return cases

    # -- implementation ------------------------------------------------------
    def _bufsize(self, case):
        d, n = case["d"], len(case["data"])
        if case["buf"] == "-":
            return None
        if d in (1, 2, 4):
            good = n * (8 // d) if case["op"] == "unpack" else n // (8 // d)
        else:
            good = n
        if case["buf"] in ("ok", "0"):
            return good if case["buf"] == "ok" else 0
        return max(0, good + int(case["buf"]))          # "+k" / "-k": k elements too many / too few

    @staticmethod
    def _data(case):
        if "nbig" in case:               # a long array given by a seed (gulp-sized: allocation strategies change with size)
            r = np.random.default_rng(case["dseed"])
            hi = 256 if case["op"] == "unpack" else (1 << case["d"])
            return [int(v) for v in r.integers(0, hi, size=case["nbig"])]
        return case["data"]

    def observe(self, case):
        from sigpyproc.io import bits

        case = dict(case, data=self._data(case))
        arr = np.array(case["data"], dtype=DTYPES[case["dt"]])
        bs = self._bufsize(case)
        out = None if bs is None else np.full(bs, 0xAA, dtype=np.uint8)
        f = bits.unpack if case["op"] == "unpack" else bits.pack
        try:
            res = f(arr, case["d"], out, bitorder=case["order"])
        except Exception as e:  # noqa: BLE001
            return {"err": exc_name(e)}
        if out is not None and res is not out:
            return {"err": "result-is-not-the-callers-buffer"}
        first = [int(x) for x in res]
        if out is None:
            # a result handed to the caller is the caller's: a later call of the same shape must not change it
            other = np.ascontiguousarray(arr[::-1]) ^ (np.uint8(1) if arr.dtype == np.uint8 else 1)
            try:
                f(other.astype(arr.dtype), case["d"], None, bitorder=case["order"])
            except Exception:  # noqa: BLE001
                pass
            if [int(x) for x in res] != first:
                return {"err": "earlier-result-overwritten-by-a-later-call"}
        return {"ok": first, "dtype": str(res.dtype)}

    # -- model ---------------------------------------------------------------
    def model_requests(self, case, obs):
        if "nbig" in case:
            return []            # too long for a request line: the unbounded theorems + the oracle cover it
        bs = self._bufsize(case)
        order = case["order"] or "_"
        data = case["data"]
        return [f"C03 {case['op']} {case['dt']} {case['d']} {order} {'-' if bs is None else bs} "
                f"{len(data)} {' '.join(map(str, data))}".strip()]

    def model_compare(self, case, obs, answers):
        if not answers:
            return None
        a = answers[0].split()
        if "err" in obs:
            want = f"err {obs['err']}"
            return None if answers[0] == want else f"impl `{want}` vs model `{answers[0][:80]}`"
        if a[:1] != ["ok"] or [int(x) for x in a[2:]] != obs["ok"]:
            return f"impl ok {obs['ok'][:16]}… vs model `{answers[0][:80]}`"
        return None

    # -- independent oracle ----------------------------------------------------
    def oracle(self, case, obs):
        case = dict(case, data=self._data(case))
        d, order, data = case["d"], case["order"], case["data"]
        bs = self._bufsize(case)
        valid = (case["dt"] == "u8" and d in (1, 2, 4) and bool(order) and order[0] in "bl")
        if valid and bs is not None:
            good = len(data) * (8 // d) if case["op"] == "unpack" else len(data) // (8 // d)
            valid = bs == good
        if not valid:
            if obs.get("err") != "ValueError":
                return f"invalid arguments must raise ValueError, got {obs}"
            return None
        if "err" in obs:
            return f"valid call raised {obs['err']}"
        o = "big" if order[0] == "b" else "little"
        k = 8 // d
        if case["op"] == "unpack":
            want = [v for b in data for v in spec_unpack(b, d, o)]
        else:
            want = [spec_pack(data[i * k:(i + 1) * k], d, o) for i in range(len(data) // k)]
        if obs["ok"] != want:
            i = next((i for i, (a, b) in enumerate(zip(obs["ok"], want)) if a != b), min(len(want), len(obs["ok"])))
            return (f"{case['op']}{d} {o}: output differs from the bit-field definition at index {i} "
                    f"(got {obs['ok'][i:i + 4]}, want {want[i:i + 4]}; lengths {len(obs['ok'])}/{len(want)})")
        if obs["dtype"] != "uint8":
            return f"result dtype {obs['dtype']}"
        return None

    def regime(self, case, obs):
        if "nbig" in case:
            return "gulp-sized"
        if case["dt"] != "u8":
            return "invalid-dtype"
        if case["d"] not in (1, 2, 4):
            return "invalid-depth"
        if not case["order"] or case["order"][0] not in "bl":
            return "invalid-order"
        if case["buf"] not in ("-", "ok") and "err" in obs:
            return "invalid-bufsize"
        if not case["data"]:
            return "empty"
        return f"{case['op']}-valid"

    def nontrivial(self, case, obs):
        return "ok" in obs and (len(case.get("data", [])) > 0 or "nbig" in case)

    def shrink(self, failing):
        # try each byte / tuple alone
        case = failing["case"]
        if "nbig" in case:
            return failing
        d = case["d"]
        k = 1 if case["op"] == "unpack" else (8 // d if d in (1, 2, 4) else 1)
        for i in range(0, len(case["data"]), k):
            c = dict(case, data=case["data"][i:i + k], buf="-" if case["buf"] == "ok" else case["buf"])
            obs = self.observe(c)
            o = self.oracle(c, obs)
            if o:
                return {"case": c, "obs": obs, "oracle": o}
        return failing


PROP = C03()

"""C19 — parallel kernels give the same answer for every thread count and schedule."""
from __future__ import annotations

import random

import numpy as np

from .base import Prop, exc_name

KERNELS = ("extract_tim", "extract_bpass", "mask_channels", "dedisperse", "invert_freq", "subband", "remove_zerodm",
           "moments", "moments_basic", "downsample_1d", "downsample_2d")
THREADS = (1, 2, 3, 5, 8, 16)


def _inputs(case):
    rng = np.random.default_rng(case["dseed"])
    C, T = case["C"], case["T"]
    dt = np.uint8 if case["u8"] else np.float32
    x = rng.integers(0, 200, size=T * C).astype(dt)
    return x


class C19(Prop):
    id = "C19"
    rule = ("each compiled parallel kernel on exact-arithmetic inputs under numba.set_num_threads(t), t in "
            "{1,2,3,5,8,16 (capped at the machine maximum)} x set_parallel_chunksize(k) x repetitions, shapes from 1x1 "
            "to iterations >> threads; results bit-compared with each other, with .py_func and with a NumPy reference; "
            "for blocks of <= 64 cells the GENERATED kernel (Generated/LoopKernels, executable twin) is run on the same "
            "input and compared cell by cell. "
            "Non-trivial = more iterations than one thread; distinct by (kernel, shape, params).")
    assumptions = ["numba's lowering, its scheduler and the hardware memory model are not modelled; the theorem is about "
                   "the loop semantics the source denotes (partial by nature)",
                   "data-dependent sub-band indices satisfy chan_to_sub[c] < nsubs (nsub | nchans)"]
    regimes_expected = list(KERNELS) + ["chanstats"]
    budget_s = (240, 1500)
    trusted_extra = ["numba parallel code generation / gufunc scheduler / hardware memory model: exercised by the "
                     "thread-count sweep, not modelled"]

    # (channels, samples): square, long-and-narrow, and wide-and-short (far more channels than samples: an
    # iteration space that is tiny along one axis is where a kernel parallelised over the wrong axis races)
    SHAPES = ((1, 1), (1, 7), (4, 1), (4, 9), (8, 8), (2, 21), (8, 33), (16, 257), (64, 1000), (3, 4099),
              (256, 4), (832, 6), (1024, 3), (512, 12))

    def _case(self, rng, kern=None, shape=None):
        kern = kern or rng.choice(KERNELS)
        shape = shape or rng.choice(self.SHAPES)
        C, T = shape
        c = {"kern": kern, "C": C, "T": T, "u8": rng.random() < 0.5, "dseed": rng.randrange(1 << 30),
             "reps": 2, "chunk": rng.choice((0, 1, 7))}
        if kern in ("dedisperse", "subband"):
            c["md"] = rng.choice((0, 1, 3, max(0, T - 2))) if T > 4 else 0
            c["nsub"] = rng.choice([k for k in (1, 2, 4, 8) if C % k == 0])
        if kern.startswith("downsample"):
            c["f1"] = rng.choice((1, 2, 4))
            c["f2"] = rng.choice([k for k in (1, 2, 4) if C % k == 0])
            c["u8"] = False
        if kern == "remove_zerodm":
            c["u8"] = False   # the Python definition accumulates in the array's own scalar type; uint8 would wrap there
        return c

    def gen(self, rng, tier):
        k = 1 if tier == "quick" else 5
        cases = []
        for kern in KERNELS:
            cases += [self._case(rng, kern) for _ in range(5 * k)]
            cases.append(self._case(rng, kern, rng.choice(self.SHAPES[-4:])))     # one wide-and-short shape each
        for shape in ((1, 50000), (2, 40000), (4, 20000)):
            c = self._case(rng, "moments", shape)
            c.update(kern="chanstats", mode=rng.choice(("basic", "basic", "full")), reps=1)
            cases.append(c)
        return cases

    def search(self, rng, tier):
        """after a broken obligation: every kernel on every shape, more repetitions"""
        cases = []
        for kern in KERNELS:
            for shape in self.SHAPES:
                c = self._case(rng, kern, shape)
                c["reps"] = 4
                cases.append(c)
        return cases

    # ------------------------------------------------------------------
    def _call(self, case, py):
        """run the kernel once (compiled or its Python definition); returns the output array as bytes"""
        return np.ascontiguousarray(self._call_arr(case, py)).tobytes()

    def _call_arr(self, case, py):
        from sigpyproc.core import kernels as K

        kern, C, T = case["kern"], case["C"], case["T"]
        x = _inputs(case)
        f = lambda k: (k.py_func if py else k)   # noqa: E731
        if kern == "extract_tim":
            out = np.zeros(T + 3, dtype=np.float32)
            f(K.extract_tim)(x, out, C, T, 3)
        elif kern == "extract_bpass":
            out = np.zeros(C, dtype=np.float32)
            f(K.extract_bpass)(x, out, C, T)
        elif kern == "mask_channels":
            out = x.copy()
            mask = (np.arange(C) % 3 == 0)
            f(K.mask_channels)(out, mask, out.dtype.type(7), C, T)
        elif kern == "dedisperse":
            md = case["md"]
            delays = (np.arange(C) * md // max(1, C - 1)).astype(np.int32) if C > 1 else np.zeros(1, dtype=np.int32)
            md = int(delays.max())
            out = np.zeros(T - md + 2, dtype=np.float32)
            f(K.dedisperse)(x, out, delays, md, C, T, 2)
        elif kern == "invert_freq":
            out = f(K.invert_freq)(x, C, T)
        elif kern == "subband":
            md, ns = case["md"], case["nsub"]
            delays = (np.arange(C) * md // max(1, C - 1)).astype(np.int32) if C > 1 else np.zeros(1, dtype=np.int32)
            md = int(delays.max())
            c2s = (np.arange(C, dtype=np.int32) // (C // ns)).astype(np.int32)
            out = np.zeros((T - md) * ns, dtype=np.float32)
            f(K.subband)(x, out, delays, c2s, md, C, ns, T)
        elif kern == "remove_zerodm":
            out = np.zeros_like(x)
            bp = (np.arange(C) % 5).astype(np.float32)
            w = np.full(C, 2.0 ** -8, dtype=np.float32)
            f(K.remove_zerodm)(x, out, bp, w, C, T)
        elif kern in ("moments", "moments_basic"):
            # per-channel constant data: every recurrence step is exact
            xc = np.tile((np.arange(C) * 3 % 200).astype(x.dtype), T)
            mom = np.zeros(C, dtype=K.moments_dtype)
            fn = K.compute_online_moments if kern == "moments" else K.compute_online_moments_basic
            f(fn)(xc.astype(np.float32), mom, 0)
            out = mom
        elif kern == "chanstats":
            # the accumulator as a user drives it (ChannelStats.push_data, basic and full), few channels, long VARYING
            # blocks: one channel is one thread's sequential pass, so the record is bit-identical for every thread count
            # (the sequential definition = the same call on one thread)
            import numba
            from sigpyproc.core.stats import ChannelStats
            xr = np.random.default_rng(case["dseed"]).integers(0, 256, size=C * T).astype(np.float32)
            bag = ChannelStats(C, T)
            keep = numba.get_num_threads()
            if py:
                numba.set_num_threads(1)
            try:
                bag.push_data(xr, 0, mode=case.get("mode", "basic"))
            finally:
                numba.set_num_threads(keep)
            out = bag.moments
        elif kern == "downsample_1d":
            xf = x.astype(np.float32)
            fn = K.downsample_1d_mean.py_func if py else K.downsample_1d_mean_parallel
            out = fn(xf, case["f1"])
        else:
            xf = x.astype(np.float32)
            fn = K.downsample_2d_mean_flat.py_func if py else K.downsample_2d_mean_parallel
            out = fn(xf, case["f1"], case["f2"], T, C)
        return out

    # ---- the GENERATED kernels (Generated/LoopKernels.lean) on the same inputs: bounds the trust in the translator
    K_LIMIT = 64      # cells; the functional-array twins cost ~cells^3 to evaluate

    def model_requests(self, case, obs):
        kern, C, T = case["kern"], case["C"], case["T"]
        if "err" in obs or C * T > self.K_LIMIT or kern.startswith("moments") or kern == "chanstats":
            return []
        x = _inputs(case)
        xs = " ".join(str(int(v)) for v in x)
        z = lambda n: " ".join(["0"] * n) if n else "0"   # noqa: E731
        if kern in ("dedisperse", "subband"):
            md = case["md"]
            delays = (np.arange(C) * md // max(1, C - 1)).astype(np.int32) if C > 1 else np.zeros(1, dtype=np.int32)
            md = int(delays.max())
            ds = " ".join(str(int(v)) for v in delays)
        if kern == "extract_tim":
            return [f"K extract_tim {C} {T} 3 {T + 3} | {xs} | {z(T + 3)}"]
        if kern == "extract_bpass":
            return [f"K extract_bpass {C} {T} {C} | {xs} | {z(C)}"]
        if kern == "mask_channels":
            m = " ".join("1" if c % 3 == 0 else "0" for c in range(C))
            return [f"K mask_channels {C} {T} {C * T} | {xs} | {m} | 7"]
        if kern == "dedisperse":
            return [f"K dedisperse {md} {C} {T} 2 {T - md + 2} | {xs} | {z(T - md + 2)} | {ds}"]
        if kern == "invert_freq":
            return [f"K invert_freq {C} {T} {C * T} | {xs}"]
        if kern == "subband":
            ns = case["nsub"]
            c2s = " ".join(str(c // (C // ns)) for c in range(C))
            return [f"K subband {md} {C} {ns} {T} {(T - md) * ns} | {xs} | {z((T - md) * ns)} | {ds} | {c2s}"]
        if kern == "remove_zerodm":
            bp = " ".join(str(c % 5) for c in range(C))
            w = " ".join(["1/256"] * C)
            return [f"K remove_zerodm {C} {T} {C * T} | {xs} | {z(C * T)} | {bp} | {w}"]
        if kern == "downsample_1d":
            f1 = case["f1"]
            return [f"K downsample_1d {f1} {len(x)} {len(x) // f1} | {xs}"]
        f1, f2 = case["f1"], case["f2"]
        return [f"K downsample_2d {f1} {f2} {T} {C} {(T // f1) * (C // f2)} | {xs}"]

    def model_compare(self, case, obs, answers):
        if not answers:
            return None
        from fractions import Fraction
        self._kcmp = getattr(self, "_kcmp", 0) + 1
        t = answers[0].split()
        if not t or t[0] != "ok":
            return f"generated kernel: {answers[0][:80]}"
        want = [float(Fraction(v)) for v in t[1:]]
        got = [float(v) for v in np.asarray(self._call_arr(case, True)).ravel()]
        if len(got) != len(want):
            return f"generated {case['kern']}: {len(want)} cells, implementation {len(got)}"
        for i, (a, b) in enumerate(zip(got, want)):
            if a != b:
                return f"generated {case['kern']} ({case['C']}x{case['T']}): cell {i} is {b} in the translated kernel, {a} in the source's own Python definition"
        return None

    def _reference(self, case):
        """NumPy definition, for the kernels where it is a one-liner"""
        kern, C, T = case["kern"], case["C"], case["T"]
        x = _inputs(case).reshape(T, C)
        if kern == "extract_tim":
            out = np.zeros(T + 3, dtype=np.float32)
            out[3:] = x.astype(np.float64).sum(axis=1)
            return out.tobytes()
        if kern == "extract_bpass":
            return x.astype(np.float64).sum(axis=0).astype(np.float32).tobytes()
        if kern == "invert_freq":
            return np.ascontiguousarray(x[:, ::-1]).tobytes()
        if kern == "mask_channels":
            y = x.copy()
            y[:, np.arange(C) % 3 == 0] = 7
            return y.tobytes()
        return None

    def observe(self, case):
        import numba

        res = {"runs": {}, "py": None, "ref": None}
        maxt = numba.config.NUMBA_NUM_THREADS
        try:
            res["py"] = self._call(case, True).hex()
            ref = self._reference(case)
            res["ref"] = ref.hex() if ref is not None else None
            for t in THREADS:
                tt = min(t, maxt)
                numba.set_num_threads(tt)
                try:
                    numba.set_parallel_chunksize(case["chunk"])
                except Exception:  # noqa: BLE001
                    pass
                for r in range(case["reps"]):
                    res["runs"][f"t{tt}r{r}"] = self._call(case, False).hex()
        except Exception as e:  # noqa: BLE001
            import traceback
            return {"err": exc_name(e), "msg": traceback.format_exc()[-300:]}
        finally:
            numba.set_num_threads(maxt)
            try:
                numba.set_parallel_chunksize(0)
            except Exception:  # noqa: BLE001
                pass
        res["maxthreads"] = maxt
        return res

    def oracle(self, case, obs):
        if "err" in obs:
            return f"{case['kern']} raised {obs['err']}: {obs['msg'][-150:]}"
        vals = obs["runs"]
        first_k, first = next(iter(vals.items()))
        for k, v in vals.items():
            if v != first:
                return f"{case['kern']} {case['C']}x{case['T']}: run {k} differs from run {first_k} (schedule-dependent result)"
        if first != obs["py"]:
            return f"{case['kern']} {case['C']}x{case['T']}: compiled parallel result differs from the kernel's own Python definition"
        if obs["ref"] is not None and first != obs["ref"]:
            return f"{case['kern']} {case['C']}x{case['T']}: result differs from the NumPy reference"
        return None

    def regime(self, case, obs):
        return case["kern"]

    def nontrivial(self, case, obs):
        return case["C"] * case["T"] > 16

    def key(self, case):
        return str((case["kern"], case["C"], case["T"], case.get("md"), case.get("nsub"), case.get("f1"), case.get("f2"), case["u8"]))

    def extra_coverage(self):
        return {"thread_counts": list(THREADS), "generated_kernel_comparisons": getattr(self, "_kcmp", 0)}


PROP = C19()

"""C11 — folding puts every sample in exactly one bin fixed by the phase model."""
from __future__ import annotations

import math
import random

import numpy as np

import common
import spfiles
from .base import Prop, exc_name

CVAL = 299792458.0
FCH1, FOFF = 1500.0, -10.0
TSAMP = 2.0 ** -10       # dyadic: exact in float32


def assign_tables(total, n_fold, nbins, nints, tsamp, period, accel):
    """phase bin and sub-integration of every folded sample, evaluating the documented formula with the
    same IEEE operations as the kernel (tsamp/period/accel arrive as float32, arithmetic in float64)"""
    ts, p, a = float(np.float32(tsamp)), float(np.float32(period)), float(np.float32(accel))
    factor1 = total / nints
    tobs = total * ts
    pb, si = [], []
    for t in range(n_fold):
        tj = t * ts
        phase = nbins * tj * (1 + a * (tj - tobs) / (2 * CVAL)) / p + 0.5
        pb.append(abs(int(phase)) % nbins)
        si.append(int(t // factor1))
    return pb, si


class C11(Prop):
    id = "C11"
    rule = ("Filterbank.fold on tiny real files (depth 8/32; channel counts not divisible by nbands) and "
            "TimeSeries.fold, for random periods/accelerations/(nbins,nints,nbands)/DMs/gulps (incl. gulp<2*maxdelay, "
            "non-divisible); the cube and the kernel's count array vs an independent per-sample assignment using the "
            "documented phase formula; periodic pulse trains. Non-trivial = >=2 blocks or maxdelay>0; distinct by case.")
    assumptions = ["the float phase formula is evaluated by the harness with the kernel's own IEEE operations "
                   "(validated, not proved)", "integer-valued data so float32 sums are exact", "whole-file folds"]
    regimes_expected = ["fil", "fil-dm", "fil-dm-clamped-gulp", "tim", "tim-long", "periodic", "kernel"]
    budget_s = (150, 1200)

    def _kernel_case(self, rng):
        """direct call of the compiled `kernels.fold` on a tiny block, for the GENERATED kernel (K fold)"""
        C = rng.choice((1, 2, 3, 4))
        nsubs = rng.choice([k for k in (1, 2, 3, 4) if k <= C])
        nbins = rng.choice((2, 3, 4, 5))
        nints = rng.choice((1, 2, 3))
        md = rng.choice((0, 0, 1, 2))
        n = rng.randint(md + 1, max(md + 1, 48 // C))
        idx = rng.choice((0, 0, 3, 7))
        total = idx + (n - md) + rng.choice((0, 1, 5))
        return {"kind": "kernel", "C": C, "nsubs": nsubs, "nbins": nbins, "nints": nints, "md": md, "n": n, "idx": idx,
                "total": total, "period": rng.choice((3, 5, 8, 7.3, 12.9, 2.5)) * TSAMP,
                "accel": rng.choice((0.0, 0.0, 50.0, -300.0, 2.0 ** 20)), "dseed": rng.randrange(1 << 30), "g": 0, "N": n,
                "dm": 0.0}

    def _case(self, rng, kind=None):
        kind = kind or rng.choice(("fil", "fil", "fil-dm", "tim", "periodic", "kernel"))
        if kind == "kernel":
            return self._kernel_case(rng)
        nbins = rng.choice((2, 4, 5, 8))
        nints = rng.choice((1, 2, 3, 4))
        C = rng.choice((1, 2, 3, 4, 6, 8)) if kind != "tim" else 1
        nbands = rng.choice((1, 2, 3, 4))
        need = 10 * nbins * nints * min(nbands, C)
        N = max(need // C + 1, rng.choice((40, 64, 100, 150)))
        m = rng.choice((3, 5, 8, 16, 7.3, 12.9))
        c = {"kind": kind, "nbins": nbins, "nints": nints, "nbands": nbands, "C": C, "N": N, "nbits": rng.choice((8, 32)),
             "period": m * TSAMP, "accel": rng.choice((0.0, 0.0, 50.0, -300.0)), "dm": 0.0,
             "g": rng.choice((3, 7, 16, N, N + 5, rng.randint(1, N))), "dseed": rng.randrange(1 << 30)}
        if kind == "fil-dm":
            # DMs large enough that the per-channel delays are really non-zero (max delay 1 … ~25 samples),
            # and gulps on both sides of 2*maxdelay so that the clamped-gulp path runs over several blocks
            c["dm"] = rng.choice((6.0, 20.0, 40.0, 80.0, 150.0, -20.0, -80.0))
            c["asc"] = rng.random() < 0.3         # delays negative relative to fch1 (ascending band / negative DM)
            c["C"] = max(C, rng.choice((2, 4, 8)))
            c["N"] = max(N, rng.choice((120, 200, 300)))
            c["g"] = rng.choice((3, 7, 16, 25, 40, 64, c["N"], rng.randint(1, c["N"])))
        if kind == "periodic":
            c["period"] = rng.choice((4, 5, 8, 10)) * TSAMP
            c["accel"] = 0.0
            c["t0"] = rng.randrange(0, 4)
        return c

    def corpus(self):
        return [{"kind": "fil-dm", "nbins": 4, "nints": 2, "nbands": 2, "C": 4, "N": 100, "nbits": 8, "period": 5 * TSAMP,
                 "accel": 0.0, "dm": 3.0, "g": 7, "dseed": 1},
                # gulp < 2*maxdelay (delays 0..12 at dm=60, 8 channels) over several blocks
                {"kind": "fil-dm", "nbins": 5, "nints": 2, "nbands": 2, "C": 8, "N": 160, "nbits": 8, "period": 7.3 * TSAMP,
                 "accel": 0.0, "dm": 60.0, "g": 15, "dseed": 2},
                {"kind": "fil-dm", "nbins": 4, "nints": 3, "nbands": 3, "C": 8, "N": 200, "nbits": 32, "period": 5 * TSAMP,
                 "accel": 50.0, "dm": 150.0, "g": 7, "dseed": 3}]

    def _long_case(self, rng):
        """a long single-channel fold (~1e6 phase bins swept): the absolute sample index multiplies every rounding
        error of the phase formula, so an evaluation in a narrower type than the documented one shows here only"""
        return {"kind": "tim-long", "nbins": rng.choice((5, 7, 8)), "nints": rng.choice((1, 4, 8)), "nbands": 1, "C": 1,
                "N": rng.choice((1 << 20, (1 << 20) + 12345, 3 << 19)), "nbits": 32,
                "period": rng.choice((7.3, 12.9, 63.0, 23.7, 5.1)) * TSAMP, "accel": rng.choice((0.0, 0.0, 50.0)),
                "dm": 0.0, "g": 0, "dseed": rng.randrange(1 << 30)}

    def gen(self, rng, tier):
        k = 1 if tier == "quick" else 6
        return [self._long_case(rng) for _ in range(3 * k)] + [self._case(rng) for _ in range(200 * k)]

    # ------------------------------------------------------------------
    def _data(self, case):
        if case["kind"] == "kernel":
            return np.zeros((1, 1), dtype=np.int64)
        rng = random.Random(case["dseed"])
        N, C = case["N"], case["C"]
        if case["kind"] == "tim-long":
            return np.random.RandomState(case["dseed"] % (1 << 31)).randint(0, 16, size=(N, 1)).astype(np.int64)
        if case["kind"] == "periodic":
            m = int(round(case["period"] / TSAMP))
            x = np.zeros((N, C), dtype=np.int64)
            x[case["t0"]::m, :] = 9
            return x
        return spfiles.rand_data(rng, N, C, 8)

    def _kernel_inputs(self, case):
        rng = random.Random(case["dseed"])
        C, n, md = case["C"], case["n"], case["md"]
        x = np.array([rng.randrange(0, 16) for _ in range(n * C)], dtype=np.float32)
        dl = np.array([rng.randint(0, md) for _ in range(C)], dtype=np.int32)
        if md:
            dl[rng.randrange(C)] = md
        return x, dl

    def _observe_kernel(self, case):
        from sigpyproc.core import kernels
        x, dl = self._kernel_inputs(case)
        size = case["nbins"] * case["nints"] * case["nsubs"]
        fa = np.zeros(size, dtype=np.float32)
        ca = np.zeros(size, dtype=np.int32)
        try:
            kernels.fold(x, fa, ca, dl, case["md"], np.float32(TSAMP), np.float32(case["period"]),
                         np.float32(case["accel"]), case["total"], case["n"], case["C"], case["nbins"], case["nints"],
                         case["nsubs"], case["idx"])
        except Exception as e:  # noqa: BLE001
            return {"err": exc_name(e), "msg": str(e)[-200:]}
        return {"fold": [float(v) for v in fa], "count": [int(v) for v in ca], "delays": [int(v) for v in dl]}

    def _kernel_expected(self, case, dl, exact):
        """(cell, value index) assignment of the documented formula; `exact` = rational arithmetic, else the
        kernel's IEEE operations.  Returns None when a cell falls outside the cube."""
        from fractions import Fraction as Fr
        C, n, md, idx, total = case["C"], case["n"], case["md"], case["idx"], case["total"]
        nbins, nints, nsubs = case["nbins"], case["nints"], case["nsubs"]
        conv = (lambda v: Fr(float(np.float32(v)))) if exact else (lambda v: float(np.float32(v)))
        ts, p, a = conv(TSAMP), conv(case["period"]), conv(case["accel"])
        one, half, cval = (Fr(1), Fr(1, 2), Fr(299792458)) if exact else (1, 0.5, CVAL)
        factor1 = (Fr(total) / nints) if exact else total / nints
        factor2 = (Fr(C) / nsubs) if exact else C / nsubs
        tobs = total * ts
        cells = []
        for t in range(n - md):
            tj = (t + idx) * ts
            phase = nbins * tj * (one + a * (tj - tobs) / (2 * cval)) / p + half
            pb = abs(int(phase)) % nbins
            si = (t + idx) // factor1
            for c in range(C):
                cells.append(int(si * nbins * nsubs + pb + (c // factor2) * nbins))
        return cells

    def observe(self, case):
        from sigpyproc.core import kernels
        from sigpyproc.readers import FilReader
        from sigpyproc.timeseries import TimeSeries

        if case["kind"] == "kernel":
            return self._observe_kernel(case)
        d = common.tmpdir()
        x = self._data(case)
        N, C = x.shape
        try:
            if case["kind"] in ("tim", "tim-long"):
                from .c04 import mk_header
                h = mk_header(1, 32, nsamples=N, tsamp=TSAMP, data_type="time series")
                ts = TimeSeries(x[:, 0].astype(np.float32), h)
                fd = ts.fold(case["period"], accel=case["accel"], nbins=case["nbins"], nints=case["nints"])
                return {"cube": [float(v) for v in fd.data.ravel()], "shape": list(fd.data.shape), "delays": [0]}
            fch1, foff = (FCH1 + FOFF * 30, -FOFF) if case.get("asc") else (FCH1, FOFF)
            p = spfiles.write_fil(d / "in.fil", x, case["nbits"], fch1=fch1, foff=foff, tsamp=TSAMP)
            fil = FilReader(str(p))
            dl = np.atleast_1d(fil.header.get_dmdelays(case["dm"])).astype(int)
            dl = [int(v) for v in dl - min(0, int(dl.min()))]      # referred to the earliest channel, as the fold does
            if max(dl) >= N // 2:
                return {"skip": True}
            fd = fil.fold(case["period"], case["dm"], accel=case["accel"], nbins=case["nbins"], nints=case["nints"],
                          nbands=case["nbands"], gulp=case["g"], quiet=True)
            fil._file.close()
            return {"cube": [float(v) for v in fd.data.ravel()], "shape": list(fd.data.shape), "delays": dl,
                    "dmrep": float(fd.dm), "prep": float(fd.period)}
        except Exception as e:  # noqa: BLE001
            import traceback
            return {"err": exc_name(e), "msg": traceback.format_exc()[-300:]}

    # ------------------------------------------------------------------
    def _expected(self, case, obs):
        x = self._data(case).astype(np.float64)
        N, C = x.shape
        nbins, nints = case["nbins"], case["nints"]
        nb = 1 if case["kind"] == "tim" else min(case["nbands"], C)
        dl = obs["delays"] if case["kind"] != "tim" else [0]
        md = max(dl)
        nf = N - md
        pb, si = assign_tables(N, nf, nbins, nints, TSAMP, case["period"], case["accel"])
        factor2 = C / nb
        sums = np.zeros((nints, nb, nbins))
        cnt = np.zeros((nints, nb, nbins))
        for t in range(nf):
            for c in range(C):
                sb = int(c // factor2)
                sums[si[t], sb, pb[t]] += x[t + dl[c], c]
                cnt[si[t], sb, pb[t]] += 1
        return sums, cnt, nf, pb, si

    def _expected_long(self, case):
        """`assign_tables` + `_expected` for one channel, vectorised (same IEEE double operations in the same order)"""
        x = self._data(case)[:, 0].astype(np.float64)
        N, nbins, nints = len(x), case["nbins"], case["nints"]
        ts, p, a = float(np.float32(TSAMP)), float(np.float32(case["period"])), float(np.float32(case["accel"]))
        t = np.arange(N, dtype=np.int64)
        tj = t * ts
        tobs = N * ts
        phase = nbins * tj * (1 + a * (tj - tobs) / (2 * CVAL)) / p + 0.5
        pb = np.abs(phase.astype(np.int64)) % nbins
        si = np.floor_divide(t, N / nints).astype(np.int64)
        cell = si * nbins + pb
        sums = np.bincount(cell, weights=x, minlength=nints * nbins).reshape(nints, 1, nbins)
        cnt = np.bincount(cell, minlength=nints * nbins).astype(np.float64).reshape(nints, 1, nbins)
        return sums, cnt, N

    def _oracle_kernel(self, case, obs):
        if "err" in obs:
            return f"kernels.fold raised {obs['err']}: {obs['msg']}"
        x, dl = self._kernel_inputs(case)
        C, n, md = case["C"], case["n"], case["md"]
        cells = self._kernel_expected(case, dl, exact=False)
        size = case["nbins"] * case["nints"] * case["nsubs"]
        sums, cnt = [0.0] * size, [0] * size
        k = 0
        for t in range(n - md):
            for c in range(C):
                j = cells[k]
                k += 1
                if not 0 <= j < size:
                    return f"documented formula gives cell {j} outside the cube of {size}"
                sums[j] += float(x[C * (t + int(dl[c])) + c])
                cnt[j] += 1
        if sum(obs["count"]) != (n - md) * C:
            return f"hit counts sum to {sum(obs['count'])}, {(n - md) * C} (sample, channel) pairs were folded"
        if obs["count"] != cnt:
            return f"kernel count array {obs['count']} != assignment of the documented formula {cnt}"
        if obs["fold"] != sums:
            return f"kernel fold array {obs['fold']} != sums of the assigned samples {sums}"
        return None

    def oracle(self, case, obs):
        if case["kind"] == "kernel":
            return self._oracle_kernel(case, obs)
        if obs.get("skip"):
            return None
        if "err" in obs:
            if obs["err"] == "ValueError" and "too large" in obs["msg"] or "too short" in obs.get("msg", ""):
                return None
            return f"fold raised {obs['err']}: {obs['msg'][-160:]}"
        if case["kind"] == "tim-long":
            sums, cnt, nf = self._expected_long(case)
        else:
            sums, cnt, nf, pb, si = self._expected(case, obs)
        C = case["C"]
        if obs["shape"] != list(sums.shape):
            return f"cube shape {obs['shape']} != {list(sums.shape)}"
        if cnt.sum() != nf * C:
            return "oracle self-check failed"
        got = np.array(obs["cube"]).reshape(sums.shape)
        with np.errstate(invalid="ignore", divide="ignore"):
            want = sums / cnt
        for idx in np.ndindex(*sums.shape):
            if cnt[idx] == 0:
                continue      # a cell no sample falls into has no mean
            if not math.isfinite(got[idx]) or abs(got[idx] - want[idx]) > 1e-5 * (1 + abs(want[idx])):
                return (f"cell (subint, band, bin)={idx} is {got[idx]}, the mean of the {int(cnt[idx])} samples the "
                        f"phase model assigns to it is {want[idx]} (gulp {case['g']}, delays {obs['delays'][:4]})")
        if case["kind"] == "periodic":
            # every sub-integration: a single phase bin holds the pulse
            for i in range(sums.shape[0]):
                for b in range(sums.shape[1]):
                    nz = [k for k in range(sums.shape[2]) if cnt[i, b, k] and got[i, b, k] > 0]
                    if len(nz) > 1:
                        return f"periodic train folded at its period occupies bins {nz} in sub-integration {i}"
        return None

    # ------------------------------------------------------------------
    def _float_boundary(self, case, obs):
        """the exact rational evaluation and the IEEE evaluation of the formula assign some sample differently
        (a float rounding artefact at a bin / sub-integration boundary): the exact generated kernel is then not
        comparable with the compiled one"""
        _, dl = self._kernel_inputs(case)
        return self._kernel_expected(case, dl, exact=True) != self._kernel_expected(case, dl, exact=False)

    def model_requests(self, case, obs):
        if case["kind"] == "kernel":
            if "err" in obs or self._float_boundary(case, obs):
                return []
            from fractions import Fraction as Fr
            x, dl = self._kernel_inputs(case)
            size = case["nbins"] * case["nints"] * case["nsubs"]
            q = lambda v: (lambda f: f"{f.numerator}/{f.denominator}")(Fr(float(np.float32(v))))  # noqa: E731
            z = " ".join(["0"] * size)
            return [f"K fold {case['md']} {case['total']} {case['n']} {case['C']} {case['nbins']} {case['nints']} "
                    f"{case['nsubs']} {case['idx']} {size} | {' '.join(str(int(v)) for v in x)} | {z} | {z} | "
                    f"{' '.join(str(int(v)) for v in dl)} | {q(TSAMP)} {q(case['period'])} {q(case['accel'])}"]
        if obs.get("skip") or "err" in obs or case["kind"] == "tim-long":
            return []
        x = self._data(case)
        N, C = x.shape
        nb = 1 if case["kind"] == "tim" else min(case["nbands"], C)
        dl = obs["delays"] if case["kind"] != "tim" else [0]
        md = max(dl)
        pb, si = assign_tables(N, N - md, case["nbins"], case["nints"], TSAMP, case["period"], case["accel"])
        sbs = [int(c // (C / nb)) for c in range(C)]
        g = case["g"] if case["kind"] != "tim" else N
        flat = " ".join(str(int(v)) for v in x.ravel())
        return [f"C11 fold {g} {N} {C} {case['nbins']} {case['nints']} {nb} {' '.join(map(str, dl))} "
                f"{' '.join(map(str, sbs))} {' '.join(map(str, pb))} {' '.join(map(str, si))} {flat}"]

    def model_compare(self, case, obs, answers):
        if not answers:
            return None
        if case["kind"] == "kernel":
            from fractions import Fraction as Fr
            parts = answers[0].split("|")
            if len(parts) != 2 or not parts[0].startswith("ok"):
                return f"generated fold kernel: {answers[0][:80]}"
            f = [float(Fr(v)) for v in parts[0].split()[1:]]
            c = [int(Fr(v)) for v in parts[1].split()]
            if f != obs["fold"] or c != obs["count"]:
                return (f"generated fold kernel (translated from the source, exact arithmetic) gives fold={f} count={c}; "
                        f"the compiled kernel gives fold={obs['fold']} count={obs['count']}")
            return None
        t = answers[0].split()
        if t[0] != "ok":
            return f"model {answers[0][:50]}"
        k = int(t[1])
        sums = [int(v) for v in t[2:2 + k]]
        cnts = [int(v) for v in t[2 + k:2 + 2 * k]]
        got = obs["cube"]
        if len(got) != k:
            return f"cube has {len(got)} cells, model {k}"
        for i, (s_, c_, g_) in enumerate(zip(sums, cnts, got)):
            if c_ == 0:
                if math.isfinite(g_):
                    return f"cell {i}: model count 0 but impl value {g_}"
                continue
            if abs(g_ - s_ / c_) > 1e-5 * (1 + abs(s_ / c_)):
                return f"cell {i}: impl {g_} vs model {s_}/{c_}"
        return None

    def regime(self, case, obs):
        if case["kind"] == "kernel":
            return "kernel-float-boundary" if "err" not in obs and self._float_boundary(case, obs) else "kernel"
        if case["kind"] == "fil-dm" and obs.get("delays"):
            md = max(obs["delays"])
            if md > 0 and case["g"] < 2 * md and 2 * md < case["N"] - md:
                return "fil-dm-clamped-gulp"     # gulp raised to 2*maxdelay, several blocks
            if md == 0:
                return "fil-dm-zero-delay"
        return case["kind"]

    def nontrivial(self, case, obs):
        return case["g"] < case["N"] or case["dm"] > 0 or case["kind"] == "tim-long"


PROP = C11()

"""C17 — re-tuning a folded cube depends only on the target DM/period, not the history."""
from __future__ import annotations

import itertools
import random

import numpy as np

from .base import Prop, exc_name


def mk_cube(case):
    from sigpyproc.foldedcube import FoldedData
    from .c04 import mk_header

    rng = random.Random(case["dseed"])
    ni, nb, nbin = case["shape"]
    data = np.array([rng.randrange(0, 1000) for _ in range(ni * nb * nbin)], dtype=np.float32).reshape(ni, nb, nbin)
    if case.get("dkind") == "zerosum":
        # baseline-subtracted integer data: every profile (hence every sub-band and sub-integration plane) sums to
        # exactly zero without being zero - content must not decide whether a plane is rotated
        data = np.array([rng.randrange(-3, 4) for _ in range(ni * nb * nbin)], dtype=np.float32).reshape(ni, nb, nbin)
        data[..., 0] -= data.sum(axis=2)
    h = mk_header(case["nchans"], 8, nsamples=case["nsamples"], tsamp=case["tsamp"])
    return FoldedData(_layout(data, case.get("layout", "c")), h, case["period0"], case["dm0"], 0), data


def _layout(data, how):
    """the same cube values held in a differently laid-out float32 array (a legal input: the constructor keeps views)"""
    ni, nb, nbin = data.shape
    if how == "trim":        # band-trimmed slice of a wider cube
        big = np.zeros((ni, nb + 3, nbin), dtype=np.float32)
        big[:, 1:1 + nb] = data
        return big[:, 1:1 + nb]
    if how == "stride":      # every other bin of a finer cube
        big = np.zeros((ni, nb, 2 * nbin), dtype=np.float32)
        big[..., ::2] = data
        return big[..., ::2]
    if how == "T":           # bin-major storage
        return np.ascontiguousarray(data.transpose(2, 1, 0)).transpose(2, 1, 0)
    return data.copy()


class C17(Prop):
    id = "C17"
    rule = ("histories of update_dm/update_period on random cubes: bounded-exhaustive over an alphabet of 3 DMs x 3 "
            "periods (folding values included) up to depth 3 (quick) / 4 (thorough), random longer histories; after "
            "every call the cube is compared with the model, and at the end with a fresh cube re-tuned once. "
            "Non-trivial = history of length >= 2 with a non-zero drift; distinct by full case.")
    assumptions = ["the float maps (DM difference → per-sub-band bin drift, period → per-sub-integration drift) are "
                   "taken from the implementation and only required to vanish at the folding values"]
    regimes_expected = ["len1", "len2", "len3+", "returns-to-folding", "repeat"]
    budget_s = (120, 900)

    def _base(self, rng):
        shape = [rng.choice((1, 2, 4)), rng.choice((1, 2, 4)), rng.choice((8, 16, 32))]
        return {"shape": shape, "nchans": 64, "nsamples": 5000000, "tsamp": 64e-6, "period0": rng.choice((0.0372, 0.25, 1.337)),
                "dm0": rng.choice((0.0, 30.0, 120.5)), "dseed": rng.randrange(1 << 30),
                "layout": rng.choice(("c", "c", "c", "trim", "stride", "T")), "dkind": rng.choice(("rand", "rand", "zerosum"))}

    def _alphabet(self, c, rng):
        dms = [c["dm0"], c["dm0"] + rng.choice((5.0, 40.0, 200.0)), max(0.0, c["dm0"] - rng.choice((3.0, 25.0)))]
        # one fine and one coarse period step: the coarse one is large enough to change the rounded per-sub-band
        # bin delays if a DM drift were (wrongly) computed with the current instead of the folding period
        ps = [c["period0"], c["period0"] * (1 + rng.choice((1e-5, 3e-5, 1e-4))),
              c["period0"] * rng.choice((0.7, 0.9, 1.2, 1.5))]
        return [["dm", v] for v in dms] + [["p", v] for v in ps]

    def gen(self, rng, tier):
        cases = []
        depth = 3 if tier == "quick" else 4
        for _ in range(2 if tier == "quick" else 4):
            c = self._base(rng)
            alpha = self._alphabet(c, rng)
            for ln in range(1, depth + 1):
                for hist in itertools.product(alpha, repeat=ln):
                    cases.append(dict(c, hist=[list(o) for o in hist]))
        for _ in range(100 if tier == "quick" else 1500):
            c = self._base(rng)
            alpha = self._alphabet(c, rng) + [["dm", rng.uniform(0, 300)], ["p", c["period0"] * (1 + rng.uniform(-2e-4, 2e-4))],
                                                ["p", c["period0"] * rng.uniform(0.5, 2.0)]]
            cases.append(dict(c, hist=[list(rng.choice(alpha)) for _ in range(rng.randint(1, 8))]))
        if tier == "quick":
            rng.shuffle(cases)
            cases = cases[:900]
        return cases

    def corpus(self):
        c = {"shape": [2, 2, 16], "nchans": 64, "nsamples": 5000000, "tsamp": 64e-6, "period0": 0.0372, "dm0": 30.0, "dseed": 7}
        return [dict(c, hist=[["dm", 70.0], ["dm", 70.0]]), dict(c, hist=[["dm", 70.0], ["dm", 30.0]]),
                dict(c, hist=[["p", 0.0372 * (1 + 1e-4)], ["p", 0.0372]]),
                dict(c, hist=[["dm", 70.0], ["p", 0.0372 * (1 + 1e-4)], ["dm", 45.0]]),
                # order independence across a coarse period step
                dict(c, hist=[["p", 0.0372 * 1.2], ["dm", 90.0]]), dict(c, hist=[["dm", 90.0], ["p", 0.0372 * 1.2]]),
                dict(c, hist=[["p", 0.0372 * 0.7], ["dm", 150.0], ["p", 0.0372], ["dm", 150.0]])]

    # ------------------------------------------------------------------
    def observe(self, case):
        try:
            fd, orig = mk_cube(case)
            steps = []
            for op, v in case["hist"]:
                # the implementation's own drift for (folding value → target), measured on a fresh cube
                ref, _ = mk_cube(case)
                if op == "dm":
                    drift = [int(x) for x in np.atleast_1d(ref._get_dmdelays(v))]
                    fd.update_dm(v)
                else:
                    drift = [int(x) for x in np.atleast_1d(ref._get_pdelays(v))]
                    fd.update_period(v)
                steps.append({"cube": [float(x) for x in fd.data.ravel()], "dm": float(fd.dm), "period": float(fd.period),
                              "drift": drift})
            # fresh cube re-tuned once to the final values
            fdm = next((v for op, v in reversed(case["hist"]) if op == "dm"), case["dm0"])
            fp = next((v for op, v in reversed(case["hist"]) if op == "p"), case["period0"])
            fresh, _ = mk_cube(case)
            fresh.update_dm(fdm)
            fresh.update_period(fp)
            return {"steps": steps, "fresh": [float(x) for x in fresh.data.ravel()], "orig": [float(x) for x in orig.ravel()],
                    "final": [fdm, fp]}
        except Exception as e:  # noqa: BLE001
            import traceback
            return {"err": exc_name(e), "msg": traceback.format_exc()[-300:]}

    # ------------------------------------------------------------------
    _drift_memo: dict = {}

    def _drift_check(self, case, op, v, drift):
        """the drift for (folding value → target) is a function of the target alone: (a) whenever it is measured
        again in this process it must be the same vector (a cache or a shared array must not change it), and
        (b) it must agree with the dispersion / period-drift law evaluated here in float64, to within a rounding
        boundary"""
        ni, nb, nbin = case["shape"]
        key = (tuple(case["shape"]), case["nchans"], case["nsamples"], case["tsamp"], case["period0"], case["dm0"], op, v)
        first = self._drift_memo.setdefault(key, list(drift))
        if first != list(drift):
            return (f"the drift for {op}={v} (folding dm {case['dm0']}, period {case['period0']}) was {first} when first "
                    f"computed in this process and is {list(drift)} now: it does not depend on the target alone")
        FCH1, FOFF = 1400.0, -0.5          # the band of `c04.mk_header`
        if op == "dm":
            ddm = v - case["dm0"]
            cw = FOFF * case["nchans"] / nb
            tb = case["period0"] / nbin
            want = [4.148808e3 * ddm * ((FCH1 + b * cw) ** -2 - FCH1 ** -2) / tb for b in range(nb)]
        else:
            tobs = case["nsamples"] * case["tsamp"]
            dbins = (v / case["period0"] - 1) * tobs * nbin / case["period0"]
            want = [i * dbins / ni for i in range(ni)]
        for k, (g, w) in enumerate(zip(drift, want)):
            if abs(g - w) > 0.5 + 1e-5 * abs(w) + 1e-6:
                return f"drift of lane {k} for {op}={v} is {g}; the drift law gives {w:.4f}"
        return None

    def oracle(self, case, obs):
        if "err" in obs:
            return f"history {case['hist']} raised {obs['err']}: {obs['msg'][-150:]}"
        for st, (op, v) in zip(obs["steps"], case["hist"]):
            bad = self._drift_check(case, op, v, st["drift"])
            if bad:
                return bad
        ni, nb, nbin = case["shape"]
        orig = np.array(obs["orig"]).reshape(ni, nb, nbin)
        steps = obs["steps"]
        hist = case["hist"]
        dmd, pd = [0] * nb, [0] * ni      # drift (folding value -> current target) of each sub-band / sub-integration
        for k, (st, (op, v)) in enumerate(zip(steps, hist)):
            cube = np.array(st["cube"]).reshape(ni, nb, nbin)
            if op == "dm":
                dmd = st["drift"]
            else:
                pd = st["drift"]
            # the statement itself, evaluated here: the cube as folded with every profile rotated once by the drift of
            # the current targets (not by re-running the implementation on a second cube)
            for i in range(ni):
                for b in range(nb):
                    if not (cube[i, b] == np.roll(orig[i, b], -(dmd[b] + pd[i]))).all():
                        return (f"step {k} of {hist[:k + 1]} ({case.get('layout', 'c')} layout): profile ({i},{b}) is not the "
                                f"folded profile rotated by the drift {dmd[b] + pd[i]} of dm={st['dm']}, period={st['period']}")
            if (op == "dm" and st["dm"] != v) or (op == "p" and st["period"] != v):
                return f"step {k}: reported dm/period {st['dm']}/{st['period']} after {op}={v}"
            for i in range(ni):
                for b in range(nb):
                    if sorted(cube[i, b]) != sorted(orig[i, b]):
                        return f"step {k}: profile ({i},{b}) is not a rotation of the original"
            if k > 0 and hist[k] == hist[k - 1] and st["cube"] != steps[k - 1]["cube"]:
                return f"repeating {op}={v} changed the cube (history {hist[:k + 1]})"
        last = steps[-1]
        if last["cube"] != obs["fresh"]:
            return (f"history {hist}: cube differs from a fresh cube re-tuned once to dm={obs['final'][0]}, "
                    f"period={obs['final'][1]}")
        if obs["final"][0] == case["dm0"] and obs["final"][1] == case["period0"] and last["cube"] != obs["orig"]:
            return f"returning to the folding values did not restore the original cube (history {hist})"
        return None

    # ------------------------------------------------------------------
    def model_requests(self, case, obs):
        if "err" in obs:
            return []
        ni, nb, nbin = case["shape"]
        toks = [f"C17 hist {ni} {nb} {nbin} {len(case['hist'])}"]
        for (op, v), st in zip(case["hist"], obs["steps"]):
            toks.append(("d" if op == "dm" else "p") + " " + " ".join(map(str, st["drift"])))
        toks.append(" ".join(str(int(x)) for x in obs["orig"]))
        return [" ".join(toks)]

    def model_compare(self, case, obs, answers):
        if not answers:
            return None
        parts = answers[0].split(" ; ")
        if len(parts) != len(obs["steps"]):
            return f"model: {answers[0][:60]}"
        for k, (p, st) in enumerate(zip(parts, obs["steps"])):
            if [float(x) for x in p.split()] != st["cube"]:
                return f"step {k} ({case['hist'][k]}): cube differs from the model"
        return None

    def regime(self, case, obs):
        h = case["hist"]
        if len(h) >= 2 and h[-1] == h[-2]:
            return "repeat"
        if len(h) >= 2 and "final" in obs and obs["final"] == [case["dm0"], case["period0"]]:
            return "returns-to-folding"
        return {1: "len1", 2: "len2"}.get(len(h), "len3+")

    def nontrivial(self, case, obs):
        return len(case["hist"]) >= 2 and any(any(st["drift"]) for st in obs.get("steps", []))


PROP = C17()

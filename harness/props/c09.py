"""C09 — one dispersion law, applied identically by every dedispersion path."""
from __future__ import annotations

import random
from fractions import Fraction

import numpy as np

import common
import spfiles
from .base import Prop, exc_name

K = Fraction("4148.808")
PATHS = ("law", "blk_roll", "blk_valid", "stream", "read_dedisp", "dmt", "dmt_valid", "inverse", "twice", "rd_then", "kernel")


def exact_delay(dm, f32, fref, tsamp):
    """exact rational value of K*dm*(f^-2 - fref^-2)/tsamp for the float32 channel frequency"""
    f = Fraction(float(f32))
    r = Fraction(float(fref))
    return K * Fraction(dm) * (1 / (f * f) - 1 / (r * r)) / Fraction(tsamp)


def unique_block(C, n):
    return (1 + np.arange(C * n)).reshape(n, C).astype(np.int64)   # (n, C): x[t, c]


def file_block(case, C, N):
    """(N, C) samples of the file a `stream` / `read_dedisp` / `rd_then` case reads: unique values at 32 bits, a
    fixed aperiodic pattern within the range of the depth for packed files"""
    nbits = case.get("nbits", 32)
    if nbits == 32:
        return unique_block(C, N)
    t, c = np.meshgrid(np.arange(N), np.arange(C), indexing="ij")
    return ((7 * c + 3 * t + (c * t) % 5 + (t * t) % 7) % (1 << nbits)).astype(np.int64)


class C09(Prop):
    id = "C09"
    rule = ("delay vectors of Header.get_dmdelays for bands of either direction, DMs of either sign and every "
            "reference-frequency choice vs the exact rational law (accepted iff equal or within the float32 evaluation "
            "error of a rounding boundary), zero at reference, antisymmetry, monotonicity; every dedispersion entry "
            "point on unique-valued data vs x[c, t + delay_c] with the implementation's own delays. Non-trivial = "
            "non-zero maxdelay; distinct by full case.")
    assumptions = ["float32 evaluation of the law is validated, not proved",
                   "the valid-samples variants and the streamed path index from the earliest needed sample: "
                   "x[c, t + off + delay_c] with off = max(0, -min delay)"]
    regimes_expected = list(PATHS) + ["dmt-inband-fine", "dmt_valid-inband-fine"]
    budget_s = (150, 1200)

    def _kernel_case(self, rng):
        """direct call of a compiled block kernel on a tiny block, for the GENERATED kernels (KB requests)"""
        kern = rng.choice(("roll_block", "roll_block_valid", "dmt_block", "dmt_block_valid"))
        rows, cols = rng.choice((1, 2, 3, 4)), rng.choice((1, 2, 3, 5, 8))
        ndm = rng.choice((1, 2, 3))
        wide = kern in ("roll_block", "dmt_block")
        lim = cols + 2 if wide else max(1, cols // 2)
        nsh = rows if kern.startswith("roll") else ndm
        if rng.random() < 0.1 and kern.startswith("roll"):
            nsh = rows + rng.choice((-1, 1))          # length mismatch: must be rejected
        n = max(nsh, 0) * (1 if kern.startswith("roll") else rows)
        return {"path": "kernel", "kern": kern, "rows": rows, "cols": cols, "nsh": max(nsh, 0),
                "sh": (lambda mode: [rng.randint(-lim, lim) if mode == 0 else rng.randint(1, max(1, lim)) * (1 if mode == 1 else -1)
                                    for _ in range(n)])(rng.choice((0, 0, 1, 2))),      # mixed / all positive / all negative
                "C": rows, "n": cols, "dm": 0.0,
                "foff": -1.0, "fch1": 1000.0, "tsamp": 1e-3, "ref": "ch1", "ndm": ndm, "s": 0, "g": 1}

    def _observe_kernel(self, case):
        from sigpyproc.core import kernels
        rows, cols, kern = case["rows"], case["cols"], case["kern"]
        x = (np.arange(rows * cols, dtype=np.float32) * 3 % 17 + 1).reshape(rows, cols)
        sh = np.array(case["sh"], dtype=np.int64)
        if not kern.startswith("roll"):
            sh = sh.reshape(case["nsh"], rows)
        try:
            out = getattr(kernels, kern)(x, sh)
        except ValueError:
            return {"rejected": True, "delays": [0]}
        except Exception as e:  # noqa: BLE001
            return {"err": exc_name(e), "msg": str(e)[-200:]}
        return {"data": [float(v) for v in out.ravel()], "shape": list(out.shape), "delays": [int(v) for v in case["sh"]],
                "x": [float(v) for v in x.ravel()]}

    def _oracle_kernel(self, case, obs):
        if "err" in obs:
            return f"{case['kern']} raised {obs['err']}: {obs['msg']}"
        rows, cols, kern = case["rows"], case["cols"], case["kern"]
        x = (np.arange(rows * cols, dtype=np.float64) * 3 % 17 + 1).reshape(rows, cols)
        sh = np.array(case["sh"], dtype=np.int64)
        roll = kern.startswith("roll")
        if roll and case["nsh"] != rows:
            return None if obs.get("rejected") else "a shift vector of the wrong length was accepted"
        table = sh.reshape(1, rows) if roll else sh.reshape(case["nsh"], rows)
        if kern in ("roll_block", "dmt_block"):
            if obs.get("rejected"):
                return f"{kern} rejected a well-formed request"
            rolled = [np.array([np.roll(x[r], int(t[r])) for r in range(rows)]) for t in table]
            want = rolled[0] if roll else np.array([m.sum(axis=0) for m in rolled])
        else:
            start, end = max(0, int(table.max())), cols + min(0, int(table.min()))
            if end - start <= 0:
                return None if obs.get("rejected") else "an empty no-wrap window was accepted"
            if obs.get("rejected"):
                return f"{kern} rejected a request whose no-wrap window is {end - start} samples"
            win = [np.array([x[r, start - int(t[r]): end - int(t[r])] for r in range(rows)]) for t in table]
            want = win[0] if roll else np.array([m.sum(axis=0) for m in win])
        got = np.array(obs["data"]).reshape(obs["shape"])
        if got.shape != want.shape or not np.array_equal(got, want):
            return f"{kern}({rows}x{cols}, shifts {case['sh']}): got {got.tolist()}, definition gives {want.tolist()}"
        return None

    def _case(self, rng, path=None):
        path = path or rng.choice(PATHS)
        if path == "kernel":
            return self._kernel_case(rng)
        asc = rng.random() < 0.3
        C = rng.choice((1, 2, 4, 8, 16))
        foff = rng.choice((-10.0, -4.0, -0.5, -1 / 3)) * (-1 if asc else 1)
        fch1 = rng.choice((1500.0, 800.1953125, 433.968))
        if asc:
            fch1 = fch1 - abs(foff) * C
        tsamp = rng.choice((1e-3, 64e-6, 5e-4))
        dm = rng.choice((0.0, 1.0, 3.5, 10.0, 15.0, 25.0, 40.0, -2.0, -10.0, -15.0))
        ref = rng.choice(("ch1", "ch1", "max", "min", "center", "num", "num-above", "num-below"))
        n = rng.choice((8, 16, 40, 100)) if path not in ("read_dedisp", "rd_then") else rng.choice((1, 2, 3, 8, 16, 40))
        nbits = 32
        if path in ("read_dedisp", "rd_then", "stream") and rng.random() < 0.4:
            # packed files: a channel is not a whole number of bytes, partial-spectrum reads must stay aligned
            nbits = rng.choice([b for b in (1, 2, 4, 8) if (C * b) % 8 == 0] or [32])
        return {"path": path, "C": C, "foff": foff, "fch1": fch1, "tsamp": tsamp, "dm": dm, "ref": ref, "n": n, "nbits": nbits,
                "ndm": rng.choice((1, 3, 3, 8, 33, 64)), "s": rng.choice((0, 2)), "g": rng.choice((3, 7, 64))}

    def corpus(self):
        b = {"C": 8, "foff": -10.0, "fch1": 1500.0, "tsamp": 1e-3, "dm": 40.0, "ref": "ch1", "n": 40, "ndm": 3, "s": 0, "g": 7}
        return [dict(b, path=p) for p in PATHS if p != "kernel"] + [dict(b, path="stream", foff=10.0, fch1=1420.0),
                                                   dict(b, path="stream", dm=-10.0)]

    def gen(self, rng, tier):
        k = 1 if tier == "quick" else 6
        cases = []
        for p in PATHS:
            cases += [self._case(rng, p) for _ in range(40 * k)]
        # in-band reference with a fine DM grid on both DM-time paths, every run (delays of both signs in one table)
        for p in ("dmt", "dmt_valid"):
            for _ in range(4 * k):
                c = self._case(rng, p)
                c.update(ref="num", ndm=rng.choice((8, 33, 64)), dm=rng.choice((10.0, 25.0, -15.0)), C=rng.choice((4, 8, 16)),
                         n=100)
                cases.append(c)
        return cases

    # ------------------------------------------------------------------
    def _hdr(self, case, nsamples):
        from sigpyproc.header import Header
        return Header(filename="x.fil", data_type="filterbank", nchans=case["C"], foff=case["foff"], fch1=case["fch1"],
                      nbits=32, tsamp=case["tsamp"], tstart=58000.0, nsamples=nsamples)

    @staticmethod
    def _rd_geom(case, d):
        """(file length, start) of a `read_dedisp` case: the file holds every delayed window, whatever the delays -
        blocks much shorter than the delay step between adjacent channels included"""
        s = case["s"] + max(0, -min(d))
        return s + case["n"] + max(0, max(d)) + 3, s

    def _ref(self, case, h):
        # numeric references: inside the band (delays of both signs), and OUTSIDE it on either side (every delay of
        # one sign, none zero: e.g. a sub-band dedispersed to the top of the full band)
        lo, hi = min(h.fch1, h.fch1 + h.foff * (h.nchans - 1)), max(h.fch1, h.fch1 + h.foff * (h.nchans - 1))
        return {"num": float(h.fch1 + 0.37 * h.foff * h.nchans), "num-above": float(hi + 3 * abs(h.foff) + 7.0),
                "num-below": float(max(lo - 3 * abs(h.foff) - 7.0, 0.5 * lo))}.get(case["ref"], case["ref"])

    def observe(self, case):
        from sigpyproc.block import FilterbankBlock
        from sigpyproc.readers import FilReader

        C, n, dm, path = case["C"], case["n"], case["dm"], case["path"]
        if path == "kernel":
            return self._observe_kernel(case)
        h = self._hdr(case, n)
        ref = self._ref(case, h)
        x = unique_block(C, n)
        res = {"freqs": [float(v) for v in h.chan_freqs]}
        try:
            if path == "law":
                d = np.atleast_1d(h.get_dmdelays(dm, ref_freq=ref))
                dneg = np.atleast_1d(h.get_dmdelays(-dm, ref_freq=ref))
                fref = float(ref) if not isinstance(ref, str) else float(getattr(h, "f" + ref))
                res.update(delays=[int(v) for v in d], neg=[int(v) for v in dneg], fref=fref)
                return res
            # the block paths take the reference frequency (in-band references give delays of both signs);
            # the streamed paths always use the first channel
            bref = ref if path in ("blk_roll", "blk_valid", "inverse", "twice", "dmt", "dmt_valid") else "ch1"
            d = np.atleast_1d(h.get_dmdelays(dm, ref_freq=bref))
            res["delays"] = [int(v) for v in d]
            if int(np.abs(d).max()) >= n and path not in ("read_dedisp", "rd_then"):
                return {"skip": True}
            blk = FilterbankBlock(x.T.astype(np.float32), h)
            if path == "blk_roll":
                o = blk.dedisperse(dm, ref_freq=bref)
                res.update(data=[float(v) for v in o.data.ravel()], shape=list(o.data.shape), dmrep=float(o.dm))
            elif path == "blk_valid":
                if int(d.max()) - int(d.min()) >= n:
                    return {"skip": True}
                o = blk.dedisperse(dm, ref_freq=bref, only_valid_samples=True)
                res.update(data=[float(v) for v in o.data.ravel()], shape=list(o.data.shape), dmrep=float(o.dm))
            elif path == "inverse":
                o = blk.dedisperse(dm, ref_freq=bref).dedisperse(-dm, ref_freq=bref)
                res.update(data=[float(v) for v in o.data.ravel()], shape=list(o.data.shape))
            elif path == "twice":
                # every call applies the full delay of ITS dm to ITS input, whatever DM label the input carries
                o = blk.dedisperse(dm, ref_freq=bref).dedisperse(dm, ref_freq=bref)
                res.update(data=[float(v) for v in o.data.ravel()], shape=list(o.data.shape))
            elif path in ("dmt", "dmt_valid"):
                dd0 = np.atleast_2d(h.get_dmdelays(dm + np.linspace(-dm, dm, case["ndm"]), ref_freq=bref))
                if int(dd0.max()) - min(0, int(dd0.min())) >= n or int(np.abs(dd0).max()) >= n:
                    return {"skip": True}
                o = blk.dmt_transform(dm, dmsteps=case["ndm"], ref_freq=bref, only_valid_samples=(path == "dmt_valid"))
                dd = np.atleast_2d(h.get_dmdelays(np.asarray(o.dms), ref_freq=bref))
                res.update(data=[float(v) for v in o.data.ravel()], shape=list(o.data.shape),
                           dms=[float(v) for v in o.dms], ddelays=[[int(v) for v in r] for r in dd])
            else:
                dd = common.tmpdir()
                N, s = (n + 6, case["s"]) if path == "stream" else self._rd_geom(case, [int(v) for v in d])
                if N * C > 60000:
                    return {"skip": True}
                xx = file_block(case, C, N)
                p = spfiles.write_fil(dd / "in.fil", xx, case.get("nbits", 32), fch1=case["fch1"], foff=case["foff"], tsamp=case["tsamp"])
                fil = FilReader(str(p))
                try:
                    if path == "stream":
                        ts = fil.dedisperse(dm, gulp=case["g"], start=s, nsamps=n, quiet=True)
                        res.update(data=[float(v) for v in ts.data], shape=[1, len(ts.data)], dmrep=float(ts.header.dm))
                    else:
                        lo, hi = s + int(d.min()), s + int(d.max()) + n
                        if lo < 0 or hi > N:
                            return {"skip": True}
                        o = fil.read_dedisp_block(s, n, dm)
                        if path == "rd_then":
                            o = o.dedisperse(dm)
                        res.update(data=[float(v) for v in o.data.ravel()], shape=list(o.data.shape), dmrep=float(o.dm))
                finally:
                    fil._file.close()
        except Exception as e:  # noqa: BLE001
            import traceback
            return {"err": exc_name(e), "msg": traceback.format_exc()[-300:]}
        return res

    # ------------------------------------------------------------------
    def oracle(self, case, obs):
        if obs.get("skip"):
            return None
        path, C, n, dm = case["path"], case["C"], case["n"], case["dm"]
        if path == "kernel":
            return self._oracle_kernel(case, obs)
        if "err" in obs:
            return f"{path} (dm={dm}, foff={case['foff']}) raised {obs['err']}: {obs['msg'][-160:]}"
        d = obs["delays"]
        if path == "law":
            fr = obs["fref"]
            for c, (f, dc) in enumerate(zip(obs["freqs"], d)):
                x = exact_delay(dm, f, fr, case["tsamp"])
                t1 = abs(K * Fraction(dm) / (Fraction(float(f)) ** 2) / Fraction(case["tsamp"]))
                t2 = abs(K * Fraction(dm) / (Fraction(fr) ** 2) / Fraction(case["tsamp"]))
                bound = Fraction(1, 100000) * (t1 + t2) + Fraction(1, 10 ** 6)
                if abs(Fraction(dc) - x) > Fraction(1, 2) + bound:
                    return f"delay of channel {c} is {dc}, the law gives {float(x):.6f}"
            if obs["neg"] != [-v for v in d]:
                return "delays are not antisymmetric in DM"
            fs = obs["freqs"]
            order = sorted(range(C), key=lambda c: fs[c])
            seq = [d[c] for c in order]
            mono = all(a >= b for a, b in zip(seq, seq[1:])) if dm >= 0 else all(a <= b for a, b in zip(seq, seq[1:]))
            if not mono:
                return f"delays are not monotone in frequency: {seq}"
            ref = case["ref"]
            if ref in ("ch1", "max", "min"):
                c0 = {"ch1": 0, "max": int(np.argmax(fs)), "min": int(np.argmin(fs))}[ref]
                if d[c0] != 0:
                    return f"delay at the reference channel ({ref}) is {d[c0]}"
            return None
        x = unique_block(C, n).T.astype(np.float64)      # (C, n)
        got = np.array(obs["data"]).reshape(obs["shape"])
        off = max(0, -min(d))
        md = max(0, max(d))
        if path == "blk_roll":
            want = np.array([[x[c, (t + d[c]) % n] for t in range(n)] for c in range(C)])
        elif path == "blk_valid":
            L = n - md - off
            want = np.array([[x[c, t + off + d[c]] for t in range(L)] for c in range(C)])
        elif path == "inverse":
            want = x
        elif path == "twice":
            want = np.array([[x[c, (t + 2 * d[c]) % n] for t in range(n)] for c in range(C)])
        elif path in ("dmt", "dmt_valid"):
            D = obs["ddelays"]
            if path == "dmt":
                want = np.array([[sum(x[c, (t + D[i][c]) % n] for c in range(C)) for t in range(n)] for i in range(len(D))])
            else:
                allv = [v for r in D for v in r]
                off2, md2 = max(0, -min(allv)), max(0, max(allv))
                L = n - md2 - off2
                if L <= 0:
                    return None
                want = np.array([[sum(x[c, t + off2 + D[i][c]] for c in range(C)) for t in range(L)] for i in range(len(D))])
        else:
            N, s = (n + 6, case["s"]) if path == "stream" else self._rd_geom(case, d)
            xx = file_block(case, C, N).T.astype(np.float64)
            if path == "stream":
                L = n - md - off
                want = np.array([[sum(xx[c, s + t + off + d[c]] for c in range(C)) for t in range(L)]])
            elif path == "rd_then":
                want = np.array([[xx[c, s + (t + d[c]) % n + d[c]] for t in range(n)] for c in range(C)])
            else:
                want = np.array([[xx[c, s + t + d[c]] for t in range(n)] for c in range(C)])
        if list(got.shape) != list(want.shape):
            return f"{path}: output shape {list(got.shape)}, the definition has {list(want.shape)} (delays {d})"
        if not np.array_equal(got, want):
            i = np.argwhere(got != want)[0]
            return f"{path}: output{list(i)} = {got[tuple(i)]}, x[c, t + delay_c] gives {want[tuple(i)]} (delays {d[:6]})"
        if "dmrep" in obs and abs(obs["dmrep"] - dm) > 1e-6:
            return f"{path}: reports dm {obs['dmrep']} for applied {dm}"
        return None

    # ------------------------------------------------------------------ model
    @staticmethod
    def _q(x):
        f = Fraction(x)
        return f"{f.numerator}/{f.denominator}"

    def model_requests(self, case, obs):
        if obs.get("skip") or "err" in obs:
            return []
        path, C, n = case["path"], case["C"], case["n"]
        if path == "kernel":
            rows, cols = case["rows"], case["cols"]
            x = (np.arange(rows * cols) * 3 % 17 + 1)
            outr, outc = (obs["shape"] if not obs.get("rejected") else (1, 1))
            sh = " ".join(map(str, case["sh"])) or "0"
            return [f"KB {case['kern']} {rows} {cols} {case['nsh']} {outr} {outc} | {' '.join(str(int(v)) for v in x)} | {sh}"]
        if path in ("twice", "rd_then"):
            return []
        if path == "law":
            return [f"C09 delay {self._q(case['dm'])} {self._q(f)} {self._q(obs['fref'])} {self._q(case['tsamp'])}"
                    for f in obs["freqs"]]
        d = obs["delays"]
        if path == "stream":
            return []     # the streamed path is the C06 model (Reduce.dedisperse)
        if path == "read_dedisp":
            N, s0 = self._rd_geom(case, d)
            if N * C > 4000:
                return []          # long files: oracle only (the exact-model driver is slow on them)
            x = file_block(case, C, N).T
            flat = " ".join(str(int(v)) for v in x.ravel())
            return [f"C09 readdedisp {C} {N} 1 {s0} {n} {' '.join(map(str, d))} {flat}"]
        x = unique_block(C, n).T
        flat = " ".join(str(int(v)) for v in x.ravel())
        if path in ("dmt", "dmt_valid"):
            D = obs["ddelays"]
            dl = " ".join(str(v) for r in D for v in r)
            return [f"C09 {'dmt' if path == 'dmt' else 'dmtvalid'} {C} {n} {len(D)} 0 0 {dl} {flat}"]
        op = {"blk_roll": "roll", "blk_valid": "valid", "inverse": "inverse"}[path]
        return [f"C09 {op} {C} {n} 1 0 0 {' '.join(map(str, d))} {flat}"]

    def model_compare(self, case, obs, answers):
        if not answers:
            return None
        path = case["path"]
        if path == "kernel":
            a = answers[0].split()
            if obs.get("rejected"):
                return None if a[0] == "none" else f"compiled {case['kern']} rejects, the translated kernel answers {answers[0][:60]}"
            if a[0] != "ok":
                return f"translated {case['kern']} answers {answers[0][:60]}, the compiled kernel returns data"
            want = [float(Fraction(v)) for v in a[1:]]
            if want != obs["data"]:
                return (f"translated {case['kern']} ({case['rows']}x{case['cols']}, shifts {case['sh']}) gives {want}, "
                        f"the compiled kernel {obs['data']}")
            return None
        if path == "law":
            for c, (a, f, dc) in enumerate(zip(answers, obs["freqs"], obs["delays"])):
                m = Fraction(a.split()[1])
                if m != dc:
                    x = exact_delay(case["dm"], f, obs["fref"], case["tsamp"])
                    t1 = abs(K * Fraction(case["dm"]) / (Fraction(float(f)) ** 2) / Fraction(case["tsamp"]))
                    t2 = abs(K * Fraction(case["dm"]) / (Fraction(obs["fref"]) ** 2) / Fraction(case["tsamp"]))
                    bound = Fraction(1, 100000) * (t1 + t2) + Fraction(1, 10 ** 6)
                    frac = abs(x - (x.numerator // x.denominator) - Fraction(1, 2))
                    if frac > bound:
                        return f"channel {c}: impl delay {dc}, exact model {m} (law value {float(x):.6f} not near a rounding boundary)"
            return None
        t = answers[0].split()
        if t[0] != "ok":
            return f"model {answers[0][:40]} but impl returned data"
        rows, cols = int(t[1]), int(t[2])
        vals = [float(v) for v in t[3:]]
        if [rows, cols] != obs["shape"] or vals != obs["data"]:
            return f"{path}: impl shape {obs['shape']} vs model [{rows}, {cols}] or values differ"
        return None

    def regime(self, case, obs):
        if case["path"] in ("dmt", "dmt_valid") and obs.get("ddelays"):
            D = obs["ddelays"]
            mixed = any(min(r) < 0 < max(r) for r in D)
            if mixed and len(D) >= 8:
                return case["path"] + "-inband-fine"     # in-band reference (delays of both signs), fine DM grid
        return case["path"]

    def nontrivial(self, case, obs):
        return bool(obs.get("delays")) and any(obs["delays"])


PROP = C09()

"""C09 — one dispersion law, applied identically by every dedispersion path."""
from __future__ import annotations

import random
from fractions import Fraction

import numpy as np

import common
import spfiles
from .base import Prop, exc_name

K = Fraction("4148.808")
PATHS = ("law", "blk_roll", "blk_valid", "stream", "read_dedisp", "dmt", "dmt_valid", "inverse")


def exact_delay(dm, f32, fref, tsamp):
    """exact rational value of K*dm*(f^-2 - fref^-2)/tsamp for the float32 channel frequency"""
    f = Fraction(float(f32))
    r = Fraction(float(fref))
    return K * Fraction(dm) * (1 / (f * f) - 1 / (r * r)) / Fraction(tsamp)


def unique_block(C, n):
    return (1 + np.arange(C * n)).reshape(n, C).astype(np.int64)   # (n, C): x[t, c]


class C09(Prop):
    id = "C09"
    rule = ("delay vectors of Header.get_dmdelays for bands of either direction, DMs of either sign and every "
            "reference-frequency choice vs the exact rational law (accepted iff equal or within the float32 evaluation "
            "error of a rounding boundary), zero at reference, antisymmetry, monotonicity; every dedispersion entry "
            "point on unique-valued data vs x[c, t + delay_c] with the implementation's own delays. Non-trivial = "
            "non-zero maxdelay; distinct by full case.")
    assumptions = ["float32 evaluation of the law is validated, not proved",
                   "the valid-samples variants and the streamed path index from the earliest needed sample: "
                   "x[c, t + off + delay_c] with off = max(0, -min delay)"]
    regimes_expected = list(PATHS)
    budget_s = (150, 1200)

    def _case(self, rng, path=None):
        path = path or rng.choice(PATHS)
        asc = rng.random() < 0.3
        C = rng.choice((1, 2, 4, 8, 16))
        foff = rng.choice((-10.0, -4.0, -0.5, -1 / 3)) * (-1 if asc else 1)
        fch1 = rng.choice((1500.0, 800.1953125, 433.968))
        if asc:
            fch1 = fch1 - abs(foff) * C
        tsamp = rng.choice((1e-3, 64e-6, 5e-4))
        dm = rng.choice((0.0, 1.0, 3.5, 10.0, 40.0, -2.0, -10.0))
        ref = rng.choice(("ch1", "ch1", "max", "min", "center", "num"))
        n = rng.choice((8, 16, 40, 100))
        return {"path": path, "C": C, "foff": foff, "fch1": fch1, "tsamp": tsamp, "dm": dm, "ref": ref, "n": n,
                "ndm": rng.choice((1, 3)), "s": rng.choice((0, 2)), "g": rng.choice((3, 7, 64))}

    def corpus(self):
        b = {"C": 8, "foff": -10.0, "fch1": 1500.0, "tsamp": 1e-3, "dm": 40.0, "ref": "ch1", "n": 40, "ndm": 3, "s": 0, "g": 7}
        return [dict(b, path=p) for p in PATHS] + [dict(b, path="stream", foff=10.0, fch1=1420.0),
                                                   dict(b, path="stream", dm=-10.0)]

    def gen(self, rng, tier):
        k = 1 if tier == "quick" else 6
        cases = []
        for p in PATHS:
            cases += [self._case(rng, p) for _ in range(40 * k)]
        return cases

    # ------------------------------------------------------------------
    def _hdr(self, case, nsamples):
        from sigpyproc.header import Header
        return Header(filename="x.fil", data_type="filterbank", nchans=case["C"], foff=case["foff"], fch1=case["fch1"],
                      nbits=32, tsamp=case["tsamp"], tstart=58000.0, nsamples=nsamples)

    def _ref(self, case, h):
        return {"num": float(h.fch1 + 0.37 * h.foff * h.nchans)}.get(case["ref"], case["ref"])

    def observe(self, case):
        from sigpyproc.block import FilterbankBlock
        from sigpyproc.readers import FilReader

        C, n, dm, path = case["C"], case["n"], case["dm"], case["path"]
        h = self._hdr(case, n)
        ref = self._ref(case, h)
        x = unique_block(C, n)
        res = {"freqs": [float(v) for v in h.chan_freqs]}
        try:
            if path == "law":
                d = np.atleast_1d(h.get_dmdelays(dm, ref_freq=ref))
                dneg = np.atleast_1d(h.get_dmdelays(-dm, ref_freq=ref))
                fref = float(ref) if not isinstance(ref, str) else float(getattr(h, "f" + ref))
                res.update(delays=[int(v) for v in d], neg=[int(v) for v in dneg], fref=fref)
                return res
            d = np.atleast_1d(h.get_dmdelays(dm))
            res["delays"] = [int(v) for v in d]
            if int(np.abs(d).max()) >= n:
                return {"skip": True}
            blk = FilterbankBlock(x.T.astype(np.float32), h)
            if path == "blk_roll":
                o = blk.dedisperse(dm)
                res.update(data=[float(v) for v in o.data.ravel()], shape=list(o.data.shape), dmrep=float(o.dm))
            elif path == "blk_valid":
                o = blk.dedisperse(dm, only_valid_samples=True)
                res.update(data=[float(v) for v in o.data.ravel()], shape=list(o.data.shape), dmrep=float(o.dm))
            elif path == "inverse":
                o = blk.dedisperse(dm).dedisperse(-dm)
                res.update(data=[float(v) for v in o.data.ravel()], shape=list(o.data.shape))
            elif path in ("dmt", "dmt_valid"):
                dd0 = np.atleast_2d(h.get_dmdelays(dm + np.linspace(-dm, dm, case["ndm"])))
                if int(dd0.max()) - min(0, int(dd0.min())) >= n or int(np.abs(dd0).max()) >= n:
                    return {"skip": True}
                o = blk.dmt_transform(dm, dmsteps=case["ndm"], only_valid_samples=(path == "dmt_valid"))
                dd = np.atleast_2d(h.get_dmdelays(np.asarray(o.dms)))
                res.update(data=[float(v) for v in o.data.ravel()], shape=list(o.data.shape),
                           dms=[float(v) for v in o.dms], ddelays=[[int(v) for v in r] for r in dd])
            else:
                dd = common.tmpdir()
                N = n + 6
                xx = unique_block(C, N)
                p = spfiles.write_fil(dd / "in.fil", xx, 32, fch1=case["fch1"], foff=case["foff"], tsamp=case["tsamp"])
                fil = FilReader(str(p))
                s = case["s"]
                try:
                    if path == "stream":
                        ts = fil.dedisperse(dm, gulp=case["g"], start=s, nsamps=n, quiet=True)
                        res.update(data=[float(v) for v in ts.data], shape=[1, len(ts.data)], dmrep=float(ts.header.dm))
                    else:
                        lo, hi = s + int(d.min()), s + int(d.max()) + n
                        if lo < 0 or hi > N:
                            return {"skip": True}
                        o = fil.read_dedisp_block(s, n, dm)
                        res.update(data=[float(v) for v in o.data.ravel()], shape=list(o.data.shape), dmrep=float(o.dm))
                finally:
                    fil._file.close()
        except Exception as e:  # noqa: BLE001
            import traceback
            return {"err": exc_name(e), "msg": traceback.format_exc()[-300:]}
        return res

    # ------------------------------------------------------------------
    def oracle(self, case, obs):
        if obs.get("skip"):
            return None
        path, C, n, dm = case["path"], case["C"], case["n"], case["dm"]
        if "err" in obs:
            return f"{path} (dm={dm}, foff={case['foff']}) raised {obs['err']}: {obs['msg'][-160:]}"
        d = obs["delays"]
        if path == "law":
            fr = obs["fref"]
            for c, (f, dc) in enumerate(zip(obs["freqs"], d)):
                x = exact_delay(dm, f, fr, case["tsamp"])
                t1 = abs(K * Fraction(dm) / (Fraction(float(f)) ** 2) / Fraction(case["tsamp"]))
                t2 = abs(K * Fraction(dm) / (Fraction(fr) ** 2) / Fraction(case["tsamp"]))
                bound = Fraction(1, 100000) * (t1 + t2) + Fraction(1, 10 ** 6)
                if abs(Fraction(dc) - x) > Fraction(1, 2) + bound:
                    return f"delay of channel {c} is {dc}, the law gives {float(x):.6f}"
            if obs["neg"] != [-v for v in d]:
                return "delays are not antisymmetric in DM"
            fs = obs["freqs"]
            order = sorted(range(C), key=lambda c: fs[c])
            seq = [d[c] for c in order]
            mono = all(a >= b for a, b in zip(seq, seq[1:])) if dm >= 0 else all(a <= b for a, b in zip(seq, seq[1:]))
            if not mono:
                return f"delays are not monotone in frequency: {seq}"
            ref = case["ref"]
            if ref in ("ch1", "max", "min"):
                c0 = {"ch1": 0, "max": int(np.argmax(fs)), "min": int(np.argmin(fs))}[ref]
                if d[c0] != 0:
                    return f"delay at the reference channel ({ref}) is {d[c0]}"
            return None
        x = unique_block(C, n).T.astype(np.float64)      # (C, n)
        got = np.array(obs["data"]).reshape(obs["shape"])
        off = max(0, -min(d))
        md = max(0, max(d))
        if path == "blk_roll":
            want = np.array([[x[c, (t + d[c]) % n] for t in range(n)] for c in range(C)])
        elif path == "blk_valid":
            L = n - md - off
            want = np.array([[x[c, t + off + d[c]] for t in range(L)] for c in range(C)])
        elif path == "inverse":
            want = x
        elif path in ("dmt", "dmt_valid"):
            D = obs["ddelays"]
            if path == "dmt":
                want = np.array([[sum(x[c, (t + D[i][c]) % n] for c in range(C)) for t in range(n)] for i in range(len(D))])
            else:
                allv = [v for r in D for v in r]
                off2, md2 = max(0, -min(allv)), max(0, max(allv))
                L = n - md2 - off2
                if L <= 0:
                    return None
                want = np.array([[sum(x[c, t + off2 + D[i][c]] for c in range(C)) for t in range(L)] for i in range(len(D))])
        else:
            N = n + 6
            xx = unique_block(C, N).T.astype(np.float64)
            s = case["s"]
            if path == "stream":
                L = n - md - off
                want = np.array([[sum(xx[c, s + t + off + d[c]] for c in range(C)) for t in range(L)]])
            else:
                want = np.array([[xx[c, s + t + d[c]] for t in range(n)] for c in range(C)])
        if list(got.shape) != list(want.shape):
            return f"{path}: output shape {list(got.shape)}, the definition has {list(want.shape)} (delays {d})"
        if not np.array_equal(got, want):
            i = np.argwhere(got != want)[0]
            return f"{path}: output{list(i)} = {got[tuple(i)]}, x[c, t + delay_c] gives {want[tuple(i)]} (delays {d[:6]})"
        if "dmrep" in obs and abs(obs["dmrep"] - dm) > 1e-6:
            return f"{path}: reports dm {obs['dmrep']} for applied {dm}"
        return None

    # ------------------------------------------------------------------ model
    @staticmethod
    def _q(x):
        f = Fraction(x)
        return f"{f.numerator}/{f.denominator}"

    def model_requests(self, case, obs):
        if obs.get("skip") or "err" in obs:
            return []
        path, C, n = case["path"], case["C"], case["n"]
        if path == "law":
            return [f"C09 delay {self._q(case['dm'])} {self._q(f)} {self._q(obs['fref'])} {self._q(case['tsamp'])}"
                    for f in obs["freqs"]]
        d = obs["delays"]
        if path == "stream":
            return []     # the streamed path is the C06 model (Reduce.dedisperse)
        if path == "read_dedisp":
            N = n + 6
            x = unique_block(C, N).T
            flat = " ".join(str(int(v)) for v in x.ravel())
            return [f"C09 readdedisp {C} {N} 1 {case['s']} {n} {' '.join(map(str, d))} {flat}"]
        x = unique_block(C, n).T
        flat = " ".join(str(int(v)) for v in x.ravel())
        if path in ("dmt", "dmt_valid"):
            D = obs["ddelays"]
            dl = " ".join(str(v) for r in D for v in r)
            return [f"C09 {'dmt' if path == 'dmt' else 'dmtvalid'} {C} {n} {len(D)} 0 0 {dl} {flat}"]
        op = {"blk_roll": "roll", "blk_valid": "valid", "inverse": "inverse"}[path]
        return [f"C09 {op} {C} {n} 1 0 0 {' '.join(map(str, d))} {flat}"]

    def model_compare(self, case, obs, answers):
        if not answers:
            return None
        path = case["path"]
        if path == "law":
            for c, (a, f, dc) in enumerate(zip(answers, obs["freqs"], obs["delays"])):
                m = Fraction(a.split()[1])
                if m != dc:
                    x = exact_delay(case["dm"], f, obs["fref"], case["tsamp"])
                    t1 = abs(K * Fraction(case["dm"]) / (Fraction(float(f)) ** 2) / Fraction(case["tsamp"]))
                    t2 = abs(K * Fraction(case["dm"]) / (Fraction(obs["fref"]) ** 2) / Fraction(case["tsamp"]))
                    bound = Fraction(1, 100000) * (t1 + t2) + Fraction(1, 10 ** 6)
                    frac = abs(x - (x.numerator // x.denominator) - Fraction(1, 2))
                    if frac > bound:
                        return f"channel {c}: impl delay {dc}, exact model {m} (law value {float(x):.6f} not near a rounding boundary)"
            return None
        t = answers[0].split()
        if t[0] != "ok":
            return f"model {answers[0][:40]} but impl returned data"
        rows, cols = int(t[1]), int(t[2])
        vals = [float(v) for v in t[3:]]
        if [rows, cols] != obs["shape"] or vals != obs["data"]:
            return f"{path}: impl shape {obs['shape']} vs model [{rows}, {cols}] or values differ"
        return None

    def regime(self, case, obs):
        return case["path"]

    def nontrivial(self, case, obs):
        return bool(obs.get("delays")) and any(obs["delays"])


PROP = C09()

"""C02 — a multi-file stream reads as the concatenation of its data sections."""
from __future__ import annotations

import random

import numpy as np

import common
import spfiles
from .base import Prop, exc_name
from .c03 import spec_unpack

ITEM = {1: 1, 2: 1, 4: 1, 8: 1, 16: 2, 32: 4}
BITFACT = {1: 8, 2: 4, 4: 2}


def build(case, d):
    rng = random.Random(case["dseed"])
    N = sum(case["lens"])
    data = spfiles.rand_data(rng, N, case["C"], case["nbits"])
    # different source names => different header lengths per file
    files, pos = [], 0
    secs = []
    for i, n in enumerate(case["lens"]):
        p = d / f"s{i}.fil"
        spfiles.write_fil(p, data[pos:pos + n], case["nbits"], tstart=58000.0 + pos * 0.001 / 86400,
                          extra={"rawdatafile": ("str", "r" * (1 + 3 * i))})
        raw = p.read_bytes()
        sec = spfiles.encode_samples(data[pos:pos + n], case["nbits"])
        assert raw.endswith(sec) or not sec
        secs.append((len(raw) - len(sec), sec))
        files.append(str(p))
        pos += n
    return files, data, secs


class C02(Prop):
    id = "C02"
    rule = ("histories of seek(o,0)/seek(o,1)/cread/creadinto over 1-3 real SIGPROC files (per-file lengths incl. 0 "
            "and 1 sample, every depth), random long histories (quick) plus bounded-exhaustive short histories on "
            "tiny files (thorough); read_block over all (start,nsamps) of small files. Non-trivial = history with a "
            "read crossing or touching a file boundary, or a read_block; distinct by full case.")
    assumptions = ["every data section is a whole number of items of the sample dtype (what FilReader produces/accepts)",
                   "histories start with an absolute seek (FileReader opens positioned at the header start)",
                   "the oracle does not judge the stream position after a failed counted read, nor a seek to exactly EOF"]
    regimes_expected = ["hist-single", "hist-multi", "hist-emptyfile", "readblock-in", "readblock-out"]
    budget_s = (90, 1200)

    def _hist_case(self, rng, maxops=25):
        nbits = rng.choice((1, 2, 4, 8, 8, 16, 32))
        cm = {1: 8, 2: 4, 4: 2}.get(nbits, 1)
        C = cm * rng.choice((1, 1, 2))
        nf = rng.choice((1, 2, 2, 3, 3))
        lens = [rng.choice((0, 1, 1, 2, 3, 5, 8)) for _ in range(nf)]
        if sum(lens) == 0:
            lens[rng.randrange(nf)] = 2
        w = ITEM[nbits]
        stride = C * nbits // 8
        L = sum(lens) * stride
        ops = [["s0", w * rng.randrange(0, L // w)]]
        pos = ops[0][1]
        for _ in range(rng.randint(1, maxops)):
            r = rng.random()
            if r < 0.25:
                o = w * rng.randint(-1, L // w + 1)
                ops.append(["s0", o])
            elif r < 0.45:
                o = w * rng.randint(-L // w, L // w)
                ops.append(["s1", o])
            elif r < 0.75:
                ops.append(["cr", w * rng.choice((0, 1, 2, 3, rng.randint(0, L // w + 2)))])
            else:
                ops.append(["ci", w * rng.choice((0, 1, 2, 5, rng.randint(0, L // w + 3)))])
        return {"kind": "hist", "nbits": nbits, "C": C, "lens": lens, "ops": ops, "dseed": rng.randrange(1 << 30)}

    def _rb_case(self, rng):
        nbits = rng.choice((1, 2, 4, 8, 16, 32))
        cm = {1: 8, 2: 4, 4: 2}.get(nbits, 1)
        C = cm * rng.choice((1, 2))
        nf = rng.choice((1, 2, 3))
        lens = [rng.choice((1, 2, 3, 5)) for _ in range(nf)]
        N = sum(lens)
        s = rng.randint(-1, N + 1)
        n = rng.randint(1, N + 2)
        return {"kind": "rb", "nbits": nbits, "C": C, "lens": lens, "s": s, "n": n, "dseed": rng.randrange(1 << 30)}

    def corpus(self):
        return [
            {"kind": "hist", "nbits": 8, "C": 1, "lens": [3, 0, 4], "dseed": 5,
             "ops": [["s0", 2], ["cr", 1], ["ci", 3], ["s1", -4], ["cr", 5], ["s0", 6], ["ci", 9], ["s1", -1], ["cr", 2]]},
            {"kind": "rb", "nbits": 2, "C": 4, "lens": [2, 3], "s": 1, "n": 3, "dseed": 6},
        ]

    def gen(self, rng, tier):
        cases = [self._hist_case(rng) for _ in range(250 if tier == "quick" else 2500)]
        cases += [self._rb_case(rng) for _ in range(120 if tier == "quick" else 800)]
        if tier == "thorough":
            # bounded-exhaustive: all histories of length <= 3 after the initial seek on two tiny 8-bit files
            lens = [2, 1]
            L = 3
            alphabet = [["s0", o] for o in range(-1, L + 1)] + [["s1", o] for o in range(-L, L + 1)] + \
                       [["cr", b] for b in range(0, L + 2)] + [["ci", b] for b in range(0, L + 2)]
            import itertools
            for s0 in range(L):
                for ln in (1, 2):
                    for ops in itertools.product(alphabet, repeat=ln):
                        cases.append({"kind": "hist", "nbits": 8, "C": 1, "lens": lens, "dseed": 11,
                                      "ops": [["s0", s0]] + [list(o) for o in ops]})
            for lens in ([4], [1, 3], [2, 0, 2]):
                N = sum(lens)
                for s in range(-1, N + 2):
                    for n in range(1, N + 2):
                        cases.append({"kind": "rb", "nbits": 4, "C": 2, "lens": lens, "s": s, "n": n, "dseed": 12})
        return cases

    # ------------------------------------------------------------------
    def observe(self, case):
        from sigpyproc.header import Header
        from sigpyproc.io.fileio import FileReader
        from sigpyproc.readers import FilReader

        d = common.tmpdir()
        files, data, secs = build(case, d)
        nbits = case["nbits"]
        if case["kind"] == "rb":
            try:
                fil = FilReader(files, check_contiguity=False)
                blk = fil.read_block(case["s"], case["n"])
                out = {"ok": [int(x) for x in np.asarray(blk.data).ravel()], "shape": list(blk.data.shape),
                       "hdr_nsamples": int(blk.header.nsamples)}
                fil._file.close()
                return out
            except Exception as e:  # noqa: BLE001
                return {"err": exc_name(e)}
        hdr = Header.from_sigproc(files, check_contiguity=False)
        fr = FileReader(hdr.stream_info, nbits=nbits)
        w = ITEM[nbits]
        bf = BITFACT.get(nbits, 1)
        out = []
        for op, x in case["ops"]:
            rec = {}
            try:
                if op == "s0":
                    fr.seek(x, 0)
                    rec["k"] = "u"
                elif op == "s1":
                    fr.seek(x, 1)
                    rec["k"] = "u"
                elif op == "cr":
                    arr = fr.cread(x // w * bf)
                    rec["k"] = "b"
                    if bf > 1:
                        rec["vals"] = [int(v) for v in arr]
                    else:
                        rec["bytes"] = arr.tobytes().hex()
                else:
                    buf = bytearray(b"\xee" * x)
                    ub = bytearray(x * bf) if bf > 1 else None
                    nb = fr.creadinto(buf, ub)
                    rec["k"] = "b"
                    rec["bytes"] = bytes(buf[:nb]).hex()
                    rec["tail_untouched"] = bytes(buf[nb:]) == b"\xee" * (x - nb)
                    if ub is not None:
                        rec["vals"] = [int(v) for v in ub[:nb * bf]]
            except Exception as e:  # noqa: BLE001
                rec = {"k": "e", "err": exc_name(e)}
            rec["pos"] = int(fr.cur_data_pos_stream)
            out.append(rec)
        fr.close()
        return {"ops": out, "hdrlens": [h for h, _ in secs]}

    # ------------------------------------------------------------------
    def _files_tokens(self, case):
        d = common.tmpdir()
        _, _, secs = build(case, d)
        return secs, " ".join(f"{h} {len(s)}" for h, s in secs)

    def model_requests(self, case, obs):
        secs, ft = self._files_tokens(case)
        if case["kind"] == "rb":
            stride = case["C"] * case["nbits"] // 8
            return [f"C02 rb {len(secs)} {ft} {stride} {sum(case['lens'])} {case['s']} {case['n']}"]
        ops = " ".join(f"{op} {x}" for op, x in case["ops"])
        return [f"C02 run {len(secs)} {ft} {ops}"]

    def _decode(self, idxs, flat, nbits):
        """model output (global byte indices) -> bytes; header markers stay visible"""
        if any(i >= 1000000 for i in idxs):
            return None
        return bytes(flat[i] for i in idxs)

    def model_compare(self, case, obs, answers):
        secs, _ = self._files_tokens(case)
        flat = b"".join(s for _, s in secs)
        nbits = case["nbits"]
        bf = BITFACT.get(nbits, 1)
        a = answers[0]
        if case["kind"] == "rb":
            t = a.split()
            if t[0] == "e":
                return None if obs.get("err") == t[1] else f"impl {obs} vs model {a[:60]}"
            if "err" in obs:
                return f"impl err {obs['err']} vs model ok"
            by = self._decode(list(map(int, t[2:])), flat, nbits)
            want = self._to_matrix(by, case)
            return None if want == obs["ok"] else "read_block values differ from model"
        parts = a.split(" ; ")
        if len(parts) != len(obs["ops"]):
            return f"model gave {len(parts)} answers for {len(obs['ops'])} ops"
        for j, (m, o) in enumerate(zip(parts, obs["ops"])):
            t = m.split()
            if t[0] == "u":
                ok = o["k"] == "u" and o["pos"] == int(t[1])
            elif t[0] == "e":
                ok = o["k"] == "e" and o["err"] == t[1] and o["pos"] == int(t[2])
            else:
                n = int(t[1])
                by = self._decode(list(map(int, t[2:2 + n])), flat, nbits)
                ok = o["k"] == "b" and o["pos"] == int(t[2 + n]) and by is not None
                if ok and "bytes" in o:
                    ok = by.hex() == o["bytes"]
                if ok and "vals" in o:
                    order = spfiles.DEFAULT_ORDER[nbits]
                    ok = o["vals"] == [v for b in by for v in spec_unpack(b, nbits, order)]
            if not ok:
                return f"op {j} {case['ops'][j]}: impl {str(o)[:120]} vs model `{m[:80]}`"
        return None

    def _to_matrix(self, by, case):
        nbits, C = case["nbits"], case["C"]
        if nbits in BITFACT:
            order = spfiles.DEFAULT_ORDER[nbits]
            vals = [v for b in by for v in spec_unpack(b, nbits, order)]
        elif nbits == 8:
            vals = list(by)
        elif nbits == 16:
            vals = [int(x) for x in np.frombuffer(by, dtype="<u2")]
        else:
            vals = [int(x) for x in np.frombuffer(by, dtype="<f4")]
        n = len(vals) // C
        m = np.array(vals, dtype=np.int64).reshape(n, C).T
        return [int(x) for x in m.ravel()]

    # ------------------------------------------------------------------
    def oracle(self, case, obs):
        rng = random.Random(case["dseed"])
        N = sum(case["lens"])
        C, nbits = case["C"], case["nbits"]
        data = spfiles.rand_data(rng, N, C, nbits)
        if case["kind"] == "rb":
            s, n = case["s"], case["n"]
            inr = s >= 0 and s + n <= N
            if not inr:
                return None if obs.get("err") == "ValueError" else f"out-of-range read_block gave {str(obs)[:80]}"
            if "err" in obs:
                return f"in-range read_block({s},{n}) raised {obs['err']}"
            want = [int(x) for x in data[s:s + n].T.ravel()]
            if obs["ok"] != want or obs["shape"] != [C, n] or obs["hdr_nsamples"] != n:
                return f"read_block({s},{n}) != model slice (shape {obs['shape']})"
            return None
        flat = spfiles.encode_samples(data, nbits)   # joined data sections == encoding of all samples
        L = len(flat)
        w = ITEM[nbits]
        bf = BITFACT.get(nbits, 1)
        pos = None
        for j, ((op, x), o) in enumerate(zip(case["ops"], obs["ops"])):
            if op in ("s0", "s1"):
                if op == "s1" and pos is None:
                    tgt = None
                else:
                    tgt = x if op == "s0" else pos + x
                if tgt is None:
                    pos = None if o["k"] != "u" else o["pos"] if False else None
                    continue
                if 0 <= tgt < L:
                    if o["k"] != "u" or o["pos"] != tgt:
                        return f"op {j} {op} {x}: in-range seek to {tgt} gave {o}"
                    pos = tgt
                elif tgt == L:
                    pos = tgt if o["k"] == "u" else pos
                else:
                    if o["k"] != "e" or o["err"] != "ValueError":
                        return f"op {j} {op} {x}: out-of-range seek to {tgt} did not raise ValueError: {o}"
                    if o["pos"] != pos and pos is not None:
                        return f"op {j}: failed seek moved the position {pos} -> {o['pos']}"
                continue
            if pos is None:
                continue
            if op == "cr":
                if pos + x <= L:
                    want = flat[pos:pos + x]
                    if o["k"] != "b":
                        return f"op {j} cread({x}) at {pos}: in-range read raised {o}"
                    pos += x
                else:
                    if o["k"] != "e":
                        return f"op {j} cread({x}) at {pos} of {L}: counted read past the end did not raise"
                    pos = None
                    continue
            else:
                want = flat[pos:pos + x]
                if o["k"] != "b":
                    return f"op {j} creadinto({x}) raised {o}"
                if not o.get("tail_untouched", True):
                    return f"op {j} creadinto wrote past the returned count"
                pos = min(pos + x, L)
            if "bytes" in o and o["bytes"] != want.hex():
                return f"op {j} {op} {x}: bytes {o['bytes'][:40]} != model slice {want.hex()[:40]}"
            if "vals" in o:
                order = spfiles.DEFAULT_ORDER[nbits]
                if o["vals"] != [v for b in want for v in spec_unpack(b, nbits, order)]:
                    return f"op {j} {op} {x}: unpacked values differ from the model slice"
            if o["pos"] != pos:
                return f"op {j} {op} {x}: position {o['pos']} != model {pos}"
        return None

    def regime(self, case, obs):
        if case["kind"] == "rb":
            return "readblock-in" if (case["s"] >= 0 and case["s"] + case["n"] <= sum(case["lens"])) else "readblock-out"
        if 0 in case["lens"]:
            return "hist-emptyfile"
        return "hist-multi" if len(case["lens"]) > 1 else "hist-single"

    def nontrivial(self, case, obs):
        return case["kind"] == "rb" or len(case["lens"]) > 1

    def shrink(self, failing):
        case = failing["case"]
        if case["kind"] != "hist":
            return failing
        best = failing
        ops = case["ops"]
        i = len(ops) - 1
        while i >= 1:
            cand = dict(case, ops=ops[:i] + ops[i + 1:])
            obs = self.observe(cand)
            o = self.oracle(cand, obs)
            if o:
                ops = cand["ops"]
                best = {"case": cand, "obs": obs, "oracle": o}
            i -= 1
        return best


PROP = C02()

"""C12 — FFT-based operations equal their direct time-domain definitions."""
from __future__ import annotations

import math
import random

import numpy as np

from .base import Prop, exc_name

OPS = ("rfft_ifft", "fftconvolve", "correlate", "mspec")


def series(case):
    rng = np.random.default_rng(case["dseed"])
    n, kind = case["n"], case["dkind"]
    if kind == "const":
        return np.full(n, 3.0, dtype=np.float32)
    if kind == "zeros":
        return np.zeros(n, dtype=np.float32)
    if kind == "alt":
        return np.where(np.arange(n) % 2 == 0, 1.0, -1.0).astype(np.float32)
    if kind == "impulse":
        x = np.zeros(n, dtype=np.float32)
        x[rng.integers(0, n)] = 5.0
        return x
    if kind == "dyn":
        return (rng.integers(-8, 9, size=n) * (4.0 ** rng.integers(0, 6, size=n))).astype(np.float32)
    return rng.integers(-9, 10, size=n).astype(np.float32)


def pair(case):
    """(x, y) of a convolution / correlation case.  With `lag` set the two are equal-length, overlapping windows of
    ONE recording (views of the same buffer, `lag` samples apart) - an ordinary way to cross-correlate two stretches"""
    if case.get("lag"):
        n, lag = case["n"], case["lag"]
        rec = series(dict(case, n=n + lag))
        return rec[:n], rec[lag:lag + n]
    return series(case), series(dict(case, n=case["m"], dseed=case["dseed"] + 1))


def mk_ts(x):
    from sigpyproc.timeseries import TimeSeries
    from .c04 import mk_header
    return TimeSeries(x, mk_header(1, 32, nsamples=len(x), tsamp=1e-3, data_type="time series"))


class C12(Prop):
    id = "C12"
    rule = ("EVERY length 1..256 (quick) / 1..1024 (thorough) for rfft→ifft, plus random lengths/kernel lengths for "
            "fftconvolve, correlate and the amplitude spectrum, on integer / constant / impulse / wide-dynamic-range "
            "float32 data; compared with float64 direct evaluation (DFT sum, Parseval, linear convolution, lag-indexed "
            "correlation) within an explicit float32 FFT error bound, and (integer data) exactly with the model after "
            "rounding. Non-trivial = length >= 3; distinct by (op, lengths, data kind).")
    assumptions = ["the transform pair itself (rocket-fft / pocketfft) is validated numerically, not proved"]
    regimes_expected = ["rfft_ifft-even", "rfft_ifft-odd", "rfft_ifft-padded-after-longer", "fftconvolve", "correlate", "mspec", "mspec-zero-bins"]
    budget_s = (200, 1500)

    def gen(self, rng, tier):
        cases = []
        top = 256 if tier == "quick" else 1024
        for n in range(1, top + 1):
            cases.append({"op": "rfft_ifft", "n": n, "dkind": rng.choice(("int", "int", "const", "impulse", "dyn")),
                          "dseed": rng.randrange(1 << 30)})
        # the same sweep downwards: a shorter series right after a longer one that pads to the same transform
        # size (state kept between calls - scratch buffers, cached plans - must not leak into the result)
        for n in range(top, 0, -1):
            cases.append({"op": "rfft_ifft", "n": n, "dkind": rng.choice(("int", "const", "dyn")),
                          "dseed": rng.randrange(1 << 30), "order": "descending"})
        for _ in range(150 if tier == "quick" else 1200):
            n = rng.choice((1, 2, 3, 7, 13, 16, 31, 45, 64, 100, 127, rng.randint(1, 300)))
            m = rng.choice((1, 2, 3, 5, n, rng.randint(1, n)))
            cases.append({"op": rng.choice(("fftconvolve", "correlate")), "n": n, "m": m,
                          "dkind": rng.choice(("int", "int", "const", "impulse")), "dseed": rng.randrange(1 << 30)})
        # a long series against a short kernel (the regime of block-wise convolution): every output sample, the last
        # `m - 1` included, for lengths on both sides of any block boundary
        for _ in range(14 if tier == "quick" else 100):
            m = rng.choice((2, 3, 5, 10, 12))
            n = rng.choice((568, 639, 1000, 1278, rng.randint(512, 1500), rng.randint(512, 1500)))
            cases.append({"op": rng.choice(("fftconvolve", "correlate")), "n": n, "m": m,
                          "dkind": rng.choice(("int", "const")), "dseed": rng.randrange(1 << 30)})
        for _ in range(12 if tier == "quick" else 80):
            n = rng.choice((8, 31, 64, 100, 200))
            cases.append({"op": "correlate", "n": n, "m": n, "lag": rng.choice((1, 3, n // 2, n - 1)),
                          "dkind": rng.choice(("int", "impulse")), "dseed": rng.randrange(1 << 30)})
        for _ in range(40 if tier == "quick" else 300):
            cases.append({"op": "mspec", "n": rng.randint(1, 300), "dkind": rng.choice(("int", "dyn")),
                          "dseed": rng.randrange(1 << 30)})
        # spectra with bins that are EXACTLY zero (constant, all-zero and alternating series of FFT-friendly
        # length): the modulus of a zero bin is 0, not an error and not NaN
        for n in (1, 2, 7, 16, 100, 128, 243, 256):
            for dk in ("const", "zeros", "alt"):
                cases.append({"op": "mspec", "n": n, "dkind": dk, "dseed": 1})
        return cases

    def corpus(self):
        return [{"op": "rfft_ifft", "n": 13, "dkind": "int", "dseed": 1}, {"op": "rfft_ifft", "n": 45, "dkind": "int", "dseed": 2}]

    # ------------------------------------------------------------------
    def observe(self, case):
        from sigpyproc.core import kernels as K

        op = case["op"]
        x = series(case)
        try:
            if op == "rfft_ifft":
                ts = mk_ts(x)
                fs = ts.rfft()
                N = int(fs.header.nsamples)
                spec = np.asarray(fs.data)
                back = fs.ifft()
                return {"N": N, "spec_re": [float(v) for v in spec.real], "spec_im": [float(v) for v in spec.imag],
                        "back": [float(v) for v in back.data], "back_ns": int(back.header.nsamples),
                        "goodsize": int(K.nb_fft_good_size(len(x), True))}
            if op == "mspec":
                ts = mk_ts(x)
                fs = ts.rfft()
                ps = fs.form_spec()
                spec = np.asarray(fs.data)
                return {"mspec": [float(v) for v in ps.data], "spec_re": [float(v) for v in spec.real],
                        "spec_im": [float(v) for v in spec.imag]}
            x, y = pair(case)
            if op == "fftconvolve":
                out = K.fftconvolve(x, y)
                return {"out": [float(v) for v in out], "N": int(K.nb_fft_good_size(len(x) + len(y) - 1, True))}
            ts = mk_ts(x)
            out = ts.correlate(mk_ts(y))
            return {"out": [float(v) for v in out.data], "ns": int(out.header.nsamples),
                    "N": int(K.nb_fft_good_size(len(x) + len(y) - 1, True))}
        except Exception as e:  # noqa: BLE001
            import traceback
            return {"err": exc_name(e), "msg": traceback.format_exc()[-300:]}

    # ------------------------------------------------------------------
    def oracle(self, case, obs):
        op, n = case["op"], case["n"]
        if "err" in obs:
            return f"{op} (n={n}, m={case.get('m')}) raised {obs['err']}: {obs['msg'][-160:]}"
        x = series(case).astype(np.float64)
        nrm = float(np.linalg.norm(x)) + 1e-30
        if op == "rfft_ifft":
            N = obs["N"]
            if N < n:
                return f"transform length {N} < series length {n}"
            xp = np.concatenate([x, np.zeros(N - n)])
            k = np.arange(N // 2 + 1)
            W = np.exp(-2j * np.pi * np.outer(k, np.arange(N)) / N)
            want = W @ xp
            got = np.array(obs["spec_re"]) + 1j * np.array(obs["spec_im"])
            tol = 2e-6 * (2 + math.log2(N)) * nrm * math.sqrt(N) + 1e-6
            if len(got) != len(want) or np.abs(got - want).max() > tol:
                return f"n={n}: spectrum differs from the discrete Fourier sum (N={N}, {len(got)} bins)"
            # Parseval for a real transform
            e_t = float((xp ** 2).sum())
            wts = np.full(len(got), 2.0)
            wts[0] = 1.0
            if N % 2 == 0:
                wts[-1] = 1.0
            e_f = float((wts * np.abs(got) ** 2).sum()) / N
            if abs(e_t - e_f) > 1e-4 * (e_t + 1e-30) + 1e-6:
                return f"n={n}: Parseval fails: {e_t} vs {e_f}"
            back = np.array(obs["back"])
            if len(back) != N or obs["back_ns"] != N:
                return f"n={n}: rfft→ifft returns {len(back)} samples, the transform length is {N}"
            if np.abs(back - xp).max() > 1e-5 * (2 + math.log2(N)) * (np.abs(x).max() + 1e-30) * math.sqrt(N):
                return f"n={n}: rfft→ifft does not return the zero-padded series"
            return None
        if op == "mspec":
            got = np.array(obs["mspec"])
            want = np.hypot(np.array(obs["spec_re"]), np.array(obs["spec_im"]))
            if len(got) != len(want) or np.abs(got - want).max() > 1e-5 * (np.abs(want).max() + 1e-30):
                return f"n={n}: amplitude spectrum is not the modulus of each Fourier bin"
            return None
        x, y = (v.astype(np.float64) for v in pair(case))
        m = len(y)
        got = np.array(obs["out"])
        if op == "fftconvolve":
            want = np.convolve(x, y)
        else:
            # lags -(m-1)..n-1: entry l+(m-1) = sum_j a[j+l]*b[j]
            want = np.array([sum(x[j + l] * y[j] for j in range(m) if 0 <= j + l < n) for l in range(-(m - 1), n)])
        tol = 1e-5 * (2 + math.log2(n + m)) * nrm * (float(np.linalg.norm(y)) + 1e-30) + 1e-6
        if len(got) != len(want):
            return f"{op}: output has {len(got)} samples, the definition has {len(want)} (n={n}, m={m})"
        if np.abs(got - want).max() > tol:
            i = int(np.argmax(np.abs(got - want)))
            return f"{op}: entry {i} is {got[i]}, the time-domain definition gives {want[i]} (n={n}, m={m})"
        return None

    # ------------------------------------------------------------------
    def model_requests(self, case, obs):
        if "err" in obs:
            return []
        op = case["op"]
        if op == "rfft_ifft":
            return [f"C12 lens {obs['N']} {obs['N']}"]
        if op in ("fftconvolve", "correlate") and case["dkind"] in ("int", "const", "impulse") and case["n"] <= 400:
            x, y = pair(case)      # (longer series: definition oracle only, the exact-model driver is slow on them)
            return [f"C12 {'conv' if op == 'fftconvolve' else 'corr'} {obs['N']} {len(x)} "
                    f"{' '.join(str(int(v)) for v in x)} {' '.join(str(int(v)) for v in y)}"]
        return []

    def model_compare(self, case, obs, answers):
        if not answers:
            return None
        op = case["op"]
        t = answers[0].split()
        if op == "rfft_ifft":
            bins, dflt, asked = int(t[1]), int(t[2]), int(t[3])
            if bins != len(obs["spec_re"]):
                return f"rfft bins {len(obs['spec_re'])} vs model {bins}"
            if asked != len(obs["back"]):
                return f"ifft length {len(obs['back'])} vs model {asked} (default would be {dflt})"
            return None
        body = answers[0][3:]
        first = body.split("|")[0].split()
        want = [int(v) for v in first]
        got = [int(round(v)) for v in obs["out"]]
        if got != want:
            return f"{op}: rounded impl {got[:8]} vs model {want[:8]}"
        if "|" in body:
            lin = [int(v) for v in body.split("|")[1].split()]
            if lin != want:
                return "model: circular-pad result differs from linear convolution"
        return None

    def regime(self, case, obs):
        if case["op"] == "mspec" and case["dkind"] in ("const", "zeros", "alt"):
            return "mspec-zero-bins"
        if case["op"] == "rfft_ifft":
            if case.get("order") == "descending" and obs.get("N", 0) != case["n"]:
                return "rfft_ifft-padded-after-longer"
            return "rfft_ifft-" + ("odd" if obs.get("N", 0) % 2 else "even")
        return case["op"]

    def nontrivial(self, case, obs):
        return case["n"] >= 3

    def key(self, case):
        return str((case["op"], case["n"], case.get("m"), case["dkind"], case.get("order")))


PROP = C12()

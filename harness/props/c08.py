"""C08 — output metadata describes the output data."""
from __future__ import annotations

import random

import numpy as np

import common
import spfiles
from .base import Prop, exc_name
from .c07 import read_out

FOFFS = (-4.0, 4.0, -0.1, 0.1, -1 / 3, 1 / 3, -0.390625, 0.390625)
FCH1S = (1500.0, 1382.3, 433.968, 800.1953125)
TSAMPS = (64e-6, 1e-3, 0.00032768)
TSTARTS = (58000.0, 59123.456789012, 55555.999999)
APIS = ("read_block", "read_block_f", "read_dedisp", "collapse", "dedisperse", "read_chan", "invert", "mask", "samps",
        "chans", "bands", "downsample", "subband", "zerodm", "blk_down", "blk_dedisp", "blk_tim", "ts_down")


def unique_data(N, C):
    """x[t, c] = 1 + t*C + c : every sample value identifies its (t, c) (float32-exact)"""
    return (1 + np.arange(N * C)).reshape(N, C).astype(np.int64)


class C08(Prop):
    id = "C08"
    rule = ("every API that returns a container or writes a file, on 32-bit files whose samples are unique (so each "
            "output value identifies the input rows it came from), over channelisations fch1 x foff in {±4, ±0.1, "
            "±1/3, ±0.390625} MHz, sub-ranges, selections, factors, sub-band counts, DMs; header of the product vs "
            "shape/depth of its data, tsamp, tstart (5 us), dm, and channel labels vs the labels of the input rows "
            "present. Non-trivial = start>0 or a channel selection/combination; distinct by full case.")
    assumptions = ["frequencies are compared to 1e-9 relative (float64 evaluation of fch1 + i*foff)",
                   "which inputs a combined channel sums is taken from the transform's definition (values are C07's job)"]
    regimes_expected = list(APIS)
    budget_s = (240, 1500)

    def _case(self, rng, api=None):
        api = api or rng.choice(APIS)
        foff = rng.choice(FOFFS)
        C = rng.choice((4, 8, 16))
        N = rng.choice((12, 20, 33))
        s = rng.choice((0, rng.randrange(0, N - 2)))
        n = rng.randint(2, N - s)
        c = {"api": api, "foff": foff, "fch1": rng.choice(FCH1S), "tsamp": rng.choice(TSAMPS),
             "tstart": rng.choice(TSTARTS), "C": C, "N": N, "s": s, "n": n, "g": rng.choice((3, 5, 16, 64)),
             "nbits": 32}
        if api == "read_block_f":
            c["j"] = rng.randrange(0, C)
            c["k"] = rng.randint(1, C - c["j"])
            # the requested first-channel frequency need not be a channel centre: the nearest channel is taken and
            # the block is labelled with THAT channel's centre
            c["offgrid"] = rng.choice((0.0, 0.0, 0.3, -0.4, 0.45, -0.2))
        if api in ("read_dedisp", "dedisperse", "subband", "blk_dedisp"):
            # the block paths accept delays of either sign (ascending bands); the streamed ones refuse them
            c["dm"] = rng.choice((0.0, 0.0, 1.0, 3.0)) if (foff < 0 or api in ("read_dedisp", "blk_dedisp")) else 0.0
            if api == "read_dedisp" and foff > 0 and c["dm"] > 0:
                c["s"] = rng.randrange(N // 2, N - 2)       # room for the negative delays before the start
                c["n"] = rng.randint(2, N - c["s"])
        if api in ("subband",):
            c["nsub"] = rng.choice([k for k in (1, 2, 4) if C % k == 0])
        if api in ("downsample", "blk_down"):
            c["tf"] = rng.choice((1, 2, 3))
            c["ff"] = rng.choice((1, 2, 4))
        if api == "ts_down":
            c["tf"] = rng.choice((2, 3))
        if "tf" in c and c["n"] < c["tf"]:        # a decimation factor larger than the range is refused by design
            c["s"] = 0
            c["n"] = min(N, max(c["n"], 2 * c["tf"]))
        if api == "chans":
            c["chans"] = rng.sample(range(C), rng.randint(2, min(C, 4)))
            c["batch"] = rng.choice((1, 2, 200))
        if api == "bands":
            c["per"] = rng.choice((2, 4))
            nb = rng.randint(1, C // c["per"])
            c["nch"] = nb * c["per"]
            c["chanstart"] = rng.randrange(0, C - c["nch"] + 1)
            c["batch"] = rng.choice((1, 2, 3, 200))      # sub-bands per batch; < number of bands -> several batches
        if api == "read_chan":
            c["ichan"] = rng.randrange(C)
        if api == "mask":
            c["nbits"] = rng.choice((8, 32))
        return c

    def corpus(self):
        b = {"fch1": 1382.3, "tsamp": 64e-6, "tstart": 58000.0, "C": 8, "N": 20, "s": 3, "n": 10, "g": 5, "nbits": 32}
        return [dict(b, api="read_block_f", foff=-0.1, j=3, k=4), dict(b, api="read_block_f", foff=0.1, j=2, k=3),
                dict(b, api="subband", foff=-4.0, dm=1.0, nsub=2), dict(b, api="invert", foff=-1 / 3),
                dict(b, api="collapse", foff=-4.0), dict(b, api="downsample", foff=-0.390625, tf=2, ff=2)]

    def gen(self, rng, tier):
        k = 1 if tier == "quick" else 6
        cases = []
        for api in APIS:
            cases += [self._case(rng, api) for _ in range(14 * k)]
        return cases

    # ------------------------------------------------------------------
    def _hdr(self, h):
        return {"nsamples": int(h.nsamples), "nchans": int(h.nchans), "nbits": int(h.nbits), "tsamp": float(h.tsamp),
                "tstart": float(h.tstart), "dm": float(h.dm), "fch1": float(h.fch1), "foff": float(h.foff)}

    def _filehdr(self, path):
        from sigpyproc.header import Header
        h, hl, vals, dl = read_out(path)
        hh = Header.from_sigproc(path)
        d = self._hdr(hh)
        d["ondisk_bits"] = h["nbits"]
        d["vals"] = vals
        d["datalen"] = dl
        return d

    def observe(self, case):
        from sigpyproc.readers import FilReader

        d = common.tmpdir()
        C, N = case["C"], case["N"]
        data = unique_data(N, C) if case["nbits"] == 32 else (unique_data(N, C) % 200)
        p = spfiles.write_fil(d / "in.fil", data, case["nbits"], fch1=case["fch1"], foff=case["foff"],
                              tsamp=case["tsamp"], tstart=case["tstart"])
        fil = FilReader(str(p))
        s, n, g, api = case["s"], case["n"], case["g"], case["api"]
        kw = {"gulp": g, "start": s, "nsamps": n, "quiet": True}
        out = str(d / "o.fil")
        res = {"in": self._hdr(fil.header)}
        try:
            if api == "read_block":
                b = fil.read_block(s, n)
                res["out"] = dict(self._hdr(b.header), shape=list(b.data.shape), vals=[float(v) for v in b.data.T.ravel()])
            elif api == "read_block_f":
                f = fil.header.fch1 + (case["j"] + case.get("offgrid", 0.0)) * fil.header.foff
                b = fil.read_block(s, n, fch1=f, nchans=case["k"])
                res["out"] = dict(self._hdr(b.header), shape=list(b.data.shape), vals=[float(v) for v in b.data.T.ravel()])
            elif api == "read_dedisp":
                dl = np.atleast_1d(fil.header.get_dmdelays(case["dm"]))
                # delays of either sign (ascending bands give negative ones): only windows leaving the file are skipped
                if s + n + int(dl.max()) > N or s + int(dl.min()) < 0:
                    return {"skip": True}
                b = fil.read_dedisp_block(s, n, case["dm"])
                res["out"] = dict(self._hdr(b.header), shape=list(b.data.shape), blockdm=float(b.dm))
                # the time series collapsed from the dedispersed block records the DM that was applied
                res["out"]["timdm"] = float(b.get_tim().header.dm)
            elif api in ("collapse", "read_chan", "dedisperse"):
                if api == "collapse":
                    ts = fil.collapse(**kw)
                elif api == "read_chan":
                    ts = fil.read_chan(case["ichan"], **kw)
                else:
                    dl = np.atleast_1d(fil.header.get_dmdelays(case["dm"]))
                    if int(dl.max()) >= n or dl.min() < 0:
                        return {"skip": True}
                    ts = fil.dedisperse(case["dm"], **kw)
                res["out"] = dict(self._hdr(ts.header), shape=[1, len(ts.data)])
            elif api == "invert":
                res["out"] = self._filehdr(fil.invert_freq(outfile_name=out, **kw))
            elif api == "mask":
                m = np.zeros(C, dtype=bool)
                m[1] = True
                res["out"] = self._filehdr(fil.apply_channel_mask(m, 0, outfile_name=out, **kw))
            elif api == "samps":
                res["out"] = self._filehdr(fil.extract_samps(s, n, outfile_name=out, gulp=g, quiet=True))
            elif api == "chans":
                outs = fil.extract_chans(np.array(case["chans"]), outfile_base=str(d / "c"), batch_size=case.get("batch", 200), **kw)
                res["outs"] = [self._filehdr(o) for o in outs]
            elif api == "bands":
                outs = fil.extract_bands(case["chanstart"], case["nch"], case["per"], outfile_base=str(d / "b"),
                                         batch_size=case.get("batch", 200), **kw)
                res["outs"] = [self._filehdr(o) for o in outs]
            elif api == "downsample":
                if C % case["ff"]:
                    return {"skip": True}
                res["out"] = self._filehdr(fil.downsample(case["tf"], case["ff"], outfile_name=out, **kw))
            elif api == "subband":
                dl = np.atleast_1d(fil.header.get_dmdelays(case["dm"]))
                if int(dl.max()) >= n or dl.min() < 0:
                    return {"skip": True}
                res["out"] = self._filehdr(fil.subband(case["dm"], case["nsub"], outfile_name=out, **kw))
            elif api == "zerodm":
                res["out"] = self._filehdr(fil.remove_zerodm(outfile_name=out, **kw))
            elif api == "blk_down":
                b = fil.read_block(s, n)
                if C % case["ff"]:
                    return {"skip": True}
                res["mid"] = self._hdr(b.header)
                b2 = b.downsample(ffactor=case["ff"], tfactor=case["tf"])
                res["out"] = dict(self._hdr(b2.header), shape=list(b2.data.shape))
            elif api == "blk_dedisp":
                b = fil.read_block(s, n)
                res["mid"] = self._hdr(b.header)
                b2 = b.dedisperse(case["dm"])
                res["out"] = dict(self._hdr(b2.header), shape=list(b2.data.shape), blockdm=float(b2.dm))
            elif api == "blk_tim":
                b = fil.read_block(s, n)
                ts = b.get_tim()
                res["out"] = dict(self._hdr(ts.header), shape=[1, len(ts.data)])
            elif api == "ts_down":
                ts0 = fil.collapse(**kw)
                res["mid"] = self._hdr(ts0.header)
                ts = ts0.downsample(case["tf"])
                res["out"] = dict(self._hdr(ts.header), shape=[1, len(ts.data)])
        except Exception as e:  # noqa: BLE001
            import traceback
            return {"err": exc_name(e), "msg": traceback.format_exc()[-300:]}
        finally:
            fil._file.close()
        return res

    # ------------------------------------------------------------------
    def oracle(self, case, obs):
        if obs.get("skip"):
            return None
        api = case["api"]
        if "err" in obs:
            return f"{api} raised {obs['err']}: {obs['msg'][-150:]}"
        hin = obs["in"]
        C, s, n = case["C"], case["s"], case["n"]
        fin = lambda j: hin["fch1"] + j * hin["foff"]   # noqa: E731
        outs = obs.get("outs") or [obs["out"]]
        bad = []

        def near(a, b, what, rel=1e-9):
            if abs(a - b) > rel * (1 + abs(b)):
                bad.append(f"{what}: {a!r} != {b!r}")

        def tstart_adv(o, nsamp):
            want = hin["tstart"] + nsamp * hin["tsamp"] / 86400.0
            if abs(o["tstart"] - want) * 86400.0 > 5e-6:
                bad.append(f"tstart {o['tstart']!r} is not the input's advanced by {nsamp} samples ({want!r})")

        for fi, o in enumerate(outs):
            # shape / depth
            if "shape" in o:
                if o["shape"] != [o["nchans"], o["nsamples"]]:
                    bad.append(f"header nchans x nsamples {o['nchans']}x{o['nsamples']} != data shape {o['shape']}")
            else:
                if o["ondisk_bits"] != o["nbits"]:
                    bad.append("nbits differs from on-disk depth")
                if o["datalen"] * 8 != o["nsamples"] * o["nchans"] * o["nbits"]:
                    bad.append(f"file holds {o['datalen']} data bytes, header implies {o['nsamples']}x{o['nchans']}x{o['nbits']} bits")
            tf = case.get("tf", 1) if api in ("downsample", "blk_down", "ts_down") else 1
            near(o["tsamp"], hin["tsamp"] * tf, "tsamp")
            tstart_adv(o, s)
            # dm
            if api in ("dedisperse", "subband"):
                near(o["dm"], case["dm"], "dm", 1e-6)
            if api in ("read_dedisp", "blk_dedisp"):
                near(o["blockdm"], case["dm"], "block dm", 1e-6)
            if "timdm" in o:
                near(o["timdm"], case["dm"], "dm of get_tim() of the dedispersed block", 1e-6)
            # channel labels
            fo = lambda i: o["fch1"] + i * o["foff"]   # noqa: E731
            if api in ("read_block", "mask", "samps", "zerodm", "read_dedisp", "blk_dedisp"):
                near(o["foff"], hin["foff"], "foff")
                near(o["fch1"], fin(0), "fch1")
            elif api == "read_block_f":
                near(o["foff"], hin["foff"], "foff")
                # which input channel is output row 0?  (values are unique)
                v0 = o["vals"][0]
                jrow = int(round(v0 - 1)) % C
                near(fo(0), fin(jrow), f"label of first returned channel (input channel {jrow}, requested {case['j']})")
                if jrow != case["j"]:
                    bad.append(f"requested the block whose first channel is input channel {case['j']}, got {jrow}")
            elif api == "invert":
                near(o["foff"], -hin["foff"], "foff")
                v0 = o["vals"][0]
                jrow = int(round(v0 - 1)) % C
                near(fo(0), fin(jrow), "label of first output channel vs the input channel it holds")
            elif api == "chans":
                near(o["fch1"], fin(case["chans"][fi]), f"fch1 of channel file {fi}")
            elif api == "bands":
                near(o["foff"], hin["foff"], "foff")
                near(o["fch1"], fin(case["chanstart"] + fi * case["per"]), f"fch1 of band file {fi}")
            elif api in ("downsample", "blk_down"):
                ff = case["ff"]
                near(o["foff"], hin["foff"] * ff, "foff")
                for i in (0, o["nchans"] - 1):
                    lo, hi = sorted((fin(i * ff), fin(i * ff + ff - 1)))
                    if not (lo - 1e-9 * (1 + abs(lo)) <= fo(i) <= hi + 1e-9 * (1 + abs(hi))):
                        bad.append(f"label of output channel {i} ({fo(i)!r}) outside the span [{lo!r}, {hi!r}] of its inputs")
            elif api == "subband":
                per = C // case["nsub"]
                near(o["foff"], hin["foff"] * per, "foff")
                for i in (0, o["nchans"] - 1):
                    lo, hi = sorted((fin(i * per), fin(i * per + per - 1)))
                    if not (lo - 1e-9 * (1 + abs(lo)) <= fo(i) <= hi + 1e-9 * (1 + abs(hi))):
                        bad.append(f"label of sub-band {i} ({fo(i)!r}) outside the span [{lo!r}, {hi!r}] of its inputs")
        return "; ".join(f"{api}: {b}" for b in bad[:3]) or None

    # ------------------------------------------------------------------ model (generated header updates)
    @staticmethod
    def _q(x):
        from fractions import Fraction
        f = Fraction(x)
        return f"{f.numerator}/{f.denominator}"

    def _sites(self, case, obs):
        """[(site, input header dict, params, output header dict, fields to compare)]"""
        api, s, n, C = case["api"], case["s"], case["n"], case["C"]
        hin = obs["in"]
        out = obs.get("out")
        common_f = ["fch1", "foff", "tsamp", "tstart", "nchans", "nbits"]
        if api == "read_block":
            return [("FilReader_read_block", hin, {"p_data_size": n * C, "p_fch1": hin["fch1"], "p_nchans": C, "p_start": s},
                     out, common_f + ["nsamples"])]
        if api == "read_block_f":
            f = hin["fch1"] + (case["j"] + case.get("offgrid", 0.0)) * hin["foff"]
            return [("FilReader_read_block", hin, {"p_data_size": n * C, "p_fch1": f, "p_nchans": case["k"], "p_start": s},
                     out, common_f + ["nsamples"])]
        if api == "read_dedisp":
            return [("FilReader_read_dedisp_block", hin, {"p_nsamps": n, "p_start": s}, out, common_f + ["nsamples"])]
        if api == "collapse":
            return [("Filterbank_collapse", hin, {"p_start": s, "p_nsamps_read": n}, out, common_f + ["nsamples", "dm"])]
        if api == "read_chan":
            return [("Filterbank_read_chan", hin, {"p_start": s, "p_nsamps_read": n}, out, common_f + ["nsamples", "dm"])]
        if api == "dedisperse":
            md = n - out["nsamples"]
            return [("Filterbank_dedisperse", hin, {"p_dm": case["dm"], "p_max_delay": md, "p_nsamps_read": n, "p_start": s},
                     out, common_f + ["nsamples", "dm"])]
        if api == "invert":
            return [("Filterbank_invert_freq", hin, {"p_start": s}, out, common_f)]
        if api == "mask":
            return [("Filterbank_apply_channel_mask", hin, {"p_start": s}, out, common_f)]
        if api == "samps":
            return [("Filterbank_extract_samps", hin, {"p_start": s}, out, common_f)]
        if api == "zerodm":
            return [("Filterbank_remove_zerodm", hin, {"p_start": s}, out, common_f)]
        if api == "chans":
            return [("Filterbank_extract_chans", hin, {"p_chan": c, "p_start": s}, o, common_f)
                    for c, o in zip(case["chans"], obs["outs"])]
        if api == "bands":
            bs = case.get("batch", 200)
            return [("Filterbank_extract_bands", hin, {"p_batch_start": (i // bs) * bs, "p_chanpersub": case["per"],
                                                      "p_chanstart": case["chanstart"], "p_i": i % bs, "p_start": s}, o, common_f)
                    for i, o in enumerate(obs["outs"])]
        if api == "downsample":
            return [("Filterbank_downsample", hin, {"p_ffactor": case["ff"], "p_start": s, "p_tfactor": case["tf"]}, out, common_f)]
        if api == "subband":
            return [("Filterbank_subband", hin, {"p_dm": case["dm"], "p_nsub": case["nsub"], "p_start": s}, out, common_f + ["dm"])]
        if api == "blk_down":
            return [("FilterbankBlock_downsample", obs["mid"], {"p_ffactor": case["ff"], "p_tfactor": case["tf"]}, out,
                     common_f + ["nsamples"])]
        if api == "blk_dedisp":
            return [("FilterbankBlock_dedisperse", obs["mid"], {"p_new_ar_shape_1_": out["shape"][1]}, out, common_f + ["nsamples"])]
        if api == "ts_down":
            return [("TimeSeries_downsample", obs["mid"], {"p_factor": case["tf"], "p_len_tim_data": out["nsamples"]}, out,
                     common_f + ["nsamples"])]
        return []

    def model_requests(self, case, obs):
        if obs.get("skip") or "err" in obs:
            return []
        reqs = []
        needed = self._site_params()
        for site, h, ps, out, _ in self._sites(case, obs):
            hd = " ".join(self._q(h[k]) for k in ("fch1", "foff", "tsamp", "tstart", "dm", "nchans", "nsamples", "nbits"))
            # the translator names a free quantity after the LOCAL VARIABLE that holds it in the source; a renamed
            # local must not look like a changed computation: every `len(<local>)` / `<x>_len` of a site is the
            # length of the data the site returns
            ps = dict(ps)
            for nm in needed.get(site, []):
                if nm not in ps and (nm.startswith("p_len_") or nm.endswith("_len")):
                    ps[nm] = out["nsamples"]
            pp = " ".join(f"{k} {self._q(v)}" for k, v in ps.items())
            reqs.append(f"C08 site {site} {hd} {pp}")
        return reqs + ["C08 dropped"]

    _needed = None

    def _site_params(self):
        """{site: [parameter names]} of the generated update functions (read from Generated/HeaderUpdates.lean)"""
        if self._needed is None:
            import re
            txt = (common.LEAN / "SppModel" / "Generated" / "HeaderUpdates.lean").read_text()
            self._needed = {m.group(1): re.findall(r"\((p_\w+) : Rat\)", m.group(2))
                            for m in re.finditer(r"^def (\w+) \(h : Hdr\)((?: \(p_\w+ : Rat\))*) : Hdr", txt, re.M)}
        return self._needed

    def model_compare(self, case, obs, answers):
        from fractions import Fraction
        if not answers:
            return None
        sites = self._sites(case, obs)
        for (site, h, ps, o, fields), a in zip(sites, answers):
            t = a.split()
            if t[0] != "ok":
                return f"{site}: model {a}"
            m = dict(zip(("fch1", "foff", "tsamp", "tstart", "dm", "nchans", "nsamples", "nbits"), (Fraction(x) for x in t[1:])))
            for k in fields:
                got, want = o[k], float(m[k])
                if k == "tstart":
                    ok = abs(got - want) * 86400 <= 5e-6
                else:
                    ok = abs(got - want) <= 1e-9 * (1 + abs(want))
                if not ok:
                    return f"{site}: header {k} = {got!r}, generated update gives {want!r}"
        dropped = [x for x in answers[-1].split()[1:] if not x.endswith(":0")]
        if dropped:
            return f"update keys silently dropped by new_header: {dropped}"
        return None

    def regime(self, case, obs):
        return case["api"]

    def nontrivial(self, case, obs):
        return case["s"] > 0 or case["api"] not in ("read_block", "mask", "zerodm")


PROP = C08()

"""C18 — PSRFITS reads are position-independent and agree with the SIGPROC path."""
from __future__ import annotations

import numpy as np

import common
import pfitsgen
import spfiles
from .base import Prop, exc_name

FCH1, FOFF, TSAMP = 1500.0, -2.0, 1e-3


def build(case, d):
    rng = np.random.default_rng(case["dseed"])
    nsblk, nsub, C, nbits = case["nsblk"], case["nsub"], case["C"], case["nbits"]
    N = nsblk * nsub
    raw = rng.integers(0, 1 << nbits, size=(N, 4, C))
    if case["cal"]:
        scl = rng.choice((0.5, 1.0, 2.0, 4.0), size=(nsub, 4 * C))
        offs = rng.choice((0.0, 1.0, -2.0, 8.0), size=(nsub, 4 * C))
        wts = rng.choice((1.0, 1.0, 0.5, 0.0), size=(nsub, C))
    else:
        scl, offs, wts = np.ones((nsub, 4 * C)), np.zeros((nsub, 4 * C)), np.ones((nsub, C))
    p = d / "t.sf"
    # ZERO_OFF: absent-like 0.0, a half-integer (the Parkes convention), or the mid-level written as a float or as an
    # INTEGER card (legal FITS; astropy then hands the reader a Python int)
    zo = {"zero": 0.0, "half": (1 << (nbits - 1)) - 0.5, "float": float(1 << (nbits - 1)),
          "int": int(1 << (nbits - 1))}[case.get("zoff", "zero")]
    pfitsgen.write_psrfits(str(p), raw, nsblk, nbits, case["asc"], FCH1, FOFF, TSAMP, scl, offs, wts, case["pol"],
                           zero_off=zo, chan_bw_sign=case.get("chanbw", "consistent"))
    want = pfitsgen.expected_total_intensity(raw, nsblk, case["asc"], scl, offs, wts, case["pol"], zero_off=float(zo))
    return p, want


class C18(Prop):
    id = "C18"
    rule = ("synthetic search-mode PSRFITS files (2-4 sub-integrations of 4/8/16 samples, 4- and 8-bit, Stokes IQUV and "
            "coherence AABBCRCI, ascending or descending stored order, non-trivial DAT_SCL/DAT_OFFS/DAT_WTS): "
            "read_block for ALL (start,nsamps) vs the independently computed calibrated samples, read_plan for several "
            "gulps, collapse/bandpass vs a SIGPROC file with the same samples, header field types and channel order. "
            "Non-trivial = request crossing a sub-integration boundary; distinct by full case.")
    assumptions = ["layouts the reader cannot open today (NPOL=1: 'not TPF'; NPOL=2: no branch) are outside the "
                   "property ('a file that the reader opens and can read in full') and reported as unreadable_layouts",
                   "astropy.io.fits is trusted to write what the generator describes"]
    regimes_expected = ["read_block", "read_plan", "reductions", "header"]
    budget_s = (240, 1500)

    def _case(self, rng, kind=None):
        kind = kind or rng.choice(("read_block", "read_block", "read_plan", "reductions", "header"))
        nsblk = rng.choice((4, 8, 16))
        nsub = rng.choice((2, 3, 4))
        c = {"kind": kind, "nsblk": nsblk, "nsub": nsub, "C": rng.choice((4, 8)), "nbits": rng.choice((4, 8)),
             "pol": rng.choice(("IQUV", "AABBCRCI")), "asc": rng.random() < 0.5, "cal": rng.random() < 0.6,
             "chanbw": rng.choice(("consistent", "consistent", "unsigned", "opposite")),
             "zoff": rng.choice(("zero", "half", "float", "int", "int")),
             "dseed": rng.randrange(1 << 30)}
        N = nsblk * nsub
        if kind == "read_plan":
            c["g"] = rng.choice((1, 3, nsblk, nsblk + 1, N, N + 2))
            c["s"] = rng.choice((0, rng.randrange(0, N - 1)))
            c["n"] = rng.randint(1, N - c["s"])
            ge = min(c["n"], c["g"])
            c["k"] = rng.choice((0, 0, rng.randint(0, ge // 2), rng.randint(ge // 2, ge)))
        if kind == "reductions":
            # gulps below, at and ABOVE one sub-integration, multiples of it or not: the caller places block ii at ii*gulp
            c["g"] = rng.choice((3, nsblk, nsblk + 1, nsblk + nsblk // 2 + 1, 2 * nsblk, 2 * nsblk + 3, N + 1))
        return c

    def gen(self, rng, tier):
        k = 1 if tier == "quick" else 5
        return [self._case(rng) for _ in range(40 * k)]

    def corpus(self):
        b = {"nsblk": 8, "nsub": 3, "C": 4, "nbits": 8, "pol": "IQUV", "asc": False, "cal": False, "dseed": 1}
        return [dict(b, kind="read_block"), dict(b, kind="read_plan", g=5, s=3, n=17, k=0), dict(b, kind="read_plan", g=4, s=0, n=10, k=3),
                dict(b, kind="read_plan", g=16, s=1, n=8, k=5), dict(b, kind="header", asc=True),
                dict(b, kind="reductions", g=5)]

    # ------------------------------------------------------------------
    def observe(self, case):
        from sigpyproc.readers import FilReader, PFITSReader

        d = common.tmpdir()
        try:
            p, want = build(case, d)
            r = PFITSReader(str(p))
            N, C = want.shape
            kind = case["kind"]
            res = {"N": int(r.header.nsamples), "C": int(r.header.nchans)}
            if kind == "read_block":
                bad = []
                whole = np.asarray(r.read_block(0, N).data, dtype=np.float64)
                res["whole_ok"] = bool(whole.shape == (C, N) and np.allclose(whole.T, want, rtol=1e-5, atol=1e-5))
                for s in range(N):
                    for n in range(1, N - s + 1):
                        try:
                            b = np.asarray(r.read_block(s, n).data)
                            if b.shape != (C, n) or not np.allclose(b.T, want[s:s + n], rtol=1e-5, atol=1e-5):
                                bad.append([s, n, "values" if b.shape == (C, n) else f"shape {list(b.shape)}"])
                        except Exception as e:  # noqa: BLE001
                            bad.append([s, n, type(e).__name__])
                        if len(bad) > 5:
                            break
                    if len(bad) > 5:
                        break
                res["bad"] = bad
                import random as _r
                rr = _r.Random(case["dseed"])
                samples = []
                for _ in range(8):
                    s_, n_ = rr.randint(-1, N), rr.randint(1, N + 1)
                    try:
                        b = np.asarray(r.read_block(s_, n_).data)
                        samples.append({"s": s_, "n": n_, "vals": [float(v) for v in b.T.ravel()]})
                    except Exception as e:  # noqa: BLE001
                        samples.append({"s": s_, "n": n_, "err": exc_name(e)})
                res["samples"] = samples
                res["dtype"] = str(np.asarray(r.read_block(0, 1).data).dtype)
            elif kind == "read_plan":
                blocks = []
                res["perr"] = None
                try:
                    for nr, ii, arr in r.read_plan(gulp=case["g"], start=case["s"], nsamps=case["n"],
                                                   skipback=case.get("k", 0), quiet=True):
                        blocks.append([int(nr), int(ii), [float(v) for v in np.array(arr, copy=True).ravel()], str(arr.dtype)])
                except Exception as e:  # noqa: BLE001
                    res["perr"] = {"cls": exc_name(e), "after": len(blocks)}
                res["blocks"] = blocks
            elif kind == "reductions":
                ts = r.collapse(gulp=case["g"], quiet=True)
                bp = r.bandpass(gulp=case["g"], quiet=True)
                sp = spfiles.write_fil(d / "same.fil", want, 32, fch1=FCH1, foff=FOFF, tsamp=TSAMP)
                f = FilReader(str(sp))
                res.update(tim=[float(v) for v in ts.data], bp=[float(v) for v in bp.data],
                           stim=[float(v) for v in f.collapse(gulp=case["g"], quiet=True).data],
                           sbp=[float(v) for v in f.bandpass(gulp=case["g"], quiet=True).data])
                f._file.close()
            else:
                h = r.header
                res["types"] = {k: type(getattr(h, k)).__name__ for k in ("fch1", "foff", "tsamp", "tstart", "nchans", "nbits", "nsamples")}
                res["fch1"], res["foff"], res["tsamp"] = float(h.fch1), float(h.foff), float(h.tsamp)
                res["freqs"] = [float(v) for v in h.chan_freqs]
                b = np.asarray(r.read_block(0, N).data, dtype=np.float64)
                res["whole_ok"] = bool(b.shape == (C, N) and np.allclose(b.T, want, rtol=1e-5, atol=1e-5))
            return res
        except Exception as e:  # noqa: BLE001
            import traceback
            return {"err": exc_name(e), "msg": traceback.format_exc()[-300:]}

    # ------------------------------------------------------------------
    def oracle(self, case, obs):
        tag = f"{case['nbits']}-bit {case['pol']} {'ascending' if case['asc'] else 'descending'} NSBLK={case['nsblk']}x{case['nsub']}"
        if "err" in obs:
            return f"{tag}: {case['kind']} raised {obs['err']}: {obs['msg'][-160:]}"
        N = case["nsblk"] * case["nsub"]
        if obs["N"] != N or obs["C"] != case["C"]:
            return f"{tag}: header nsamples/nchans {obs['N']}/{obs['C']}"
        kind = case["kind"]
        if kind == "read_block":
            if not obs["whole_ok"]:
                return f"{tag}: the whole-file read differs from the calibrated samples (channel order / scales / weights)"
            if obs["bad"]:
                s, n, why = obs["bad"][0]
                return f"{tag}: read_block({s}, {n}) differs from columns [{s},{s + n}) of the whole-file read ({why})"
            return None
        if kind == "read_plan":
            d = common.tmpdir()
            _, want = build(case, d)
            C, g, s, n, k = case["C"], case["g"], case["s"], case["n"], case.get("k", 0)
            ge = min(n, g)
            if obs["perr"] is not None:
                e = obs["perr"]
                if e["cls"] != "ValueError" or e["after"] != 0:
                    return f"{tag}: read_plan(gulp={g}, nsamps={n}, skipback={k}) raised {e['cls']} after {e['after']} block(s)"
                if 2 * k <= ge:
                    return f"{tag}: read_plan rejected skipback {k} <= half the effective gulp {ge}"
                return None
            if k >= ge:
                return f"{tag}: read_plan accepted skipback {k} >= effective gulp {ge}"
            got = []
            for j, (nr, ii, vals, dt) in enumerate(obs["blocks"]):
                if len(vals) % C or len(vals) // C != nr or nr > g or nr == 0:
                    return f"{tag}: read_plan(gulp={g}) block {j} holds {len(vals) / C} samples, reports {nr}"
                got.extend(vals if j == 0 else vals[k * C:])
            w = want[s:s + n].ravel()
            if len(got) != len(w) or not np.allclose(got, w, rtol=1e-5, atol=1e-5):
                return f"{tag}: read_plan(gulp={g}, start={s}, nsamps={n}) delivers {len(got) // C} samples; the range has {n}"
            return None
        if kind == "reductions":
            if len(obs["tim"]) != len(obs["stim"]) or not np.allclose(obs["tim"], obs["stim"], rtol=1e-5, atol=1e-4):
                return f"{tag}: collapse over the PSRFITS reader differs from the SIGPROC file with the same samples"
            if not np.allclose(obs["bp"], obs["sbp"], rtol=1e-5, atol=1e-4):
                return f"{tag}: bandpass over the PSRFITS reader differs from the SIGPROC file with the same samples"
            return None
        bad = {k: v for k, v in obs["types"].items() if v not in ("float", "int", "float64", "float32", "int64", "int32")}
        if bad:
            return f"{tag}: header quantities are not plain numbers: {bad}"
        if not obs["whole_ok"]:
            return f"{tag}: the whole-file read differs from the calibrated samples in descending-frequency order"
        if obs["foff"] >= 0 or abs(obs["fch1"] - FCH1) > 1e-6 or abs(obs["foff"] - FOFF) > 1e-6:
            return f"{tag}: data are in descending-frequency order but the header says fch1={obs['fch1']}, foff={obs['foff']}"
        if abs(obs["tsamp"] - TSAMP) > 1e-12:
            return f"{tag}: tsamp {obs['tsamp']}"
        return None

    # ------------------------------------------------------------------ model
    def model_requests(self, case, obs):
        if "err" in obs:
            return []
        if case["kind"] == "read_block":
            return [f"C18 rb {case['nsblk']} {case['nsub']} {x['s']} {x['n']}" for x in obs["samples"]]
        if case["kind"] == "read_plan":
            return [f"C18 plan {case['nsblk']} {case['nsub']} {case['g']} {case['s']} {case['n']} {case.get('k', 0)}"]
        return []

    def model_compare(self, case, obs, answers):
        if not answers:
            return None
        d = common.tmpdir()
        _, want = build(case, d)
        if case["kind"] == "read_block":
            for x, a in zip(obs["samples"], answers):
                t = a.split()
                if t[0] == "err":
                    if x.get("err") != t[1]:
                        return f"read_block({x['s']},{x['n']}): model {a}, impl {x.get('err', 'ok')}"
                    continue
                if "err" in x:
                    return f"read_block({x['s']},{x['n']}): impl {x['err']}, model ok"
                rows = [int(v) for v in t[2:]]
                w = want[rows].ravel()
                if len(w) != len(x["vals"]) or not np.allclose(x["vals"], w, rtol=1e-5, atol=1e-5):
                    return f"read_block({x['s']},{x['n']}): impl values differ from model rows {rows[:4]}…"
            return None
        t = answers[0]
        if not t.startswith("ok"):
            e = obs.get("perr")
            return None if (e and e["after"] == 0 and t == f"err {e['cls']}") else f"model {t[:40]} vs impl {e}"
        if obs.get("perr"):
            return f"impl raised {obs['perr']}, model ok"
        parts = t[3:].split(" ; ")
        if len(parts) != len(obs["blocks"]):
            return f"read_plan: impl {len(obs['blocks'])} blocks vs model {len(parts)}"
        for j, (p_, b) in enumerate(zip(parts, obs["blocks"])):
            f = [int(v) for v in p_.split()]
            ln, ii, rows = f[0], f[1], f[2:]
            w = want[rows].ravel()
            if b[0] != ln or b[1] != ii or len(w) != len(b[2]) or not np.allclose(b[2], w, rtol=1e-5, atol=1e-5):
                return f"read_plan block {j}: impl (nr={b[0]}, ii={b[1]}) vs model (len={ln}, ii={ii})"
        return None

    def regime(self, case, obs):
        return case["kind"]

    def nontrivial(self, case, obs):
        return True

    def extra_coverage(self):
        return {"unreadable_layouts": ["NPOL=1 (squeeze drops the polarisation axis: 'not TPF')", "NPOL=2 (no branch in read_subint_pol)"]}


PROP = C18()

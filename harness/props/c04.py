"""C04 — what is written is what is read back, for every format and sample depth."""
from __future__ import annotations

import random
import struct

import numpy as np

import common
import spfiles
from .base import Prop, exc_name
from .c05 import C05

DT = {"uint8": np.uint8, "uint16": np.uint16, "int64": np.int64, "float32": np.float32, "float64": np.float64,
      # same item width as a file sample type but another type / byte order: still "converted or refused"
      "int32": np.int32, "uint32": np.uint32, "int16": np.int16, ">f4": np.dtype(">f4"), ">u2": np.dtype(">u2"),
      ">f8": np.dtype(">f8")}
# the exact model knows integer / float32 / float64 arrays: what each extra dtype is to it
MODEL_DT = {"int32": "int64", "uint32": "int64", "int16": "int64", ">f4": "float32", ">u2": "uint16", ">f8": "float64"}
ITEM = {1: 1, 2: 1, 4: 1, 8: 1, 16: 2, 32: 4}


def mk_header(nchans, nbits, nsamples=0, tsamp=0.000064, tstart=58000.125, dm=12.5, data_type="filterbank",
              filename="x.fil"):
    from sigpyproc.header import Header

    return Header(filename=filename, data_type=data_type, nchans=nchans, foff=-0.5, fch1=1400.0, nbits=nbits,
                  tsamp=tsamp, tstart=tstart, nsamples=nsamples, dm=dm, source="SRC", telescope="Parkes",
                  backend="BPSR")


def values_for(rng, n, nbits):
    hi = (1 << nbits) if nbits < 32 else (1 << 12)
    return [rng.randrange(hi) for _ in range(n)]


class C04(Prop):
    id = "C04"
    rule = ("fil: prep_outfile(nbits)+cwrite of arrays of every in-memory dtype x depth x shape (1..3 chunks), read "
            "back with FilReader; block: FilterbankBlock.to_file; tim/dat/spec/fft writers with their readers. "
            "Non-trivial = a write that succeeded and was read back, or a refused write; distinct by full case.")
    assumptions = ["sample values are representable at the declared depth",
                   "PRESTO .inf passes tsamp/tstart/DM through decimal formatting (compared to its precision)"]
    regimes_expected = ["fil-same-dtype", "fil-other-dtype", "fil-other-dtype-nonflat-layout", "fil-subbyte", "block", "tim", "dat", "spec", "fft",
                        "depth-by-arg", "depth-by-updates", "depth-arg-vs-updates", "depth-reused-updates"]
    budget_s = (120, 900)

    def _fil_case(self, rng):
        nbits = rng.choice((1, 2, 4, 8, 16, 32))
        cm = {1: 8, 2: 4, 4: 2}.get(nbits, 1)
        C = cm * rng.choice((1, 2, 3))
        n = rng.choice((1, 2, 3, 7, 16))
        dt = rng.choice(list(DT))
        nch = rng.choice((1, 1, 2, 3))
        parts = spfiles.splits_of(rng, n, min(nch, n))
        # in-memory layout of each chunk handed to cwrite (>= 8 bit only: the packers take contiguous 1-D input):
        # flat 1-D, strided 1-D view, C-ordered (k, C) matrix, transposed view of a (C, k) matrix
        layout = rng.choice(("flat", "flat", "strided", "2d", "T")) if nbits >= 8 else "flat"
        vals = values_for(rng, n * C, min(nbits, 8) if dt == "uint8" else min(nbits, 15) if dt == "int16" else nbits)
        if nbits == 32 and dt in ("int64", "int32", "float32", "float64", ">f4", ">f8") and rng.random() < 0.6:
            # a 32-bit file holds float32: every float32-representable value must survive, negative ones and
            # (from float arrays) fractional ones included
            vals = [rng.randrange(-5000, 5000) for _ in range(n * C)]
            if dt not in ("int64", "int32"):
                vals = [v / 8 for v in vals]
        # how the output depth is requested: the source header already has it / `nbits=` argument / only through
        # `updates={"nbits": …}` / `nbits=` argument contradicting an `updates` entry (the argument is the depth of
        # the writer) / an `updates` dict that an earlier prep_outfile call (another depth) has already seen
        how = rng.choice(("same", "same", "arg", "updates", "arg-vs-updates", "reused-updates"))
        return {"kind": "fil", "nbits": nbits, "C": C, "n": n, "dtype": dt, "parts": parts, "layout": layout,
                "how": how, "src_bits": rng.choice([b for b in (1, 2, 4, 8, 16, 32) if b != nbits]),
                "vals": vals, "tsamp": rng.choice((64e-6, 1e-3)),
                "tstart": rng.choice((58000.0, 59123.456789)), "dm": rng.choice((0.0, 56.7))}

    def _series_case(self, rng, kind):
        n = rng.choice((1, 2, 5, 16, 33))
        if kind in ("spec", "fft"):
            vals = [rng.randrange(-2000, 2000) / 4 for _ in range(2 * n)]
        else:
            vals = [rng.randrange(-2000, 2000) / 4 for _ in range(n)]
        return {"kind": kind, "n": n, "vals": vals, "tsamp": rng.choice((64e-6, 1e-3, 0.000327680)),
                # a spectrum may hold more bins than `header.nsamples // 2 + 1` (zero-padded or externally computed
                # transform wrapped with the time series' header): every bin written must come back
                "nshort": rng.choice((0, 0, 1, 2, 7)) if kind in ("spec", "fft") else 0,
                "tstart": rng.choice((58000.0, 59123.456789012)), "dm": rng.choice((0.0, 56.75, 123.4))}

    def _block_case(self, rng):
        nbits = rng.choice((1, 2, 4, 8, 32))
        cm = {1: 8, 2: 4, 4: 2}.get(nbits, 1)
        C = cm * rng.choice((1, 2))
        n = rng.choice((1, 3, 8))
        return {"kind": "block", "nbits": nbits, "C": C, "n": n, "vals": values_for(rng, n * C, nbits),
                "tsamp": 64e-6, "tstart": 58000.0, "dm": 0.0}

    def corpus(self):
        return [{"kind": "fil", "nbits": 8, "C": 1, "n": 2, "dtype": "float32", "parts": [2], "vals": [3, 200],
                 "tsamp": 1e-3, "tstart": 58000.0, "dm": 0.0},
                {"kind": "dat", "n": 3, "vals": [1.0, 2.5, -3.25], "tsamp": 1e-3, "tstart": 58000.0, "dm": 5.0}]

    def gen(self, rng, tier):
        k = 1 if tier == "quick" else 8
        cases = [self._fil_case(rng) for _ in range(200 * k)]
        # every (dtype, depth) pair at least once
        for dt in DT:
            for nbits in (1, 2, 4, 8, 16, 32):
                c = self._fil_case(rng)
                cm = {1: 8, 2: 4, 4: 2}.get(nbits, 1)
                c.update(nbits=nbits, C=cm, dtype=dt, n=3, parts=[2, 1], layout="flat" if nbits < 8 else c["layout"],
                         vals=values_for(rng, 3 * cm, min(nbits, 8) if dt == "uint8" else min(nbits, 15) if dt == "int16" else nbits))
                cases.append(c)
        cases += [self._block_case(rng) for _ in range(30 * k)]
        for kind in ("tim", "dat", "spec", "fft"):
            cases += [self._series_case(rng, kind) for _ in range(25 * k)]
        return cases

    # ------------------------------------------------------------------
    def observe(self, case):
        d = common.tmpdir()
        try:
            return getattr(self, "_obs_" + case["kind"])(case, d)
        except Exception as e:  # noqa: BLE001
            import traceback
            return {"err": exc_name(e), "phase": "harness", "msg": traceback.format_exc()[-300:]}

    def _meta(self, h):
        return {"tsamp": float(h.tsamp), "tstart": float(h.tstart), "dm": float(h.dm), "nsamples": int(h.nsamples),
                "nbits": int(h.nbits), "nchans": int(h.nchans)}

    def _obs_fil(self, case, d):
        from sigpyproc.readers import FilReader

        nbits, C, n = case["nbits"], case["C"], case["n"]
        how = case.get("how", "same")
        p = d / "out.fil"
        if how == "same":
            h = mk_header(C, nbits, tsamp=case["tsamp"], tstart=case["tstart"], dm=case["dm"])
            w = h.prep_outfile(str(p))
        else:
            h = mk_header(C, case["src_bits"], tsamp=case["tsamp"], tstart=case["tstart"], dm=case["dm"])
            if how == "arg":
                w = h.prep_outfile(str(p), nbits=nbits)
            elif how == "updates":
                w = h.prep_outfile(str(p), updates={"nbits": nbits})
            elif how == "arg-vs-updates":
                w = h.prep_outfile(str(p), updates={"nbits": case["src_bits"]}, nbits=nbits)
            else:                                   # reused-updates
                h = mk_header(C, nbits, tsamp=case["tsamp"], tstart=case["tstart"], dm=case["dm"])
                upd = {"tstart": case["tstart"]}
                h.prep_outfile(str(d / "first.fil"), updates=upd, nbits=case["src_bits"]).close()
                w = h.prep_outfile(str(p), updates=upd)
        arr = np.array(case["vals"], dtype=DT[case["dtype"]])
        pos = 0
        werr = None
        for k in case["parts"]:
            chunk = arr[pos * C:(pos + k) * C]
            layout = case.get("layout", "flat")
            if layout == "strided":
                big = np.zeros(2 * chunk.size, dtype=chunk.dtype)
                big[::2] = chunk
                chunk = big[::2]
            elif layout == "2d":
                chunk = chunk.reshape(k, C)
            elif layout == "T":
                chunk = np.ascontiguousarray(chunk.reshape(k, C).T).T      # logical (k, C), column-major memory
            try:
                w.cwrite(chunk)
            except Exception as e:  # noqa: BLE001
                werr = exc_name(e)
                break
            pos += k
        w.close()
        raw = p.read_bytes()
        hl = C05._parse(raw)[1]
        res = {"werr": werr, "datalen": len(raw) - hl, "data": raw[hl:].hex(), "file": raw.hex()}
        if werr is None:
            try:
                fil = FilReader(str(p))
                res["meta"] = self._meta(fil.header)
                blk = fil.read_block(0, n)
                res["read"] = [float(x) for x in blk.data.T.ravel()]
                res["shape"] = list(blk.data.shape)
                fil._file.close()
            except Exception as e:  # noqa: BLE001
                res["rerr"] = exc_name(e)
        return res

    def _obs_block(self, case, d):
        from sigpyproc.readers import FilReader

        nbits, C, n = case["nbits"], case["C"], case["n"]
        data = np.array(case["vals"]).reshape(n, C)
        src = spfiles.write_fil(d / "in.fil", data, nbits, tsamp=case["tsamp"], tstart=case["tstart"])
        fil = FilReader(str(src))
        blk = fil.read_block(0, n)
        out = blk.to_file(str(d / "blk.fil"))
        raw = (d / "blk.fil").read_bytes()
        hl = C05._parse(raw)[1]
        g = FilReader(out)
        rb = g.read_block(0, n)
        return {"werr": None, "datalen": len(raw) - hl, "data": raw[hl:].hex(), "meta": self._meta(g.header),
                "read": [float(x) for x in rb.data.T.ravel()], "shape": list(rb.data.shape)}

    def _series(self, case, d, name):
        from sigpyproc.timeseries import TimeSeries

        h = mk_header(1, 32, nsamples=case["n"], tsamp=case["tsamp"], tstart=case["tstart"], dm=case["dm"],
                      data_type="time series", filename=str(d / name))
        return TimeSeries(np.array(case["vals"], dtype=np.float32), h)

    def _obs_tim(self, case, d):
        from sigpyproc.timeseries import TimeSeries

        ts = self._series(case, d, "s.tim")
        out = ts.to_tim(str(d / "s.tim"))
        raw = (d / "s.tim").read_bytes()
        hl = C05._parse(raw)[1]
        g = TimeSeries.from_tim(out)
        return {"werr": None, "datalen": len(raw) - hl, "data": raw[hl:].hex(), "meta": self._meta(g.header),
                "read": [float(x) for x in g.data]}

    def _obs_dat(self, case, d):
        from sigpyproc.timeseries import TimeSeries

        ts = self._series(case, d, "s.tim")
        out = ts.to_dat(str(d / "s"))
        raw = (d / "s.dat").read_bytes()
        g = TimeSeries.from_dat(out)
        return {"werr": None, "datalen": len(raw), "data": raw.hex()[:4000], "meta": self._meta(g.header),
                "read": [float(x) for x in g.data]}

    def _fseries(self, case, d, name):
        from sigpyproc.fourierseries import FourierSeries

        h = mk_header(1, 32, nsamples=max(1, 2 * (case["n"] - 1) - case.get("nshort", 0)) if case["n"] > 1 else 1, tsamp=case["tsamp"],
                      tstart=case["tstart"], dm=case["dm"], data_type="complex spectrum", filename=str(d / name))
        v = np.array(case["vals"], dtype=np.float32).view(np.complex64)
        return FourierSeries(v, h)

    def _obs_spec(self, case, d):
        from sigpyproc.fourierseries import FourierSeries

        fs = self._fseries(case, d, "f.spec")
        out = fs.to_spec(str(d / "f.spec"))
        raw = (d / "f.spec").read_bytes()
        hl = C05._parse(raw)[1]
        g = FourierSeries.from_spec(out)
        return {"werr": None, "datalen": len(raw) - hl, "data": raw[hl:].hex(), "meta": self._meta(g.header),
                "read": [float(x) for x in g.data.view(np.float32)]}

    def _obs_fft(self, case, d):
        from sigpyproc.fourierseries import FourierSeries

        fs = self._fseries(case, d, "f.spec")
        out = fs.to_fft(str(d / "f"))
        raw = (d / "f.fft").read_bytes()
        g = FourierSeries.from_fft(out)
        return {"werr": None, "datalen": len(raw), "data": raw.hex(), "meta": self._meta(g.header),
                "read": [float(x) for x in g.data.view(np.float32)]}

    # ------------------------------------------------------------------
    def oracle(self, case, obs):
        if obs.get("phase") == "harness":
            return f"{case['kind']} round trip raised {obs['err']}: {obs['msg'][-160:]}"
        kind = case["kind"]
        vals = case["vals"]
        if kind in ("fil", "block"):
            nbits, C, n = case["nbits"], case["C"], case["n"]
            out_bits = nbits if kind == "fil" else 32
            if obs["werr"] is not None:
                # refused: nothing of a different width may have been written
                if obs["datalen"] * 8 % (out_bits * C) != 0:
                    return f"write refused ({obs['werr']}) after leaving a partial sample on disk"
                return None
            want_len = n * C * out_bits // 8
            if obs["datalen"] != want_len:
                return (f"{case.get('dtype', 'block')} array written to a {out_bits}-bit file: data section is "
                        f"{obs['datalen']} bytes, declared depth needs {want_len}")
            if "rerr" in obs:
                return f"read back raised {obs['rerr']}"
            if obs["read"] != [float(v) for v in vals] or obs["shape"] != [C, n]:
                return "values read back differ from the values written"
            m = obs["meta"]
            if m["nsamples"] != n or m["nbits"] != out_bits or m["nchans"] != C:
                return f"inferred nsamples/nbits/nchans {m} != written"
        else:
            want = [float(np.float32(v)) for v in vals]
            if obs["read"] != want:
                return (f".{kind}: read back {len(obs['read'])} values, wrote {len(want)}"
                        + ("" if len(obs["read"]) != len(want) else " (values differ)"))
            if obs["datalen"] != 4 * len(want):
                return f".{kind}: data section {obs['datalen']} bytes for {len(want)} float32 values"
            m = obs["meta"]
            if kind in ("tim", "dat") and m["nsamples"] != len(want):
                return f".{kind}: reader infers {m['nsamples']} samples, {len(want)} written"
        m = obs["meta"]
        tol = 0 if kind in ("fil", "block", "tim", "spec") else 1e-12
        if abs(m["tsamp"] - case["tsamp"]) > tol * case["tsamp"] or abs(m["dm"] - case["dm"]) > 1e-9 * max(1, case["dm"]):
            return f"tsamp/DM did not survive: {m}"
        if abs(m["tstart"] - case["tstart"]) > (0 if tol == 0 else 1e-9):
            return f"tstart did not survive: {m['tstart']!r} vs {case['tstart']!r}"
        return None

    # ------------------------------------------------------------------
    def model_requests(self, case, obs):
        if case["kind"] != "fil":
            return []
        parts = " ".join(map(str, case["parts"]))
        if case["nbits"] == 32:
            # the model stores an opaque 32-bit word: the float32 bit pattern of the value, computed here
            words = np.array(case["vals"], dtype=np.float64).astype(np.float32).view(np.uint32)
            vals = " ".join(str(int(w)) for w in words)
            op = "cwritew"
        else:
            vals = " ".join(str(v) for v in case["vals"])
            op = "cwrite"
        reqs = [f"C04 {op} {case['nbits']} {MODEL_DT.get(case['dtype'], case['dtype'])} {case['C']} {len(case['parts'])} {parts} "
                f"{len(case['vals'])} {vals}"]
        if "file" in obs and obs.get("werr") is None:
            reqs.append(f"C04 readfil {obs['file']}")
        return reqs

    def model_compare(self, case, obs, answers):
        if case["kind"] != "fil":
            return None
        a = answers[0].split()
        if obs.get("phase") == "harness":
            return f"impl harness error {obs['err']}"
        if a[0] == "err":
            return None if obs["werr"] == a[1] else f"model refuses ({a[1]}), impl werr={obs['werr']}"
        if obs["werr"] is not None:
            return f"impl refuses ({obs['werr']}), model writes"
        want = a[1] if a[1] != "-" else ""
        if obs["data"] != want:
            return f"data section bytes differ: impl {obs['data'][:40]} model {want[:40]}"
        if len(answers) > 1:
            r = answers[1].split()
            if r[0] != "ok":
                return None if "rerr" in obs else f"model cannot read the file ({answers[1][:40]}), impl can"
            if "rerr" in obs:
                return f"impl read raised {obs['rerr']}, model reads"
            nb, nc, ns = int(r[1]), int(r[2]), int(r[3])
            vs = [int(x) for x in r[5:]]
            if nb == 32:
                vs = [float(np.frombuffer(struct.pack("<I", v), dtype="<f4")[0]) for v in vs]
            m = obs["meta"]
            if (nb, nc, ns) != (m["nbits"], m["nchans"], m["nsamples"]) or [float(v) for v in vs] != obs["read"]:
                return f"read back: impl {m} vs model ({nb},{nc},{ns}) or values differ"
        return None

    def regime(self, case, obs):
        if case["kind"] != "fil":
            return case["kind"]
        how = case.get("how", "same")
        if how != "same":
            return ["depth-by-" + how if how in ("arg", "updates") else "depth-" + how, self._fil_regime(case)]
        return self._fil_regime(case)

    def _fil_regime(self, case):
        if case["nbits"] < 8:
            return "fil-subbyte"
        native = {8: "uint8", 16: "uint16", 32: "float32"}[case["nbits"]]
        if case.get("layout", "flat") != "flat" and case["dtype"] != native:
            return "fil-other-dtype-nonflat-layout"
        return "fil-same-dtype" if case["dtype"] == native else "fil-other-dtype"


PROP = C04()

"""C06 — streaming reductions are independent of gulp size and equal their definitions."""
from __future__ import annotations

import math
import random

import numpy as np

import common
import prehist
import spfiles
from .base import Prop, exc_name

FCH1, FOFF, TSAMP = 1500.0, -10.0, 1e-3


def make_file(case, d):
    rng = random.Random(case["dseed"])
    data = spfiles.rand_data(rng, case["N"], case["C"], case["nbits"])
    fch1, foff = band_of(case)
    files = spfiles.write_fil_set(d, data, case["nbits"], case["splits"], tsamp=TSAMP, fch1=fch1, foff=foff)
    return files, data


def band_of(case):
    """(fch1, foff): the usual descending band, or the same band stored low-to-high"""
    return (FCH1 + FOFF * 30, -FOFF) if case.get("asc") else (FCH1, FOFF)


def delays_for(C, dm, fch1=FCH1, foff=FOFF):
    """independent evaluation of the dispersion law (float64) relative to the first channel, rounded to nearest sample"""
    f = fch1 + foff * np.arange(C)
    return np.rint(4.148808e3 * dm * (f ** -2.0 - fch1 ** -2.0) / TSAMP).astype(int)


def rereference(dl):
    """delays referred to the earliest channel, so that none is negative (what the streamed paths do)"""
    dl = np.asarray(dl, dtype=int)
    return dl - min(0, int(dl.min()))


class C06(Prop):
    id = "C06"
    rule = ("collapse / bandpass / read_chan / dedisperse / compute_stats on tiny real files (depths 1,2,4,8,32; 1-2 "
            "files) for gulps incl. gulp<2*maxdelay, gulp not dividing the range, gulp>range, and sub-ranges; each "
            "compared with the NumPy definition on samples [start,start+nsamps) and with the model. Integer data so "
            "float32 sums are exact. Non-trivial = >=2 blocks; distinct by full case.")
    assumptions = ["integer-valued samples (float32 sums exact)", "delays of either sign relative to fch1 (ascending bands, negative DMs) are referred to the earliest channel",
                   "the delay vector is taken from the implementation and checked against the law in C09"]
    regimes_expected = ["collapse", "bandpass", "read_chan", "dedisperse", "stats", "subrange", "gulp<2maxdelay"]
    budget_s = (150, 1200)

    def _case(self, rng, op=None):
        nbits = rng.choice((1, 2, 4, 8, 32))
        cm = {1: 8, 2: 4, 4: 2}.get(nbits, 1)
        C = cm * rng.choice((1, 2, 4)) if nbits >= 4 else cm
        N = rng.choice((3, 5, 8, 13, 24, 40))
        nf = rng.choice((1, 1, 2))
        op = op or rng.choice(("collapse", "bandpass", "read_chan", "dedisperse", "dedisperse", "stats"))
        dm = 0.0
        asc = rng.random() < 0.3          # every reduction indexes channels in FILE order, whatever the band direction
        if op == "dedisperse":
            dm = rng.choice((0.0, 5.0, 20.0, 50.0, 110.0, -20.0, -60.0))
            asc = rng.random() < 0.35      # negative delays relative to fch1: ascending band at DM > 0, or DM < 0
        sub = rng.random() < 0.5
        s = rng.randrange(0, N) if sub else 0
        n = rng.randint(1, N - s) if sub else N - s
        g = rng.choice((1, 2, 3, 4, 7, n, n + 3, rng.randint(1, n + 1)))
        return {"op": op, "nbits": nbits, "C": C, "N": N, "splits": spfiles.splits_of(rng, N, nf), "g": g, "s": s,
                "n": n, "none_n": (not sub), "dm": dm, "asc": asc, "ichan": rng.randrange(C), "dseed": rng.randrange(1 << 30),
                "pre": prehist.gen_pre(rng, N, s, n)}

    def corpus(self):
        b = {"nbits": 8, "C": 2, "N": 10, "splits": [10], "dm": 0.0, "ichan": 1, "dseed": 3}
        return [dict(b, op="collapse", g=4, s=3, n=5, none_n=False),
                dict(b, op="read_chan", g=4, s=2, n=6, none_n=False),
                dict(b, op="dedisperse", g=3, s=0, n=10, none_n=True, dm=50.0, C=8),
                dict(b, op="dedisperse", g=16, s=1, n=8, none_n=False, dm=20.0, C=8),
                dict(b, op="stats", g=4, s=2, n=6, none_n=False)]

    def gen(self, rng, tier):
        k = 1 if tier == "quick" else 8
        return [self._case(rng) for _ in range(400 * k)]

    # ------------------------------------------------------------------
    def observe(self, case):
        from sigpyproc.readers import FilReader

        d = common.tmpdir()
        files, data = make_file(case, d)
        fil = FilReader(files if len(files) > 1 else files[0])
        prehist.run_pre(fil, case.get("pre"))
        kw = {"gulp": case["g"], "start": case["s"], "nsamps": None if case["none_n"] else case["n"], "quiet": True}
        op = case["op"]
        try:
            if op == "collapse":
                ts = fil.collapse(**kw)
            elif op == "bandpass":
                ts = fil.bandpass(**kw)
            elif op == "read_chan":
                ts = fil.read_chan(case["ichan"], **kw)
            elif op == "dedisperse":
                dl = [int(x) for x in rereference(np.atleast_1d(fil.header.get_dmdelays(case["dm"])))]
                if max(dl) >= case["n"]:
                    return {"skip": "maxdelay>=n"}
                ts = fil.dedisperse(case["dm"], **kw)
                return {"data": [float(x) for x in ts.data], "nsamples": int(ts.header.nsamples), "delays": dl,
                        "dm": float(ts.header.dm)}
            else:
                fil.compute_stats(**kw)
                st = fil.chan_stats
                f = lambda a: [float(v) for v in a]  # noqa: E731
                return {"count": [int(v) for v in st.moments["count"]], "min": f(st.minima), "max": f(st.maxima),
                        "mean": f(st.mean), "var": f(st.var), "skew": f(st.skew), "kurt": f(st.kurtosis)}
            return {"data": [float(x) for x in ts.data], "nsamples": int(ts.header.nsamples)}
        except Exception as e:  # noqa: BLE001
            import traceback
            return {"err": exc_name(e), "msg": traceback.format_exc()[-250:]}
        finally:
            fil._file.close()

    # ------------------------------------------------------------------
    def _data(self, case):
        rng = random.Random(case["dseed"])
        return spfiles.rand_data(rng, case["N"], case["C"], case["nbits"])

    def oracle(self, case, obs):
        if "skip" in obs:
            return None
        op = case["op"]
        if "err" in obs:
            return f"{op}(gulp={case['g']}, start={case['s']}, nsamps={case['n']}) raised {obs['err']}: {obs['msg'][-120:]}"
        x = self._data(case)[case["s"]:case["s"] + case["n"]].astype(np.float64)   # (n, C)
        n, C = x.shape
        if op == "collapse":
            want = x.sum(axis=1)
        elif op == "bandpass":
            want = x.mean(axis=0)
        elif op == "read_chan":
            want = x[:, case["ichan"]]
        elif op == "dedisperse":
            dl = rereference(delays_for(C, case["dm"], *band_of(case)))
            md = int(dl.max())
            if list(dl) != obs["delays"]:
                return None   # rounding-boundary disagreement about the delays: judged in C09
            want = np.array([sum(x[t + dl[c], c] for c in range(C)) for t in range(n - md)])
        else:
            mu = x.mean(axis=0)
            d = x - mu
            m2, m3, m4 = (d ** 2).sum(0), (d ** 3).sum(0), (d ** 4).sum(0)
            if obs["count"] != [n] * C or obs["min"] != list(x.min(0)) or obs["max"] != list(x.max(0)):
                return f"stats count/min/max {obs['count'][:2]} {obs['min'][:2]} vs {n} {list(x.min(0))[:2]}"
            scale = max(np.abs(x).max(), 1.0)
            tol = 2e-5 * max(n, 16)
            for c in range(C):
                if abs(obs["mean"][c] - mu[c]) > tol * scale or abs(obs["var"][c] - m2[c] / n) > tol * scale ** 2:
                    return (f"stats chan {c}: mean/var {obs['mean'][c]}/{obs['var'][c]} vs two-pass "
                            f"{mu[c]}/{m2[c] / n} over samples [{case['s']},{case['s'] + n})")
                if m2[c] / n > 1e-3 * scale ** 2:
                    sk = m3[c] / m2[c] ** 1.5 * math.sqrt(n)
                    ku = m4[c] / m2[c] ** 2 * n - 3
                    if abs(obs["skew"][c] - sk) > 50 * tol * (1 + abs(sk)) or abs(obs["kurt"][c] - ku) > 50 * tol * (1 + abs(ku)):
                        return f"stats chan {c}: skew/kurt {obs['skew'][c]}/{obs['kurt'][c]} vs {sk}/{ku}"
            return None
        got = obs["data"]
        if op == "bandpass":
            if len(got) != C or any(abs(a - b) > 1e-5 * max(1, abs(b)) for a, b in zip(got, want)):
                return f"bandpass {got[:4]} != mean over time {list(want)[:4]}"
            return None
        if len(got) != len(want):
            return f"{op}: result has {len(got)} samples, the definition has {len(want)}"
        if got != [float(v) for v in want]:
            i = next(i for i, (a, b) in enumerate(zip(got, want)) if a != b)
            return f"{op}: value at {i} is {got[i]}, definition gives {want[i]}"
        if obs["nsamples"] != len(want):
            return f"{op}: header nsamples {obs['nsamples']} != {len(want)}"
        return None

    # ------------------------------------------------------------------
    def model_requests(self, case, obs):
        if "skip" in obs or case["op"] == "stats":
            return []   # stats: C10 model; the block stream is C01's
        x = self._data(case)
        flat = " ".join(str(int(v)) for v in x.ravel())
        dl = obs.get("delays", [0] * case["C"])
        return [f"C06 {case['op']} {case['g']} {case['s']} {case['n']} {case['N']} {case['C']} {case['ichan']} "
                f"{' '.join(map(str, dl))} {flat}"]

    def model_compare(self, case, obs, answers):
        if not answers:
            return None
        a = answers[0].split()
        if a[0] == "err":
            return None if obs.get("err") == a[1] else f"model err {a[1]} vs impl {str(obs)[:80]}"
        if "err" in obs:
            return f"impl raised {obs['err']}, model ok"
        if case["op"] == "bandpass":
            # model: sums and count
            cnt = int(a[1])
            sums = [int(v) for v in a[3:]]
            got = obs["data"]
            return None if all(abs(g - s / cnt) <= 1e-5 * max(1, abs(s / cnt)) for g, s in zip(got, sums)) and \
                len(got) == len(sums) else "bandpass differs from model"
        vals = [float(v) for v in a[2:]]
        return None if vals == obs["data"] else f"{case['op']}: impl {obs['data'][:6]} vs model {vals[:6]}"

    def regime(self, case, obs):
        if case["op"] == "dedisperse" and "delays" in obs and case["g"] < 2 * max(obs["delays"]):
            return "gulp<2maxdelay"
        if case["s"] > 0 or case["s"] + case["n"] < case["N"]:
            return "subrange"
        return case["op"]

    def nontrivial(self, case, obs):
        return case["g"] < case["n"]


PROP = C06()

"""C10 — online channel statistics do not depend on chunking or merging."""
from __future__ import annotations

import math
import random
from fractions import Fraction

import numpy as np

from .base import Prop, exc_name


def compositions(n):
    """all compositions of n into positive parts"""
    if n == 0:
        yield []
        return
    for first in range(1, n + 1):
        for rest in compositions(n - first):
            yield [first] + rest


def make_data(case):
    """(T, C) integer numerators; value = num/den (dyadic den keeps float32 exact)"""
    if case.get("big"):
        rng = np.random.default_rng(case["dseed"])
        T = case["T"]
        h = case["split"]
        a = np.concatenate([rng.integers(0, 2, size=h), rng.integers(2, 4, size=T - h)])
        return a.reshape(T, 1).astype(np.int64)
    rng = random.Random(case["dseed"])
    T, C, kind = case["T"], case["C"], case["dkind"]
    rows = []
    for _ in range(T):
        if kind == "const":
            rows.append([7 * (c + 1) for c in range(C)])
        elif kind == "bit":
            rows.append([rng.randrange(2) for _ in range(C)])
        elif kind == "small":
            rows.append([rng.randrange(0, 16) for _ in range(C)])
        elif kind == "wide":
            rows.append([rng.choice((1, -1)) * rng.randrange(0, 1 << rng.randrange(1, 14)) for _ in range(C)])
        else:  # mixed: constant channel 0, outlier-heavy others
            rows.append([5] + [rng.choice((0, 0, 0, 1, 2, 900)) for _ in range(C - 1)])
    return np.array(rows, dtype=np.int64).reshape(T, C)


class C10(Prop):
    id = "C10"
    rule = ("streams of T samples x C channels (constant / 1-bit / small-int / wide-range dyadic / outlier data) fed "
            "to ChannelStats in a partition into consecutive chunks (ALL compositions for T<=7, random otherwise; "
            "single-sample chunks; very unequal splits) or split between two accumulators that are added; basic and "
            "full modes; one multi-million-sample merge. Non-trivial = >=2 chunks or a merge; distinct by full case.")
    assumptions = ["float32 accumulation error is bounded by an explicit tolerance (not proved)",
                   "chunks are pushed with start_index = block index (0 for the first), as compute_stats does",
                   "ChannelStats is constructed with nsamps = number of samples pushed"]
    regimes_expected = ["push-full", "push-basic", "merge", "constant", "single-sample-chunks", "large-count-merge", "reader",
                        "reader-subrange"]
    budget_s = (90, 900)

    def corpus(self):
        return [{"kind": "merge", "big": True, "T": 4400000, "C": 1, "split": 2200000, "dseed": 1, "den": 1,
                 "chunksA": [2200000], "chunksB": [2200000], "dkind": "big"}]

    def _case(self, rng, T=None, comp=None):
        T = T or rng.choice((1, 2, 3, 5, 8, 13, 40, 200))
        C = rng.choice((1, 1, 2, 3))
        dkind = rng.choice(("const", "bit", "small", "wide", "mixed", "small", "wide"))
        # amplitudes down to ~1e-7 of a unit (powers of two: exact in float32): the normalised statistics are scale
        # free, a guard on the raw central sums must not treat low-amplitude channels as constant
        den = rng.choice((1, 1, 2, 16, 2 ** 20, 2 ** 24))
        kind = rng.choice(("push", "push", "merge")) if T >= 2 else "push"
        case = {"T": T, "C": C, "dkind": dkind, "den": den, "dseed": rng.randrange(1 << 30), "peek": rng.random() < 0.3}
        if rng.random() < 0.25:
            # float64 samples, also values float32 cannot hold (0.1, 1/3): the accumulator works in float32 - it
            # must behave as if fed the samples rounded to float32, in every partition
            case.update(idt="f8", den=rng.choice((1, 16, 10, 3, 7)))
        if kind == "push":
            case.update(kind="push", mode=rng.choice(("full", "full", "basic")),
                        chunks=comp or self._rand_comp(rng, T))
        else:
            split = rng.choice((1, T - 1, rng.randint(1, T - 1)))
            case.update(kind="merge", split=split, chunksA=self._rand_comp(rng, split),
                        chunksB=self._rand_comp(rng, T - split), inplace=rng.random() < 0.4)
        return case

    def _rand_comp(self, rng, n):
        r = rng.random()
        if r < 0.2:
            return [n]
        if r < 0.35:
            return [1] * n
        out = []
        while n > 0:
            k = rng.randint(1, n)
            out.append(k)
            n -= k
        return out

    def gen(self, rng, tier):
        cases = []
        for T in range(1, 8 if tier == "thorough" else 6):
            for comp in compositions(T):
                cases.append(dict(self._case(rng, T, comp), kind="push", mode="full", chunks=comp))
                cases[-1].pop("split", None); cases[-1].pop("chunksA", None); cases[-1].pop("chunksB", None)
        # all split points of a few streams
        for T in (2, 5, 9):
            for sp in range(1, T):
                c = self._case(rng, T)
                c.update(kind="merge", split=sp, chunksA=[sp], chunksB=[T - sp])
                c.pop("chunks", None); c.pop("mode", None)
                cases.append(c)
        cases += [self._case(rng) for _ in range(250 if tier == "quick" else 3000)]
        # the accumulator as the readers drive it: compute_stats / compute_stats_basic over a (sub-)range of a real
        # file, every gulp; the stream is samples [s, s+n) and the chunks are the blocks of the read plan
        for _ in range(40 if tier == "quick" else 400):
            c = self._case(rng, rng.choice((3, 5, 8, 13, 40)))
            T = c["T"]
            s0 = rng.choice((0, rng.randrange(0, T), rng.randrange(0, T)))
            n = rng.randint(1, T - s0)
            g = rng.choice((1, 2, 3, 7, 64))
            for k in ("split", "chunksA", "chunksB"):
                c.pop(k, None)
            gg = min(g, n)
            c.update(kind="reader", mode=rng.choice(("full", "basic")), s=s0, n=n, g=g,
                     chunks=[gg] * (n // gg) + ([n % gg] if n % gg else []))
            cases.append(c)
        return cases

    # ------------------------------------------------------------------
    def _feed(self, data, den, chunks, mode, peek=False):
        from sigpyproc.core.stats import ChannelStats

        T, C = data.shape
        x = (data.astype(np.float64) / den)
        if not getattr(self, "_f8", False):
            x = x.astype(np.float32)
        bag = ChannelStats(C, T)
        pos = 0
        for ii, n in enumerate(chunks):
            bag.push_data(np.ascontiguousarray(x[pos:pos + n]).ravel(), ii, mode=mode)
            pos += n
            if peek:
                # a monitor reading the running statistics between chunks must not change (or freeze) anything
                _ = (bag.mean, bag.var, bag.std, bag.maxima, bag.minima)
                if mode == "full":
                    _ = (bag.skew, bag.kurtosis)
        return bag

    def _summ(self, bag):
        m = bag.moments
        f = lambda a: [float(v) for v in a]  # noqa: E731
        return {"count": [int(v) for v in m["count"]], "min": f(bag.minima), "max": f(bag.maxima),
                "mean": f(bag.mean), "var": f(bag.var), "skew": f(bag.skew), "kurt": f(bag.kurtosis),
                "m2": f(m["m2"]), "m3": f(m["m3"]), "m4": f(m["m4"])}

    def observe(self, case):
        data = make_data(case)
        self._f8 = case.get("idt") == "f8" and case["kind"] != "reader"
        try:
            if case["kind"] == "push":
                return self._summ(self._feed(data, case["den"], case["chunks"], case["mode"], case.get("peek", False)))
            if case["kind"] == "reader":
                import common
                import spfiles
                from sigpyproc.readers import FilReader
                d = common.tmpdir()
                x = (data.astype(np.float64) / case["den"]).astype(np.float32)
                fil = FilReader(str(spfiles.write_fil(d / "s.fil", x, 32)))
                try:
                    f = fil.compute_stats if case["mode"] == "full" else fil.compute_stats_basic
                    f(gulp=case["g"], start=case["s"], nsamps=case["n"])
                    return self._summ(fil.chan_stats)
                finally:
                    fil._file.close()
            sp = case["split"]
            a = self._feed(data[:sp], case["den"], case["chunksA"], "full", case.get("peek", False))
            b = self._feed(data[sp:], case["den"], case["chunksB"], "full", case.get("peek", False))
            if case.get("inplace"):
                a += b                  # the in-place spelling must be the same merge
                return self._summ(a)
            return self._summ(a + b)
        except Exception as e:  # noqa: BLE001
            return {"err": exc_name(e)}

    # ------------------------------------------------------------------
    @staticmethod
    def _stream(case):
        data = make_data(case)
        return data[case["s"]:case["s"] + case["n"]] if case["kind"] == "reader" else data

    def model_requests(self, case, obs):
        if case.get("big") or (case.get("idt") == "f8" and case["den"] in (10, 3, 7)):
            return []  # too long for a request line / samples not exact rationals num/den after rounding to float32
        data = self._stream(case)
        T, C = data.shape
        reqs = []
        for c in range(C):
            col = [int(v) for v in data[:, c]]

            def chunks_tok(col, comp):
                out, pos = [str(len(comp))], 0
                for n in comp:
                    out.append(str(n)); out += [str(v) for v in col[pos:pos + n]]; pos += n
                return " ".join(out)
            if case["kind"] in ("push", "reader"):
                reqs.append(f"C10 push {case['mode']} {case['den']} {chunks_tok(col, case['chunks'])}")
            else:
                sp = case["split"]
                reqs.append(f"C10 merge {case['den']} {chunks_tok(col[:sp], case['chunksA'])} "
                            f"{chunks_tok(col[sp:], case['chunksB'])}")
        return reqs

    def model_compare(self, case, obs, answers):
        if case.get("big"):
            return None
        if "err" in obs:
            return f"impl raised {obs['err']}"
        T = case["n"] if case["kind"] == "reader" else case["T"]
        basic = case.get("mode") == "basic"
        for c, a in enumerate(answers):
            t = a.split()
            if t[0] != "ok":
                return f"model: {a[:60]}"
            n = int(t[1])
            m1, m2, m3, m4, mn, mx = (Fraction(x) for x in t[2:8])
            scale = max(abs(float(mn)), abs(float(mx)), 1e-30)
            if obs["count"][c] != n or obs["min"][c] != float(mn) or obs["max"][c] != float(mx):
                return f"chan {c}: count/min/max impl {(obs['count'][c], obs['min'][c], obs['max'][c])} vs model {(n, mn, mx)}"
            tol = 1e-5 * max(T, 16)
            chk = [("mean", obs["mean"][c], float(m1), scale), ("m2", obs["m2"][c], float(m2), T * scale ** 2)]
            if not basic:
                chk += [("m3", obs["m3"][c], float(m3), T * scale ** 3), ("m4", obs["m4"][c], float(m4), T * scale ** 4)]
            for name, got, want, sc in chk:
                if not math.isfinite(got) or abs(got - want) > tol * sc:
                    return f"chan {c}: {name} impl {got} vs exact model {want} (tol {tol * sc:.3g})"
        return None

    # ------------------------------------------------------------------
    def oracle(self, case, obs):
        if "err" in obs:
            return f"raised {obs['err']}"
        data = self._stream(case)
        T, C = data.shape
        x = data.astype(np.float64) / case["den"]
        if case.get("idt") == "f8":
            x = x.astype(np.float32).astype(np.float64)      # the samples as the float32 accumulator takes them
        basic = case.get("mode") == "basic"
        for c in range(C):
            col = x[:, c]
            mu = col.mean()
            d = col - mu
            m2, m3, m4 = (d ** 2).sum(), (d ** 3).sum(), (d ** 4).sum()
            for k in ("mean", "var", "skew", "kurt", "min", "max"):
                if not math.isfinite(obs[k][c]):
                    return f"chan {c}: {k} is {obs[k][c]} for finite input"
            if obs["count"][c] != T or obs["min"][c] != col.min() or obs["max"][c] != col.max():
                return (f"chan {c}: count/min/max {(obs['count'][c], obs['min'][c], obs['max'][c])} != "
                        f"{(T, col.min(), col.max())}")
            scale = max(np.abs(col).max(), 1e-30)
            tol = 2e-5 * max(T, 16) if not case.get("big") else 2e-3
            if abs(obs["mean"][c] - mu) > tol * scale:
                return f"chan {c}: mean {obs['mean'][c]} vs two-pass {mu}"
            if abs(obs["var"][c] - m2 / T) > tol * scale ** 2:
                return f"chan {c}: var {obs['var'][c]} vs two-pass {m2 / T}"
            const = bool((col == col[0]).all())
            if const:
                if obs["var"][c] != 0 or obs["skew"][c] != 0:
                    return f"chan {c}: constant channel has var {obs['var'][c]}, skew {obs['skew'][c]}"
                continue
            if basic:
                continue
            # well-conditioned only: the normalised moments are not computable to float32 accuracy otherwise
            if m2 / T > 1e-3 * scale ** 2:
                skew = m3 / m2 ** 1.5 * math.sqrt(T)
                kurt = m4 / m2 ** 2 * T - 3
                if abs(obs["skew"][c] - skew) > 50 * tol * (1 + abs(skew)):
                    return f"chan {c}: skew {obs['skew'][c]} vs two-pass {skew}"
                if abs(obs["kurt"][c] - kurt) > 50 * tol * (1 + abs(kurt)):
                    return f"chan {c}: kurtosis {obs['kurt'][c]} vs two-pass {kurt}"
        return None

    def regime(self, case, obs):
        if case.get("big"):
            return "large-count-merge"
        if case["dkind"] == "const":
            return "constant"
        if case["kind"] == "merge":
            return "merge"
        if case["kind"] == "reader":
            return "reader-subrange" if case["s"] > 0 else "reader"
        if case["chunks"] == [1] * case["T"] and case["T"] > 1:
            return "single-sample-chunks"
        return "push-" + case["mode"]

    def nontrivial(self, case, obs):
        return case["kind"] == "merge" or len(case["chunks"]) >= 2

    known = {}


PROP = C10()

"""C20 — a partially written output is always a valid prefix of the final file."""
from __future__ import annotations

import os
import random
import signal
import subprocess
import sys

import numpy as np

import common
import spfiles
from .base import Prop, exc_name
from .c05 import C05
from .c06 import FCH1, FOFF, TSAMP
from .c07 import decode_data

WRITERS = ("invert", "mask", "samps", "chans", "bands", "downsample", "subband", "zerodm", "requantize", "block", "tim")


def run_writer(fil, case, d):
    """invoke one streaming writer; returns the list of output paths"""
    g = case["g"]
    kw = {"gulp": g, "quiet": True}
    w = case["writer"]
    out = str(d / "out.fil")
    if w == "invert":
        return [fil.invert_freq(outfile_name=out, **kw)]
    if w == "mask":
        m = np.zeros(fil.header.nchans, dtype=bool)
        m[0] = True
        return [fil.apply_channel_mask(m, 0, outfile_name=out, **kw)]
    if w == "samps":
        return [fil.extract_samps(1, fil.header.nsamples - 2, outfile_name=out, **kw)]
    if w == "chans":
        return fil.extract_chans(np.array([0, 1]), outfile_base=str(d / "c"), **kw)
    if w == "bands":
        return fil.extract_bands(0, fil.header.nchans, fil.header.nchans // 2, outfile_base=str(d / "b"), **kw)
    if w == "downsample":
        return [fil.downsample(2, 2, outfile_name=out, **kw)]
    if w == "subband":
        return [fil.subband(10.0, 2, outfile_name=out, **kw)]
    if w == "zerodm":
        return [fil.remove_zerodm(outfile_name=out, **kw)]
    if w == "requantize":
        return [fil.requantize(case["nbits"], outfile_name=out, **kw)]
    if w == "block":
        return [fil.read_block(0, fil.header.nsamples).to_file(out)]
    if w == "tim":
        return [fil.collapse(**kw).to_tim(str(d / "out.tim"))]
    raise ValueError(w)


class Snap:
    """what was on disk after one write call: length + digest (+ the bytes themselves when small)"""

    def __init__(self, b: bytes):
        import hashlib
        self.n = len(b)
        self.sha = hashlib.sha256(b).digest()
        self.b = b if len(b) <= (1 << 16) else None

    def __len__(self):
        return self.n

    def is_prefix_of(self, final: bytes) -> bool:
        import hashlib
        return self.n <= len(final) and hashlib.sha256(final[:self.n]).digest() == self.sha

    def equals(self, other: bytes) -> bool:
        return self.is_prefix_of(other) and len(other) == self.n


class Interrupted(BaseException):
    """raised from a wrapped write to stop a run between two writes (in-process stand-in for Ctrl-C / a failing input)"""


def install_spy(log, kill_after=None, raise_after=None):
    """wrap FileWriter.write/cwrite: after every call record (path, size, bytes on disk)"""
    from sigpyproc.io.fileio import FileWriter

    orig_w, orig_c = FileWriter.write, FileWriter.cwrite
    count = [0]

    def snap(self):
        path = self.files[0]
        with open(path, "rb") as f:
            log.append((path, Snap(f.read())))
        count[0] += 1
        if kill_after is not None and count[0] == kill_after:
            os.kill(os.getpid(), signal.SIGKILL)
        if raise_after is not None and count[0] == raise_after:
            raise Interrupted()

    def write(self, bo):
        r = orig_w(self, bo)
        snap(self)
        return r

    def cwrite(self, arr):
        r = orig_c(self, arr)
        snap(self)
        return r

    FileWriter.write, FileWriter.cwrite = write, cwrite
    return lambda: (setattr(FileWriter, "write", orig_w), setattr(FileWriter, "cwrite", orig_c))


class C20(Prop):
    id = "C20"
    level = "proof"
    rule = ("every streaming writer (invert, mask, extract samps/chans/bands, downsample, subband, zero-DM, requantize, "
            "block and time-series writers) on tiny real files for several gulps, with FileWriter.write/cwrite wrapped "
            "from the harness: the bytes on disk after EVERY write call vs header + prefix of the final data; then EVERY "
            "byte-length truncation of the final file (files <= 2 kB; sampled above) opened with the library's reader; a "
            "subprocess SIGKILLed between writes; a subprocess whose file-size limit cuts a data write short. Non-trivial = >= 3 write calls; distinct by (writer, depth, shape, gulp).")
    assumptions = ["OS-level durability/atomicity of write(2) is outside the model (exercised by the SIGKILL runs only)",
                   "a truncated file is read with read_block (read_plan to the end of a stream with a partial trailing "
                   "sample raises ValueError by design)"]
    regimes_expected = list(WRITERS) + ["sigkill", "short-write", "exception", "above-1MiB", "over-older-longer-file"]
    budget_s = (240, 1500)

    def _case(self, rng, writer=None):
        writer = writer or rng.choice(WRITERS)
        nbits = rng.choice((8, 32)) if writer in ("subband", "downsample", "tim", "block") else rng.choice((1, 2, 4, 8, 32))
        C = 8 if nbits < 8 else rng.choice((4, 8))
        if writer == "bands" and nbits < 8:
            C = 16
        N = rng.choice((12, 20, 31))
        return {"writer": writer, "nbits": nbits, "C": C, "N": N, "g": rng.choice((3, 5, 8, N + 1)), "dseed": rng.randrange(1 << 30),
                "preexist": rng.random() < 0.4}

    def _big(self, rng, writer=None):
        """outputs above 1 MiB (size-dependent behaviour: preallocation, buffering thresholds)"""
        writer = writer or rng.choice(WRITERS)
        nbits = rng.choice((8, 32)) if writer in ("subband", "downsample", "tim", "block") else rng.choice((8, 8, 32, 4))
        C = 64
        N = {4: 80000, 8: 40000, 32: 10000}[nbits] + rng.randrange(0, 50)
        if writer in ("chans", "tim"):
            N *= 8                       # one float32 channel per output file
        elif writer in ("downsample", "bands"):
            N *= 2
        return {"writer": writer, "nbits": nbits, "C": C, "N": N, "g": rng.choice((4096, 5000, 16384)),
                "dseed": rng.randrange(1 << 30), "big": True}

    def gen(self, rng, tier):
        k = 1 if tier == "quick" else 4
        cases = []
        for w in WRITERS:
            cases += [self._case(rng, w) for _ in range(4 * k)]
        for _ in range(4 if tier == "quick" else 30):
            c = self._case(rng, rng.choice(("invert", "downsample", "subband", "samps", "zerodm")))
            c["kill"] = rng.randint(1, 4)
            cases.append(c)
        # the run dies by an exception (Ctrl-C, a failing input) between two writes: writers that clean up must not take
        # the valid prefix away
        for wname in ("bands", "chans", "invert", "samps", "subband", "tim", "block", "downsample"):
            c = self._case(rng, wname)
            c["raise"] = rng.randint(2, 4)
            c.pop("preexist", None)
            cases.append(c)
        # the device refuses part of a block (file-size limit / full disk): what is left on disk is still header +
        # a prefix of the result
        for _ in range(5 if tier == "quick" else 40):
            c = self._case(rng, rng.choice(("invert", "samps", "zerodm", "tim", "block", "mask", "requantize", "downsample")))
            c["limit"] = rng.choice((0.3, 0.55, 0.8, 0.97))
            c.pop("preexist", None)
            cases.append(c)
        if tier == "quick":
            cases += [self._big(rng, "samps"), self._big(rng)]
        else:
            cases += [self._big(rng, w) for w in WRITERS]
        return cases

    def search(self, rng, tier):
        # after a broken obligation: every writer again, small and above 1 MiB
        cases = [self._big(rng, w) for w in WRITERS]
        for w in WRITERS:
            cases += [self._case(rng, w) for _ in range(6)]
        return cases

    # ------------------------------------------------------------------
    def _mkinput(self, case, d):
        rng = random.Random(case["dseed"])
        if case.get("big"):
            nb = case["nbits"]
            x = np.random.default_rng(case["dseed"]).integers(1, (1 << nb) if nb < 32 else 200, size=(case["N"], case["C"]))
        else:
            x = spfiles.rand_data(rng, case["N"], case["C"], case["nbits"])
        return spfiles.write_fil(d / "in.fil", x, case["nbits"], fch1=FCH1, foff=FOFF, tsamp=TSAMP)

    def observe(self, case):
        from sigpyproc.readers import FilReader

        d = common.tmpdir()
        p = self._mkinput(case, d)
        if "kill" in case:
            return self._observe_kill(case, d, p)
        if "limit" in case:
            return self._observe_limit(case, d, p)
        if "raise" in case:
            return self._observe_raise(case, d, p)
        if case.get("preexist"):
            # the output paths already hold an OLDER, LONGER product (a re-run with a shorter selection): learn the
            # paths with a dry run, then overwrite each with a longer file of foreign bytes
            try:
                fil0 = FilReader(str(p))
                for o in run_writer(fil0, case, d):
                    n0 = os.path.getsize(o)
                    with open(o, "wb") as fh:
                        fh.write(b"\xab" * (3 * n0 + 1000))
                fil0._file.close()
            except Exception:  # noqa: BLE001, S110
                pass
        log = []
        undo = install_spy(log)
        try:
            fil = FilReader(str(p))
            outs = run_writer(fil, case, d)
            fil._file.close()
        except Exception as e:  # noqa: BLE001
            import traceback
            return {"err": exc_name(e), "msg": traceback.format_exc()[-300:]}
        finally:
            undo()
        import gc
        gc.collect()
        res = {"files": []}
        for o in outs:
            final = open(o, "rb").read()
            snaps = [b for (pp, b) in log if os.path.abspath(pp) == os.path.abspath(o)]
            res["files"].append({"final": final.hex() if len(final) <= 4096 else "", "final_len": len(final),
                                 "snaps": [len(s) for s in snaps],
                                 "prefix_ok": [s.is_prefix_of(final) for s in snaps],
                                 "first_is_header": None, "trunc": self._truncations(o, final)})
            kv = C05._parse(final)
            res["files"][-1]["hdrlen"] = kv[1] if kv else None
            res["files"][-1]["first_is_header"] = bool(snaps) and kv is not None and len(snaps[0]) == kv[1]
        return res

    def _truncations(self, path, final):
        """open every truncation with the library's reader; returns list of problems"""
        from sigpyproc.readers import FilReader
        from sigpyproc.timeseries import TimeSeries

        kv = C05._parse(final)
        if kv is None:
            return ["final file does not parse"]
        h, hl = dict(kv[0]), kv[1]
        nbits, C = h["nbits"], h["nchans"]
        full = decode_data(final[hl:], nbits)
        stride_bits = nbits * C
        if len(final) <= 2048:
            lengths = range(hl, len(final) + 1)
        else:
            nsamp = 400 if len(final) <= (1 << 16) else 24
            lengths = sorted(set(random.Random(1).sample(range(hl, len(final) + 1), nsamp)) | {hl, len(final)})
        probs = []
        tp = path + ".trunc"
        is_tim = path.endswith(".tim")
        for L in lengths:
            with open(tp, "wb") as f:
                f.write(final[:L])
            k = 8 * (L - hl) // stride_bits
            try:
                if is_tim:
                    if k == 0:
                        continue
                    ts = TimeSeries.from_tim(tp)
                    got = [float(v) for v in ts.data]
                    want = [float(v) for v in full[:k]]
                else:
                    fr = FilReader(tp)
                    if fr.header.nsamples != k:
                        probs.append(f"L={L}: reader infers {fr.header.nsamples} samples, {k} are complete")
                        fr._file.close()
                        continue
                    if k == 0:
                        fr._file.close()
                        continue
                    blk = fr.read_block(0, k)
                    fr._file.close()
                    got = [float(v) for v in blk.data.T.ravel()]
                    want = [float(v) for v in full[:k * C]]
                if got != want:
                    probs.append(f"L={L}: the first {k} samples read back differ from the full result")
            except Exception as e:  # noqa: BLE001
                probs.append(f"L={L}: reader raised {type(e).__name__}: {str(e)[:80]}")
            if len(probs) > 3:
                break
        try:
            os.unlink(tp)
        except OSError:
            pass
        return probs

    def _observe_kill(self, case, d, p):
        """child: run the writer and SIGKILL itself right after the k-th write; parent: inspect what is on disk"""
        code = (
            "import sys, json; sys.path.insert(0, %r); import common; common.quiet_progress();\n"
            "from pathlib import Path; from props import c20; from sigpyproc.readers import FilReader\n"
            "case = json.loads(%r); d = Path(%r); log = []\n"
            "c20.install_spy(log, kill_after=case['kill'])\n"
            "fil = FilReader(%r); c20.run_writer(fil, case, d)\n"
        ) % (os.path.dirname(os.path.dirname(os.path.abspath(__file__))), __import__("json").dumps(case), str(d), str(p))
        r = subprocess.run([sys.executable, "-c", code], capture_output=True, text=True, timeout=300,
                           env=dict(os.environ))
        killed = r.returncode == -signal.SIGKILL
        # reference run (same writer, no kill) in-process
        d2 = common.tmpdir()
        log = []
        undo = install_spy(log)
        try:
            from sigpyproc.readers import FilReader
            fil = FilReader(str(p))
            outs = run_writer(fil, case, d2)
            fil._file.close()
        finally:
            undo()
        ref_path = outs[0]
        snaps = [b for (pp, b) in log if os.path.abspath(pp) == os.path.abspath(ref_path)]
        surv_path = d / os.path.basename(ref_path)
        surv = surv_path.read_bytes() if surv_path.exists() else None
        k = case["kill"]
        return {"killed": killed, "rc": r.returncode, "stderr": r.stderr[-200:],
                "surv_len": None if surv is None else len(surv),
                "matches_snapshot": surv is not None and k <= len(snaps) and snaps[k - 1].equals(surv),
                "nsnaps": len(snaps), "trunc": [] if surv is None else self._truncations(str(surv_path), surv)}

    def _observe_raise(self, case, d, p):
        """the run is stopped by an exception right after the k-th write (in-process): whatever the writer's cleanup
        does, every output file that had been started must still be there and be a readable prefix"""
        from sigpyproc.readers import FilReader
        d2 = common.tmpdir()
        fil = FilReader(str(p))
        ref_outs = run_writer(fil, case, d2)
        fil._file.close()
        refs = {os.path.basename(o): open(o, "rb").read() for o in ref_outs}
        log = []
        undo = install_spy(log, raise_after=case["raise"])
        stopped = False
        try:
            fil = FilReader(str(p))
            run_writer(fil, case, d)
        except Interrupted:
            stopped = True
        finally:
            undo()
            fil._file.close()
        import gc
        gc.collect()
        started = sorted({os.path.basename(pp) for pp, _ in log})
        files = []
        for name in started:
            path = d / name
            surv = path.read_bytes() if path.exists() else None
            ref = refs.get(name, b"")
            files.append({"name": name, "exists": surv is not None, "len": None if surv is None else len(surv),
                          "is_prefix": surv is not None and ref[:len(surv)] == surv,
                          "trunc": [] if surv is None else self._truncations(str(path), surv)})
        return {"stopped": stopped, "files": files, "nwrites": len(log)}

    def _observe_limit(self, case, d, p):
        """child: run the writer under a file-size limit that cuts one of its data writes short (SIGXFSZ ignored, so
        the write call itself reports the shortfall); parent: did the call return normally, and what is on disk"""
        from sigpyproc.readers import FilReader
        d2 = common.tmpdir()
        fil = FilReader(str(p))
        outs = run_writer(fil, case, d2)
        fil._file.close()
        ref = open(outs[0], "rb").read()
        kv = C05._parse(ref)
        hl = kv[1]
        lim = hl + max(1, int(case["limit"] * (len(ref) - hl)))
        code = (
            "import sys, json, resource, signal; sys.path.insert(0, %r); import common; common.quiet_progress();\n"
            "from pathlib import Path; from props import c20; from sigpyproc.readers import FilReader\n"
            "case = json.loads(%r); d = Path(%r); w = Path(%r)\n"
            "fil = FilReader(%r); c20.run_writer(fil, case, w)\n"          # warm-up: compile caches written before the limit
            "signal.signal(signal.SIGXFSZ, signal.SIG_IGN)\n"
            "resource.setrlimit(resource.RLIMIT_FSIZE, (%d, resource.getrlimit(resource.RLIMIT_FSIZE)[1]))\n"
            "fil = FilReader(%r)\n"
            "try:\n"
            "    c20.run_writer(fil, case, d)\n"
            "except BaseException as e:\n"
            "    sys.stderr.write('RAISED ' + type(e).__name__); sys.exit(7)\n"
            "sys.exit(0)\n"
        ) % (os.path.dirname(os.path.dirname(os.path.abspath(__file__))), __import__("json").dumps(case), str(d),
             str(common.tmpdir()), str(p), lim, str(p))
        r = subprocess.run([sys.executable, "-c", code], capture_output=True, text=True, timeout=300, env=dict(os.environ))
        surv_path = d / os.path.basename(outs[0])
        surv = surv_path.read_bytes() if surv_path.exists() else None
        return {"rc": r.returncode, "stderr": r.stderr[-200:], "limit": lim, "ref_len": len(ref), "hdrlen": hl,
                "surv_len": None if surv is None else len(surv),
                "is_prefix": surv is not None and ref[:len(surv)] == surv,
                "trunc": [] if surv is None or len(surv) < hl else self._truncations(str(surv_path), surv)}

    # ------------------------------------------------------------------
    def oracle(self, case, obs):
        w = case["writer"]
        if "err" in obs:
            return f"{w} raised {obs['err']}: {obs['msg'][-150:]}"
        if "raise" in case:
            if not obs["stopped"]:
                return None          # fewer writes than the stopping point
            for f in obs["files"]:
                if not f["exists"]:
                    return (f"{w}: stopped by an exception after write #{case['raise']}: the output {f['name']} that had been "
                            f"started no longer exists (no valid prefix survives)")
                if not f["is_prefix"]:
                    return f"{w}: stopped by an exception after write #{case['raise']}: {f['name']} is not a prefix of the full result"
                if f["trunc"]:
                    return f"{w}: file left after an exception is not readable as a prefix: {f['trunc'][0]}"
            return None
        if "limit" in case:
            if obs["rc"] not in (0, 7):
                return f"{w}: child under a file-size limit ended with rc {obs['rc']}: {obs['stderr']}"
            if obs["surv_len"] is None:
                return f"{w}: no output file under a file-size limit of {obs['limit']} bytes"
            if not obs["is_prefix"]:
                return f"{w}: under a file-size limit the {obs['surv_len']} bytes on disk are not a prefix of the full result"
            # NOT required here: that the call raises.  The property quantifies over crash points and truncations, not
            # over writes the OS refuses; on the unchanged tree NumPy's tofile swallows the failed flush of a block
            # smaller than the stdio buffer and the call returns normally (DESIGN §10).  What is on disk must still be
            # a readable prefix, which is what is checked.
            if obs["trunc"]:
                return f"{w}: file left under a file-size limit is not readable as a prefix: {obs['trunc'][0]}"
            return None
        if "kill" in case:
            if not obs["killed"]:
                if obs["nsnaps"] < case["kill"]:
                    return None      # fewer writes than the kill point: the child finished normally
                return f"{w}: child was not killed (rc {obs['rc']}): {obs['stderr']}"
            if not obs["matches_snapshot"]:
                return f"{w}: after SIGKILL following write #{case['kill']} the file on disk ({obs['surv_len']} bytes) is not what had been written up to then"
            if obs["trunc"]:
                return f"{w}: file surviving a SIGKILL is not readable as a prefix: {obs['trunc'][0]}"
            return None
        for i, f in enumerate(obs["files"]):
            if not f["snaps"]:
                return f"{w} file {i}: no write was observed"
            if not f["first_is_header"]:
                return f"{w} file {i}: the first write is not the complete header ({f['snaps'][0]} bytes, header {f['hdrlen']})"
            if not all(f["prefix_ok"]):
                j = f["prefix_ok"].index(False)
                return f"{w} file {i}: the bytes on disk after write #{j + 1} are not a prefix of the final file (rewritten or reordered)"
            if any(b < a for a, b in zip(f["snaps"], f["snaps"][1:])):
                return f"{w} file {i}: the file shrank between writes"
            if f["snaps"][-1] != f["final_len"]:
                return f"{w} file {i}: after the call returned the file has {f['final_len']} bytes but the last write left {f['snaps'][-1]}"
            if f["trunc"]:
                return f"{w} file {i}: truncation not readable as a prefix: {f['trunc'][0]}"
        return None

    # ------------------------------------------------------------------
    def model_requests(self, case, obs):
        if "err" in obs or "kill" in case or "limit" in case or "raise" in case:
            return []
        reqs = []
        for f in obs["files"]:
            if f["final"] and len(f["final"]) <= 2400 and f["hdrlen"]:
                reqs.append(f"C20 prefixes {f['final']} {f['hdrlen']}")
        return reqs

    def model_compare(self, case, obs, answers):
        for a in answers:
            if not a.startswith("ok"):
                return f"model: {a[:80]}"
        return None

    def regime(self, case, obs):
        if case.get("big"):
            return "above-1MiB"
        tags = ["sigkill" if "kill" in case else "short-write" if "limit" in case else "exception" if "raise" in case else case["writer"]]
        if case.get("preexist"):
            tags.append("over-older-longer-file")
        return tags

    def nontrivial(self, case, obs):
        if "kill" in case or "limit" in case or "raise" in case:
            return True
        return any(len(f["snaps"]) >= 3 for f in obs.get("files", []))

    def key(self, case):
        return str((case["writer"], case["nbits"], case["C"], case["N"], case["g"], case.get("kill"), case.get("limit"), case.get("raise")))


PROP = C20()

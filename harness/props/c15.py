"""C15 — robust normalisation is finite, affine-equivariant and axis-consistent."""
from __future__ import annotations

import math

import numpy as np

from .base import Prop, exc_name

SCALES = ("std", "iqr", "mad", "doublemad", "diffcov", "biweight", "qn", "sn", "gapper")
LOCS = ("median", "mean")


def make(case):
    rng = np.random.default_rng(case["dseed"])
    shape = tuple(case["shape"])
    k = case["dkind"]
    if k == "const":
        x = np.full(shape, case.get("cval", 7.0))
    elif k == "ties":
        x = rng.integers(0, 4, size=shape).astype(np.float64)
    elif k == "outliers":
        x = rng.integers(-10, 11, size=shape).astype(np.float64)
        flat = x.ravel()
        flat[rng.integers(0, flat.size, size=max(1, flat.size // 10))] = 4096.0
    elif k == "huge":
        # one sample ~1e6 times the spread (exact in float32): robust scales ignore it, and a guard against a
        # vanishing scale must not be relative to the largest sample
        x = rng.integers(-10, 11, size=shape).astype(np.float64)
        flat = x.ravel()
        flat[int(rng.integers(0, flat.size))] = float(2 ** 23)
    else:
        x = rng.integers(-64, 65, size=shape).astype(np.float64) / 4.0
    if k == "lane-const" and x.ndim == 2:
        # one lane (first, last or a middle one, along either axis) exactly constant, the others random
        which = int(rng.integers(0, 3))
        if int(rng.integers(0, 2)):
            x[{0: 0, 1: -1, 2: x.shape[0] // 2}[which], :] = case.get("cval", 5.0)
        else:
            x[:, {0: 0, 1: -1, 2: x.shape[1] // 2}[which]] = case.get("cval", 5.0)
    return x


class C15(Prop):
    id = "C15"
    rule = ("all 9 scale methods x 2 location methods (+'norm') x axis in {None,0,1} x 1-D/2-D shapes with >= 8 "
            "elements per lane x dyadic affine maps (1e-2<=|a|<=1e2, exact in float64) x data with ties, constants "
            "and heavy outliers: scale(a*x+b) vs |a|*scale(x), z(a*x+b) vs sign(a)*z(x), per-axis vs per-lane / "
            "flattened evaluation, result shapes, finiteness. Non-trivial = non-constant data; distinct by full case.")
    assumptions = ["numerical tolerance 1e-9 (scale, float64) / 2e-4 (z-scores, float32); astropy's biweight is "
                   "validated, not modelled", "z-score equivariance is not required when the scale estimate is zero "
                   "(documented unit-scale fallback)"]
    regimes_expected = ["scale-affine", "zscore-affine", "axis-None", "axis-0", "axis-1", "const", "lane-const", "fortran-order"]
    budget_s = (200, 1200)

    def _case(self, rng, kind=None):
        kind = kind or rng.choice(("scale-affine", "zscore-affine", "axis", "axis"))
        nd = rng.choice((1, 2))
        shape = [rng.choice((8, 9, 16, 33))] if nd == 1 else [rng.choice((8, 9, 12)), rng.choice((8, 10, 15))]
        axis = rng.choice(("None", 0)) if nd == 1 else rng.choice(("None", 0, 1))
        return {"kind": kind, "scale": rng.choice(SCALES), "loc": rng.choice(LOCS + ("norm",)), "shape": shape,
                "axis": axis, "a": rng.choice((1.0, -1.0, 0.015625, 64.0, -2.0, 0.25, -100.0 * 0 + -32.0)),
                "b": rng.choice((0.0, 3.0, -1024.0, 0.5)), "dkind": rng.choice(("rand", "rand", "ties", "outliers", "const", "lane-const", "huge")),
                "dseed": rng.randrange(1 << 30), "order": rng.choice(("C", "C", "F"))}

    def gen(self, rng, tier):
        k = 1 if tier == "quick" else 6
        cases = [self._case(rng) for _ in range(350 * k)]
        for sc in SCALES:            # every method on every axis at least once
            for ax in ("None", 0, 1):
                c = self._case(rng, "axis")
                c.update(scale=sc, axis=ax, shape=[9, 10], dkind="rand")
                cases.append(c)
                cases.append(dict(c, order="F" if c.get("order") != "F" else "C", dseed=c["dseed"] + 1))
                if ax != "None":     # every method with a constant lane among varying ones
                    c2 = self._case(rng, "axis")
                    c2.update(scale=sc, axis=ax, shape=[9, 10], dkind="lane-const")
                    cases.append(c2)
        # exactly constant lanes whose constant does not sum exactly (3.7, 0.1) and that are long enough for a sum to
        # round: nothing may come out NaN / infinite, for any estimator
        for sc in SCALES:
            for shape, dk in (([50], "const"), ([3, 100], "lane-const"), ([77, 4], "lane-const"), ([6, 45], "const")):
                c = self._case(rng, "zscore-affine")
                c.update(scale=sc, loc=rng.choice(("mean", "median")), shape=shape, dkind=dk, cval=rng.choice((3.7, 0.1, 1234.567)),
                         axis=rng.choice(("None", 0)) if len(shape) == 1 else (1 if shape[1] > shape[0] else 0))   # long lanes
                cases.append(c)
        # arrays well above a few thousand elements with SHORT lanes (a block of many channels): per-axis results must
        # still be the per-lane results, whatever the total size
        for sc in SCALES:
            for ax in (0, 1):
                c = self._case(rng, "axis")
                c.update(scale=sc, axis=ax, shape=rng.choice(([48, 64], [96, 40], [260, 12])), dkind="rand", loc="median")
                cases.append(c)
        return cases

    def corpus(self):
        return [{"kind": "axis", "scale": "sn", "loc": "median", "shape": [9, 10], "axis": 0, "a": 1.0, "b": 0.0, "dkind": "rand", "dseed": 3},
                {"kind": "axis", "scale": "sn", "loc": "median", "shape": [9, 10], "axis": "None", "a": 1.0, "b": 0.0, "dkind": "rand", "dseed": 3}]

    # ------------------------------------------------------------------
    def observe(self, case):
        from sigpyproc.core import stats as S

        x = make(case)
        if case.get("order") == "F" and x.ndim == 2:
            # same values, column-major memory (what read_block hands out: a transposed view): "the flattened
            # data" is the logical row-major flattening whatever the memory layout
            x = np.asfortranarray(x)
        ax = None if case["axis"] == "None" else case["axis"]
        a, b = case["a"], case["b"]
        if case["loc"] == "norm":
            b = 0.0        # 'norm' fixes the location at 0: only scalings are meaningful
        y = a * x + b
        f = lambda v: [float(t) for t in np.asarray(v, dtype=np.float64).ravel()]   # noqa: E731
        res = {}
        try:
            s1 = S.estimate_scale(x, case["scale"], axis=ax)
            s2 = S.estimate_scale(y, case["scale"], axis=ax)
            res.update(s1=f(s1), s2=f(s2), sshape=list(np.shape(s1)))
            if case["kind"] != "scale-affine":
                z1 = S.estimate_zscore(x, loc_method=case["loc"], scale_method=case["scale"], axis=ax)
                z2 = S.estimate_zscore(y, loc_method=case["loc"], scale_method=case["scale"], axis=ax)
                res.update(z1=f(z1.data), z2=f(z2.data), zshape=list(z1.data.shape), locshape=list(np.shape(z1.loc)),
                           scaleshape=list(np.shape(z1.scale)), zscale=f(z1.scale))
            if case["kind"] == "axis":
                # per-lane evaluation with the implementation's own 1-D estimator
                if ax is None:
                    lanes = [x.ravel()]
                elif x.ndim == 1:
                    lanes = [x]
                else:
                    lanes = [x[:, j] for j in range(x.shape[1])] if ax == 0 else [x[i, :] for i in range(x.shape[0])]
                res["lanes"] = [f(S.estimate_scale(l, case["scale"], axis=None)) for l in lanes]
                res["lanes_loc"] = [float(S.estimate_loc(l, "median")) for l in lanes]
                res["axis_loc"] = f(S.estimate_loc(x, "median", axis=ax))
        except Exception as e:  # noqa: BLE001
            import traceback
            return {"err": exc_name(e), "msg": traceback.format_exc()[-250:]}
        return res

    # ------------------------------------------------------------------
    def oracle(self, case, obs):
        tag = f"{case['scale']}/{case['loc']} axis={case['axis']} shape={case['shape']} ({case['dkind']})"
        if "err" in obs:
            return f"{tag} raised {obs['err']}: {obs['msg'][-140:]}"
        a = case["a"]
        s1, s2 = np.array(obs["s1"]), np.array(obs["s2"])
        if not (np.isfinite(s1).all() and np.isfinite(s2).all()):
            return f"{tag}: scale estimate is not finite"
        if case["scale"] != "doublemad":
            if len(s1) != len(s2) or np.abs(s2 - abs(a) * s1).max() > 1e-9 * (1 + abs(a) * np.abs(s1).max()):
                return f"{tag}: scale(a*x+b) = {s2[:3]} but |a|*scale(x) = {(abs(a) * s1)[:3]} (a={a})"
        if "z1" in obs:
            z1, z2 = np.array(obs["z1"]), np.array(obs["z2"])
            if not (np.isfinite(z1).all() and np.isfinite(z2).all()):
                return f"{tag}: z-scores of finite data are not finite"
            if obs["zshape"] != case["shape"]:
                return f"{tag}: z-score shape {obs['zshape']}"
            zs = np.array(obs["zscale"])
            # equivariance is only promised where the scale estimate is non-zero (unit-scale fallback otherwise)
            if ((s1 != 0).all() and (zs != 1).all()) or (case["dkind"] == "const" and case["loc"] != "norm"):
                sg = 1.0 if a > 0 else -1.0
                # float32 conditioning: the location is cast to float32 before the subtraction
                ymax = abs(a) * float(np.abs(make(case)).max()) + abs(case["b"])
                cond = 4 * 2.0 ** -23 * ymax / max(float(np.min(np.abs(s2))) if len(s2) else 1.0, 1e-30)
                if np.abs(z2 - sg * z1).max() > 2e-4 * (1 + np.abs(z1).max()) + cond:
                    i = int(np.argmax(np.abs(z2 - sg * z1)))
                    return f"{tag}: z(a*x+b)[{i}] = {z2[i]} but sign(a)*z(x)[{i}] = {sg * z1[i]} (a={a}, b={case['b']})"
            for nm in ("locshape", "scaleshape"):
                try:
                    np.broadcast_shapes(tuple(obs[nm]), tuple(case["shape"]))
                except ValueError:
                    return f"{tag}: {nm} {obs[nm]} does not broadcast against the input"
        if "lanes" in obs and case["scale"] != "doublemad":
            lanes = np.array([l[0] for l in obs["lanes"]])
            if len(lanes) != len(s1) or np.abs(lanes - s1).max() > 1e-9 * (1 + np.abs(lanes).max()):
                return (f"{tag}: along the axis the estimator gives {s1[:4]}, applying the 1-D estimator to each lane "
                        f"gives {lanes[:4]}")
            if np.abs(np.array(obs["lanes_loc"]) - np.array(obs["axis_loc"])).max() > 1e-12:
                return f"{tag}: location along the axis differs from per-lane location"
        return None

    # ------------------------------------------------------------------ model
    CONST = {"iqr": (1.3489795003921634, 1.0), "mad": (0.6744897501960817, math.sqrt(2 / math.pi)),
             "qn": (0.4506241100243562, 1.0), "sn": (1.1926, 1.0), "gapper": (math.sqrt(math.pi), 1.0), "std": (1.0, 1.0)}

    def model_requests(self, case, obs):
        from fractions import Fraction
        if "err" in obs or int(np.prod(case["shape"])) > 120:
            return []
        if case["scale"] == "doublemad":
            q = lambda v: (lambda f: f"{f.numerator}/{f.denominator}")(Fraction(float(v)))   # noqa: E731
            x = make(case)
            rows, cols = (1, x.shape[0]) if x.ndim == 1 else x.shape
            ax = "n" if case["axis"] == "None" else (("1" if x.ndim == 1 else str(case["axis"])))
            return [f"C15 dmad {q(math.sqrt(2 / math.pi))} {rows} {cols} {ax} {' '.join(q(v) for v in x.ravel())}"]
        if case["scale"] not in self.CONST:
            return []
        q = lambda v: (lambda f: f"{f.numerator}/{f.denominator}")(Fraction(float(v)))   # noqa: E731
        x = make(case)
        rows, cols = (1, x.shape[0]) if x.ndim == 1 else x.shape
        ax = "n" if case["axis"] == "None" else (("1" if x.ndim == 1 else str(case["axis"])))
        c1, c2 = self.CONST[case["scale"]]
        m = "var" if case["scale"] == "std" else case["scale"]
        return [f"C15 est {m} {q(c1)} {q(c2)} {rows} {cols} {ax} {' '.join(q(v) for v in x.ravel())}"]

    def model_compare(self, case, obs, answers):
        from fractions import Fraction
        if not answers:
            return None
        gen = answers[0].split(" | gen ")[1] if " | gen " in answers[0] else None
        t = answers[0].split(" | gen ")[0].split()
        if t[0] != "ok":
            return f"model {answers[0][:40]}"
        if gen is not None and gen != "ok same":
            return f"{case['scale']} axis={case['axis']}: the estimator translated from core/stats.py differs from the hand model ({gen})"
        want = [float(Fraction(v)) for v in t[1:]]
        if case["scale"] == "std":
            want = [math.sqrt(v) for v in want]
        got = obs["s1"]
        if len(got) != len(want) or any(abs(g - w) > 1e-9 * (1 + abs(w)) for g, w in zip(got, want)):
            return f"{case['scale']} axis={case['axis']}: impl {got[:4]} vs exact model {want[:4]}"
        return None

    def regime(self, case, obs):
        if case["dkind"] == "const":
            return "const"
        if case["dkind"] == "lane-const" and len(case["shape"]) == 2 and case["axis"] != "None":
            return "lane-const"
        if case["kind"] == "axis":
            return [f"axis-{case['axis']}"] + (["fortran-order"] if case.get("order") == "F" and len(case["shape"]) == 2 else [])
        return case["kind"]

    def nontrivial(self, case, obs):
        return case["dkind"] != "const"


PROP = C15()

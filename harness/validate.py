#!/usr/bin/env python3
"""Validate MANIFEST.json and evidence/*.json against the schemas (run with python3-vt)."""
import json, sys, glob
import jsonschema
ok = True
def v(doc, schema, name):
    global ok
    try:
        jsonschema.validate(json.load(open(doc)), json.load(open(schema)))
        print("valid", name)
    except Exception as e:
        ok = False
        print("INVALID", name, str(e)[:300])
v("/verif/MANIFEST.json", "/root/.vp/MANIFEST.schema.json", "MANIFEST.json")
for f in sorted(glob.glob("/verif/evidence/*.json")):
    v(f, "/root/.vp/EVIDENCE.schema.json", f)
sys.exit(0 if ok else 1)

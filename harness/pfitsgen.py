"""Synthetic search-mode PSRFITS files (astropy.io.fits), independent of sigpyproc's reader."""
from __future__ import annotations

import numpy as np
from astropy.io import fits


def pack4(vals):
    v = np.asarray(vals, dtype=np.uint8).reshape(-1, 2)
    return ((v[:, 0] << 4) | (v[:, 1] & 0xF)).astype(np.uint8)      # big bit order: first sample in the high nibble


def write_psrfits(path, raw, nsblk, nbits, ascending, fch1, foff, tsamp, scl, offs, wts, pol_type, zero_off=0.0,
                  chan_bw_sign="consistent"):
    """raw: (nsamps, npol, nchan) integers < 2**nbits in DESCENDING-frequency channel order
    (channel 0 = fch1, foff < 0); stored ascending when `ascending`.  scl/offs: (nsub, npol*nchan), wts: (nsub, nchan),
    given in the STORED channel order."""
    nsamps, npol, nchan = raw.shape
    assert nsamps % nsblk == 0 and foff < 0
    nsub = nsamps // nsblk
    freqs = fch1 + foff * np.arange(nchan)
    data = raw
    if ascending:
        freqs = freqs[::-1].copy()
        data = raw[:, :, ::-1]
    pri = fits.PrimaryHDU()
    h = pri.header
    for k, v in dict(FITSTYPE="PSRFITS", OBS_MODE="SEARCH", OBSERVER="x", PROJID="p", TELESCOP="Parkes",
                     ANT_X=-4554231.5, ANT_Y=2816759.1, ANT_Z=-3454036.3, FRONTEND="F", NRCVR=1, FD_POLN="LIN",
                     FD_HAND=1, FD_SANG=0.0, FD_XYPH=0.0, FD_MODE="FA", FA_REQ=0.0, BACKEND="B", BE_PHASE=1,
                     BE_DCC=0, BE_DELAY=0.0, TCYCLE=0.0, BECONFIG="c", IBEAM=1, OBSFREQ=float(freqs.mean()),
                     OBSBW=float(abs(foff) * nchan * (1 if ascending else -1)), OBSNCHAN=nchan, CHAN_DM=0.0,
                     SRC_NAME="SRC", RA="12:34:56.7", DEC="-00:30:15.5", STT_IMJD=58000, STT_SMJD=100,
                     STT_OFFS=0.25).items():
        h[k] = v
    h["DATE-OBS"] = "2017-09-04T00:00:00"
    bitfact = 2 if nbits == 4 else 1
    if nbits == 4:
        darr = np.zeros((nsub, nsblk, npol, nchan // 2), dtype=np.uint8)
        for i in range(nsub):
            blk = np.ascontiguousarray(data[i * nsblk:(i + 1) * nsblk]).astype(np.uint8)
            darr[i] = pack4(blk.ravel()).reshape(nsblk, npol, nchan // 2)
    else:
        darr = np.ascontiguousarray(data).astype(np.uint8).reshape(nsub, nsblk, npol, nchan)
    cols = [fits.Column(name="TSUBINT", format="1D", array=np.full(nsub, nsblk * tsamp)),
            fits.Column(name="OFFS_SUB", format="1D", array=(np.arange(nsub) + 0.5) * nsblk * tsamp),
            fits.Column(name="DAT_FREQ", format=f"{nchan}D", array=np.tile(freqs, (nsub, 1))),
            fits.Column(name="DAT_WTS", format=f"{nchan}E", array=wts.astype(np.float32)),
            fits.Column(name="DAT_OFFS", format=f"{nchan * npol}E", array=offs.astype(np.float32)),
            fits.Column(name="DAT_SCL", format=f"{nchan * npol}E", array=scl.astype(np.float32)),
            fits.Column(name="DATA", format=f"{darr[0].size}B",
                        dim=(f"({nchan},{npol},{nsblk // bitfact})" if nbits == 4 else f"({nchan},{npol},{nsblk})"),
                        array=darr.reshape(nsub, -1))]
    tb = fits.BinTableHDU.from_columns(cols, name="SUBINT")
    for k, v in dict(NPOL=npol, POL_TYPE=pol_type, TBIN=tsamp, NBITS=nbits, ZERO_OFF=zero_off, SIGNINT=0, NSUBOFFS=0,
                     NCHAN=nchan, CHAN_BW=_chan_bw(foff, ascending, chan_bw_sign), NCHNOFFS=0, NSBLK=nsblk,
                     NSTOT=nsamps).items():
        tb.header[k] = v
    fits.HDUList([pri, tb]).writeto(path, overwrite=True)


def expected_total_intensity(raw, nsblk, ascending, scl, offs, wts, pol_type, zero_off=0.0):
    """what poln_select=1 must return, (nsamps, nchan) in descending-frequency order, float64"""
    nsamps, npol, nchan = raw.shape
    nsub = nsamps // nsblk
    out = np.zeros((nsamps, nchan))
    for i in range(nsub):
        blk = raw[i * nsblk:(i + 1) * nsblk].astype(np.float64)       # descending order
        s = scl[i].reshape(npol, nchan)
        o = offs[i].reshape(npol, nchan)
        w = wts[i]
        if ascending:                                                  # calibration arrays are in stored order
            s, o, w = s[:, ::-1], o[:, ::-1], w[::-1]
        cal = ((blk - zero_off) * s + o) * w
        if pol_type in ("AABBCRCI", "AABB"):
            out[i * nsblk:(i + 1) * nsblk] = (cal[:, 0, :] + cal[:, 1, :]) / np.sqrt(2.0)
        else:
            out[i * nsblk:(i + 1) * nsblk] = cal[:, 0, :]
    return out


def _chan_bw(foff, ascending, how):
    """the SUBINT keyword CHAN_BW: files in the wild carry it signed like the DAT_FREQ step ("consistent"), as an
    unsigned width ("unsigned") or with the opposite sign ("opposite"); the channel order is what DAT_FREQ says"""
    step = -foff if ascending else foff
    return float({"consistent": step, "unsigned": abs(step), "opposite": -step}[how])

"""Shared machinery: Lean pipeline, model driver client, files, evidence."""
from __future__ import annotations

import fcntl
import hashlib
import json
import os
import random
import re
import shutil
import subprocess
import sys
import tempfile
import time
from pathlib import Path

VERIF = Path(__file__).resolve().parent.parent
LEAN = VERIF / "lean"
REPO = Path(os.environ.get("VERIF_REPO", "/repo"))
WORK = VERIF / ".work"
ALLOWED_AXIOMS = {"propext", "Classical.choice", "Quot.sound"}
FORBIDDEN = re.compile(r"\bsorry\b|\badmit\b|^\s*axiom\s|native_decide|bv_decide|implemented_by|\bunsafe\s|maxHeartbeats\s+0\b")

sys.path.insert(0, str(VERIF / "translator"))


# Source-tie modules per property (besides Props/<pid>.lean).  `Tie.*`: arithmetic regenerated from the source
# proved equal to the hand model, and the obligation that the fragments the property depends on were recognised by
# the translator on this run.  `Kernels.*`: closed-form specification of a translated loop kernel + its link to the
# hand model.  Each module only concerns the named fragment, so a source change breaks the obligations of the
# properties that depend on that fragment and of no other.
EXTRA_MODULES = {
    "C01": ["Tie.Plan", "Tie.SeekArith", "Tie.ReadLoops", "Tie.ReadPlanLoop"],
    "C02": ["Tie.SeekArith", "Tie.ReadLoops", "Tie.ReadPlanLoop"],
    "C03": ["Tie.Bits", "Tie.BitsValidation"],
    "C04": ["Tie.Bits", "Tie.SigprocTables", "Tie.SigprocCodec", "Tie.WriterArith"],
    "C05": ["Tie.SigprocTables", "Tie.SigprocCodec"],
    "C06": ["Tie.Plan", "Tie.StreamCalls", "Tie.Collapse", "Tie.Dedisperse", "Kernels.ExtractTim", "Kernels.ExtractBpass", "Kernels.Dedisperse"],
    "C07": ["Tie.Plan", "Tie.StreamCalls", "Tie.Subband", "Kernels.InvertFreq", "Kernels.MaskChannels", "Kernels.Subband",
            "Kernels.RemoveZerodm", "Kernels.Downsample2d", "Tie.CleanRfi"],
    "C08": ["Tie.HeaderUpdates"],
    "C09": ["Tie.Dedisperse", "Tie.Subband", "Kernels.Dedisperse", "Kernels.Subband", "Kernels.RollBlock", "Kernels.DmtBlock", "Tie.DmLaw", "Tie.DedispBlock", "Tie.BlockCalls"],
    "C10": ["Tie.Moments", "Tie.ChannelStats"],
    "C11": ["Tie.Plan", "Tie.StreamCalls", "Tie.Fold", "Kernels.Fold"],
    "C12": ["Tie.FftLengths"],
    "C13": ["Tie.TemplatePrep", "Tie.StatsLane", "Tie.MfCompute", "Tie.OnPulse"],
    "C14": ["Kernels.Downsample1d", "Kernels.Downsample2d", "Tie.FilterGeom", "Tie.Detrend", "Tie.DecimWrap"],
    "C15": ["Tie.StatsLane"],
    "C16": ["Kernels.MaskChannels", "Tie.StateMachines", "Tie.StatsLane", "Tie.CleanRfi"],
    "C17": ["Tie.StateMachines"],
    "C18": ["Tie.Plan", "Tie.Pfits", "Tie.PfitsCalib"],
    "C19": ["Tie.Prange", "C19Steps"],
    "C20": ["Tie.WriterOps", "Tie.Bits", "Tie.SigprocTables", "Tie.SigprocCodec", "Tie.WriterArith"],
}


class InfraError(Exception):
    """Harness/toolchain failure: exit 2, never a violation."""


def prng(pid: str, seed: int, salt: str = "") -> random.Random:
    h = hashlib.sha256(f"{pid}:{seed}:{salt}".encode()).digest()
    return random.Random(int.from_bytes(h[:8], "big"))


# --------------------------------------------------------------------------
# Lean pipeline
# --------------------------------------------------------------------------

class LakeLock:
    def __enter__(self):
        WORK.mkdir(exist_ok=True)
        self.f = open(WORK / "lake.lock", "w")
        fcntl.flock(self.f, fcntl.LOCK_EX)
        return self

    def __exit__(self, *a):
        fcntl.flock(self.f, fcntl.LOCK_UN)
        self.f.close()


def run(cmd, cwd=None, timeout=None, input=None, env=None):
    try:
        return subprocess.run(cmd, cwd=cwd, timeout=timeout, input=input, env=env,
                              capture_output=True, text=True)
    except subprocess.TimeoutExpired as e:
        raise InfraError(f"timeout: {' '.join(map(str, cmd))}") from e
    except FileNotFoundError as e:
        raise InfraError(f"tool missing: {cmd[0]}") from e


def strip_comments(text: str) -> str:
    """Remove Lean block comments (nesting) and line comments."""
    out, i, depth = [], 0, 0
    n = len(text)
    while i < n:
        if text.startswith("/-", i):
            depth += 1
            i += 2
        elif depth and text.startswith("-/", i):
            depth -= 1
            i += 2
        elif depth:
            if text[i] == "\n":
                out.append("\n")
            i += 1
        elif text.startswith("--", i):
            while i < n and text[i] != "\n":
                i += 1
        else:
            out.append(text[i])
            i += 1
    return "".join(out)


def theorems_in(path: Path) -> list[tuple[str, int, bool]]:
    """[(fully qualified name, line, is_private)] of theorems in a Lean file."""
    text = strip_comments(path.read_text())
    ns: list[str] = []
    res = []
    for ln, line in enumerate(text.splitlines(), 1):
        m = re.match(r"\s*namespace\s+(\S+)", line)
        if m:
            ns.append(m.group(1))
            continue
        m = re.match(r"\s*end\s+(\S+)", line)
        if m and ns and ns[-1] == m.group(1):
            ns.pop()
            continue
        m = re.match(r"\s*(private\s+)?(?:protected\s+)?theorem\s+(\S+)", line)
        if m:
            res.append((".".join(ns + [m.group(2)]), ln, bool(m.group(1))))
    return res


def grep_forbidden() -> list[str]:
    hits = []
    for p in sorted((LEAN / "SppModel").rglob("*.lean")) + [LEAN / "Driver.lean"]:
        text = strip_comments(p.read_text())
        for ln, line in enumerate(text.splitlines(), 1):
            if FORBIDDEN.search(line):
                hits.append(f"{p.relative_to(LEAN)}:{ln}: {line.strip()[:100]}")
    return hits


def lean_pipeline(pid: str, thorough: bool = False) -> dict:
    """translator -> lake build Props.<pid> -> axiom audit -> forbidden-token grep.

    Returns a dict with ok flag, obligations/discharged counts, failures list.
    """
    import gen  # translator

    t0 = time.time()
    res: dict = {"ok": False, "failures": [], "translator": {}, "obligations": 0, "discharged": 0}
    with LakeLock():
        res["translator"] = gen.generate()
        props = LEAN / "SppModel" / "Props" / f"{pid}.lean"
        if not props.exists():
            raise InfraError(f"{props} missing")
        ths = theorems_in(props)
        extra = EXTRA_MODULES.get(pid, [])
        bridges: list[str] = list(_bridge_mods(props))
        import bridge as _bridge
        for m in extra:
            f = LEAN / "SppModel" / "Props" / (m.replace(".", "/") + ".lean")
            ths = ths + theorems_in(f)
            for b in _bridge.bridges_for(f.read_text()):
                if b not in bridges:
                    bridges.append(b)
        # bridge obligations (generated on this run): translation of the current source = frozen reference
        for b in bridges:
            ths = ths + theorems_in(LEAN / "SppModel" / (b.replace(".", "/", 2) + ".lean"))
        extra_targets = [f"SppModel.Props.{m}" for m in extra] + [f"SppModel.{b}" for b in bridges]
        # generated obligations the property depends on (none failing = 0 extra)
        res["obligations"] = len(ths)
        target = f"SppModel.Props.{pid}"
        if thorough:
            # rebuild the property module and everything generated from scratch
            for sub in ("Props", "Generated"):
                for ext in ("olean", "ilean", "trace", "hash", "c", "setup.json"):
                    for f in (LEAN / ".lake/build").rglob(f"{sub}/**/*.{ext}"):
                        f.unlink(missing_ok=True)
        r = run(["lake", "build", target, "SppModel"] + extra_targets, cwd=LEAN, timeout=3000)
        res["build_rc"] = r.returncode
        log = r.stdout + r.stderr
        res["build_log_tail"] = log[-4000:]
        if r.returncode != 0:
            broken = set()
            for m in re.finditer(r"error: (SppModel/[\w/]+\.lean):(\d+):\d+: (.*)", log):
                f, ln, msg = m.group(1), int(m.group(2)), m.group(3)
                name = nearest_decl(LEAN / f, ln)
                broken.add(f"{f}:{ln} [{name}] {msg[:160]}")
            if not broken:
                broken.add("lake build failed: " + log[-300:].replace("\n", " | "))
            res["failures"] = sorted(broken)
            res["wall_s"] = time.time() - t0
            return res
        # axiom audit on every non-private theorem of the property file
        WORK.mkdir(exist_ok=True)
        audit = WORK / f"Audit_{pid}.lean"
        names = [n for n, _, priv in ths if not priv]
        audit.write_text(f"import SppModel.Props.{pid}\n" + "".join(f"import {t}\n" for t in extra_targets)
                         + "".join(f"#print axioms {n}\n" for n in names))
        r = run(["lake", "env", "lean", str(audit)], cwd=LEAN, timeout=1200)
        out = r.stdout + r.stderr
        if r.returncode != 0:
            res["failures"].append("axiom audit failed to elaborate: " + out[-300:].replace("\n", " | "))
        seen = {}
        for m in re.finditer(r"^'([^\n]+)' depends on axioms: \[([^\]]*)\]", out, re.M):
            seen[m.group(1)] = {a.strip() for a in m.group(2).replace("\n", " ").split(",") if a.strip()}
        for m in re.finditer(r"^'([^\n]+)' does not depend on any axioms", out, re.M):
            seen[m.group(1)] = set()
        axioms_used: set[str] = set()
        for n in names:
            if n not in seen:
                res["failures"].append(f"no axiom report for {n}")
                continue
            bad = seen[n] - ALLOWED_AXIOMS
            axioms_used |= seen[n]
            if bad:
                res["failures"].append(f"{n} depends on disallowed axioms {sorted(bad)}")
        res["axioms_used"] = sorted(axioms_used)
        hits = grep_forbidden()
        if hits:
            res["failures"].append("forbidden tokens: " + "; ".join(hits[:5]))
        if thorough and not res["failures"]:
            r = run(["lake", "env", "leanchecker", target] + extra_targets, cwd=LEAN, timeout=3000)
            res["leanchecker_rc"] = r.returncode
            if r.returncode != 0:
                res["failures"].append("leanchecker rejected: " + (r.stdout + r.stderr)[-300:].replace("\n", " | "))
    if not res["failures"]:
        res["ok"] = True
        res["discharged"] = res["obligations"]
    res["theorems"] = [n for n, _, _ in ths]
    res["wall_s"] = time.time() - t0
    return res


def _bridge_mods(path: Path) -> list[str]:
    import bridge as _bridge
    return _bridge.bridges_for(path.read_text())


def nearest_decl(path: Path, line: int) -> str:
    try:
        lines = path.read_text().splitlines()
    except OSError:
        return "?"
    for i in range(min(line, len(lines)) - 1, -1, -1):
        m = re.match(r"\s*(?:private\s+)?(?:theorem|def|example|instance|structure)\s*(\S*)", lines[i])
        if m:
            return m.group(1) or "example"
    return "?"


def run_model(lines: list[str], timeout: int = 1800) -> list[str]:
    """Feed request lines to the Lean driver; return one answer per line."""
    if not lines:
        return []
    for ln in lines:
        if "\n" in ln:
            raise InfraError("newline inside a request line")
    r = run(["lake", "env", "lean", "--run", "Driver.lean"], cwd=LEAN, timeout=timeout,
            input="\n".join(lines) + "\n")
    out = r.stdout.splitlines()
    if r.returncode != 0 or len(out) != len(lines):
        raise InfraError(f"driver failed rc={r.returncode}, {len(out)} answers for {len(lines)} requests: "
                         f"{(r.stderr or r.stdout)[-400:]}")
    return out


# --------------------------------------------------------------------------
# Temp dirs and SIGPROC file helpers
# --------------------------------------------------------------------------

_tmpdirs: list[str] = []


def tmpdir() -> Path:
    d = tempfile.mkdtemp(prefix="sppverif_")
    _tmpdirs.append(d)
    return Path(d)


def cleanup():
    for d in _tmpdirs:
        shutil.rmtree(d, ignore_errors=True)
    _tmpdirs.clear()


def hexb(b: bytes) -> str:
    return b.hex()


def case_hash(obj) -> str:
    return hashlib.sha256(json.dumps(obj, sort_keys=True, default=str).encode()).hexdigest()[:12]


def quiet_progress():
    """Silence rich progress bars of the library (they print to stdout)."""
    try:
        import logging
        logging.disable(logging.CRITICAL)
        import sigpyproc.readers as r
        r.track = lambda seq, **kw: seq
    except Exception:  # noqa: BLE001
        pass

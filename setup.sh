#!/bin/sh
# Build the Lean project (offline) and warm the numba cache for /repo's kernels.
set -e
HERE="$(cd "$(dirname "$0")" && pwd)"
cd "$HERE"
python3 translator/gen.py
cd lean
TARGETS="SppModel"
for f in SppModel/Props/*.lean SppModel/Props/Tie/*.lean SppModel/Props/Kernels/*.lean SppModel/Bridge/*/*.lean; do
  m=$(echo "${f%.lean}" | tr '/' '.')
  TARGETS="$TARGETS $m"
done
lake build $TARGETS
cd ..
PYTHONPATH="${VERIF_REPO:-/repo}" NUMBA_DISABLE_PERFORMANCE_WARNINGS=1 /venv/bin/python -c "import sigpyproc.readers, sigpyproc.core.kernels" || true

#!/bin/sh
# Build the Lean project (offline) and warm the numba cache for /repo's kernels.
set -e
HERE="$(cd "$(dirname "$0")" && pwd)"
cd "$HERE"
python3 translator/gen.py
(cd lean && lake build)
PYTHONPATH="${VERIF_REPO:-/repo}" /venv/bin/python -c "import sigpyproc.readers, sigpyproc.core.kernels" || true

"""`FileReader` position arithmetic (`io/fileio.py`) -> a Lean state machine  (C02 / C01 tie).

Translated, statement by statement: `FileBase._open`, `FileReader._seek2hdr`, `_seek_set`, `seek`,
`cur_data_pos_file`, `cur_data_pos_stream`.  The reader state is `(ifile_cur, file_obj.tell())`; the stream
description (`sinfo.entries[i].hdrlen / .datalen`, `cumsum_datalens`, `get_combined("datalen")`, `len(self.files)`)
is the environment.  Every method returns `Except String (result × state)`; a `raise X(msg)` is `.error "X"`.

Supported (anything else is `Untranslatable`):

  statements   guards `if c: msg = …; raise X(msg)`, `if/elif/else` (each branch a block), `x = e`,
               `self.ifile_cur = e`, `self.file_obj = <anything>` (a freshly opened file: position 0),
               `self.file_obj.seek(e)`, `self.file_obj.seek(e, os.SEEK_CUR)`, calls `self._m(args)` of translated
               methods, `return e`; ignored: `file_obj = self.opener(...)`, `self._close_current()`,
               `if self.ifile_cur is None: raise` (a file is always open while a reader is in use)
  expressions  integers with `+ - *`, comparisons, `or`/`and`/`not`, `len(self.files)`, `self.file_obj.tell()`,
               `self.sinfo.entries[i].hdrlen`, `self.sinfo.cumsum_datalens[i]`, `self.sinfo.get_combined("datalen")`,
               `np.where(o < self.sinfo.cumsum_datalens)[0][0]`, properties of the class read as `self.name`
"""
from __future__ import annotations

import ast

from pyexpr import Untranslatable

METHODS = ("_open", "_seek2hdr", "_seek_set", "cur_data_pos_file", "cur_data_pos_stream", "seek", "eos",
           "creadinto", "cread")
PARAMS = {"_open": ["ifile"], "_seek2hdr": ["ifile"], "_seek_set": ["offset"], "seek": ["offset", "whence"],
          "cur_data_pos_file": [], "cur_data_pos_stream": [], "eos": [], "creadinto": ["want"], "cread": ["nunits"]}
# the read loops return (segments read, a counter, state): which local is the counter
LOOP_RESULT = {"creadinto": "nbytes", "cread": "count"}

PRELUDE = '''structure SeekEnv where
  hdrlen : List Nat
  datalen : List Nat

/-- `(ifile_cur, file_obj.tell())` -/
structure SeekSt where
  ifile : Int
  pos : Int
deriving Repr, DecidableEq

/-- `sinfo.cumsum_datalens` -/
def SeekEnv.cumsum (env : SeekEnv) : List Int :=
  (List.range env.datalen.length).map (fun i => (((env.datalen.take (i + 1)).sum : Nat) : Int))
/-- `sinfo.get_combined("datalen")` -/
def SeekEnv.total (env : SeekEnv) : Int := ((env.datalen.sum : Nat) : Int)
/-- `len(self.files)` -/
def SeekEnv.nfiles (env : SeekEnv) : Int := ((env.hdrlen.length : Nat) : Int)
def SeekEnv.hdr (env : SeekEnv) (i : Int) : Int := ((env.hdrlen.getD i.toNat 0 : Nat) : Int)
/-- `os.fstat(file_obj.fileno()).st_size`: a member file is its header followed by its data section -/
def SeekEnv.size (env : SeekEnv) (i : Int) : Int := env.hdr i + ((env.datalen.getD i.toNat 0 : Nat) : Int)
def SeekEnv.dlen (env : SeekEnv) (i : Int) : Int := ((env.datalen.getD i.toNat 0 : Nat) : Int)
/-- bytes a read of at most `n` bytes at the current position returns (never negative) -/
def SeekEnv.avail (env : SeekEnv) (self : SeekSt) (n : Int) : Int := max 0 (min n (env.size self.ifile - self.pos))

/-- a piece of one member file handed to the caller: `(file, first byte, byte count)` -/
abbrev Seg := Int × Int × Int

/-- `while …:` with `break`: the body answers `(continue?, state)`; `fuel` bounds the iterations -/
def whileFuel {σ : Type} : Nat → σ → (σ → Except String (Bool × σ)) → Except String σ
  | 0, _, _ => .error "fuel"
  | fuel + 1, s, body =>
    match body s with
    | .error e => .error e
    | .ok (false, s') => .ok s'
    | .ok (true, s') => whileFuel fuel s' body

/-- `np.where(o < xs)[0][0]`: the first index whose entry exceeds `o` (`IndexError` if there is none) -/
def firstGt (o : Int) (xs : List Int) : Except String Int :=
  match xs.findIdx? (fun x => decide (o < x)) with
  | some i => .ok ((i : Nat) : Int)
  | none => .error "IndexError"
'''


class M:
    def __init__(self, fn: ast.FunctionDef, props: set[str], done: dict[str, str]):
        self.fn = fn
        self.props = props            # property names of the class
        self.done = done              # translated methods -> returns a value?
        self.locals: set[str] = set(PARAMS[fn.name])
        self.bools: set[str] = set()
        self.lists: set[str] = set()
        self.loop_pack: str | None = None      # inside a loop body: the packed loop state
        self.is_loop_method = fn.name in LOOP_RESULT
        if fn.name == "cread":
            self.locals |= {"bitfact", "itemsize"}

    # ------------------------------------------------------------ expressions
    def e(self, n: ast.AST) -> str:
        s = ast.unparse(n)
        if isinstance(n, ast.Constant) and isinstance(n.value, int) and not isinstance(n.value, bool):
            return f"({n.value} : Int)"
        if isinstance(n, ast.Name) and n.id in self.locals:
            return n.id
        if s in ("os.SEEK_SET", "os.SEEK_CUR", "os.SEEK_END", "io.SEEK_SET", "io.SEEK_CUR", "io.SEEK_END"):
            return f"({('SET', 'CUR', 'END').index(s[-3:])} : Int)"
        if s == "self.ifile_cur":
            return "self.ifile"
        if s == "self.file_obj.tell()":
            return "self.pos"
        if s == "len(self.files)":
            return "env.nfiles"
        if s in ("len(read_buffer_view)", "len(memoryview(read_buffer))", "len(read_buffer)"):
            return "want"
        if s == "os.fstat(self.file_obj.fileno()).st_size":
            return "(env.size self.ifile)"
        if s == "self.bitsinfo.bitfact":
            return "bitfact"
        if isinstance(n, ast.Call) and s.startswith("len(") and len(n.args) == 1 and isinstance(n.args[0], ast.Name) \
                and n.args[0].id + "_len" in self.locals:
            return n.args[0].id + "_len"
        if isinstance(n, ast.Attribute) and n.attr == "datalen" and isinstance(n.value, ast.Subscript) \
                and ast.unparse(n.value.value) == "self.sinfo.entries":
            return f"(env.dlen {self.e(n.value.slice)})"
        if isinstance(n, ast.Call) and ast.unparse(n.func) in ("min", "max") and len(n.args) == 2:
            return f"({ast.unparse(n.func)} {self.e(n.args[0])} {self.e(n.args[1])})"
        if isinstance(n, ast.BinOp) and isinstance(n.op, ast.FloorDiv):
            return f"({self.e(n.left)} / {self.e(n.right)})"
        if s in ("self.sinfo.get_combined('datalen')", 'self.sinfo.get_combined("datalen")'):
            return "env.total"
        if isinstance(n, ast.Attribute) and n.attr == "hdrlen" and isinstance(n.value, ast.Subscript) \
                and ast.unparse(n.value.value) == "self.sinfo.entries":
            return f"(env.hdr {self.e(n.value.slice)})"
        if isinstance(n, ast.Subscript) and ast.unparse(n.value) == "self.sinfo.cumsum_datalens":
            return f"(env.cumsum.getD ({self.e(n.slice)}).toNat 0)"
        if isinstance(n, ast.BinOp) and type(n.op) in (ast.Add, ast.Sub, ast.Mult):
            op = {ast.Add: "+", ast.Sub: "-", ast.Mult: "*"}[type(n.op)]
            return f"({self.e(n.left)} {op} {self.e(n.right)})"
        if isinstance(n, ast.UnaryOp) and isinstance(n.op, ast.USub):
            return f"(-{self.e(n.operand)})"
        if isinstance(n, ast.IfExp):
            return f"(if {self.c(n.test)} then {self.e(n.body)} else {self.e(n.orelse)})"
        raise Untranslatable(f"expression `{s}`")

    def c(self, n: ast.AST) -> str:
        if isinstance(n, ast.Name) and n.id in self.bools:
            return f"{n.id} = true"
        if isinstance(n, ast.Constant) and n.value is True:
            return "True"
        if isinstance(n, ast.BoolOp):
            op = " ∨ " if isinstance(n.op, ast.Or) else " ∧ "
            return "(" + op.join(self.c(v) for v in n.values) + ")"
        if isinstance(n, ast.UnaryOp) and isinstance(n.op, ast.Not):
            return f"¬ {self.c(n.operand)}"
        if isinstance(n, ast.Compare) and len(n.ops) == 1:
            ops = {ast.Lt: "<", ast.LtE: "≤", ast.Gt: ">", ast.GtE: "≥", ast.Eq: "=", ast.NotEq: "≠"}
            if type(n.ops[0]) in ops:
                return f"{self.e(n.left)} {ops[type(n.ops[0])]} {self.e(n.comparators[0])}"
        raise Untranslatable(f"condition `{ast.unparse(n)}`")

    # ------------------------------------------------------------- statements
    @staticmethod
    def raises(body) -> str | None:
        if body and isinstance(body[-1], ast.Raise) and all(isinstance(s, (ast.Assign, ast.Raise)) for s in body):
            r = body[-1].exc
            return ast.unparse(r.func) if isinstance(r, ast.Call) else ast.unparse(r)
        return None

    def bind(self, value_expr: str, name: str, rest: str, ind: str) -> str:
        return (f"{ind}match {value_expr} with\n{ind}| .error err => .error err\n"
                f"{ind}| .ok ({name}, self) =>\n{rest}")

    def block(self, stmts: list[ast.stmt], ind: str, tail: str) -> str:
        """`tail`: the Lean term when control falls off the end (uses `self`)"""
        if not stmts:
            return ind + tail
        st, rest = stmts[0], stmts[1:]
        src = ast.unparse(st)
        if isinstance(st, ast.Expr) and isinstance(st.value, ast.Constant):
            return self.block(rest, ind, tail)
        # glue of the read loops: the list collecting what was read, the memoryview of the caller's buffer
        if isinstance(st, (ast.Assign, ast.AnnAssign)) and isinstance(st.value, ast.List) and not st.value.elts:
            tgt = st.targets[0] if isinstance(st, ast.Assign) else st.target
            if isinstance(tgt, ast.Name):
                self.lists.add(tgt.id)
                return self.block(rest, ind, tail)
        if src == "read_buffer_view = memoryview(read_buffer)" or (
                isinstance(st, ast.Expr) and isinstance(st.value, ast.Call) and isinstance(st.value.func, ast.Attribute)
                and st.value.func.attr == "append" and isinstance(st.value.func.value, ast.Name)
                and st.value.func.value.id in self.lists):
            return self.block(rest, ind, tail)
        if isinstance(st, ast.Break):
            if self.loop_pack is None:
                raise Untranslatable("break outside a loop")
            return f"{ind}.ok (false, {self.loop_pack})"
        if isinstance(st, ast.While):
            return self.loop(st, rest, ind, tail)
        if isinstance(st, ast.AugAssign) and isinstance(st.target, ast.Name) and st.target.id in self.locals \
                and isinstance(st.op, (ast.Add, ast.Sub)):
            op = "+" if isinstance(st.op, ast.Add) else "-"
            return (f"{ind}let {st.target.id} : Int := {st.target.id} {op} {self.e(st.value)}\n"
                    + self.block(rest, ind, tail))
        if isinstance(st, ast.Assign) and len(st.targets) == 1 and isinstance(st.targets[0], ast.Name) \
                and isinstance(st.value, ast.Call):
            name, call = st.targets[0].id, st.value
            f = ast.unparse(call.func)
            if f == "self.file_obj.readinto" and len(call.args) == 1 and isinstance(call.args[0], ast.Subscript) \
                    and isinstance(call.args[0].slice, ast.Slice) and call.args[0].slice.upper is None \
                    and call.args[0].slice.step is None and call.args[0].slice.lower is not None:
                a = self.e(call.args[0].slice.lower)
                self.locals.add(name)
                return (f"{ind}let {name} : Int := env.avail self (want - {a})\n"
                        f"{ind}let segs : List Seg := segs ++ [(self.ifile, self.pos, {name})]\n"
                        f"{ind}let self := {{ self with pos := self.pos + {name} }}\n" + self.block(rest, ind, tail))
            if f == "np.fromfile" and call.args and ast.unparse(call.args[0]) == "self.file_obj":
                kw = {k.arg: k.value for k in call.keywords}
                if "count" not in kw or ast.unparse(kw.get("dtype", ast.Constant(0))) != "self.bitsinfo.dtype":
                    raise Untranslatable(f"`{src}`")
                cnt = self.e(kw["count"])
                self.locals.add(name + "_len")
                return (f"{ind}let {name}_len : Int := max 0 (min {cnt} ((env.size self.ifile - self.pos) / itemsize))\n"
                        f"{ind}let segs : List Seg := segs ++ [(self.ifile, self.pos, {name}_len * itemsize)]\n"
                        f"{ind}let self := {{ self with pos := self.pos + {name}_len * itemsize }}\n"
                        + self.block(rest, ind, tail))
        if isinstance(st, ast.If) and " is None" in ast.unparse(st.test) and self.raises(st.body) and not st.orelse:
            return self.block(rest, ind, tail)          # `if x is None: raise`: no counterpart
        if isinstance(st, ast.If) and len(st.body) == 1 and isinstance(st.body[0], ast.Break) and not st.orelse:
            return (f"{ind}if {self.c(st.test)} then .ok (false, {self.loop_pack}) else\n"
                    + self.block(rest, ind, tail))
        if isinstance(st, ast.Assign) and len(st.targets) == 1 and isinstance(st.targets[0], ast.Name) \
                and isinstance(st.value, (ast.Compare, ast.BoolOp)):
            name = st.targets[0].id
            self.bools.add(name)
            return f"{ind}let {name} : Bool := decide ({self.c(st.value)})\n" + self.block(rest, ind, tail)
        if isinstance(st, ast.Return) and isinstance(st.value, ast.BinOp) and isinstance(st.value.op, ast.BitAnd) \
                and all(isinstance(x, ast.Name) and x.id in self.bools for x in (st.value.left, st.value.right)):
            self.ret_bool = True
            return f"{ind}.ok (({st.value.left.id} && {st.value.right.id}), self)"
        if isinstance(st, ast.Return):
            val = "()" if st.value is None else self.value(st.value)
            if isinstance(val, tuple):      # a call of a translated method / property: already monadic
                return self.bind(val[0], "r", f"{ind}  .ok (r, self)", ind)
            return f"{ind}.ok ({val}, self)"
        if isinstance(st, ast.If):
            test = ast.unparse(st.test)
            exc = self.raises(st.body)
            if exc and not st.orelse:
                if test == "self.ifile_cur is None":
                    return self.block(rest, ind, tail)
                return f"{ind}if {self.c(st.test)} then .error \"{exc}\" else\n" + self.block(rest, ind, tail)
            if not st.orelse and st.body and isinstance(st.body[-1], ast.Return):
                a = self.block(list(st.body), ind + "  ", ".ok ((), self)")
                b = self.block(rest, ind + "  ", tail)
                return f"{ind}if {self.c(st.test)} then\n{a}\n{ind}else\n{b}"
            # general if / elif / else: each branch yields the locals it assigns and a state (or raises); the rest follows
            assigned: list[str] = []
            for node in ast.walk(st):
                t2 = None
                if isinstance(node, ast.Assign) and len(node.targets) == 1:
                    t2 = node.targets[0]
                elif isinstance(node, ast.AugAssign):
                    t2 = node.target
                if isinstance(t2, ast.Name) and t2.id not in ("msg", "file_obj") and t2.id not in assigned:
                    assigned.append(t2.id)
            used_later = {x.id for r2 in rest for x in ast.walk(r2) if isinstance(x, ast.Name)}
            assigned = [v for v in assigned if v in used_later]      # only what the rest reads is carried out
            known = set(self.locals)
            vals = "(" + ", ".join(assigned) + ")" if len(assigned) > 1 else assigned[0] if assigned else "()"
            ty = " × ".join(["Int"] * len(assigned)) if assigned else "Unit"

            def branch(node: ast.If, ind2: str) -> str:
                def blk(body):
                    saved = set(self.locals)
                    txt = self.block(list(body), ind2 + "  ", f".ok ({vals}, self)")
                    missing = [v for v in assigned if v not in self.locals]
                    self.locals = saved
                    if missing:
                        raise Untranslatable(f"`{missing[0]}` is not assigned on every path of the `if`")
                    return txt
                a = blk(node.body)
                if len(node.orelse) == 1 and isinstance(node.orelse[0], ast.If):
                    b = branch(node.orelse[0], ind2 + "  ")
                else:
                    exc2 = self.raises(node.orelse)
                    b = f"{ind2}  .error \"{exc2}\"" if exc2 else blk(node.orelse)
                return f"{ind2}if {self.c(node.test)} then\n{a}\n{ind2}else\n{b}"
            inner = branch(st, ind + "  ")
            self.locals = known | set(assigned)
            pat = vals if assigned else "_"
            return self.bind(f"(\n{inner} : Except String (({ty}) × SeekSt))", pat, self.block(rest, ind, tail), ind)
        if isinstance(st, ast.Assign) and len(st.targets) == 1:
            t = ast.unparse(st.targets[0])
            if t == "self.ifile_cur":
                return f"{ind}let self := {{ self with ifile := {self.e(st.value)} }}\n" + self.block(rest, ind, tail)
            if t == "self.file_obj":
                return f"{ind}let self := {{ self with pos := 0 }}\n" + self.block(rest, ind, tail)
            if t == "file_obj" and "self.opener(" in src:
                return self.block(rest, ind, tail)
            if isinstance(st.targets[0], ast.Name):
                name = st.targets[0].id
                v = self.value(st.value)
                if isinstance(v, tuple):
                    (self.bools if v[1] == "Bool" else self.locals).add(name)
                    return self.bind(v[0], name, self.block(rest, ind, tail), ind)
                self.locals.add(name)
                return f"{ind}let {name} : Int := {v}\n" + self.block(rest, ind, tail)
        if isinstance(st, ast.Expr) and isinstance(st.value, ast.Call):
            call = st.value
            f = ast.unparse(call.func)
            if f == "self._close_current":
                return self.block(rest, ind, tail)
            if f == "self.file_obj.seek":
                if len(call.args) == 1 and not call.keywords:
                    return f"{ind}let self := {{ self with pos := {self.e(call.args[0])} }}\n" + self.block(rest, ind, tail)
                if len(call.args) == 2 and ast.unparse(call.args[1]) in ("os.SEEK_CUR", "1"):
                    return (f"{ind}let self := {{ self with pos := self.pos + {self.e(call.args[0])} }}\n"
                            + self.block(rest, ind, tail))
                raise Untranslatable(f"`{src}`")
            if f.startswith("self.") and f[5:] in self.done:
                args = " ".join(self.e(a) for a in call.args)
                return self.bind(f"({f[5:]} env self {args})", "_", self.block(rest, ind, tail), ind)
        raise Untranslatable(f"statement `{src[:70]}`")

    def loop(self, st: ast.While, rest, ind, tail) -> str:
        if not self.is_loop_method or self.loop_pack is not None:
            raise Untranslatable("loop")
        carried = []
        for node in ast.walk(st):
            t = None
            if isinstance(node, ast.AugAssign):
                t = node.target
            elif isinstance(node, ast.Assign) and len(node.targets) == 1:
                t = node.targets[0]
            if isinstance(t, ast.Name) and t.id in self.locals and t.id not in carried \
                    and t.id not in PARAMS[self.fn.name] and t.id not in ("bitfact", "itemsize"):
                carried.append(t.id)
        pack = "(self, segs" + "".join(", " + v for v in carried) + ")"
        ty = "SeekSt × List Seg" + " × Int" * len(carried)
        before = set(self.locals)
        self.loop_pack = pack
        cond = ast.unparse(st.test)
        head = "" if cond == "True" else f"{ind}    if ¬ ({self.c(st.test)}) then .ok (false, {pack}) else\n"
        body = self.block(list(st.body), ind + "    ", f".ok (true, {pack})")
        self.loop_pack = None
        self.locals = before           # locals first bound inside the body do not survive it
        # what follows the loop must be glue (concatenation / unpacking of what was read) and the final return
        for s2 in rest:
            txt = ast.unparse(s2)
            concat = (isinstance(s2, ast.Assign) and isinstance(s2.value, ast.Call)
                      and ast.unparse(s2.value.func) == "np.concatenate" and len(s2.value.args) == 1
                      and isinstance(s2.value.args[0], ast.Name) and s2.value.args[0].id in self.lists)
            plain_return = isinstance(s2, ast.Return) and isinstance(s2.value, ast.Name)
            if not (concat or "bitsinfo.unpack" in txt or plain_return):
                raise Untranslatable(f"after the read loop: `{txt[:60]}`")
        res = LOOP_RESULT[self.fn.name]
        if res not in carried:
            raise Untranslatable(f"`{res}` is not updated in the loop")
        return (f"{ind}match whileFuel fuel {pack} (fun (st : {ty}) =>\n{ind}    let {pack} := st\n{head}{body}) with\n"
                f"{ind}| .error err => .error err\n{ind}| .ok {pack} =>\n{ind}  .ok ((segs, {res}), self)")

    def value(self, n: ast.AST):
        """Lean Int term, or a 1-tuple (monadic term,) for calls / properties / np.where"""
        s = ast.unparse(n)
        if isinstance(n, ast.Attribute) and s.startswith("self.") and n.attr in self.props and n.attr in self.done:
            return (f"({n.attr} env self)", self.done[n.attr])
        if isinstance(n, ast.Call) and isinstance(n.func, ast.Attribute) and ast.unparse(n.func.value) == "self" \
                and n.func.attr in self.done and self.done[n.func.attr] in ("Int", "Bool"):
            args = " ".join(self.e(a) for a in n.args)
            return (f"({n.func.attr} env self {args})", self.done[n.func.attr])
        if isinstance(n, ast.Subscript) and isinstance(n.value, ast.Subscript) and isinstance(n.value.value, ast.Call) \
                and ast.unparse(n.value.value.func) == "np.where" and ast.unparse(n.slice) == "0" \
                and ast.unparse(n.value.slice) == "0":
            cmp_ = n.value.value.args[0]
            if isinstance(cmp_, ast.Compare) and isinstance(cmp_.ops[0], ast.Lt) \
                    and ast.unparse(cmp_.comparators[0]) == "self.sinfo.cumsum_datalens":
                return (f"((firstGt {self.e(cmp_.left)} env.cumsum).map (fun i => (i, self)))", "Int")
            raise Untranslatable(f"`{s}`")
        # a property read inside arithmetic: bind it first
        for sub in ast.walk(n):
            if isinstance(sub, ast.Attribute) and ast.unparse(sub).startswith("self.") and sub.attr in self.props \
                    and sub.attr in self.done and sub is not n:
                raise Untranslatable(f"property `{sub.attr}` inside an expression")
        return self.e(n)

    def translate(self) -> str:
        body = list(self.fn.body)
        self.ret_bool = False
        if self.is_loop_method:
            text = "  let segs : List Seg := []\n" + self.block(body, "  ", ".ok ((segs, 0), self)")
            extra = " (bitfact : Int) (itemsize : Int)" if self.fn.name == "cread" else ""
            params = "".join(f" ({p} : Int)" for p in PARAMS[self.fn.name]) + extra + " (fuel : Nat)"
            self.returns = True
            self.kind = "Loop"
            return (f"def {self.fn.name} (env : SeekEnv) (self : SeekSt){params} : "
                    f"Except String ((List Seg × Int) × SeekSt) :=\n{text}\n")
        text = self.block(body, "  ", ".ok ((), self)")
        returns = any(isinstance(x, ast.Return) and x.value is not None for x in ast.walk(self.fn))
        rty = "Bool" if self.ret_bool else "Int" if returns else "Unit"
        params = "".join(f" ({p} : Int)" for p in PARAMS[self.fn.name])
        self.returns = returns
        self.kind = rty
        return (f"def {self.fn.name} (env : SeekEnv) (self : SeekSt){params} : Except String ({rty} × SeekSt) :=\n"
                f"{text}\n")


def _bind_props(fn: ast.FunctionDef, props: set[str], calls: set[str] = frozenset({"eos"})) -> ast.FunctionDef:
    """`self.prop + x` -> `t = self.prop; t + x` so that property reads are separate (monadic) statements"""
    import copy
    fn = copy.deepcopy(fn)
    counter = [0]

    def fix(stmts):
        out = []
        for st in stmts:
            pre = []
            if isinstance(st, (ast.Return, ast.Assign, ast.Expr)) and not isinstance(getattr(st, "value", None), ast.Attribute):
                class T(ast.NodeTransformer):
                    def visit_Attribute(self, node):
                        if ast.unparse(node).startswith("self.") and node.attr in props:
                            counter[0] += 1
                            nm = f"{node.attr}_v{counter[0]}"
                            pre.append(ast.Assign(targets=[ast.Name(id=nm, ctx=ast.Store())], value=node))
                            return ast.Name(id=nm, ctx=ast.Load())
                        return self.generic_visit(node)
                if getattr(st, "value", None) is not None:
                    st.value = T().visit(st.value)
            if isinstance(st, ast.If):
                class C(ast.NodeTransformer):
                    def visit_Call(self, node):
                        if isinstance(node.func, ast.Attribute) and ast.unparse(node.func.value) == "self" \
                                and node.func.attr in calls and not node.args:
                            counter[0] += 1
                            nm = f"{node.func.attr}_v{counter[0]}"
                            pre.append(ast.Assign(targets=[ast.Name(id=nm, ctx=ast.Store())], value=node))
                            return ast.Name(id=nm, ctx=ast.Load())
                        return self.generic_visit(node)
                st.test = C().visit(st.test)
            for fld in ("body", "orelse"):
                sub = getattr(st, fld, None)
                if isinstance(sub, list) and sub and isinstance(sub[0], ast.stmt):
                    setattr(st, fld, fix(sub))
            out += pre + [st]
        return out
    fn.body = fix(fn.body)
    return ast.fix_missing_locations(fn)


def translate(tree: ast.Module):
    """yield (name, lean text | Untranslatable); the prelude first as ('prelude', text)"""
    yield "prelude", PRELUDE
    classes = {n.name: n for n in tree.body if isinstance(n, ast.ClassDef)}
    fns: dict[str, ast.FunctionDef] = {}
    props: set[str] = set()
    for cname in ("FileBase", "FileReader"):
        for m in classes[cname].body if cname in classes else []:
            if isinstance(m, ast.FunctionDef):
                fns[m.name] = m
                if any(ast.unparse(d) == "property" for d in m.decorator_list):
                    props.add(m.name)
    done: dict[str, str] = {}
    for name in METHODS:
        try:
            import normalize
            src_fn = normalize.inline_aliases(fns[name], ("self.bitsinfo", "self.sinfo", "self.file_obj", "self.sinfo.entries"))
            src_fn = normalize.inline_temps(src_fn, keep={"count", "nbytes", "eof", "eol", "fileid"})
            m = M(_bind_props(src_fn, props), props, done)
            # a property returning `None` when no file is open: the `is None` guard is skipped, as for methods
            m.fn.body = [s for s in m.fn.body if not (isinstance(s, ast.If) and ast.unparse(s.test) == "self.ifile_cur is None")]
            text = m.translate()
            done[name] = m.kind
            yield name, text
        except (Untranslatable, KeyError) as e:
            yield name, e if isinstance(e, Untranslatable) else Untranslatable(f"method {name} not found")

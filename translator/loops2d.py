"""2-D numba kernels (block rotation / DM-time transform) -> Lean definitions over functional arrays.

Extends `loops.Kernel` with what `roll_block`, `roll_block_valid`, `dmt_block` and `dmt_block_valid` use:

  parameters   2-D arrays (`Nat → Nat → α` plus explicit `<a>_rows`, `<a>_cols`), 1-D integer arrays
               (`Nat → Int` plus `<a>_len`) — the roles of the array parameters are fixed per kernel
               in `SIGNATURES` (an unknown parameter is untranslatable)
  types        `Int` besides `Nat`/`Rat` (shifts may be negative); a `Nat` meeting an `Int` is cast
  guards       `if c: msg = …; raise ValueError(msg)` becomes `if c then none else …`: the translated
               kernel returns `Option`; rank checks (`x.ndim != 2`) have no counterpart and are skipped
  statements   `a, b = x.shape` (and `_`), `np.empty_like(x)`, `np.empty((r, c), …)`, `np.zeros((r, c), …)`,
               `if … else …`, `res[i] = src[j]`, `res[i, a:b] = src[j, c:d]` (open ends filled from the
               shapes), `res[i] += src[j, c:d]`, `res[i] = np.sum(<kernel>(x, t[i]), axis=0)`
  expressions  `x % n` on an integer (Python modulo, non-negative for n > 0), `max(0, np.max(a))`,
               `min(0, np.min(a))`, `a[i]`, `a[i, j]`, `x.shape[k]`, `len(a)`

An `Int` used as a slice bound or an array size is taken `.toNat`: under the kernels' own guards
(`valid_cols > 0`, window inside the row) those values are non-negative; the spec theorems prove
what is read under exactly those guards.
"""
from __future__ import annotations

import ast

from loops import NAT, RAT, Kernel
from pyexpr import Untranslatable

INT = "Int"

# kernel -> parameter -> (rank, element type)
SIGNATURES = {
    "roll_block": {"arr": (2, RAT), "shifts": (1, INT)},
    "roll_block_valid": {"arr": (2, RAT), "shifts": (1, INT)},
    "dmt_block": {"arr": (2, RAT), "dm_delays": (2, INT)},
    "dmt_block_valid": {"arr": (2, RAT), "dm_delays": (2, INT)},
}


def arr_ty(rank: int, elem: str) -> str:
    return f"Nat → {elem}" if rank == 1 else f"Nat → Nat → {elem}"


class Kernel2D(Kernel):
    def __init__(self, fn: ast.FunctionDef, exec_twin: bool = False, known: dict[str, "Kernel2D"] | None = None):
        super().__init__(fn, exec_twin)
        self.rank: dict[str, int] = {}
        self.shape: dict[str, tuple[str, str]] = {}    # 2-D array -> (rows, cols) as Lean Nat terms
        self.length: dict[str, str] = {}               # 1-D array -> length term
        self.known = known or {}

    # ------------------------------------------------------------------ params
    def declare_params(self):
        sig = SIGNATURES.get(self.name)
        if sig is None:
            raise Untranslatable(f"no signature recorded for `{self.name}`")
        for a in self.fn.args.args:
            if a.arg not in sig:
                raise Untranslatable(f"unexpected parameter `{a.arg}`")
            rank, el = sig[a.arg]
            self.arrays[a.arg] = el
            self.rank[a.arg] = rank
            self.params.append((a.arg, arr_ty(rank, el)))
            if rank == 2:
                self.shape[a.arg] = (f"{a.arg}_rows", f"{a.arg}_cols")
                self.params += [(f"{a.arg}_rows", NAT), (f"{a.arg}_cols", NAT)]
                self.types[f"{a.arg}_rows"] = self.types[f"{a.arg}_cols"] = NAT
            else:
                self.length[a.arg] = f"{a.arg}_len"
                self.params.append((f"{a.arg}_len", NAT))
                self.types[f"{a.arg}_len"] = NAT
        if set(sig) != {a.arg for a in self.fn.args.args}:
            raise Untranslatable("parameter list changed")

    def ty(self, name: str) -> str:
        if name in self.arrays:
            return arr_ty(self.rank[name], self.arrays[name])
        return self.types[name]

    # ------------------------------------------------------------------- types
    def infer_types(self):
        for _ in range(8):
            changed = False
            for node in ast.walk(self.fn):
                if isinstance(node, ast.For) and isinstance(node.target, ast.Name):
                    if self.types.get(node.target.id) != NAT:
                        self.types[node.target.id] = NAT
                        changed = True
                    continue
                if not (isinstance(node, ast.Assign) and len(node.targets) == 1):
                    continue
                t, v = node.targets[0], node.value
                if isinstance(t, ast.Tuple) and self._is_shape(v):
                    for el in t.elts:
                        if isinstance(el, ast.Name) and el.id != "_" and self.types.get(el.id) != NAT:
                            self.types[el.id] = NAT
                            changed = True
                    continue
                if not isinstance(t, ast.Name):
                    continue
                if self._alloc2(v) is not None:
                    continue
                try:
                    ty = self.type_of(v)
                except Untranslatable:
                    continue
                if self.types.get(t.id) != ty:
                    if t.id in self.types and self.types[t.id] != ty:
                        raise Untranslatable(f"`{t.id}` changes type")
                    self.types[t.id] = ty
                    changed = True
            if not changed:
                return

    def _is_shape(self, v: ast.AST) -> bool:
        return isinstance(v, ast.Attribute) and v.attr == "shape" and isinstance(v.value, ast.Name) \
            and self.rank.get(v.value.id) == 2

    def _alloc2(self, v: ast.AST):
        """('like', name) | ('sized', rows_node, cols_node) | None"""
        if isinstance(v, ast.Call):
            f = ast.unparse(v.func)
            if f in ("np.empty_like", "np.zeros_like") and v.args and isinstance(v.args[0], ast.Name) \
                    and self.rank.get(v.args[0].id) == 2:
                return ("like", v.args[0].id)
            if f in ("np.empty", "np.zeros") and v.args and isinstance(v.args[0], ast.Tuple) and len(v.args[0].elts) == 2:
                return ("sized", v.args[0].elts[0], v.args[0].elts[1])
        return None

    def type_of(self, n: ast.AST) -> str:
        if isinstance(n, ast.Constant) and isinstance(n.value, int) and not isinstance(n.value, bool):
            return NAT
        if isinstance(n, ast.Name):
            if n.id in self.types:
                return self.types[n.id]
            raise Untranslatable(f"untyped name `{n.id}`")
        if isinstance(n, ast.BinOp):
            a, b = self.type_of(n.left), self.type_of(n.right)
            if isinstance(n.op, ast.Mod) and b == NAT:
                return NAT                      # Python modulo by a natural: non-negative
            if isinstance(n.op, (ast.Add, ast.Sub, ast.Mult)):
                if RAT in (a, b):
                    return RAT
                return INT if INT in (a, b) else NAT
        if isinstance(n, ast.Subscript) and isinstance(n.value, ast.Name) and n.value.id in self.arrays:
            a = n.value.id
            if self.rank[a] == 1 and not isinstance(n.slice, (ast.Slice, ast.Tuple)):
                return self.arrays[a]
            if self.rank[a] == 2 and isinstance(n.slice, ast.Tuple) and len(n.slice.elts) == 2 \
                    and not any(isinstance(e, ast.Slice) for e in n.slice.elts):
                return self.arrays[a]
        if isinstance(n, ast.Subscript) and self._is_shape(n.value) and isinstance(n.slice, ast.Constant):
            return NAT
        if isinstance(n, ast.Call):
            f = ast.unparse(n.func)
            if f == "len":
                return NAT
            if f in ("max", "min") and len(n.args) == 2:
                ts = {self.type_of(x) for x in n.args}
                return INT if INT in ts else NAT
            if f in ("np.max", "np.min") and len(n.args) == 1 and isinstance(n.args[0], ast.Name):
                return self.arrays[n.args[0].id]
        raise Untranslatable(f"cannot type `{ast.unparse(n)}`")

    # ------------------------------------------------------------ expressions
    def expr(self, n: ast.AST, want: str) -> str:
        text, t = self._expr(n)
        if t == want:
            return text
        if t == NAT and want == INT:
            return f"(({text} : Nat) : Int)"
        if t == NAT and want == RAT:
            return f"(({text} : Nat) : Rat)"
        if t == INT and want == NAT:
            return f"({text}).toNat"            # slice bounds / sizes: non-negative under the kernel's guards
        raise Untranslatable(f"`{ast.unparse(n)}` has type {t}, {want} expected")

    def _expr(self, n: ast.AST) -> tuple[str, str]:
        if isinstance(n, ast.Constant) and isinstance(n.value, int) and not isinstance(n.value, bool) and n.value >= 0:
            return str(n.value), NAT
        if isinstance(n, ast.Name) and n.id in self.types:
            return n.id, self.types[n.id]
        if isinstance(n, ast.BinOp):
            t = self.type_of(n)
            if isinstance(n.op, ast.Mod):
                lt = self.type_of(n.left)
                if lt == NAT:
                    return f"({self.expr(n.left, NAT)} % {self.expr(n.right, NAT)})", NAT
                return f"({self.expr(n.left, INT)} % {self.expr(n.right, INT)}).toNat", NAT
            ops = {ast.Add: "+", ast.Sub: "-", ast.Mult: "*"}
            if type(n.op) in ops:
                return f"({self.expr(n.left, t)} {ops[type(n.op)]} {self.expr(n.right, t)})", t
        if isinstance(n, ast.Subscript) and isinstance(n.value, ast.Name) and n.value.id in self.arrays:
            a = n.value.id
            if self.rank[a] == 1 and not isinstance(n.slice, (ast.Slice, ast.Tuple)):
                return f"({a} {self.expr(n.slice, NAT)})", self.arrays[a]
            if self.rank[a] == 2 and isinstance(n.slice, ast.Tuple) and len(n.slice.elts) == 2 \
                    and not any(isinstance(e, ast.Slice) for e in n.slice.elts):
                i, j = n.slice.elts
                return f"({a} {self.expr(i, NAT)} {self.expr(j, NAT)})", self.arrays[a]
        if isinstance(n, ast.Subscript) and self._is_shape(n.value) and isinstance(n.slice, ast.Constant) \
                and n.slice.value in (0, 1):
            return self.shape[n.value.value.id][n.slice.value], NAT
        if isinstance(n, ast.Call):
            f = ast.unparse(n.func)
            if f == "len" and len(n.args) == 1 and isinstance(n.args[0], ast.Name) and n.args[0].id in self.length:
                return self.length[n.args[0].id], NAT
            if f in ("max", "min") and len(n.args) == 2:
                t = self.type_of(n)
                return f"({f} {self.expr(n.args[0], t)} {self.expr(n.args[1], t)})", t
            if f in ("np.max", "np.min") and len(n.args) == 1 and isinstance(n.args[0], ast.Name):
                a = n.args[0].id
                prim = "Loop.maxArr" if f == "np.max" else "Loop.minArr"
                if self.rank[a] == 1:
                    return f"({prim} {a} {self.length[a]})", self.arrays[a]
                r, c = self.shape[a]
                return f"({prim}2 {a} {r} {c})", self.arrays[a]
        raise Untranslatable(f"expression `{ast.unparse(n)}`")

    def cond(self, n: ast.AST) -> str:
        if isinstance(n, ast.BoolOp) and isinstance(n.op, ast.Or):
            return " ∨ ".join(f"({self.cond(v)})" for v in n.values)
        if isinstance(n, ast.Compare) and len(n.ops) == 1:
            ops = {ast.GtE: "≥", ast.Gt: ">", ast.LtE: "≤", ast.Lt: "<", ast.Eq: "=", ast.NotEq: "≠"}
            if type(n.ops[0]) in ops:
                a, b = self.type_of(n.left), self.type_of(n.comparators[0])
                t = RAT if RAT in (a, b) else INT if INT in (a, b) else NAT
                return f"{self.expr(n.left, t)} {ops[type(n.ops[0])]} {self.expr(n.comparators[0], t)}"
        raise Untranslatable(f"condition `{ast.unparse(n)}`")

    # -------------------------------------------------------------- statements
    def assigned(self, stmts) -> list[str]:
        out: list[str] = []
        for st in stmts:
            for node in ast.walk(st):
                if isinstance(node, (ast.Assign, ast.AugAssign)):
                    t = node.targets[0] if isinstance(node, ast.Assign) else node.target
                    while isinstance(t, ast.Subscript):
                        t = t.value
                    if isinstance(t, ast.Name):
                        if t.id not in out:
                            out.append(t.id)
                    elif isinstance(t, ast.Tuple):
                        for el in t.elts:
                            if isinstance(el, ast.Name) and el.id != "_" and el.id not in out:
                                out.append(el.id)
                    else:
                        raise Untranslatable(f"assignment target `{ast.unparse(t)}`")
        return out

    @staticmethod
    def _raises(body: list[ast.stmt]) -> bool:
        return bool(body) and isinstance(body[-1], ast.Raise) and all(
            isinstance(s, (ast.Assign, ast.Raise)) for s in body)

    def _row_slice(self, a: str, sub: ast.AST):
        """`a[i, lo:hi]` or `a[i, :]` -> (row index, lo | None, hi | None); `a[i]` -> (i, None, None, whole=True)"""
        if isinstance(sub, ast.Tuple) and len(sub.elts) == 2 and isinstance(sub.elts[1], ast.Slice):
            sl = sub.elts[1]
            if sl.step is not None:
                raise Untranslatable("stepped slice")
            return self.expr(sub.elts[0], NAT), sl.lower, sl.upper
        if not isinstance(sub, (ast.Tuple, ast.Slice)):
            return self.expr(sub, NAT), None, None
        raise Untranslatable(f"row access `{ast.unparse(sub)}`")

    def _src_row(self, v: ast.AST) -> tuple[str, str]:
        """source of a row store: (row function term, start offset term)"""
        if isinstance(v, ast.Subscript) and isinstance(v.value, ast.Name) and self.rank.get(v.value.id) == 2:
            a = v.value.id
            i, lo, _hi = self._row_slice(a, v.slice)      # the upper end is implied by the target's width
            return f"({a} {i})", (self.expr(lo, NAT) if lo is not None else "0")
        if isinstance(v, ast.Call) and ast.unparse(v.func) == "np.sum" and len(v.args) == 1 \
                and [ast.unparse(k.value) for k in v.keywords if k.arg == "axis"] == ["0"] \
                and isinstance(v.args[0], ast.Call) and isinstance(v.args[0].func, ast.Name) \
                and v.args[0].func.id in self.known:
            call = v.args[0]
            callee = self.known[call.func.id]
            args = []
            rows = None
            for (pname, _), arg in zip([(p, t) for p, t in callee.params if p in callee.arrays], call.args):
                if isinstance(arg, ast.Name) and self.rank.get(arg.id) == 2 and callee.rank[pname] == 2:
                    args += [arg.id, *self.shape[arg.id]]
                    rows = rows or self.shape[arg.id][0]
                elif isinstance(arg, ast.Subscript) and isinstance(arg.value, ast.Name) \
                        and self.rank.get(arg.value.id) == 2 and callee.rank[pname] == 1 \
                        and not isinstance(arg.slice, (ast.Slice, ast.Tuple)):
                    args += [f"({arg.value.id} {self.expr(arg.slice, NAT)})", self.shape[arg.value.id][1]]
                else:
                    raise Untranslatable(f"call argument `{ast.unparse(arg)}`")
            fn = callee.name + ("_exec memo" if self.exec_twin else "")
            # the callee returns Option; its guards are re-checked by the caller's own guards (see spec)
            return f"(Loop.colSum (({fn} {' '.join(args)}).getD (fun _ _ => 0)) {rows})", "0"
        raise Untranslatable(f"row source `{ast.unparse(v)}`")

    def block(self, stmts, defined, result, ind):
        if not stmts:
            return ind + result
        st, rest = stmts[0], stmts[1:]
        # guards
        if isinstance(st, ast.If) and not st.orelse and self._raises(st.body):
            if ".ndim" in ast.unparse(st.test):
                return self.block(rest, defined, result, ind)          # rank check: no counterpart
            if not self.top_level:
                raise Untranslatable("raise inside a loop")
            return ind + f"if {self.cond(st.test)} then none else\n" + self.block(rest, defined, result, ind)
        # shape unpacking
        if isinstance(st, ast.Assign) and len(st.targets) == 1 and isinstance(st.targets[0], ast.Tuple) \
                and self._is_shape(st.value):
            names = st.targets[0].elts
            if len(names) != 2:
                raise Untranslatable("shape unpacking")
            lines = ""
            for el, dim in zip(names, self.shape[st.value.value.id]):
                if isinstance(el, ast.Name) and el.id != "_":
                    lines += ind + f"let {el.id} : Nat := {dim}\n"
                    defined = defined | {el.id}
            return lines + self.block(rest, defined, result, ind)
        if isinstance(st, ast.Assign) and len(st.targets) == 1 and isinstance(st.targets[0], ast.Name):
            t, v = st.targets[0].id, st.value
            al = self._alloc2(v)
            if al is not None:
                if al[0] == "like":
                    self.shape[t] = self.shape[al[1]]
                else:
                    self.shape[t] = (self.expr(al[1], NAT), self.expr(al[2], NAT))
                self.arrays[t] = RAT
                self.rank[t] = 2
                line = f"let {t} : {arr_ty(2, RAT)} := fun _ _ => 0"
                return ind + line + "\n" + self.block(rest, defined | {t}, result, ind)
            line = f"let {t} : {self.types[t]} := {self.expr(v, self.types[t])}"
            return ind + line + "\n" + self.block(rest, defined | {t}, result, ind)
        # row stores
        if isinstance(st, (ast.Assign, ast.AugAssign)):
            tgt = st.targets[0] if isinstance(st, ast.Assign) else st.target
            if isinstance(tgt, ast.Subscript) and isinstance(tgt.value, ast.Name) and self.rank.get(tgt.value.id) == 2:
                a = tgt.value.id
                i, lo, hi = self._row_slice(a, tgt.slice)
                lo_t = self.expr(lo, NAT) if lo is not None else "0"
                hi_t = self.expr(hi, NAT) if hi is not None else self.shape[a][1]
                src, slo = self._src_row(st.value)
                prim = "Loop.sliceInto" if isinstance(st, ast.Assign) else "Loop.addSliceInto"
                if isinstance(st, ast.AugAssign) and not isinstance(st.op, ast.Add):
                    raise Untranslatable("augmented row store")
                line = f"let {a} : {self.ty(a)} := Loop.setRow {a} {i} ({prim} ({a} {i}) {lo_t} {hi_t} {src} {slo})"
                return ind + line + "\n" + self.block(rest, defined, result, ind)
        if isinstance(st, ast.For):
            was = self.top_level
            self.top_level = False
            try:
                return super().block(stmts, defined, result, ind)
            finally:
                self.top_level = was
        if isinstance(st, ast.If) and st.orelse:
            mut = [x for x in self.assigned(st.body + st.orelse) if x in defined]
            if not mut:
                raise Untranslatable("if/else mutates nothing visible")
            pk = self.pack(mut)
            was = self.top_level
            self.top_level = False
            try:
                a = self.block(list(st.body), set(defined), pk, ind + "    ")
                b = self.block(list(st.orelse), set(defined), pk, ind + "    ")
            finally:
                self.top_level = was
            tys = " × ".join(f"({self.ty(x)})" for x in mut) if len(mut) > 1 else self.ty(mut[0])
            return (ind + f"let {pk} : {tys} := if {self.cond(st.test)} then\n" + a + "\n" + ind + "  else\n" + b + "\n"
                    + self.block(rest, defined, result, ind))
        if isinstance(st, ast.Return):
            if rest:
                raise Untranslatable("statements after return")
            return ind + result
        if isinstance(st, ast.Expr) and isinstance(st.value, ast.Constant):
            return self.block(rest, defined, result, ind)
        raise Untranslatable(f"statement `{ast.unparse(st)[:70]}`")

    # ------------------------------------------------------------------ whole
    def translate(self) -> str:
        self.top_level = True
        self.declare_params()
        self.infer_types()
        body = [s for s in self.fn.body if not (isinstance(s, ast.Expr) and isinstance(s.value, ast.Constant))]
        if not (body and isinstance(body[-1], ast.Return) and isinstance(body[-1].value, ast.Name)):
            raise Untranslatable("return shape")
        res = body[-1].value.id
        defined = {p for p, _ in self.params}
        text = self.block(body, defined, f"some {res}", "  ")
        if self.rank.get(res) != 2:
            raise Untranslatable("result is not a 2-D array")
        params = " ".join(f"({p} : {t})" for p, t in self.params)
        name = self.name + ("_exec (memo : Nat)" if self.exec_twin else "")
        self.result_shape = self.shape[res]
        return f"def {name} {params} : Option ({arr_ty(2, RAT)}) :=\n{text}\n"


def translate_kernels(fns: dict[str, ast.FunctionDef], names: tuple[str, ...]):
    """yield (name, lean text | Untranslatable) in order; later kernels may call earlier ones"""
    known: dict[str, Kernel2D] = {}
    known_x: dict[str, Kernel2D] = {}
    for name in names:
        try:
            k = Kernel2D(fns[name], known=known)
            text = k.translate()
            kx = Kernel2D(fns[name], exec_twin=True, known=known_x)
            text += "\n" + kx.translate()
            known[name], known_x[name] = k, kx
            yield name, text
        except (Untranslatable, KeyError) as e:
            yield name, e

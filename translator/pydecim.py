"""Translator for the decimation wrappers of `core/stats.py` (`downsample_1d`, `downsample_2d`,
`downsample_2d_flat`) -> `Generated/DecimWrap.lean` over `Model/DecimPrims.lean`.

Each wrapper is brought to the normal form  guards (`if c: raise ValueError`) ; dispatch on `method` ; one returned
NumPy expression per branch  (single-use temporaries substituted, so naming an intermediate value changes nothing),
and the returned expressions are translated operator by operator: front slices, C-order reshapes, `np.median /
np.mean / getattr(np, method)` with EXACTLY the keyword `axis`, `.ravel()`, calls of compiled kernels.  Anything
else (another keyword such as `overwrite_input=` or `out=`, another slice, another axis) is untranslatable."""
from __future__ import annotations

import ast
import copy

import normalize


class Untranslatable(Exception):
    pass


EXTRA_PURE = frozenset({"np.median", "np.mean", "getattr", ".reshape", ".ravel", "isinstance", "all",
                        "kernels.downsample_1d_mean", "kernels.downsample_2d_mean_flat"})

# Lean parameter lists
SIG = {
    "downsample_1d": ("(isArr : Bool) (ndim : Nat) (factorIsInt : Bool) (factor : Int) (size : Nat)",
                      "(k_downsample_1d_mean : Vec → Nat → Vec) (mean median : Vec → Rat) (method : String) (array : Vec) (factor : Nat)", "Vec"),
    "downsample_2d": ("(isArr : Bool) (ndim : Nat) (factor1IsInt factor2IsInt : Bool) (factor1 factor2 : Int) (method : String)",
                      "(mean median : Vec → Rat) (method : String) (array : Vec) (dim1 dim2 factor1 factor2 : Nat)", "Mat"),
    "downsample_2d_flat": ("(isArr : Bool) (ndim : Nat) (factor1IsInt factor2IsInt : Bool) (factor1 factor2 : Int) (size dim1 dim2 : Nat)",
                           "(k_downsample_2d_mean_flat : Vec → Nat → Nat → Nat → Nat → Vec) (mean median : Vec → Rat) (method : String) (array : Vec) (factor1 factor2 dim1 dim2 : Nat)", "Vec"),
}


class G:
    """guard conditions -> Bool terms"""

    def __init__(self, fname):
        self.fname = fname

    def c(self, n: ast.AST) -> str:
        if isinstance(n, ast.BoolOp):
            op = " || " if isinstance(n.op, ast.Or) else " && "
            return "(" + op.join(self.c(v) for v in n.values) + ")"
        if isinstance(n, ast.UnaryOp) and isinstance(n.op, ast.Not):
            return f"(!{self.c(n.operand)})"
        if isinstance(n, ast.Call) and ast.unparse(n.func) == "isinstance":
            a, t = ast.unparse(n.args[0]), ast.unparse(n.args[1])
            if a == "array" and t == "np.ndarray":
                return "isArr"
            if a in ("factor", "factor1", "factor2") and t == "int":
                return f"{a}IsInt"
            raise Untranslatable(f"isinstance({a}, {t})")
        if isinstance(n, ast.Call) and ast.unparse(n.func) == "all" and len(n.args) == 1 and isinstance(n.args[0], ast.GeneratorExp):
            g = n.args[0]
            if len(g.generators) != 1 or g.generators[0].ifs or not isinstance(g.generators[0].iter, ast.Tuple):
                raise Untranslatable(ast.unparse(n))
            var = g.generators[0].target.id
            parts = []
            for elt in g.generators[0].iter.elts:
                body = normalize._Subst({var: elt}).visit(copy.deepcopy(g.elt))
                parts.append(self.c(body))
            return "(" + " && ".join(parts) + ")"
        if isinstance(n, ast.Compare) and len(n.ops) == 1:
            l, r, op = n.left, n.comparators[0], n.ops[0]
            if isinstance(op, (ast.NotIn, ast.In)) and ast.unparse(l) == "method" and isinstance(r, (ast.Set, ast.Tuple, ast.List)):
                vals = sorted(ast.literal_eval(e) for e in r.elts)
                t = "(" + " || ".join(f'method = "{v}"' for v in vals) + ")"
                return f"(!decide {t})" if isinstance(op, ast.NotIn) else f"(decide {t})"
            ops = {ast.LtE: "≤", ast.Lt: "<", ast.GtE: "≥", ast.Gt: ">", ast.Eq: "=", ast.NotEq: "≠"}
            if type(op) in ops:
                return f"(decide ({self.i(l)} {ops[type(op)]} {self.i(r)}))"
        raise Untranslatable(f"guard `{ast.unparse(n)}`")

    def i(self, n: ast.AST) -> str:
        s = ast.unparse(n)
        if isinstance(n, ast.Constant) and isinstance(n.value, int):
            return f"({n.value} : Int)"
        if s in ("factor", "factor1", "factor2"):
            return s
        if s == "array.ndim":
            return "(ndim : Int)"
        if s in ("array.size", "len(array)"):
            return "(size : Int)"
        if s in ("dim1", "dim2"):
            return f"({s} : Int)"
        if isinstance(n, ast.BinOp) and isinstance(n.op, ast.Mult):
            return f"({self.i(n.left)} * {self.i(n.right)})"
        raise Untranslatable(f"guard operand `{s}`")


class E:
    """returned NumPy expressions -> (kind, Lean term)"""

    def __init__(self, fname):
        self.fname = fname
        self.two_d = fname == "downsample_2d"

    def int(self, n: ast.AST) -> str:
        n = _Sorted().visit(copy.deepcopy(n))
        return self._int(n)

    def _int(self, n: ast.AST) -> str:
        if isinstance(n, ast.Constant) and isinstance(n.value, int) and n.value >= 0:
            return str(n.value)
        s = ast.unparse(n)
        if s in ("factor", "factor1", "factor2", "dim1", "dim2"):
            return s
        if s in ("array.size", "len(array)") and not self.two_d:
            return "array.length"
        if s == "array.shape[0]" and self.two_d:
            return "dim1"
        if s == "array.shape[1]" and self.two_d:
            return "dim2"
        if isinstance(n, ast.BinOp):
            ops = {ast.FloorDiv: "/", ast.Mult: "*", ast.Add: "+", ast.Sub: "-"}
            if type(n.op) in ops:
                return f"({self._int(n.left)} {ops[type(n.op)]} {self._int(n.right)})"
        raise Untranslatable(f"integer expression `{s}`")

    def shape4(self, n: ast.AST) -> str:
        if isinstance(n, ast.Tuple) and len(n.elts) == 4:
            return "(" + ", ".join(self.int(e) for e in n.elts) + ")"
        raise Untranslatable(f"shape `{ast.unparse(n)}`")

    def red(self, f: ast.AST) -> str:
        s = ast.unparse(f)
        if s == "np.median":
            return "median"
        if s == "np.mean":
            return "mean"
        if s == "getattr(np, method)":
            return "(npOp mean median method)"
        raise Untranslatable(f"reduction `{s}`")

    def ex(self, n: ast.AST):
        if isinstance(n, ast.Name) and n.id == "array":
            return ("mat", "(reshape2 array dim1 dim2)") if self.two_d else ("vec", "array")
        if isinstance(n, ast.Subscript):
            k, x = self.ex(n.value)
            sl = n.slice
            if k == "vec" and isinstance(sl, ast.Slice) and sl.lower is None and sl.step is None and sl.upper is not None:
                return "vec", f"(sliceTo {x} {self.int(sl.upper)})"
            if (k == "mat" and isinstance(sl, ast.Tuple) and len(sl.elts) == 2
                    and all(isinstance(e, ast.Slice) and e.lower is None and e.step is None and e.upper is not None for e in sl.elts)):
                return "mat", f"(slice2 {x} {self.int(sl.elts[0].upper)} {self.int(sl.elts[1].upper)})"
            raise Untranslatable(f"subscript `{ast.unparse(n)}`")
        if isinstance(n, ast.Call):
            f = n.func
            fs = ast.unparse(f)
            if isinstance(f, ast.Attribute) and f.attr == "reshape" and not n.keywords:
                k, x = self.ex(f.value)
                args = n.args
                if len(args) == 1 and isinstance(args[0], ast.Tuple):
                    args = args[0].elts
                if k == "vec" and len(args) == 2 and ast.unparse(args[0]) == "-1":
                    return "mat", f"(reshapeRows {x} {self.int(args[1])})"
                if k == "vec" and len(args) == 2:
                    return "mat", f"(reshape2 {x} {self.int(args[0])} {self.int(args[1])})"
                if k == "mat" and len(args) == 4:
                    return "t4", f"(reshape4 {x} ({', '.join(self.int(a) for a in args)}))"
                raise Untranslatable(f"reshape `{ast.unparse(n)}`")
            if isinstance(f, ast.Attribute) and f.attr == "ravel" and not n.args and not n.keywords:
                k, x = self.ex(f.value)
                if k != "mat":
                    raise Untranslatable("ravel of a non-matrix")
                return "vec", f"(ravel {x})"
            if fs.startswith("kernels."):
                if n.keywords:
                    raise Untranslatable(f"keywords in `{ast.unparse(n)}`")
                name = fs.split(".", 1)[1]
                args = []
                for a in n.args:
                    if isinstance(a, ast.Name) and a.id == "array" and not self.two_d:
                        args.append("array")
                    else:
                        args.append(self.int(a))
                return "vec", f"(k_{name} {' '.join(args)})"
            if fs in ("np.median", "np.mean", "getattr(np, method)"):
                if len(n.args) != 1 or [k.arg for k in n.keywords] != ["axis"]:
                    raise Untranslatable(f"`{ast.unparse(n)}`: exactly one operand and the keyword `axis` expected")
                k, x = self.ex(n.args[0])
                ax = ast.unparse(n.keywords[0].value).replace(" ", "")
                if k == "mat" and ax == "1":
                    return "vec", f"(reduceAxis1 {self.red(f)} {x})"
                if k == "t4" and ax == "(1,3)":
                    return "mat", f"(reduceAxes13 {self.red(f)} {x})"
                raise Untranslatable(f"`{ast.unparse(n)}`: axis {ax} of a {k}")
        raise Untranslatable(f"expression `{ast.unparse(n)}`")


def _is_raise_value_error(body: list[ast.stmt]) -> bool:
    if (len(body) == 2 and isinstance(body[0], ast.Assign) and len(body[0].targets) == 1
            and isinstance(body[0].targets[0], ast.Name) and isinstance(body[0].value, (ast.Constant, ast.JoinedStr))):
        body = body[1:]          # `msg = "..."` in front of the raise
    return (len(body) == 1 and isinstance(body[0], ast.Raise) and isinstance(body[0].exc, ast.Call)
            and ast.unparse(body[0].exc.func) == "ValueError")


def inline_checkers(fn: ast.FunctionDef, module: ast.Module | None) -> ast.FunctionDef:
    """`_check_x(arg, "Name")` as a statement, where the private module-level helper consists only of
    `if cond: [msg = ...;] raise ValueError(...)` statements, is replaced by those statements with the parameters
    substituted (the arguments must be names or constants)"""
    if module is None:
        return fn
    helpers = {n.name: n for n in module.body if isinstance(n, ast.FunctionDef) and n.name.startswith("_")}
    fn = copy.deepcopy(fn)
    out = []
    for st in fn.body:
        if isinstance(st, ast.Expr) and isinstance(st.value, ast.Call) and isinstance(st.value.func, ast.Name) \
                and st.value.func.id in helpers and not st.value.keywords:
            h = helpers[st.value.func.id]
            hb = [b for b in h.body if not (isinstance(b, ast.Expr) and isinstance(b.value, ast.Constant))]
            params = [a.arg for a in h.args.args]
            if (len(params) == len(st.value.args) and all(isinstance(a, (ast.Name, ast.Constant)) for a in st.value.args)
                    and all(isinstance(b, ast.If) and not b.orelse and _is_raise_value_error(b.body) for b in hb)):
                env = dict(zip(params, st.value.args))
                out += [normalize._Subst(env).visit(copy.deepcopy(b)) for b in hb]
                continue
        out.append(st)
    fn.body = out
    return ast.fix_missing_locations(fn)


class _Sorted(ast.NodeTransformer):
    """integer products / sums with their operands in a fixed (textual) order"""

    def visit_BinOp(self, node: ast.BinOp):
        self.generic_visit(node)
        if isinstance(node.op, (ast.Mult, ast.Add)):
            a, b = node.left, node.right
            if ast.unparse(a) > ast.unparse(b):
                return ast.BinOp(left=b, op=node.op, right=a)
        return node


def translate(fn: ast.FunctionDef, module: ast.Module | None = None) -> str:
    fn = inline_checkers(fn, module)
    name = fn.name
    short = {"downsample_1d": "down1d", "downsample_2d": "down2d", "downsample_2d_flat": "down2dflat"}[name]
    # tuple unpacking of the parameters / the shape: the names become Lean parameters
    body = []
    for s in fn.body:
        if isinstance(s, ast.Expr) and isinstance(s.value, ast.Constant):
            continue
        if isinstance(s, ast.Assign) and isinstance(s.targets[0], ast.Tuple):
            t, v = ast.unparse(s.targets[0]).replace(" ", ""), ast.unparse(s.value)
            if (t, v) in (("(factor1,factor2)", "factors"), ("factor1,factor2", "factors"),
                          ("(dim1,dim2)", "array.shape"), ("dim1,dim2", "array.shape")):
                continue
            raise Untranslatable(f"`{ast.unparse(s)}`")
        body.append(s)
    g, e = G(name), E(name)
    guards, branches, fallthrough = [], [], None
    env: dict[str, ast.AST] = {}

    def sub(node):
        return normalize._Subst(env).visit(copy.deepcopy(node))

    def collapse(stmts):
        """`t1 = e1; t2 = e2(t1); return e3(t1, t2)` -> the returned expression with the temporaries substituted
        (every operator translated afterwards is pure, so the substitution preserves the value)"""
        local = dict(env)
        for st in stmts[:-1]:
            if not (isinstance(st, ast.Assign) and len(st.targets) == 1 and isinstance(st.targets[0], ast.Name)):
                raise Untranslatable(f"statement `{ast.unparse(st)[:80]}`")
            local[st.targets[0].id] = normalize._Subst(local).visit(copy.deepcopy(st.value))
        if not isinstance(stmts[-1], ast.Return) or stmts[-1].value is None:
            raise Untranslatable("branch does not end in a return")
        return normalize._Subst(local).visit(copy.deepcopy(stmts[-1].value))

    for s in body:
        if isinstance(s, ast.If) and not s.orelse and _is_raise_value_error(s.body):
            if branches:
                raise Untranslatable("a guard after the dispatch")
            guards.append(g.c(sub(s.test)))
            continue
        if (isinstance(s, ast.If) and not s.orelse and isinstance(s.test, ast.Compare)
                and ast.unparse(s.test.left) == "method" and isinstance(s.test.ops[0], ast.Eq)):
            branches.append((ast.literal_eval(s.test.comparators[0]), e.ex(collapse(s.body))))
            continue
        if isinstance(s, ast.Assign) and isinstance(s.value, (ast.Constant, ast.JoinedStr)):
            continue             # the message of the final raise
        if isinstance(s, ast.Assign) and len(s.targets) == 1 and isinstance(s.targets[0], ast.Name):
            if s.targets[0].id in ("array", "method", "factor", "factor1", "factor2", "dim1", "dim2"):
                raise Untranslatable(f"parameter reassigned: `{ast.unparse(s)[:60]}`")
            env[s.targets[0].id] = sub(s.value)
            continue
        if isinstance(s, ast.Return):
            fallthrough = ("ret", e.ex(sub(s.value)))
            break
        if isinstance(s, ast.Raise) and ast.unparse(s.exc.func) == "ValueError":
            fallthrough = ("raise", None)
            break
        raise Untranslatable(f"statement `{ast.unparse(s)[:80]}`")
    if fallthrough is None:
        raise Untranslatable("no final return / raise")
    gsig, fsig, rty = SIG[name]
    out = [f"/-- the argument checks of `stats.{name}` in source order (each raises `ValueError`) -/",
           f"def {short}_rejects {gsig} : Bool :=\n  " + " || ".join(guards or ["false"]) + "\n"]
    want_kind = {"Vec": "vec", "Mat": "mat"}[rty]
    term = "none"
    if fallthrough[0] == "ret":
        k, x = fallthrough[1]
        if k != want_kind:
            raise Untranslatable(f"returns a {k}")
        term = f"some {x}"
    for m, (k, x) in reversed(branches):
        if k != want_kind:
            raise Untranslatable(f"branch {m} returns a {k}")
        term = f'if method = "{m}" then some {x}\n  else {term}'
    out.append(f"/-- `stats.{name}` after its argument checks: `none` = `ValueError` (unsupported method) -/")
    out.append(f"def {short} {fsig} : Option {rty} :=\n  {term}\n")
    return "\n".join(out)


STUBS = {
    "downsample_1d": "def down1d_rejects {g} : Bool := true\ndef down1d {f} : Option Vec := none\n",
    "downsample_2d": "def down2d_rejects {g} : Bool := true\ndef down2d {f} : Option Mat := none\n",
    "downsample_2d_flat": "def down2dflat_rejects {g} : Bool := true\ndef down2dflat {f} : Option Vec := none\n",
}


def stub(name: str) -> str:
    g, f, _ = SIG[name]
    return STUBS[name].format(g=g, f=f)

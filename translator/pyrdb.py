"""`FilReader.read_dedisp_block` (`readers.py`) -> Lean  (C09 tie).

The loop is translated statement by statement: per-channel windows, the range guard, the seek to the first
sample, and - for every sample offset - the channel mask, ONE `cread` of one sample (the reader position is part
of the state: a read that is skipped or doubled shifts every later sample), and the masked scatter into the block.
Vocabulary: integer vectors over channels (`start + delays`, `v + n`, `v > t`, `v <= t`, `np.logical_and`,
`v.min()`, `v.max()`, `np.any(v < 0)`), the scatter `data[m, t - v[m]] = s[m]`.  Anything else: Untranslatable.
"""
from __future__ import annotations

import ast

from pyexpr import Untranslatable


def _n(x: ast.AST) -> str:
    return ast.unparse(x).replace(" ", "")


KEEP = {"delays", "min_sample", "max_sample", "first_sample", "last_sample", "data", "relevant_chans", "sample_data",
        "start_mjd", "new_header"}


def translate(fn: ast.FunctionDef) -> str:
    import normalize
    # locals the reference translation does not know (aliases such as `nchans = self.header.nchans`, extra
    # temporaries) are substituted first; the bridge sees through renamed locals by itself
    fn = normalize.inline_temps(fn, keep=KEEP)
    kinds = {"start": "int", "nsamps": "int"}
    out: list[str] = []
    body = [s for s in fn.body if not (isinstance(s, ast.Expr) and isinstance(s.value, ast.Constant))]
    args = [a.arg for a in fn.args.args]
    if args != ["self", "start", "nsamps", "dm"]:
        raise Untranslatable(f"parameters {args}")

    def ex(n: ast.AST):
        s = _n(n)
        if isinstance(n, ast.Name) and n.id in kinds:
            return n.id, kinds[n.id]
        if isinstance(n, ast.Constant) and isinstance(n.value, int):
            return f"({n.value} : Int)", "int"
        if s == "self.header.nsamples":
            return "((N : Nat) : Int)", "int"
        if isinstance(n, ast.BinOp) and isinstance(n.op, (ast.Add, ast.Sub)):
            (a, ka), (b, kb) = ex(n.left), ex(n.right)
            add = isinstance(n.op, ast.Add)
            if ka == "int" and kb == "ivec":
                return (f"(Rdb.addSV {a} {b})" if add else f"(Rdb.subSV {a} {b})"), "ivec"
            if ka == "ivec" and kb == "int" and add:
                return f"(Rdb.addVS {a} {b})", "ivec"
            if ka == kb == "int":
                return f"({a} {'+' if add else '-'} {b})", "int"
        if isinstance(n, ast.Compare) and len(n.ops) == 1:
            (a, ka), (b, kb) = ex(n.left), ex(n.comparators[0])
            op = type(n.ops[0])
            if ka == "int" and kb == "ivec":          # `t < v` is `v > t`
                a, b, ka, kb = b, a, kb, ka
                op = {ast.Lt: ast.Gt, ast.Gt: ast.Lt, ast.LtE: ast.GtE, ast.GtE: ast.LtE}.get(op, op)
            if ka == "ivec" and kb == "int":
                if op is ast.Gt:
                    return f"(Rdb.gtS {a} {b})", "bvec"
                if op is ast.LtE:
                    return f"(Rdb.leS {a} {b})", "bvec"
        if isinstance(n, ast.Call):
            f = _n(n.func)
            if f == "np.logical_and" and len(n.args) == 2:
                (a, ka), (b, kb) = ex(n.args[0]), ex(n.args[1])
                if ka == kb == "bvec":
                    a, b = sorted((a, b))             # element-wise `and` commutes: one canonical operand order
                    return f"(Rdb.land {a} {b})", "bvec"
            if f == "int" and len(n.args) == 1 and isinstance(n.args[0], ast.Call) and not n.args[0].args \
                    and isinstance(n.args[0].func, ast.Attribute) and n.args[0].func.attr in ("min", "max"):
                v, kv = ex(n.args[0].func.value)
                if kv == "ivec":
                    return f"(Rdb.{n.args[0].func.attr}I {v})", "int"
        raise Untranslatable(f"expression `{ast.unparse(n)}`")

    def guard(test: ast.AST) -> str:
        parts = test.values if isinstance(test, ast.BoolOp) and isinstance(test.op, ast.Or) else [test]
        res = []
        for p in parts:
            if not (isinstance(p, ast.Call) and _n(p.func) == "np.any" and len(p.args) == 1
                    and isinstance(p.args[0], ast.Compare) and len(p.args[0].ops) == 1):
                raise Untranslatable(f"guard `{ast.unparse(p)}`")
            c = p.args[0]
            (a, ka), (b, kb) = ex(c.left), ex(c.comparators[0])
            if ka != "ivec" or kb != "int" or not isinstance(c.ops[0], (ast.Lt, ast.Gt)):
                raise Untranslatable(f"guard `{ast.unparse(p)}`")
            res.append(f"Rdb.any{'Lt' if isinstance(c.ops[0], ast.Lt) else 'Gt'} {a} {b} = true")
        return " ∨ ".join(res)

    seek_seen = zeros_seen = loop_seen = False
    i = 0
    while i < len(body):
        st = body[i]
        src = _n(st)
        i += 1
        if src == "delays=self.header.get_dmdelays(dm)":
            kinds["delays"] = "ivec"
            continue
        if isinstance(st, ast.Assign) and len(st.targets) == 1 and isinstance(st.targets[0], ast.Name):
            name = st.targets[0].id
            if src.startswith("data=np.zeros((self.header.nchans,nsamps),dtype="):
                zeros_seen = True
                kinds["data"] = "block"
                out.append("  let data : List (List Int) := Rdb.zeros nchans nsamps.toNat")
                continue
            if name in ("start_mjd", "new_header"):
                continue
            t, k = ex(st.value)
            kinds[name] = k
            ty = {"int": "Int", "ivec": "List Int", "bvec": "List Bool"}[k]
            out.append(f"  let {name} : {ty} := {t}")
            continue
        if isinstance(st, ast.If) and not st.orelse and isinstance(st.body[-1], ast.Raise):
            exc = st.body[-1].exc
            nm = ast.unparse(exc.func) if isinstance(exc, ast.Call) else ast.unparse(exc)
            out.append(f"  if {guard(st.test)} then .error \"{nm}\" else")
            continue
        if src == "self._file.seek(first_sample*self.samp_stride)":
            seek_seen = True
            out.append("  let pos : Int := first_sample")
            continue
        if isinstance(st, ast.For):
            it = st.iter
            if isinstance(it, ast.Call) and _n(it.func) == "track" and it.args:
                it = it.args[0]
            if not (isinstance(it, ast.Call) and _n(it.func) == "range" and len(it.args) == 2
                    and isinstance(st.target, ast.Name)) or not (seek_seen and zeros_seen) or st.orelse:
                raise Untranslatable(f"loop `{ast.unparse(st.iter)[:50]}`")
            (a, ka), (b, kb) = ex(it.args[0]), ex(it.args[1])
            v = st.target.id
            kinds[v] = "int"
            inner = []
            for s2 in st.body:
                s2n = _n(s2)
                if s2n == "sample_data=self._file.cread(self.header.nchans)":
                    inner.append("      let sample_data : List Int := x pos.toNat")
                    inner.append("      let pos : Int := pos + 1")
                    kinds["sample_data"] = "sample"
                    continue
                if isinstance(s2, ast.Assign) and isinstance(s2.targets[0], ast.Name):
                    t, k = ex(s2.value)
                    kinds[s2.targets[0].id] = k
                    inner.append(f"      let {s2.targets[0].id} : {'List Bool' if k == 'bvec' else 'List Int' if k == 'ivec' else 'Int'} := {t}")
                    continue
                # data[m, t - v[m]] = sample_data[m]
                if isinstance(s2, ast.Assign) and isinstance(s2.targets[0], ast.Subscript) and _n(s2.targets[0].value) == "data":
                    tgt = s2.targets[0]
                    if not (isinstance(tgt.slice, ast.Tuple) and len(tgt.slice.elts) == 2 and isinstance(tgt.slice.elts[0], ast.Name)):
                        raise Untranslatable(f"store `{ast.unparse(s2)}`")
                    m = tgt.slice.elts[0].id
                    if kinds.get(m) != "bvec" or kinds.get("sample_data") != "sample" or _n(s2.value) != f"sample_data[{m}]":
                        raise Untranslatable(f"store `{ast.unparse(s2)}`")
                    idx = tgt.slice.elts[1]
                    # replace v[m] by v: the index vector is only read where the mask holds
                    class R(ast.NodeTransformer):
                        def visit_Subscript(self, node):
                            if isinstance(node.slice, ast.Name) and node.slice.id == m:
                                return node.value
                            return self.generic_visit(node)
                    it2, ik = ex(R().visit(ast.parse(ast.unparse(idx), mode="eval").body))
                    if ik != "ivec":
                        raise Untranslatable(f"store index `{ast.unparse(idx)}`")
                    inner.append(f"      let data : List (List Int) := Rdb.scatter data {m} {it2} sample_data")
                    continue
                raise Untranslatable(f"in the loop: `{ast.unparse(s2)[:70]}`")
            if not any("Rdb.scatter" in ln for ln in inner) or not any("x pos.toNat" in ln for ln in inner):
                raise Untranslatable("the loop does not read a sample and scatter it")
            out.append(f"  let st := Rdb.forRangeI {a} {b} (data, pos) (fun {v} st =>\n      let data := st.1\n      let pos := st.2\n"
                       + "\n".join(inner) + "\n      (data, pos))")
            out.append("  let data : List (List Int) := st.1")
            loop_seen = True
            continue
        if isinstance(st, ast.Return):
            if not loop_seen or not _n(st.value).startswith("FilterbankBlock(data,new_header"):
                raise Untranslatable(f"`{ast.unparse(st)[:60]}`")
            out.append("  .ok data")
            continue
        raise Untranslatable(f"statement `{ast.unparse(st)[:70]}`")
    if not out or out[-1] != "  .ok data":
        raise Untranslatable("no return of the block")
    return ("def read_dedisp_block (x : Nat → List Int) (nchans N : Nat) (delays : List Int) (start nsamps : Int) : "
            "Except String (List (List Int)) :=\n" + "\n".join(out) + "\n")


STUB = ("def read_dedisp_block (_x : Nat → List Int) (_nchans _N : Nat) (_delays : List Int) (_start _nsamps : Int) : "
        "Except String (List (List Int)) := .error \"untranslated\"\n")

"""The robust scale / location estimators of `core/stats.py` (NumPy vector expressions) -> Lean  (C15 tie).

Each estimator is translated for ONE lane: the array is a `List Rat`, a reduction written
`np.f(x, axis=axis, keepdims=True)` (the keywords are REQUIRED: they are what makes the NumPy expression act
lane by lane) is the reduction of the lane to a scalar, a scalar broadcasts against the lane.  Irrational
constants (`np.sqrt(2 / np.pi)`, `np.sqrt(np.pi)`) become positive rational parameters of the generated function,
decimal literals exact rationals; `np.isclose(x, 0)` is `x = 0` (the absolute tolerance 1e-8 is idealised away, as
in the hand model).  Anything outside the vocabulary below is `Untranslatable`.

kinds: lane (List Rat) | scal (Rat) | bool (Bool) | mask (List Bool) | olane (List (Option Rat), NaN = none)
       | nat (Nat) | pct (List Rat of percentiles) | mat (List (List Rat))
"""
from __future__ import annotations

import ast
import re
from fractions import Fraction

from pyexpr import Untranslatable

LEAN_TY = {"lane": "List Rat", "scal": "Rat", "bool": "Bool", "mask": "List Bool", "olane": "List (Option Rat)",
           "nat": "Nat", "pct": "List Rat", "mat": "List (List Rat)", "natlane": "List Rat"}

# (function, result kind): the 1-D helpers and the axis-taking estimators
TARGETS = [("_scale_iqr", "scal"), ("_scale_mad", "scal"), ("_scale_doublemad", "lane"), ("_scale_qn_1d", "scal"),
           ("_scale_sn_1d", "scal"), ("_scale_gapper_1d", "scal")]


# NumPy functions that return a fresh value and have no side effect (used to decide which extra temporaries of a
# refactored source may be substituted before translation)
NP_PURE = frozenset({"np.arange", "np.abs", "np.median", "np.mean", "np.sort", "np.diff", "np.percentile", "np.isclose",
                     "np.where", "np.nanmedian", "np.nanmean", "np.sqrt", "np.dot", "np.partition", "np.triu_indices",
                     "np.squeeze", "np.any", "np.subtract"})


def rat(x) -> str:
    f = Fraction(x)          # a float literal is the double Python computes with: its exact binary value
    if f.denominator == 1:
        return f"({f.numerator} : Rat)"
    return f"(({f.numerator} : Rat) / {f.denominator})"


class Lane:
    def __init__(self, fn: ast.FunctionDef, takes_axis: bool):
        self.fn = fn
        self.takes_axis = takes_axis
        self.kinds: dict[str, str] = {"data": "lane"}
        self.params: list[str] = []          # irrational constants, in order of appearance
        self.lines: list[str] = []

    def param(self, name: str) -> str:
        if name not in self.params:
            self.params.append(name)
        return name

    def axis_kw(self, call: ast.Call, need_keepdims=True) -> None:
        """a reduction must be written `(…, axis=axis, keepdims=True)` to act per lane"""
        if not self.takes_axis:
            if call.keywords and not all(k.arg == "axis" and ast.unparse(k.value) == "-1" for k in call.keywords):
                raise Untranslatable(f"`{ast.unparse(call)}`: unexpected keywords in a 1-D helper")
            return
        kw = {k.arg: ast.unparse(k.value) for k in call.keywords}
        if kw.get("axis") != "axis" or (need_keepdims and kw.get("keepdims") != "True"):
            raise Untranslatable(f"`{ast.unparse(call)}` is not reduced with axis=axis, keepdims=True")
        if set(kw) - {"axis", "keepdims"}:
            raise Untranslatable(f"`{ast.unparse(call)}`: keywords {sorted(kw)}")

    def irrational(self, n: ast.AST) -> str | None:
        s = ast.unparse(n).replace(" ", "")
        if s == "np.sqrt(2/np.pi)":
            return "sqrt_2_over_pi"
        if s == "np.sqrt(np.pi)":
            return "sqrt_pi"
        return None

    # returns (term, kind)
    def ex(self, n: ast.AST):
        s = ast.unparse(n)
        irr = self.irrational(n)
        if irr:
            return self.param(irr), "scal"
        if isinstance(n, ast.Constant) and isinstance(n.value, (int, float)) and not isinstance(n.value, bool):
            if isinstance(n.value, int):
                return f"({n.value} : Nat)", "nat"
            return rat(n.value), "scal"
        if isinstance(n, ast.Name):
            if n.id in self.kinds:
                return n.id, self.kinds[n.id]
            raise Untranslatable(f"unknown name `{n.id}`")
        if isinstance(n, ast.Attribute) and s == "np.nan":
            return "NAN", "nan"
        if isinstance(n, ast.Call):
            f = ast.unparse(n.func)
            a = n.args
            if f == "len" and len(a) == 1:
                t, k = self.ex(a[0])
                if k == "lane":
                    return f"{t}.length", "nat"
            if f in ("np.median", "np.mean") and len(a) == 1:
                t, k = self.ex(a[0])
                if k == "lane":
                    self.axis_kw(n)
                    return f"(Np.{f[3:]} {t})", "scal"
                if k == "mat" and f == "np.median" and [ast.unparse(x.value) for x in n.keywords] == ["-1"] \
                        and n.keywords[0].arg == "axis":
                    return f"(Np.rowMedians {t})", "lane"
            if f in ("np.nanmedian", "np.nanmean") and len(a) == 1:
                t, k = self.ex(a[0])
                if k == "olane":
                    self.axis_kw(n)
                    return f"(Np.{f[3:]} {t})", "scal"
            if f == "np.abs" and len(a) == 1:
                t, k = self.ex(a[0])
                if k == "lane":
                    return f"(Np.absV {t})", "lane"
                if k == "scal":
                    return f"(Robust.absQ {t})", "scal"
                if k == "mat":
                    return f"(Np.absM {t})", "mat"
            if f == "np.isclose" and len(a) == 2 and ast.unparse(a[1]) == "0" and not n.keywords:
                t, k = self.ex(a[0])
                if k == "scal":
                    return f"(Np.isclose0 {t})", "bool"
            if f == "np.any" and len(a) == 1:
                t, k = self.ex(a[0])
                if k == "bool":
                    return t, "bool"
            if f == "np.squeeze" and len(a) == 1 and not n.keywords:
                return self.ex(a[0])
            if f == "np.percentile" and len(a) == 2 and isinstance(a[1], ast.List):
                t, k = self.ex(a[0])
                self.axis_kw(n)
                qs = [x.value for x in a[1].elts if isinstance(x, ast.Constant)]
                if k == "lane" and len(qs) == len(a[1].elts):
                    ps = ", ".join(f"Np.percentile {t} {rat(Fraction(q) / 100)}" for q in qs)
                    return f"[{ps}]", "pct"
            if f == "np.diff" and len(a) == 1:
                t, k = self.ex(a[0])
                if k == "pct" and [(x.arg, ast.unparse(x.value)) for x in n.keywords] == [("axis", "0")]:
                    return f"(Np.diff1 {t})", "scal"
                if k == "lane" and not n.keywords:
                    return f"(Np.diff {t})", "lane"
            if f == "np.sort" and len(a) == 1 and not n.keywords:
                t, k = self.ex(a[0])
                if k == "lane":
                    return f"(Np.sort {t})", "lane"
            if f == "np.arange" and not n.keywords:
                ts = [self.ex(x) for x in a[:2]]
                if len(a) == 2 and all(k == "nat" for _, k in ts):
                    return f"(Np.arangeUp {ts[0][0]} {ts[1][0]})", "natlane"
                if len(a) == 3 and ast.unparse(a[2]) == "-1" and all(k == "nat" for _, k in ts[:2]):
                    return f"(Np.arangeDown {ts[0][0]} {ts[1][0]})", "natlane"
            if f == "np.dot" and len(a) == 2:
                (t1, k1), (t2, k2) = self.ex(a[0]), self.ex(a[1])
                if {k1, k2} <= {"lane", "natlane"}:
                    return f"(Np.dot {t1} {t2})", "scal"
            if f == "np.subtract" and len(a) == 2 and all(k.arg == "dtype" for k in n.keywords):
                return self.ex(ast.BinOp(left=a[0], op=ast.Sub(), right=a[1]))
            if f == "np.where" and len(a) == 3:
                c, kc = self.ex(a[0])
                if kc == "bool":
                    (t1, k1), (t2, k2) = self.ex(a[1]), self.ex(a[2])
                    if k1 == "nat":
                        t1, k1 = f"(({t1} : Nat) : Rat)", "scal"
                    if k2 == "nat":
                        t2, k2 = f"(({t2} : Nat) : Rat)", "scal"
                    if k1 == k2 == "scal":
                        return f"(Np.whereS {c} {t1} {t2})", "scal"
                if kc == "mask":
                    (t1, k1), (t2, k2) = self.ex(a[1]), self.ex(a[2])
                    if k1 == "lane" and k2 == "nan":
                        return f"(Np.whereNan {c} {t1})", "olane"
                    if k1 == "scal" and k2 == "scal":
                        return f"(Np.whereMS {c} {t1} {t2})", "lane"
                    if k1 == "scal" and k2 == "lane":
                        return f"(Np.whereMSV {c} {t1} {t2})", "lane"
            if f == "np.partition" and len(a) == 2:
                t, k = self.ex(a[0])
                kk, kn = self.ex(a[1])
                if k == "lane" and kn == "nat":
                    return f"(Np.partition {t} {kk})", "partition"
            if isinstance(n.func, ast.Attribute) and n.func.attr == "ravel" and not a:
                return self.ex(n.func.value)
        if isinstance(n, ast.Subscript):
            base = ast.unparse(n.value)
            sl = ast.unparse(n.slice)
            if isinstance(n.value, ast.Call) and ast.unparse(n.value.func) == "np.partition":
                t, k = self.ex(n.value)
                kk, kn = self.ex(n.slice)
                if kn == "nat" and t.endswith(f" {kk})"):
                    return f"(Np.kth {t[len('(Np.partition '):-1]})", "scal"
                raise Untranslatable(f"`{s}`: the element taken is not the partition index")
            if sl.replace(" ", "") == "np.triu_indices(n,k=1)":
                t, k = self.ex(n.value)
                if k == "mat" and self.kinds.get("n") == "nat" and self.n_is_len:
                    return f"(Np.triu1 {t})", "lane"
            if isinstance(n.value, ast.Name) and sl in (":, None", "(:, None)") and self.kinds.get(base) == "lane":
                return base, "col"
            if sl == "::-1":
                t, k = self.ex(n.value)
                m = re.fullmatch(r"\(Np\.arangeUp (.+) (\S+)\)", t) if k == "natlane" else None
                if m:                  # np.arange(a, b)[::-1] is np.arange(b - 1, a - 1, -1)
                    return f"(Np.arangeDown ({m.group(2)} - (1 : Nat)) ({m.group(1)} - (1 : Nat)))", "natlane"
        if isinstance(n, ast.Compare) and len(n.ops) == 1:
            (t1, k1), (t2, k2) = self.ex(n.left), self.ex(n.comparators[0])
            op = {ast.Lt: "lt", ast.LtE: "le", ast.Gt: "gt", ast.GtE: "ge"}.get(type(n.ops[0]))
            if op and k1 == "lane" and k2 == "scal":
                return f"(Np.{op}S {t1} {t2})", "mask"
        if isinstance(n, ast.BinOp):
            (t1, k1), (t2, k2) = self.ex(n.left), self.ex(n.right)
            op = type(n.op)
            if k1 == "col" and k2 == "lane" and op is ast.Sub and t1 == t2:
                return f"(Np.outerSub {t2})", "mat"
            if k1 == "nat" and k2 == "nat":
                sym = {ast.Add: "+", ast.Sub: "-", ast.Mult: "*", ast.FloorDiv: "/"}.get(op)
                if sym:
                    return f"({t1} {sym} {t2})", "nat"
            num = lambda t, k: f"(({t} : Nat) : Rat)" if k == "nat" else t  # noqa: E731
            if k1 in ("scal", "nat") and k2 in ("scal", "nat"):
                sym = {ast.Add: "+", ast.Sub: "-", ast.Mult: "*", ast.Div: "/"}.get(op)
                if sym:
                    return f"({num(t1, k1)} {sym} {num(t2, k2)})", "scal"
            if k1 == "lane" and k2 == "scal":
                fn = {ast.Sub: "subS", ast.Div: "divS", ast.Mult: "mulS"}.get(op)
                if fn:
                    return f"(Np.{fn} {t1} {t2})", "lane"
            if k1 == "natlane" and k2 == "natlane" and op is ast.Mult:
                return f"(Np.mulV {t1} {t2})", "natlane"
        raise Untranslatable(f"expression `{s}`")

    KEEP = {"data", "norm", "norm_aad", "loc", "mad", "is_zero_mad", "aad", "percentiles", "diff", "data_left", "data_right",
            "mad_left", "mad_right", "mad_mid", "n", "h", "k", "diffs", "gaps", "weights", "zero_scales", "zscores", "scale"}

    def translate(self, result_kind: str, body=None) -> str:
        import normalize
        self.n_is_len = False
        if body is None:
            # locals the reference translation does not know are substituted first (the bridge sees through
            # renamed locals by itself)
            self.fn = normalize.inline_temps(self.fn, keep=self.KEEP, extra_pure=NP_PURE)
        body = body if body is not None else self.fn.body
        body = [s for s in body if not (isinstance(s, ast.Expr) and isinstance(s.value, ast.Constant))]
        out: list[str] = []
        ret = None

        def assign(name: str, value: ast.AST, ind: str):
            t, k = self.ex(value)
            if k not in LEAN_TY:
                raise Untranslatable(f"`{name} = {ast.unparse(value)}` is a {k}")
            self.kinds[name] = k
            if name == "n" and ast.unparse(value) == "len(data)":
                self.n_is_len = True
            out.append(f"{ind}let {name} : {LEAN_TY[k]} := {t}")

        for st in body:
            src = ast.unparse(st)
            if isinstance(st, ast.Assign) and len(st.targets) == 1 and isinstance(st.targets[0], ast.Name):
                name = st.targets[0].id
                if name == "data" and src.replace(" ", "") == "data=np.asanyarray(data,dtype=np.float64)":
                    continue
                assign(name, st.value, "  ")
                continue
            if isinstance(st, ast.If) and not st.orelse:
                c, kc = self.ex(st.test)
                if kc != "bool":
                    raise Untranslatable(f"`if {ast.unparse(st.test)}`")
                # the branch may only (re)bind scalars; afterwards the rebinds are selected by the condition
                before = dict(self.kinds)
                inner: list[str] = []
                saved_out = out
                out = inner
                for s2 in st.body:
                    if not (isinstance(s2, ast.Assign) and len(s2.targets) == 1 and isinstance(s2.targets[0], ast.Name)):
                        raise Untranslatable(f"inside `if`: `{ast.unparse(s2)[:60]}`")
                    assign(s2.targets[0].id, s2.value, "    ")
                out = saved_out
                rebound = [s2.targets[0].id for s2 in st.body if s2.targets[0].id in before]
                new = [s2.targets[0].id for s2 in st.body if s2.targets[0].id not in before]
                if len(rebound) != 1 or self.kinds[rebound[0]] != before[rebound[0]]:
                    raise Untranslatable(f"`if` rebinding {rebound}")
                for v in new:
                    self.kinds.pop(v, None)
                v = rebound[0]
                out.append(f"  let {v} : {LEAN_TY[self.kinds[v]]} := if {c} = true then (\n" + "\n".join(inner)
                           + f"\n    {v}) else {v}")
                continue
            if isinstance(st, ast.Expr) and isinstance(st.value, ast.Call) and ast.unparse(st.value.func) == "np.divide" \
                    and len(st.value.args) == 2 and [k.arg for k in st.value.keywords] == ["out"] \
                    and ast.unparse(st.value.keywords[0].value) == ast.unparse(st.value.args[0]) \
                    and isinstance(st.value.args[0], ast.Name):
                assign(st.value.args[0].id, ast.BinOp(left=st.value.args[0], op=ast.Div(), right=st.value.args[1]), "  ")
                continue
            if isinstance(st, ast.Return) and isinstance(st.value, ast.Call) and ast.unparse(st.value.func) == "ZScoreResult":
                kw = {k.arg: k.value for k in st.value.keywords}
                if set(kw) != {"data", "loc", "scale"} or ast.unparse(kw["loc"]) != "np.asarray(loc)" \
                        or ast.unparse(kw["scale"]) != "np.asarray(scale)":
                    raise Untranslatable(f"`{src[:70]}`")
                st = ast.Return(value=kw["data"])
            if isinstance(st, ast.Return):
                t, k = self.ex(st.value)
                if k != result_kind:
                    raise Untranslatable(f"returns a {k}, expected {result_kind}")
                ret = t
                continue
            raise Untranslatable(f"statement `{src[:70]}`")
        if ret is None:
            raise Untranslatable("no return")
        args = [a.arg for a in self.fn.args.args]
        if args[:1] != ["data"] or (self.takes_axis and args != ["data", "axis"]) or (not self.takes_axis and args != ["data"]):
            raise Untranslatable(f"parameters {args}")
        ps = "".join(f" ({p} : Rat)" for p in self.params)
        return (f"def {self.fn.name}{ps} (data : List Rat) : {LEAN_TY[result_kind]} :=\n" + "\n".join(out)
                + f"\n  {ret}\n"), list(self.params)


def translate_estimators(tree: ast.Module):
    fns = {n.name: n for n in tree.body if isinstance(n, ast.FunctionDef)}
    for name, rk in TARGETS:
        try:
            if name not in fns:
                raise Untranslatable(f"function {name} not found")
            text, params = Lane(fns[name], takes_axis=not name.endswith("_1d")).translate(rk)
            yield name, text, params
        except Untranslatable as e:
            yield name, e, []


def stub(name: str, rk: str) -> str:
    dflt = "0" if rk == "scal" else "[]"
    return f"def {name} (_data : List Rat) : {LEAN_TY[rk]} := {dflt}\n"


def translate_dispatch(tree: ast.Module) -> list[tuple[str, str | Untranslatable]]:
    """`estimate_scale`'s name -> implementation table, which wrappers go through `apply_along_axes`, the
    location dispatch of `estimate_loc`, the zero-scale guard and the arithmetic of `estimate_zscore`"""
    fns = {n.name: n for n in tree.body if isinstance(n, ast.FunctionDef)}
    out: list[tuple[str, str | Untranslatable]] = []
    try:
        fn = fns["estimate_scale"]
        table = None
        for node in ast.walk(fn):
            if isinstance(node, (ast.Assign, ast.AnnAssign)) and isinstance(node.value, ast.Dict) \
                    and ast.unparse(node.targets[0] if isinstance(node, ast.Assign) else node.target) == "scale_methods":
                table = [(k.value, ast.unparse(v)) for k, v in zip(node.value.keys, node.value.values)]
        if table is None:
            raise Untranslatable("estimate_scale: no scale_methods table")
        rows = ", ".join(f"(\"{k}\", \"{v}\")" for k, v in table)
        std = any(isinstance(s, ast.If) and ast.unparse(s.test) == "method == 'std'"
                  and ast.unparse(s.body[0]).replace(" ", "") == "returnnp.std(data,axis=axis,keepdims=keepdims,dtype=np.float64)"
                  for s in fn.body)
        call = any(ast.unparse(s).replace(" ", "") == "result=scale_func(data,axis)" for s in fn.body)
        if not std or not call:
            raise Untranslatable("estimate_scale: std branch / scale_func(data, axis) call not recognised")
        out.append(("scale_dispatch", f"/-- `estimate_scale`: method name -> implementation (`std` is `np.std` along the axis) -/\n"
                                      f"def scaleMethods : List (String × String) := [{rows}]\n"))
    except (Untranslatable, KeyError) as e:
        out.append(("scale_dispatch", e if isinstance(e, Untranslatable) else Untranslatable("estimate_scale not found")))
    # wrappers: `return apply_along_axes(_scale_X_1d, data, axis)`
    try:
        rows = []
        for w in ("_scale_qn", "_scale_sn", "_scale_gapper", "_scale_diffcov"):
            body = [s for s in fns[w].body if not (isinstance(s, ast.Expr) and isinstance(s.value, ast.Constant))]
            srcs = [ast.unparse(s).replace(" ", "") for s in body]
            if srcs != ["data=np.asanyarray(data,dtype=np.float64)", f"returnapply_along_axes({w}_1d,data,axis)"]:
                raise Untranslatable(f"{w}: body is {srcs}")
            rows.append(f"(\"{w}\", \"{w}_1d\")")
        out.append(("lane_wrappers", "/-- estimators defined as a 1-D function applied lane by lane (`apply_along_axes(f_1d, data, axis)`) -/\n"
                                     f"def laneWrappers : List (String × String) := [{', '.join(rows)}]\n"))
    except (Untranslatable, KeyError) as e:
        out.append(("lane_wrappers", e if isinstance(e, Untranslatable) else Untranslatable("wrapper not found")))
    # apply_along_axes itself lives in utils.py: translated by `translate_along_axes`
    try:
        fn = fns["estimate_loc"]
        arms = []
        chain = []
        for s0 in fn.body:                      # `if … return` sequences and `if / elif / else` chains alike
            node = s0
            while isinstance(node, ast.If):
                chain.append(node)
                node = node.orelse[0] if len(node.orelse) == 1 and isinstance(node.orelse[0], ast.If) else None
        for s in chain:
            if isinstance(s.test, ast.Compare) and ast.unparse(s.test.left) == "method" \
                    and len(s.body) == 1 and isinstance(s.body[0], (ast.Return, ast.Assign)):
                r = ast.unparse(s.body[0].value).replace(" ", "")
                m = s.test.comparators[0].value
                if r == "np.mean(data,axis=axis,keepdims=keepdims,dtype=np.float64)":
                    arms.append((m, "mean"))
                elif r == "np.median(data,axis=axis,keepdims=keepdims)":
                    arms.append((m, "median"))
                else:
                    raise Untranslatable(f"estimate_loc: `{r}`")
        rows = ", ".join(f"(\"{k}\", \"{v}\")" for k, v in arms)
        out.append(("loc_dispatch", f"/-- `estimate_loc`: method name -> NumPy reduction along the axis -/\ndef locMethods : List (String × String) := [{rows}]\n"))
    except (Untranslatable, KeyError) as e:
        out.append(("loc_dispatch", e if isinstance(e, Untranslatable) else Untranslatable("estimate_loc not found")))
    try:
        fn = fns["estimate_zscore"]
        srcs = [ast.unparse(s).replace(" ", "") for s in fn.body
                if not (isinstance(s, ast.Expr) and isinstance(s.value, ast.Constant))]
        def if_to_ifexp(st):
            """`if c: x = a else: x = b` is `x = a if c else b`"""
            if isinstance(st, ast.If) and len(st.body) == 1 and len(st.orelse) == 1 \
                    and all(isinstance(x, ast.Assign) and isinstance(x.targets[0], ast.Name) for x in (st.body[0], st.orelse[0])) \
                    and st.body[0].targets[0].id == st.orelse[0].targets[0].id:
                return ast.Assign(targets=[st.body[0].targets[0]],
                                  value=ast.IfExp(test=st.test, body=st.body[0].value, orelse=st.orelse[0].value))
            return st
        fn = ast.fix_missing_locations(ast.FunctionDef(name=fn.name, args=fn.args, body=[if_to_ifexp(x) for x in fn.body],
                                                        decorator_list=[], returns=None, type_comment=None, type_params=[]))
        srcs = [ast.unparse(s).replace(" ", "") for s in fn.body
                if not (isinstance(s, ast.Expr) and isinstance(s.value, ast.Constant))]
        loc_ok = any("np.zeros(1,dtype=data.dtype)ifloc_method=='norm'elseestimate_loc(data,loc_method,axis,keepdims=True)" in x for x in srcs)
        sc_ok = any("np.ones(1,dtype=data.dtype)ifscale_method=='norm'elseestimate_scale(data,scale_method,axis,keepdims=True)" in x for x in srcs)
        if not (loc_ok and sc_ok):
            raise Untranslatable("estimate_zscore: loc / scale selection not recognised")
        # everything after the scale estimate, statement by statement, on one lane
        idx = next((i for i, s in enumerate(fn.body) if isinstance(s, ast.Assign) and isinstance(s.targets[0], ast.Name)
                    and s.targets[0].id == "scale"), None)
        if idx is None:
            raise Untranslatable("estimate_zscore: no scale estimate")
        import copy
        tail_fn = copy.deepcopy(fn)
        tail_fn.body = fn.body[idx + 1:]
        import normalize
        tail_fn = normalize.inline_temps(tail_fn, keep=Lane.KEEP, extra_pure=NP_PURE)
        ln = Lane(tail_fn, takes_axis=True)
        ln.kinds.update(loc="scal", scale="scal")
        ln.fn.args.args = [ast.arg(arg="data"), ast.arg(arg="axis")]
        text, params = ln.translate("lane", body=tail_fn.body)
        if params:
            raise Untranslatable("estimate_zscore: unexpected constants")
        text = text.replace(f"def {fn.name} (data : List Rat)", "def zscoreLane (loc scale : Rat) (data : List Rat)")
        out.append(("zscore", "/-- `estimate_zscore` on one lane, from the scale estimate on: a zero scale estimate "
                              "(`np.isclose(scale, 0)`) is replaced by 1, then `(data - loc) / scale`; `\"norm\"` fixes the "
                              "location at 0 / the scale at 1 -/\n" + text + "def normLoc : Rat := 0\ndef normScale : Rat := 1\n"))
    except (Untranslatable, KeyError) as e:
        out.append(("zscore", e if isinstance(e, Untranslatable) else Untranslatable("estimate_zscore not found")))
    return out


DISPATCH_STUBS = {
    "scale_dispatch": "def scaleMethods : List (String × String) := []\n",
    "lane_wrappers": "def laneWrappers : List (String × String) := []\n",
    "loc_dispatch": "def locMethods : List (String × String) := []\n",
    "zscore": "def zscoreLane (_loc _scale : Rat) (_data : List Rat) : List Rat := []\ndef normLoc : Rat := 0\ndef normScale : Rat := 1\n",
}


def translate_along_axes(utils_tree: ast.Module) -> str:
    """`utils.apply_along_axes`: `axis is None` -> `func(data.ravel())`; otherwise the named axes are moved to the
    front, merged, and `func` is applied along axis 0 (`np.apply_along_axis`)"""
    fn = next((n for n in utils_tree.body if isinstance(n, ast.FunctionDef) and n.name == "apply_along_axes"), None)
    if fn is None:
        raise Untranslatable("apply_along_axes not found")
    import normalize
    try:
        rets, _ = normalize.symbolic_returns(fn)
    except ValueError as e:
        raise Untranslatable(f"apply_along_axes: {e}") from None
    n = lambda e: ast.unparse(e).replace(" ", "") if e is not None else ""  # noqa: E731
    got = [(n(g), n(v)) for g, v in rets]
    # the expected value, written as source and brought to the same textual form
    ax = "tuple(ax % data.ndim for ax in ((axis,) if isinstance(axis, int) else axis))"
    mv = f"np.moveaxis(data, {ax}, range(len({ax})))"
    ref = f"np.apply_along_axis(func, axis=0, arr={mv}.reshape(-1, *{mv}.shape[len({ax}):]))"
    want = [("axisisNone", "func(data.ravel())"), ("", n(ast.parse(ref, mode="eval").body))]
    if got != want:
        diff = next((g for g, w in zip(got, want) if g != w), got[-1] if got else ("", ""))
        raise Untranslatable(f"apply_along_axes: `{diff[0][:40]} -> {diff[1][:160]}`")
    return ("/-- `apply_along_axes(func, data, axis)` on a 2-D array (rows = axis 0): `none` flattens in C order, an axis is "
            "moved to the front and `func` is applied to every lane along it -/\n"
            "def alongAxes (func : List Rat → Rat) (m : List (List Rat)) (axis : Option Nat) : List Rat :=\n"
            "  match axis with\n"
            "  | none => [func m.flatten]\n"
            "  | some ax => if ax % 2 = 0 then Np.lanesAxis0 m |>.map func else m.map func\n")


ALONG_STUB = "def alongAxes (_func : List Rat → Rat) (_m : List (List Rat)) (_axis : Option Nat) : List Rat := []\n"

"""Source normalisation applied before the pattern-based translators (ReaderArith, HeaderUpdates).

Everyday maintenance edits — naming an intermediate value, aliasing `self.header`, hoisting a loop-invariant
expression, extracting a few lines into a private helper — change the *shape* of a method without changing what
it computes.  The translators recognise shapes, so the method is first brought to a normal form:

* `inline_helpers`  a call `x, y = _helper(a, b)` / `x = _helper(a, b)` / `x = self._helper(a, b)` of a private
                    (leading underscore) module-level function or method of the same class whose body is simple
                    (assignments, `if`, `raise`, one final `return`) is replaced by that body, parameters
                    substituted, the `return` turned into the assignment;
* `inline_temps`    a local assigned exactly once, from an expression without impure calls whose operands are not
                    reassigned later, is substituted into its uses and dropped (also inside loop bodies).

Both are semantics-preserving for the straight-line integer / float code they are applied to; anything that does
not fit is left alone (the translator then sees the original shape).
"""
from __future__ import annotations

import ast
import copy

PURE_CALLS = {"max", "min", "abs", "int", "float", "len", "round", "divmod", "self.header.mjd_after_nsamps",
              "np.int32", "np.float32", "np.float64"}


class _Subst(ast.NodeTransformer):
    def __init__(self, env: dict[str, ast.AST]):
        self.env = env

    def visit_Name(self, node: ast.Name):
        if isinstance(node.ctx, ast.Load) and node.id in self.env:
            return copy.deepcopy(self.env[node.id])
        return node


def _assigned_names(node: ast.AST) -> list[str]:
    out = []
    for n in ast.walk(node):
        tgts = []
        if isinstance(n, ast.Assign):
            tgts = n.targets
        elif isinstance(n, (ast.AugAssign, ast.AnnAssign, ast.For)):
            tgts = [n.target]
        elif isinstance(n, ast.withitem) and n.optional_vars is not None:
            tgts = [n.optional_vars]
        elif isinstance(n, ast.NamedExpr):
            tgts = [n.target]
        for t in tgts:
            for x in ast.walk(t):
                if isinstance(x, ast.Name) and isinstance(x.ctx, ast.Store):
                    out.append(x.id)
    return out


def _pure(expr: ast.AST, extra: frozenset = frozenset()) -> bool:
    for n in ast.walk(expr):
        if isinstance(n, ast.Call) and ast.unparse(n.func) not in PURE_CALLS and ast.unparse(n.func) not in extra \
                and not any(e.startswith(".") and ast.unparse(n.func).endswith(e) for e in extra):
            return False
        if isinstance(n, (ast.Await, ast.Yield, ast.YieldFrom, ast.NamedExpr, ast.Lambda, ast.ListComp, ast.DictComp,
                          ast.GeneratorExp, ast.SetComp)):
            return False
    return True


def inline_temps(fn: ast.FunctionDef, keep: set[str] = frozenset(), extra_pure: frozenset = frozenset()) -> ast.FunctionDef:
    """see module docstring; `keep` names are never inlined (names the translators look for); `extra_pure`: further
    call targets the caller knows to be value functions (e.g. NumPy functions returning fresh arrays)"""
    fn = copy.deepcopy(fn)
    counts: dict[str, int] = {}
    for nm in _assigned_names(fn):
        counts[nm] = counts.get(nm, 0) + 1
    params = {a.arg for a in fn.args.args + fn.args.kwonlyargs}

    def later_assigned(stmts_after: list[ast.stmt]) -> set[str]:
        s: set[str] = set()
        for st in stmts_after:
            s |= set(_assigned_names(st))
        return s

    def walk(stmts: list[ast.stmt], env: dict[str, ast.AST], tail_after: list[ast.stmt]) -> list[ast.stmt]:
        out: list[ast.stmt] = []
        for i, st in enumerate(stmts):
            rest = stmts[i + 1:] + tail_after
            if isinstance(st, ast.Assign) and len(st.targets) == 1 and isinstance(st.targets[0], ast.Name):
                name = st.targets[0].id
                val = _Subst(env).visit(copy.deepcopy(st.value))
                ops = {x.id for x in ast.walk(val) if isinstance(x, ast.Name)}
                if (counts.get(name) == 1 and name not in keep and name not in params and _pure(val, extra_pure)
                        and not isinstance(val, (ast.Dict, ast.List, ast.Tuple, ast.Set, ast.Constant))
                        and not (ops & later_assigned(rest)) and name not in ops):
                    env[name] = val
                    continue
            # compound statements: descend into their blocks with the same environment
            st = copy.deepcopy(st)
            for fld in ("body", "orelse", "finalbody"):
                sub = getattr(st, fld, None)
                if isinstance(sub, list) and sub and isinstance(sub[0], ast.stmt):
                    setattr(st, fld, walk(sub, env, rest))
            if hasattr(st, "handlers"):
                for h in st.handlers:
                    h.body = walk(h.body, env, rest)
            # substitute in the statement's own expressions (not in nested blocks again)
            for fld, val in list(ast.iter_fields(st)):
                if fld in ("body", "orelse", "finalbody", "handlers"):
                    continue
                if isinstance(val, ast.AST):
                    setattr(st, fld, _Subst(env).visit(val))
                elif isinstance(val, list):
                    setattr(st, fld, [_Subst(env).visit(v) if isinstance(v, ast.AST) else v for v in val])
            out.append(st)
        return out

    fn.body = walk(fn.body, {}, [])
    return ast.fix_missing_locations(fn)


def _simple_body(fn: ast.FunctionDef) -> bool:
    body = [s for s in fn.body if not (isinstance(s, ast.Expr) and isinstance(s.value, ast.Constant))]
    if not body or not isinstance(body[-1], ast.Return) or body[-1].value is None:
        return False

    def ok(stmts, top):
        for s in stmts:
            if isinstance(s, (ast.Assign, ast.AugAssign, ast.AnnAssign, ast.Raise)):
                continue
            if isinstance(s, ast.If):
                if not ok(s.body, False) or not ok(s.orelse, False):
                    return False
                continue
            if isinstance(s, ast.Return):
                if top and s is body[-1]:
                    continue
                return False
            if isinstance(s, ast.Expr) and isinstance(s.value, ast.Constant):
                continue
            return False
        return True
    return ok(body, True)


def inline_helpers(fn: ast.FunctionDef, module: ast.Module, cls: ast.ClassDef | None = None) -> ast.FunctionDef:
    """see module docstring"""
    helpers: dict[str, ast.FunctionDef] = {}
    for n in module.body:
        if isinstance(n, ast.FunctionDef) and n.name.startswith("_"):
            helpers[n.name] = n
    if cls is not None:
        for n in cls.body:
            if isinstance(n, ast.FunctionDef) and n.name.startswith("_") and not n.name.startswith("__"):
                helpers["self." + n.name] = n
    fn = copy.deepcopy(fn)
    used = set(_assigned_names(fn)) | {a.arg for a in fn.args.args}

    def expand(st: ast.stmt) -> list[ast.stmt] | None:
        if not (isinstance(st, ast.Assign) and len(st.targets) == 1 and isinstance(st.value, ast.Call)):
            return None
        fname = ast.unparse(st.value.func)
        h = helpers.get(fname)
        if h is None or h is fn or not _simple_body(h) or st.value.keywords:
            return None
        hparams = [a.arg for a in h.args.args]
        if fname.startswith("self.") and hparams and hparams[0] == "self":
            hparams = hparams[1:]
        if len(hparams) != len(st.value.args) or h.args.vararg or h.args.kwarg or h.args.kwonlyargs:
            return None
        hb = copy.deepcopy([s for s in h.body if not (isinstance(s, ast.Expr) and isinstance(s.value, ast.Constant))])
        # locals of the helper that would clash with names of the caller are renamed
        hlocals = set(_assigned_names(ast.Module(body=hb, type_ignores=[]))) | set(hparams)
        # `a, b = helper(...)` where the helper ends with `return a, b`: the helper's locals ARE the targets
        tgt = st.targets[0]
        tnames = [e.id for e in tgt.elts] if isinstance(tgt, ast.Tuple) and all(isinstance(e, ast.Name) for e in tgt.elts) \
            else [tgt.id] if isinstance(tgt, ast.Name) else []
        rv = hb[-1].value
        rnames = [e.id for e in rv.elts] if isinstance(rv, ast.Tuple) and all(isinstance(e, ast.Name) for e in rv.elts) \
            else [rv.id] if isinstance(rv, ast.Name) else None
        same_names = bool(tnames) and rnames == tnames
        first_def = {x for x in tnames if same_names}
        ren = {x: ast.Name(id=f"{x}__{h.name.strip('_')}", ctx=ast.Load()) for x in hlocals
               if x in used and x not in hparams and x not in first_def}
        pre = []
        env: dict[str, ast.AST] = dict(ren)
        for p, a in zip(hparams, st.value.args):
            reassigned = p in _assigned_names(ast.Module(body=hb, type_ignores=[]))
            if isinstance(a, (ast.Name, ast.Constant)) and not reassigned:
                env[p] = a
            else:
                # the parameter becomes a local initialised with the argument
                newname = p if p not in used or (isinstance(a, ast.Name) and a.id == p) else f"{p}__{h.name.strip('_')}"
                if not (isinstance(a, ast.Name) and a.id == newname):
                    pre.append(ast.Assign(targets=[ast.Name(id=newname, ctx=ast.Store())], value=copy.deepcopy(a)))
                env[p] = ast.Name(id=newname, ctx=ast.Load())

        class Ren(ast.NodeTransformer):
            def visit_Name(self, node):
                if node.id in env:
                    rep = env[node.id]
                    if isinstance(node.ctx, ast.Store):
                        if isinstance(rep, ast.Name):
                            return ast.Name(id=rep.id, ctx=ast.Store())
                        return node
                    return copy.deepcopy(rep)
                return node
        hb = [Ren().visit(s) for s in hb]
        ret = hb.pop()
        if not same_names:
            hb.append(ast.Assign(targets=copy.deepcopy(st.targets), value=ret.value))
        return [ast.fix_missing_locations(s) for s in pre + hb]

    def walk(stmts: list[ast.stmt]) -> list[ast.stmt]:
        out = []
        for st in stmts:
            ex = expand(st)
            if ex is not None:
                out += ex
                continue
            for fld in ("body", "orelse", "finalbody"):
                sub = getattr(st, fld, None)
                if isinstance(sub, list) and sub and isinstance(sub[0], ast.stmt):
                    setattr(st, fld, walk(sub))
            out.append(st)
        return out

    fn.body = walk(fn.body)
    return ast.fix_missing_locations(fn)


def split_tuple_assigns(fn: ast.FunctionDef) -> ast.FunctionDef:
    """`a, b = x, y` (right-hand sides not mentioning a, b) -> `a = x; b = y`"""
    fn = copy.deepcopy(fn)

    def walk(stmts):
        out = []
        for st in stmts:
            if isinstance(st, ast.Assign) and len(st.targets) == 1 and isinstance(st.targets[0], ast.Tuple) \
                    and isinstance(st.value, ast.Tuple) and len(st.targets[0].elts) == len(st.value.elts) \
                    and all(isinstance(e, ast.Name) for e in st.targets[0].elts):
                # identity components (`a, b = a, f(a)`) drop out; the rest may be sequenced when no remaining
                # target is read by ANOTHER remaining right-hand side
                pairs = [(t, v) for t, v in zip(st.targets[0].elts, st.value.elts)
                         if not (isinstance(v, ast.Name) and v.id == t.id)]
                ok = True
                for i, (t, _) in enumerate(pairs):
                    for j, (_, v) in enumerate(pairs):
                        if i != j and any(isinstance(x, ast.Name) and x.id == t.id for x in ast.walk(v)):
                            ok = False
                if ok:
                    out += [ast.Assign(targets=[t], value=v) for t, v in pairs]
                    continue
            for fld in ("body", "orelse", "finalbody"):
                sub = getattr(st, fld, None)
                if isinstance(sub, list) and sub and isinstance(sub[0], ast.stmt):
                    setattr(st, fld, walk(sub))
            out.append(st)
        return out
    fn.body = walk(fn.body)
    return ast.fix_missing_locations(fn)


def normalize(fn: ast.FunctionDef, module: ast.Module, cls: ast.ClassDef | None = None,
              keep: set[str] = frozenset()) -> ast.FunctionDef:
    return inline_temps(split_tuple_assigns(inline_helpers(fn, module, cls)), keep)


def inline_aliases(fn: ast.FunctionDef, targets: tuple[str, ...] = ("self.header",)) -> ast.FunctionDef:
    """`hdr = self.header` (assigned once, at any depth of straight-line code): uses of `hdr` become `self.header`"""
    fn = copy.deepcopy(fn)
    counts: dict[str, int] = {}
    for nm in _assigned_names(fn):
        counts[nm] = counts.get(nm, 0) + 1
    env: dict[str, ast.AST] = {}
    for n in ast.walk(fn):
        if isinstance(n, ast.Assign) and len(n.targets) == 1 and isinstance(n.targets[0], ast.Name) \
                and counts.get(n.targets[0].id) == 1 and ast.unparse(n.value) in targets:
            env[n.targets[0].id] = n.value
    if not env:
        return fn

    class Drop(ast.NodeTransformer):
        def visit_Assign(self, node):
            if len(node.targets) == 1 and isinstance(node.targets[0], ast.Name) and node.targets[0].id in env:
                return None
            return self.generic_visit(node)

        def visit_Name(self, node):
            if isinstance(node.ctx, ast.Load) and node.id in env:
                return copy.deepcopy(env[node.id])
            return node
    fn = Drop().visit(fn)
    return ast.fix_missing_locations(fn)


# --------------------------------------------------------------------------
# conditional shapes
# --------------------------------------------------------------------------

def _assign_lines(fn: ast.FunctionDef) -> dict[str, list[int]]:
    lines: dict[str, list[int]] = {}
    for node in ast.walk(fn):
        tg = []
        if isinstance(node, ast.Assign):
            tg = node.targets
        elif isinstance(node, (ast.AugAssign, ast.AnnAssign, ast.For)):
            tg = [node.target]
        for t in tg:
            for nm in ast.walk(t):
                if isinstance(nm, ast.Name):
                    lines.setdefault(nm.id, []).append(node.lineno)
    return lines


def canon_conditionals(fn: ast.FunctionDef) -> ast.FunctionDef:
    """One shape for the three spellings of a two-way choice, and no value-naming locals:

    * a local assigned once, at the top level of the method, from names / attributes / constants / arithmetic /
      subscripts / dict literals / comparisons / `len(..)` whose operands are not reassigned afterwards, is substituted
      into its uses (`shifts = -delays`, `n_new = new_ar.shape[1]`, `changes = {...}`, `odd = n % 2 == 1 and ...`);
    * `h = F if c else G` followed by `h(args)` becomes `F(args) if c else G(args)`;
    * `x = A if c else B` becomes `if c: x = A  else: x = B`."""
    fn = copy.deepcopy(fn)
    lines = _assign_lines(fn)
    params = {a.arg for a in fn.args.args + fn.args.kwonlyargs}
    simple = (ast.Name, ast.Attribute, ast.Constant, ast.BinOp, ast.UnaryOp, ast.BoolOp, ast.Compare, ast.Subscript,
              ast.Dict, ast.Tuple, ast.IfExp, ast.operator, ast.unaryop, ast.boolop, ast.cmpop, ast.expr_context, ast.Slice)

    def is_simple(e: ast.AST) -> bool:
        for x in ast.walk(e):
            if isinstance(x, ast.Call):
                if not (isinstance(x.func, ast.Name) and x.func.id == "len"):
                    return False
            elif not isinstance(x, simple):
                return False
        return True

    env: dict[str, ast.AST] = {}
    new_body = []
    for st in fn.body:
        if (isinstance(st, ast.Assign) and len(st.targets) == 1 and isinstance(st.targets[0], ast.Name)
                and st.targets[0].id not in params and len(lines.get(st.targets[0].id, [])) == 1 and is_simple(st.value)):
            ok = True
            for x in ast.walk(st.value):
                if isinstance(x, ast.Name) and x.id not in env and any(ln > st.lineno for ln in lines.get(x.id, [])):
                    ok = False
            if ok:
                env[st.targets[0].id] = _Subst(env).visit(copy.deepcopy(st.value))
                continue
        new_body.append(_Subst(env).visit(st))
    fn.body = new_body

    class CallOfIfExp(ast.NodeTransformer):
        def visit_Call(self, node: ast.Call):
            self.generic_visit(node)
            f = node.func
            if isinstance(f, ast.IfExp):
                return ast.IfExp(test=f.test,
                                 body=ast.Call(func=f.body, args=copy.deepcopy(node.args), keywords=copy.deepcopy(node.keywords)),
                                 orelse=ast.Call(func=f.orelse, args=copy.deepcopy(node.args), keywords=copy.deepcopy(node.keywords)))
            return node

    fn = CallOfIfExp().visit(fn)

    class AssignIfExp(ast.NodeTransformer):
        def visit_Assign(self, node: ast.Assign):
            if isinstance(node.value, ast.IfExp) and len(node.targets) == 1 and isinstance(node.targets[0], ast.Name):
                v = node.value
                return ast.If(test=v.test, body=[ast.Assign(targets=copy.deepcopy(node.targets), value=v.body, lineno=node.lineno)],
                              orelse=[ast.Assign(targets=copy.deepcopy(node.targets), value=v.orelse, lineno=node.lineno)])
            return node

    fn = AssignIfExp().visit(fn)

    class PositiveTests(ast.NodeTransformer):
        """`if not c: A else: B` -> `if c: B else: A`"""

        def visit_If(self, node: ast.If):
            self.generic_visit(node)
            if isinstance(node.test, ast.UnaryOp) and isinstance(node.test.op, ast.Not) and node.orelse:
                return ast.If(test=node.test.operand, body=node.orelse, orelse=node.body)
            return node

    fn = PositiveTests().visit(fn)
    return ast.fix_missing_locations(fn)


# --------------------------------------------------------------------------
# symbolic straight-line evaluation
# --------------------------------------------------------------------------

def symbolic_returns(fn: ast.FunctionDef, rewrite=None, lenient: bool = False) -> tuple[list[tuple[ast.AST | None, ast.AST]], dict[str, ast.AST]]:
    """Evaluate a straight-line function body symbolically: every local (and every re-assigned parameter) is replaced
    by the expression it holds, so that the names chosen for intermediate values - or whether a parameter is
    overwritten or a fresh name is introduced - do not matter.

    Handles `x = e`, `if c: x = e [else: x = e']` (merged into a conditional expression), `if c: return e` (early
    return), a final `return e` / `if c: return e  return e'`.  Returns ([(guard or None, returned expression)], env);
    raises ValueError on anything else.  `rewrite`, when given, is applied to every right-hand side first
    (e.g. to strip dtype conversions that are identities on the modelled values)."""
    env: dict[str, ast.AST] = {}
    rets: list[tuple[ast.AST | None, ast.AST]] = []

    def ev(e: ast.AST) -> ast.AST:
        e = copy.deepcopy(e)
        if rewrite is not None:
            e = rewrite(e)
        return _Subst(env).visit(e)

    def only_assigns(stmts) -> bool:
        return all(isinstance(s, ast.Assign) and len(s.targets) == 1 and isinstance(s.targets[0], ast.Name) for s in stmts)

    for st in fn.body:
        if isinstance(st, ast.Expr) and isinstance(st.value, ast.Constant):
            continue
        if isinstance(st, ast.Assign) and len(st.targets) == 1 and isinstance(st.targets[0], ast.Name):
            env[st.targets[0].id] = ev(st.value)
        elif isinstance(st, ast.AnnAssign) and isinstance(st.target, ast.Name) and st.value is not None:
            env[st.target.id] = ev(st.value)
        elif isinstance(st, ast.If) and only_assigns(st.body) and only_assigns(st.orelse):
            test = ev(st.test)
            names = [s.targets[0].id for s in st.body] + [s.targets[0].id for s in st.orelse]
            then_env, else_env = dict(env), dict(env)
            for s in st.body:
                then_env[s.targets[0].id] = _Subst(then_env).visit(rewrite(copy.deepcopy(s.value)) if rewrite else copy.deepcopy(s.value))
            for s in st.orelse:
                else_env[s.targets[0].id] = _Subst(else_env).visit(rewrite(copy.deepcopy(s.value)) if rewrite else copy.deepcopy(s.value))
            for nm in dict.fromkeys(names):
                old = env.get(nm, ast.Name(id=nm, ctx=ast.Load()))
                env[nm] = ast.IfExp(test=copy.deepcopy(test), body=then_env.get(nm, old), orelse=else_env.get(nm, old))
        elif isinstance(st, ast.If) and not st.orelse and len(st.body) == 1 and isinstance(st.body[0], ast.Return):
            rets.append((ev(st.test), ev(st.body[0].value)))
        elif isinstance(st, ast.Return) and st.value is not None:
            v = ev(st.value)
            if isinstance(v, ast.IfExp):           # `return a if c else b`  ==  `if c: return a` ; `return b`
                rets.append((v.test, v.body))
                rets.append((None, v.orelse))
            else:
                rets.append((None, v))
            break
        elif lenient and (isinstance(st, ast.Expr) or (isinstance(st, ast.If) and not st.orelse and st.body
                                                       and isinstance(st.body[-1], ast.Raise))):
            continue        # a call for its effect (logging) / an argument check: binds nothing
        elif lenient:
            for nm in _assigned_names(st):
                env.pop(nm, None)       # whatever this statement binds is no longer known symbolically
        else:
            raise ValueError(f"statement `{ast.unparse(st)[:80]}`")
    return rets, env

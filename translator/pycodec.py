"""The SIGPROC header codec (`io/sigproc.py`) and the `Header` <-> SIGPROC field mapping (`header.py`) -> Lean.

Translated statement by statement: `_read_string`, `encode_key`, `encode_header`, `parse_header`, `edit_header`;
by shape: the numeric part of `parse_radec`, the frame-flag logic and the id defaults of `Header.to_sigproc` /
`Header.from_sigproc`.  (C04 / C05 / C20 tie.)

A file is the list of its bytes; an open file is `Fp = (data, pos)`; every function that can raise returns
`Except String _` (`raise X(..)` is `.error "X"`, an exception of a primitive keeps its Python name:
`struct.error`, `KeyError`, `ZeroDivisionError`, `TypeError`).  Python `str` and `bytes` are both byte lists
(`.encode()` / `.decode()` are the identity: header strings are ASCII - recorded in the trusted base).  A header
value is a `PyVal`: `int`, `dbl` (the 8 bytes `struct.pack('d')` gives - never interpreted) or `str`.

Variable kinds: bytes, val (PyVal), int, nat, fmt (a `struct` format / the `"str"` marker), dict, fp, optval.
Anything outside the subset below is `Untranslatable` (the fragment is then listed in `translationFailures`).
"""
from __future__ import annotations

import ast

from pyexpr import Untranslatable

# the primitives (bytes, PyVal, Dict, Fp, struct, loops) live in lean/SppModel/Model/CodecPrims.lean

# signature of every translated function: parameter -> kind, result kind
SIGS = {
    "_read_string": ([("fp", "fp")], "bytes"),
    "encode_key": ([("key", "bytes"), ("value", "optval"), ("value_type", "fmt")], "bytes"),
    "encode_header": ([("header", "dict")], "bytes"),
    "parse_header": ([("filename", "file")], "dict"),
    "edit_header": ([("filename", "file"), ("key", "bytes"), ("value", "val")], "file"),
}
LEAN_TY = {"bytes": "Bytes", "val": "PyVal", "int": "Int", "nat": "Nat", "fmt": "String", "dict": "Dict", "fp": "Fp",
           "optval": "Option PyVal", "file": "Bytes", "bool": "Bool"}
ORDER = ("_read_string", "encode_key", "encode_header", "parse_header", "edit_header")


class F:
    def __init__(self, fn: ast.FunctionDef, done: set[str]):
        self.fn = fn
        self.done = done
        self.kinds: dict[str, str] = {}
        self.known_str: set[str] = set()      # val variables known to hold a str here
        self.some: set[str] = set()           # optval variables known not to be None here
        self.n = 0
        self.file_var: str | None = None
        self.uses_fp = fn.name == "_read_string"
        self.loop_pack: str | None = None
        self.for_pack: str | None = None
        self.wrote_file = False

    def fresh(self) -> str:
        self.n += 1
        return f"t{self.n}"

    # ------------------------------------------------------------------ expressions
    # returns (binds, term, kind); a bind is ("ok", pattern, term) for a monadic step or ("let", pattern, term)
    def ex(self, n: ast.AST, want: str | None = None):
        s = ast.unparse(n)
        if isinstance(n, ast.Constant) and isinstance(n.value, str):
            if want == "fmt":
                return [], f"\"{n.value}\"", "fmt"
            return [], f"(ascii \"{n.value}\")", "bytes"
        if isinstance(n, ast.Constant) and isinstance(n.value, int) and not isinstance(n.value, bool):
            return [], f"({n.value} : Int)", "int"
        if isinstance(n, ast.Name):
            if n.id not in self.kinds:
                raise Untranslatable(f"unknown name `{n.id}`")
            k = self.kinds[n.id]
            if k == "optval" and n.id in self.some:
                return [], f"{n.id}_v", "val"
            return [], n.id, k
        if isinstance(n, ast.Call):
            f = ast.unparse(n.func)
            if f == "struct.calcsize" and len(n.args) == 1:
                b, a, _ = self.ex(n.args[0], "fmt")
                t = self.fresh()
                return b + [("ok", t, f"calcsize {a}")], t, "nat"
            if f == "fp.read" and len(n.args) == 1:
                b, a, k = self.ex(n.args[0])
                if k in ("val", "int"):
                    t0 = self.fresh()
                    b = b + [("ok", t0, f"PyVal.asSize {a if k == 'val' else f'(.int {a})'}")]
                    a = t0
                elif k != "nat":
                    raise Untranslatable(f"`{s}`")
                t = self.fresh()
                return b + [("let", f"({t}, fp)", f"fp.read {a}")], t, "bytes"
            if f == "fp.tell" and not n.args:
                return [], "((fp.pos : Nat) : Int)", "int"
            if f == "struct.pack" and len(n.args) == 2:
                b1, a1, _ = self.ex(n.args[0], "fmt")
                b2, a2, k2 = self.ex(n.args[1])
                v = a2 if k2 == "val" else f"(.int {a2})" if k2 in ("int", "nat") else None
                if v is None:
                    raise Untranslatable(f"`{s}`")
                t = self.fresh()
                return b1 + b2 + [("ok", t, f"structPack {a1} {v}")], t, "bytes"
            if f == "len" and len(n.args) == 1:
                b, a, k = self.ex(n.args[0])
                if k in ("bytes", "file"):
                    return b, f"(({a}.length : Nat) : Int)", "int"
                if k == "val":
                    if isinstance(n.args[0], ast.Name) and n.args[0].id in self.known_str:
                        return b, f"(({a}.strBytes.length : Nat) : Int)", "int"
                    t = self.fresh()
                    return b + [("ok", t, f"PyVal.len {a}")], t, "int"
            if f == "int" and len(n.args) == 1:
                b, a, k = self.ex(n.args[0])
                if k == "val":
                    t = self.fresh()
                    return b + [("ok", t, f"PyVal.toInt {a}")], t, "int"
                if k in ("int", "nat"):
                    return b, a, "int"
            if f == "isinstance" and len(n.args) == 2 and ast.unparse(n.args[1]) == "str":
                b, a, k = self.ex(n.args[0])
                if k == "val":
                    return b, f"({a}.isStr = true)", "prop"
            if f in self.done and f in SIGS:
                params, rk = SIGS[f]
                args = list(n.args) + [None] * (len(params) - len(n.args))
                kw = {k.arg: k.value for k in n.keywords}
                binds, terms = [], []
                for (pn, pk), a in zip(params, args):
                    a = kw.get(pn, a)
                    if a is None:
                        d = self.defaults(f).get(pn)
                        if d is None:
                            raise Untranslatable(f"`{s}`: missing argument {pn}")
                        a = d
                    if pk == "optval":
                        if isinstance(a, ast.Constant) and a.value is None:
                            terms.append("none")
                            continue
                        b, t, k = self.ex(a)
                        binds += b
                        terms.append(f"(some {self.as_val(t, k)})")
                        continue
                    if pk == "file" and isinstance(a, ast.Name) and a.id == self.file_var:
                        terms.append(a.id)
                        continue
                    b, t, k = self.ex(a, pk)
                    binds += b
                    if k != pk:
                        raise Untranslatable(f"`{s}`: argument {pn} is {k}, expected {pk}")
                    terms.append(t)
                t = self.fresh()
                if f == "_read_string":
                    return binds + [("ok", f"({t}, fp)", f"_read_string {' '.join(terms)}")], t, rk
                return binds + [("ok", t, f"{f} {' '.join(terms)}")], t, rk
            if isinstance(n.func, ast.Attribute) and n.func.attr in ("decode", "encode") and not n.args:
                b, a, k = self.ex(n.func.value)
                if k == "bytes":
                    return b, a, "bytes"
                if k == "val" and isinstance(n.func.value, ast.Name) and n.func.value.id in self.known_str:
                    return b, f"{a}.strBytes", "bytes"
            if isinstance(n.func, ast.Attribute) and n.func.attr == "ljust" and len(n.args) == 1 and not n.keywords:
                b, a, k = self.ex(n.func.value)
                a = self.as_bytes(a, k, n.func.value)
                b2, w, kw_ = self.ex(n.args[0])
                if kw_ in ("int", "nat"):
                    return b + b2, f"(ljust {a} {w})", "bytes"
            if isinstance(n.func, ast.Attribute) and n.func.attr == "copy" and not n.args:
                b, a, k = self.ex(n.func.value)
                if k == "dict":
                    return b, a, "dict"
        if isinstance(n, ast.Subscript):
            base = ast.unparse(n.value)
            # struct.unpack(fmt, data)[0]
            if isinstance(n.value, ast.Call) and ast.unparse(n.value.func) == "struct.unpack" \
                    and ast.unparse(n.slice) == "0" and len(n.value.args) == 2:
                b1, a1, _ = self.ex(n.value.args[0], "fmt")
                b2, a2, k2 = self.ex(n.value.args[1])
                if k2 != "bytes":
                    raise Untranslatable(f"`{s}`")
                t = self.fresh()
                return b1 + b2 + [("ok", t, f"structUnpack {a1} {a2}")], t, "val"
            if base == "header_keys":
                b, a, k = self.ex(n.slice)
                if k != "bytes":
                    raise Untranslatable(f"`{s}`")
                t = self.fresh()
                return b + [("ok", t, f"keyFmt {a}")], t, "fmt"
            if isinstance(n.value, ast.Name) and self.kinds.get(n.value.id) == "dict" and not isinstance(n.slice, ast.Slice):
                b, a, k = self.ex(n.slice)
                if k != "bytes":
                    raise Untranslatable(f"`{s}`")
                t = self.fresh()
                return b + [("ok", t, f"Dict.get {n.value.id} {a}")], t, "val"
            if isinstance(n.slice, ast.Slice) and n.slice.lower is None and n.slice.step is None and n.slice.upper is not None:
                b, a, k = self.ex(n.value)
                a = self.as_bytes(a, k, n.value)
                b2, u, ku = self.ex(n.slice.upper)
                if ku not in ("int", "nat"):
                    raise Untranslatable(f"`{s}`")
                # s[:n] with n >= 0 (a negative bound counts from the end: not modelled, rejected below)
                return b + b2, f"({a}.take ({u}).toNat)", "bytes"
        if isinstance(n, ast.BinOp):
            if isinstance(n.op, ast.Mult) and isinstance(n.left, ast.Constant) and isinstance(n.left.value, str) \
                    and len(n.left.value) == 1:
                b, a, k = self.ex(n.right)
                if k in ("int", "nat"):
                    return b, f"(List.replicate ({a}).toNat {ord(n.left.value)})", "bytes"
            b1, a1, k1 = self.ex(n.left)
            b2, a2, k2 = self.ex(n.right)
            strish = lambda k, node: k in ("bytes",) or (k == "val" and isinstance(node, ast.Name) and node.id in self.known_str)  # noqa: E731
            if isinstance(n.op, ast.Add) and strish(k1, n.left) and strish(k2, n.right):
                return b1 + b2, f"({self.as_bytes(a1, k1, n.left)} ++ {self.as_bytes(a2, k2, n.right)})", "bytes"
            if k1 in ("int", "nat") and k2 in ("int", "nat"):
                a1 = a1 if k1 == "int" else f"(({a1} : Nat) : Int)"
                a2 = a2 if k2 == "int" else f"(({a2} : Nat) : Int)"
                if type(n.op) in (ast.Add, ast.Sub, ast.Mult):
                    op = {ast.Add: "+", ast.Sub: "-", ast.Mult: "*"}[type(n.op)]
                    return b1 + b2, f"({a1} {op} {a2})", "int"
                if isinstance(n.op, ast.FloorDiv):
                    t = self.fresh()
                    return b1 + b2 + [("ok", t, f"floorDiv {a1} {a2}")], t, "int"
        raise Untranslatable(f"expression `{s}`")

    def as_bytes(self, term: str, kind: str, node: ast.AST) -> str:
        if kind == "bytes":
            return term
        if kind == "val" and isinstance(node, ast.Name) and node.id in self.known_str:
            return f"{term}.strBytes"
        raise Untranslatable(f"`{ast.unparse(node)}` is not known to be a string here")

    @staticmethod
    def as_val(term: str, kind: str) -> str:
        if kind == "val":
            return term
        if kind == "bytes":
            return f"(PyVal.str {term})"
        if kind in ("int", "nat"):
            return f"(PyVal.int {term})"
        raise Untranslatable(f"a {kind} is not a header value")

    _defaults_cache: dict[str, dict[str, ast.AST]] = {}

    def defaults(self, fname: str) -> dict[str, ast.AST]:
        return F._defaults_cache.get(fname, {})

    # condition -> (binds, Lean Prop)
    def cond(self, n: ast.AST):
        s = ast.unparse(n)
        if isinstance(n, ast.BoolOp):
            parts = [self.cond(v) for v in n.values]
            if any(b for b, _ in parts[1:]):
                raise Untranslatable(f"`{s}`: a right operand that can raise")      # short-circuit evaluation
            op = " ∧ " if isinstance(n.op, ast.And) else " ∨ "
            return parts[0][0], "(" + op.join(p for _, p in parts) + ")"
        if isinstance(n, ast.UnaryOp) and isinstance(n.op, ast.Not):
            b, p = self.cond(n.operand)
            return b, f"¬ {p}"
        if isinstance(n, ast.Compare) and len(n.ops) == 1:
            l, r, op = n.left, n.comparators[0], n.ops[0]
            if isinstance(op, (ast.In, ast.NotIn)) and ast.unparse(r) == "header_keys":
                b, a, k = self.ex(l)
                if k != "bytes":
                    raise Untranslatable(f"`{s}`")
                return b, (f"isKey {a} = true" if isinstance(op, ast.In) else f"isKey {a} = false")
            if isinstance(op, (ast.Is, ast.IsNot)) and isinstance(r, ast.Constant) and r.value is None \
                    and isinstance(l, ast.Name) and self.kinds.get(l.id) == "optval":
                return [], (f"{l.id} = none" if isinstance(op, ast.Is) else f"{l.id} ≠ none")
            if isinstance(op, (ast.Eq, ast.NotEq)):
                b1, a1, k1 = self.ex(l)
                b2, a2, k2 = self.ex(r, "fmt" if k1 == "fmt" else None)
                rel = "=" if isinstance(op, ast.Eq) else "≠"
                if k1 == k2 and k1 in ("bytes", "fmt", "int", "val"):
                    return b1 + b2, f"{a1} {rel} {a2}"
                if {k1, k2} == {"val", "int"}:
                    v, i = (a1, a2) if k1 == "val" else (a2, a1)
                    return b1 + b2, f"{v} {rel} PyVal.int {i}"
        if isinstance(n, ast.Call):
            b, p, k = self.ex(n)
            if k == "prop":
                return b, p
        raise Untranslatable(f"condition `{s}`")

    # ------------------------------------------------------------------ statements
    def wrap(self, binds, ind: str, cont: str) -> str:
        """the continuation `cont` (complete Lean text) under the binds: a monadic step is `bindE m (fun x => …)`,
        a pair is taken apart with projections (no `match`: generated terms only use the shared combinators of
        `CodecPrims`, so that two translations of the same source are syntactically comparable)"""
        if not binds:
            return cont
        (kind, pat, term), rest = binds[0], binds[1:]
        inner = self.wrap(rest, ind, cont)
        if pat.startswith("("):
            names = [x.strip() for x in pat.strip("()").split(",")]
            self.n += 1
            r = f"r{self.n}"
            proj = "".join(f"{ind}let {nm} := {r}{self.proj(i, len(names))}\n" for i, nm in enumerate(names))
        else:
            r, proj = pat, ""
        if kind == "ok":
            return f"{ind}bindE ({term}) (fun {r} =>\n{proj}{inner})"
        return f"{ind}let {r} := {term}\n{proj}{inner}"

    @staticmethod
    def proj(i: int, n: int) -> str:
        return ".2" * i + (".1" if i < n - 1 else "")

    @staticmethod
    def raised(body) -> str | None:
        if body and isinstance(body[-1], ast.Raise) and all(isinstance(x, (ast.Assign, ast.Raise)) for x in body):
            r = body[-1].exc
            return ast.unparse(r.func) if isinstance(r, ast.Call) else ast.unparse(r)
        return None

    def unpack_state(self, st: str, names: list[str], ind: str) -> str:
        return "".join(f"{ind}let {nm} := {st}{self.proj(i, len(names))}\n" for i, nm in enumerate(names))

    @staticmethod
    def tup(names: list[str]) -> str:
        return "(" + ", ".join(names) + ")" if len(names) != 1 else names[0]

    def block(self, stmts, ind: str, tail: str) -> str:
        if not stmts:
            return ind + tail
        st, rest = stmts[0], stmts[1:]
        src = ast.unparse(st)
        if isinstance(st, ast.Expr) and isinstance(st.value, ast.Constant):      # docstring
            return self.block(rest, ind, tail)
        # glue: path validation (no effect on the bytes)
        if isinstance(st, ast.Assign) and isinstance(st.value, ast.Call) and ast.unparse(st.value.func) == "validate_path":
            self.kinds[ast.unparse(st.targets[0])] = "path"
            return self.block(rest, ind, tail)
        if isinstance(st, ast.With) and len(st.items) == 1 and isinstance(st.items[0].context_expr, ast.Call) \
                and ast.unparse(st.items[0].context_expr.func).endswith(".open") \
                and ast.unparse(st.items[0].optional_vars) == "fp":
            mode = ast.literal_eval(st.items[0].context_expr.args[0]) if st.items[0].context_expr.args else "r"
            if mode not in ("rb", "rb+"):
                raise Untranslatable(f"open mode {mode!r}")
            self.kinds["fp"] = "fp"
            self.uses_fp = True
            self.writable = mode == "rb+"
            head = f"{ind}let fp : Fp := ⟨{self.file_var}, 0⟩\n"
            # the body runs, then the file is closed; what follows the `with` sees the locals
            return head + self.block(list(st.body) + rest, ind, tail)
        if isinstance(st, ast.Return):
            if st.value is None:
                return ind + tail
            b, a, k = self.ex(st.value)
            rk = SIGS[self.fn.name][1]
            if k != rk:
                raise Untranslatable(f"`{src}`: returns a {k}, expected {rk}")
            return self.wrap(b, ind, f"{ind}.ok ({a}, fp)" if self.fn.name == "_read_string" else f"{ind}.ok {a}")
        if isinstance(st, ast.Break):
            if self.loop_pack is None:
                raise Untranslatable("break outside a loop")
            return f"{ind}.ok (false, {self.loop_pack})"
        if isinstance(st, ast.Continue):
            if self.for_pack is None:
                raise Untranslatable("continue outside a for loop")
            return f"{ind}.ok {self.for_pack}"
        if isinstance(st, ast.Try) and len(st.body) == 1 and len(st.handlers) == 1 and not st.orelse and not st.finalbody \
                and ast.unparse(st.handlers[0].type) == "struct.error" and self.raised(st.handlers[0].body) \
                and isinstance(st.body[0], ast.Assign) and isinstance(st.body[0].value, ast.Call) \
                and ast.unparse(st.body[0].value.func) == "_read_string":
            exc = self.raised(st.handlers[0].body)
            name = ast.unparse(st.body[0].targets[0])
            self.kinds[name] = "bytes"
            cont = self.block(rest, ind, tail)
            return self.wrap([("ok", f"({name}, fp)", f"catchAs (_read_string fp) \"struct.error\" \"{exc}\"")], ind, cont)
        if isinstance(st, ast.While) and ast.unparse(st.test) == "True" and not st.orelse:
            if self.loop_pack is not None or self.for_pack is not None:
                raise Untranslatable("nested loop")
            carried = (["fp"] if self.uses_fp else []) + [v for v in self.assigned(st.body) if v != "fp"]
            pack = self.tup(carried)
            self.loop_pack = pack
            saved = dict(self.kinds)
            body = self.block(list(st.body), ind + "    ", f".ok (true, {pack})")
            self.loop_pack = None
            self.kinds = {k: v for k, v in self.kinds.items() if k in saved}
            cont = self.block(rest, ind, tail)
            self.n += 1
            r = f"r{self.n}"
            return (f"{ind}bindE (whileFuel (fp.data.length + 1) {pack} (fun st =>\n"
                    + self.unpack_state("st", carried, ind + "    ") + body + f")) (fun {r} =>\n"
                    + self.unpack_state(r, carried, ind) + cont + ")")
        if isinstance(st, ast.For) and isinstance(st.iter, ast.Call) and isinstance(st.iter.func, ast.Attribute) \
                and st.iter.func.attr == "items" and isinstance(st.target, ast.Tuple) and len(st.target.elts) == 2 \
                and not st.orelse:
            d = ast.unparse(st.iter.func.value)
            if self.kinds.get(d) != "dict" or self.loop_pack is not None or self.for_pack is not None:
                raise Untranslatable(f"`for` over `{d}`")
            kn, vn = (ast.unparse(e) for e in st.target.elts)
            carried = self.assigned(st.body)
            if len(carried) != 1:
                raise Untranslatable(f"`for` loop carrying {carried}")
            pack = carried[0]
            saved = dict(self.kinds)
            self.kinds[kn], self.kinds[vn] = "bytes", "val"
            self.for_pack = pack
            body = self.block(list(st.body), ind + "    ", f".ok {pack}")
            self.for_pack = None
            self.kinds = saved
            cont = self.block(rest, ind, tail)
            return (f"{ind}bindE (forItems {d} {pack} (fun {kn} {vn} {pack} =>\n{body})) (fun {pack} =>\n{cont})")
        if isinstance(st, ast.If):
            exc = self.raised(st.body)
            b, c = self.cond(st.test)
            if exc and not st.orelse:
                return self.wrap(b, ind, f"{ind}if {c} then .error \"{exc}\" else\n" + self.block(rest, ind, tail))
            none_test = (isinstance(st.test, ast.Compare) and isinstance(st.test.ops[0], ast.Is)
                         and isinstance(st.test.left, ast.Name) and self.kinds.get(st.test.left.id) == "optval")
            ends = lambda body: bool(body) and isinstance(body[-1], (ast.Return, ast.Break, ast.Continue, ast.Raise))  # noqa: E731
            if none_test and ends(st.body) and not st.orelse:
                v = st.test.left.id
                a = self.block(list(st.body), ind + "  ", tail)
                self.some.add(v)
                bb = self.block(rest, ind + "  ", tail)
                return self.wrap(b, ind, f"{ind}optCases {v} (\n{a}) (fun {v}_v =>\n{bb})")
            strs = self.str_facts(st.test)
            if ends(st.body) and not st.orelse:
                saved_k, saved_s = dict(self.kinds), set(self.known_str)
                self.known_str |= strs
                a = self.block(list(st.body), ind + "  ", tail)
                self.kinds, self.known_str = saved_k, saved_s
                bb = self.block(rest, ind + "  ", tail)
                return self.wrap(b, ind, f"{ind}if {c} then\n{a}\n{ind}else\n{bb}")
            if st.orelse and self.raised(st.orelse) and not ends(st.body):
                # `if ok: <do it> else: raise`: what follows the statement only runs after the first branch
                a = self.block(list(st.body) + rest, ind + "  ", tail)
                return self.wrap(b, ind, f"{ind}if {c} then\n{a}\n{ind}else\n{ind}  .error \"{self.raised(st.orelse)}\"")
            if st.orelse and ends(st.body) and ends(st.orelse) and self.raised(st.orelse):
                a = self.block(list(st.body), ind + "  ", tail)
                return self.wrap(b, ind, f"{ind}if {c} then\n{a}\n{ind}else\n{ind}  .error \"{self.raised(st.orelse)}\"")
            # general if / else assigning locals: both branches join
            assigned = self.assigned(st.body + st.orelse)
            if self.uses_fp and "fp" not in assigned and self.touches_fp(st.body + st.orelse):
                assigned = ["fp"] + assigned
            used_later = {x.id for r2 in rest for x in ast.walk(r2) if isinstance(x, ast.Name)} | {"fp"}
            if self.loop_pack or self.for_pack:
                used_later |= set((self.loop_pack or self.for_pack).strip("()").split(", "))
            assigned = [v for v in assigned if v in used_later]
            vals = self.tup(assigned) if assigned else "()"

            def branch(body, extra_str):
                saved_k, saved_s = dict(self.kinds), set(self.known_str)
                self.known_str |= extra_str
                txt = self.block(list(body), ind + "    ", f".ok {vals}")
                kinds_after = dict(self.kinds)
                self.kinds, self.known_str = saved_k, saved_s
                return txt, kinds_after
            a, ka = branch(st.body, strs)
            if st.orelse:
                bb, kb = branch(st.orelse, set())
            else:
                bb, kb = f"{ind}    .ok {vals}", dict(self.kinds)
            for v in assigned:
                if v == "fp":
                    continue
                k1, k2 = ka.get(v), kb.get(v)
                if k1 is None or k2 is None or k1 != k2:
                    raise Untranslatable(f"`{v}` is not assigned the same kind of value on every path of the `if`")
                self.kinds[v] = k1
            ty = " × ".join(LEAN_TY[self.kinds.get(v, "fp")] if v != "fp" else "Fp" for v in assigned) or "Unit"
            cont = self.block(rest, ind, tail)
            self.n += 1
            r = f"r{self.n}"
            return self.wrap(b, ind, f"{ind}bindE (if {c} then\n{a}\n{ind}  else\n{bb} : Except String ({ty})) (fun {r} =>\n"
                             + self.unpack_state(r, assigned, ind) + cont + ")")
        if isinstance(st, ast.AnnAssign) and st.value is not None:
            st = ast.Assign(targets=[st.target], value=st.value)
        if isinstance(st, ast.AugAssign) and isinstance(st.target, ast.Name) and isinstance(st.op, ast.Add):
            st = ast.Assign(targets=[st.target], value=ast.BinOp(left=ast.Name(id=st.target.id, ctx=ast.Load()),
                                                                 op=ast.Add(), right=st.value))
        if isinstance(st, ast.Assign) and len(st.targets) == 1:
            tgt = st.targets[0]
            if isinstance(tgt, ast.Name):
                if tgt.id == "msg":
                    return self.block(rest, ind, tail)
                if isinstance(st.value, ast.Dict) and not st.value.keys:
                    self.kinds[tgt.id] = "dict"
                    return f"{ind}let {tgt.id} : Dict := []\n" + self.block(rest, ind, tail)
                b, a, k = self.ex(st.value)
                old = self.kinds.get(tgt.id)
                if old == "val" and k == "bytes":              # a str value re-bound to a new string
                    a, k = f"(PyVal.str {a})", "val"
                    self.known_str.add(tgt.id)
                elif old is not None and old != k and old != "path":
                    raise Untranslatable(f"`{tgt.id}` changes kind ({old} -> {k})")
                self.kinds[tgt.id] = k
                return self.wrap(b, ind, f"{ind}let {tgt.id} : {LEAN_TY[k]} := {a}\n" + self.block(rest, ind, tail))
            if isinstance(tgt, ast.Subscript) and isinstance(tgt.value, ast.Name) and self.kinds.get(tgt.value.id) == "dict":
                d = tgt.value.id
                if isinstance(tgt.slice, ast.Constant) and tgt.slice.value == "filename":
                    return self.block(rest, ind, tail)        # the path string: not part of the byte-level model
                b1, kx, kk = self.ex(tgt.slice)
                if kk != "bytes":
                    raise Untranslatable(f"`{src}`")
                b2, a, k = self.ex(st.value)
                return self.wrap(b1 + b2, ind, f"{ind}let {d} : Dict := Dict.set {d} {kx} {self.as_val(a, k)}\n"
                                 + self.block(rest, ind, tail))
        if isinstance(st, ast.Expr) and isinstance(st.value, ast.Call):
            call = st.value
            f = ast.unparse(call.func)
            if f == "fp.seek":
                args = [ast.unparse(a) for a in call.args]
                if args == ["0"]:
                    return f"{ind}let fp : Fp := {{ fp with pos := 0 }}\n" + self.block(rest, ind, tail)
                if args == ["0", "2"] or args == ["0", "os.SEEK_END"]:
                    return f"{ind}let fp : Fp := {{ fp with pos := fp.data.length }}\n" + self.block(rest, ind, tail)
                raise Untranslatable(f"`{src}`")
            if f == "fp.write" and len(call.args) == 1:
                if not getattr(self, "writable", False):
                    raise Untranslatable("write to a file opened read-only")
                b, a, k = self.ex(call.args[0])
                if k != "bytes":
                    raise Untranslatable(f"`{src}`")
                self.wrote_file = True
                return self.wrap(b, ind, f"{ind}let fp : Fp := fp.write {a}\n" + self.block(rest, ind, tail))
            if isinstance(call.func, ast.Attribute) and call.func.attr == "update" and len(call.args) == 1 \
                    and isinstance(call.args[0], ast.Dict) and len(call.args[0].keys) == 1 \
                    and self.kinds.get(ast.unparse(call.func.value)) == "dict":
                d = ast.unparse(call.func.value)
                b1, kx, kk = self.ex(call.args[0].keys[0])
                b2, a, k = self.ex(call.args[0].values[0])
                if kk != "bytes":
                    raise Untranslatable(f"`{src}`")
                return self.wrap(b1 + b2, ind, f"{ind}let {d} : Dict := Dict.set {d} {kx} {self.as_val(a, k)}\n"
                                 + self.block(rest, ind, tail))
        raise Untranslatable(f"statement `{src[:80]}`")

    def str_facts(self, test: ast.AST) -> set[str]:
        """variables a true `test` shows to be `str` (conjuncts `isinstance(v, str)`)"""
        out = set()
        parts = test.values if isinstance(test, ast.BoolOp) and isinstance(test.op, ast.And) else [test]
        for p in parts:
            if isinstance(p, ast.Call) and ast.unparse(p.func) == "isinstance" and ast.unparse(p.args[1]) == "str" \
                    and isinstance(p.args[0], ast.Name):
                out.add(p.args[0].id)
        return out

    @staticmethod
    def touches_fp(stmts) -> bool:
        return any(isinstance(x, ast.Name) and x.id == "fp" for s in stmts for x in ast.walk(s))

    @staticmethod
    def wrote_file_in(stmts) -> bool:
        return any(isinstance(x, ast.Call) and ast.unparse(x.func) == "fp.write" for s in stmts for x in ast.walk(s))

    def assigned(self, stmts) -> list[str]:
        out: list[str] = []
        for s in stmts:
            for node in ast.walk(s):
                t = None
                if isinstance(node, ast.Assign) and len(node.targets) == 1:
                    t = node.targets[0]
                elif isinstance(node, (ast.AugAssign, ast.AnnAssign)):
                    t = node.target
                if isinstance(t, ast.Subscript) and isinstance(t.value, ast.Name):
                    t = t.value
                if isinstance(t, ast.Name) and t.id in self.kinds and t.id not in out and t.id != "msg" \
                        and self.kinds[t.id] != "path":
                    out.append(t.id)
        return out

    def translate(self) -> str:
        params, rk = SIGS[self.fn.name]
        got = [a.arg for a in self.fn.args.args + self.fn.args.kwonlyargs]
        if got != [p for p, _ in params]:
            raise Untranslatable(f"parameters {got}")
        for p, k in params:
            self.kinds[p] = k
            if k == "file":
                self.file_var = p
        defaults = {}
        pos = self.fn.args.args
        for a, d in zip(pos[len(pos) - len(self.fn.args.defaults):], self.fn.args.defaults):
            defaults[a.arg] = d
        F._defaults_cache[self.fn.name] = defaults
        if self.fn.name == "edit_header":
            # the function ends by falling off the `with`: the result is the file as the handle leaves it
            tail = ".ok fp.data"
        else:
            tail = ".error \"no return\""
        body = self.block(list(self.fn.body), "  ", tail)
        if self.fn.name == "edit_header" and not self.wrote_file:
            raise Untranslatable("no write to the file")
        sig = " ".join(f"({p} : {LEAN_TY[k]})" for p, k in params)
        rty = "Bytes × Fp" if self.fn.name == "_read_string" else LEAN_TY[rk]
        return f"def {self.fn.name} {sig} : Except String ({rty}) :=\n{body}\n"


def _prepare(fn: ast.FunctionDef, tree: ast.Module) -> ast.FunctionDef:
    """source normalisation before the statement-by-statement translation: calls of private helpers the translator
    does not know (`_encode_string`, `_read_value`, … extracted by a refactor) are hoisted to statement level and
    inlined; `d[k] = v` is written `d.update({k: v})`-free (both are `Dict.set`).  The functions of ORDER are
    never inlined: they are translated themselves."""
    import copy
    import normalize
    known = set(ORDER)
    helpers = {n.name for n in tree.body if isinstance(n, ast.FunctionDef) and n.name.startswith("_") and n.name not in known}
    fn = copy.deepcopy(fn)
    counter = [0]

    def hoist(stmts):
        out = []
        for st in stmts:
            pre = []
            if isinstance(st, (ast.Return, ast.Assign, ast.AugAssign)) and st.value is not None:
                top = st.value

                class H(ast.NodeTransformer):
                    def visit_Call(self, node):
                        node = self.generic_visit(node)
                        if isinstance(node.func, ast.Name) and node.func.id in helpers and not node.keywords \
                                and not (node is top and isinstance(st, ast.Assign)):
                            counter[0] += 1
                            nm = f"h{counter[0]}_{node.func.id.strip('_')}"
                            pre.append(ast.Assign(targets=[ast.Name(id=nm, ctx=ast.Store())], value=node))
                            return ast.Name(id=nm, ctx=ast.Load())
                        return node
                st.value = H().visit(st.value)
            for fld in ("body", "orelse", "finalbody"):
                sub = getattr(st, fld, None)
                if isinstance(sub, list) and sub and isinstance(sub[0], ast.stmt):
                    setattr(st, fld, hoist(sub))
            out += pre + [st]
        return out
    fn.body = hoist(fn.body)
    ast.fix_missing_locations(fn)
    sub = ast.Module(body=[n for n in tree.body if not (isinstance(n, ast.FunctionDef) and n.name in known)], type_ignores=[])
    return normalize.inline_helpers(fn, sub)


def translate_codec(tree: ast.Module):
    """yield (name, lean text | Untranslatable)"""
    fns = {n.name: n for n in tree.body if isinstance(n, ast.FunctionDef)}
    done: set[str] = set()
    for name in ORDER:
        try:
            if name not in fns:
                raise Untranslatable(f"function {name} not found")
            text = F(_prepare(fns[name], tree), done).translate()
            done.add(name)
            yield name, text
        except Untranslatable as e:
            yield name, e


def stub(name: str) -> str:
    params, rk = SIGS[name]
    sig = " ".join(f"(_{p} : {LEAN_TY[k]})" for p, k in params)
    rty = "Bytes × Fp" if name == "_read_string" else LEAN_TY[rk]
    return f"def {name} {sig} : Except String ({rty}) := .error \"untranslated\"\n"


# ----------------------------------------------------------------------------------------------------------------
# parse_radec (numeric part), frame flags, id defaults
# ----------------------------------------------------------------------------------------------------------------

def translate_radec(fn: ast.FunctionDef) -> str:
    """`parse_radec`: the fields substituted into the coordinate string, in order, over exact rationals"""
    env: dict[str, str] = {"src_raj": "src_raj", "src_dej": "src_dej"}
    lines: list[str] = []

    def q(n: ast.AST) -> str:
        if isinstance(n, ast.Name) and n.id in env:
            return env[n.id]
        if isinstance(n, ast.Constant) and isinstance(n.value, (int, float)) and float(n.value).is_integer():
            return f"({int(n.value)} : Rat)"
        if isinstance(n, ast.Call) and ast.unparse(n.func) == "abs" and len(n.args) == 1:
            a = q(n.args[0])
            return f"(if {a} < 0 then -{a} else {a})"
        if isinstance(n, ast.UnaryOp) and isinstance(n.op, ast.USub):
            return f"(-{q(n.operand)})"
        raise Untranslatable(f"parse_radec: `{ast.unparse(n)}`")

    fields = None
    cnt = 0
    fstrings: dict[str, ast.JoinedStr] = {}
    stmts: list[ast.stmt] = []
    for st in fn.body:
        if isinstance(st, ast.Return) and isinstance(st.value, ast.Call) and st.value.args \
                and isinstance(st.value.args[0], ast.JoinedStr) and "SkyCoord" in ast.unparse(st.value.func):
            # `return SkyCoord(f"…", unit=…)`: the string is built in the call
            stmts.append(ast.Assign(targets=[ast.Name(id="radec_str", ctx=ast.Store())], value=st.value.args[0]))
            stmts.append(ast.Return(value=ast.Call(func=st.value.func, args=[ast.Name(id="radec_str", ctx=ast.Load())],
                                                   keywords=st.value.keywords)))
        else:
            stmts.append(st)

    def flat(js: ast.JoinedStr) -> list[ast.AST]:
        vals: list[ast.AST] = []
        for p in js.values:
            if isinstance(p, ast.FormattedValue) and isinstance(p.value, ast.Name) and p.value.id in fstrings \
                    and p.format_spec is None and p.conversion == -1:
                vals += flat(fstrings[p.value.id])          # a string built earlier is spliced where it is used
            else:
                vals.append(p)
        out2: list[ast.AST] = []
        for p in vals:
            if isinstance(p, ast.Constant) and out2 and isinstance(out2[-1], ast.Constant):
                out2[-1] = ast.Constant(value=out2[-1].value + p.value)
            else:
                out2.append(p)
        return out2

    for st in stmts:
        if isinstance(st, ast.Expr) and isinstance(st.value, ast.Constant):
            continue
        if isinstance(st, ast.Assign) and isinstance(st.targets[0], ast.Tuple) and isinstance(st.value, ast.Call) \
                and ast.unparse(st.value.func) == "divmod" and len(st.value.args) == 2 and len(st.targets[0].elts) == 2:
            a, b = q(st.value.args[0]), q(st.value.args[1])
            cnt += 1
            names = ("ho", "mi", "mi", "se", "de", "ami", "ami", "ase")      # canonical names by position
            qn, rn = (f"{names[2 * (cnt - 1) + i] if cnt <= 4 else e.id}{cnt}" for i, e in enumerate(st.targets[0].elts))
            lines.append(f"  let {qn} : Rat := ((({a} / {b}).floor : Int) : Rat)")
            lines.append(f"  let {rn} : Rat := {a} - {b} * {qn}")
            env[st.targets[0].elts[0].id], env[st.targets[0].elts[1].id] = qn, rn
            continue
        if isinstance(st, ast.Assign) and isinstance(st.targets[0], ast.Name) and isinstance(st.value, ast.IfExp):
            v = st.value
            if isinstance(v.body, ast.Constant) and isinstance(v.orelse, ast.Constant) and {v.body.value, v.orelse.value} == {"-", "+"} \
                    and isinstance(v.test, ast.Compare) and len(v.test.ops) == 1 and isinstance(v.test.ops[0], ast.Lt) \
                    and ast.unparse(v.test.comparators[0]) == "0":
                c = f"decide ({q(v.test.left)} < 0)"
                lines.append("  let sign : Bool := " + (c if v.body.value == "-" else f"!{c}"))
                env[st.targets[0].id] = "sign!"      # marks a sign variable
                continue
        if isinstance(st, ast.If) and len(st.body) == 1 and len(st.orelse) == 1 \
                and all(isinstance(x, ast.Assign) and isinstance(x.targets[0], ast.Name) and isinstance(x.value, ast.Constant)
                        for x in (st.body[0], st.orelse[0])) and st.body[0].targets[0].id == st.orelse[0].targets[0].id:
            # `if c: sign = "-" else: sign = "+"` is the conditional expression
            stmts_ifexp = ast.Assign(targets=[st.body[0].targets[0]],
                                     value=ast.IfExp(test=st.test, body=st.body[0].value, orelse=st.orelse[0].value))
            v = stmts_ifexp.value
            if isinstance(v.test, ast.Compare) and len(v.test.ops) == 1 and isinstance(v.test.ops[0], ast.Lt) \
                    and ast.unparse(v.test.comparators[0]) == "0" and {v.body.value, v.orelse.value} == {"-", "+"}:
                c = f"decide ({q(v.test.left)} < 0)"
                lines.append("  let sign : Bool := " + (c if v.body.value == "-" else f"!{c}"))
                env[st.body[0].targets[0].id] = "sign!"
                continue
        if isinstance(st, ast.Assign) and isinstance(st.value, ast.JoinedStr) and isinstance(st.targets[0], ast.Name):
            values = flat(st.value)
            if sum(isinstance(k, ast.FormattedValue) for k in values) != 7:
                fstrings[st.targets[0].id] = ast.JoinedStr(values=values)     # a partial string
                continue
            parts = []
            for p in values:
                if isinstance(p, ast.Constant):
                    parts.append(("lit", p.value))
                elif isinstance(p, ast.FormattedValue) and p.format_spec is None and p.conversion == -1:
                    v = p.value
                    if isinstance(v, ast.Call) and ast.unparse(v.func) == "int" and len(v.args) == 1:
                        parts.append(("int", q(v.args[0])))
                    elif isinstance(v, ast.Name) and env.get(v.id, "").endswith("!"):
                        parts.append(("sign", "sign"))
                    else:
                        parts.append(("rat", q(v)))
                else:
                    raise Untranslatable("parse_radec: format string")
            kinds = [k for k, _ in parts if k != "lit"]
            lits = [v for k, v in parts if k == "lit"]
            if kinds != ["int", "int", "rat", "sign", "int", "int", "rat"] or any(x != " " for x in lits) or len(lits) != 5:
                raise Untranslatable(f"parse_radec: coordinate string has fields {kinds} separated by {lits}")
            fields = [v for k, v in parts if k != "lit"]
            continue
        if isinstance(st, ast.Return) and fields is not None and "SkyCoord" in ast.unparse(st.value) \
                and "hourangle" in ast.unparse(st.value) and "units.deg" in ast.unparse(st.value):
            continue
        raise Untranslatable(f"parse_radec: `{ast.unparse(st)[:60]}`")
    if fields is None:
        raise Untranslatable("parse_radec: no coordinate string")
    ho, mi, se, sg, de, ami, ase = fields
    return ("/-- `parse_radec`: the fields of the string handed to `SkyCoord(…, unit=(hourangle, deg))`: "
            "`(h, m, s)` and `(negative?, d, m, s)` -/\n"
            "def parse_radec (src_raj src_dej : Rat) : (Int × Int × Rat) × (Bool × Int × Int × Rat) :=\n"
            + "\n".join(lines) + f"\n  ((truncQ {ho}, truncQ {mi}, {se}), ({sg}, truncQ {de}, truncQ {ami}, {ase}))\n")


def translate_frames(hdr_tree: ast.Module) -> list[tuple[str, str | Untranslatable]]:
    """frame flags written by `to_sigproc`, frame chosen by `from_sigproc`, id defaults"""
    out = []
    cls = next((n for n in hdr_tree.body if isinstance(n, ast.ClassDef) and n.name == "Header"), None)
    fns = {m.name: m for m in cls.body if isinstance(m, ast.FunctionDef)} if cls else {}

    # to_sigproc: "pulsarcentric": 1 if self.frame == "pulsarcentric" else 0, …
    try:
        fn = fns["to_sigproc"]
        flags = {}
        for node in ast.walk(fn):
            if isinstance(node, ast.Dict):
                for k, v in zip(node.keys, node.values):
                    if isinstance(k, ast.Constant) and k.value in ("pulsarcentric", "barycentric"):
                        if isinstance(v, ast.Call) and ast.unparse(v.func) == "int" and len(v.args) == 1 \
                                and isinstance(v.args[0], ast.Compare):
                            # int(cond) is `1 if cond else 0`
                            v = ast.IfExp(test=v.args[0], body=ast.Constant(value=1), orelse=ast.Constant(value=0))
                        if not (isinstance(v, ast.IfExp) and isinstance(v.test, ast.Compare) and len(v.test.ops) == 1
                                and isinstance(v.test.ops[0], ast.Eq) and ast.unparse(v.test.left) == "self.frame"
                                and isinstance(v.test.comparators[0], ast.Constant)
                                and isinstance(v.body, ast.Constant) and isinstance(v.orelse, ast.Constant)):
                            raise Untranslatable(f"to_sigproc flag `{ast.unparse(v)}`")
                        flags[k.value] = (v.test.comparators[0].value, v.body.value, v.orelse.value)
        if set(flags) != {"pulsarcentric", "barycentric"}:
            raise Untranslatable("to_sigproc: frame flags not found")
        p, b = flags["pulsarcentric"], flags["barycentric"]
        out.append(("flags_of_frame",
                    "/-- `to_sigproc`: the `(pulsarcentric, barycentric)` flags written for a frame -/\n"
                    "def flagsOfFrame (frame : String) : Int × Int :=\n"
                    f"  ((if frame = \"{p[0]}\" then {p[1]} else {p[2]}), (if frame = \"{b[0]}\" then {b[1]} else {b[2]}))\n"))
    except (Untranslatable, KeyError) as e:
        out.append(("flags_of_frame", e if isinstance(e, Untranslatable) else Untranslatable("to_sigproc not found")))

    # from_sigproc: if header.get("pulsarcentric"): frame = … elif header.get("barycentric"): … else: …
    for fname, tag in (("from_sigproc", "frame_of_flags"), ):
        try:
            fn = fns[fname]
            chain = next((s for s in fn.body if isinstance(s, ast.If)
                          and any(isinstance(x, ast.Assign) and ast.unparse(x.targets[0]) == "frame" for x in s.body)), None)
            if chain is None:
                # `frame = _helper(header)` with `if header.get(..): return ".."; …; return ".."` in the helper
                call = next((s for s in fn.body if isinstance(s, ast.Assign) and ast.unparse(s.targets[0]) == "frame"
                             and isinstance(s.value, ast.Call) and isinstance(s.value.func, ast.Name)
                             and [ast.unparse(a) for a in s.value.args] == ["header"]), None)
                helper = next((n for n in hdr_tree.body if isinstance(n, ast.FunctionDef) and call is not None
                               and n.name == call.value.func.id), None)
                if helper is not None:
                    hb = [s for s in helper.body if not (isinstance(s, ast.Expr) and isinstance(s.value, ast.Constant))]
                    node = None
                    for s2 in reversed(hb):
                        if isinstance(s2, ast.Return) and node is None:
                            node = [ast.Assign(targets=[ast.Name(id="frame", ctx=ast.Store())], value=s2.value)]
                        elif isinstance(s2, ast.If) and not s2.orelse and len(s2.body) == 1 and isinstance(s2.body[0], ast.Return) \
                                and node is not None:
                            node = [ast.If(test=s2.test, body=[ast.Assign(targets=[ast.Name(id="frame", ctx=ast.Store())],
                                                                            value=s2.body[0].value)], orelse=node)]
                        else:
                            node = None
                            break
                    if node and isinstance(node[0], ast.If):
                        chain = node[0]
            if chain is None:
                raise Untranslatable(f"{fname}: no frame selection")
            arms = []
            node = chain
            while True:
                t = node.test
                if not (isinstance(t, ast.Call) and ast.unparse(t.func) == "header.get" and len(t.args) == 1
                        and isinstance(t.args[0], ast.Constant)):
                    raise Untranslatable(f"{fname}: test `{ast.unparse(t)}`")
                if not (len(node.body) == 1 and isinstance(node.body[0], ast.Assign) and isinstance(node.body[0].value, ast.Constant)):
                    raise Untranslatable(f"{fname}: branch")
                arms.append((t.args[0].value, node.body[0].value.value))
                if len(node.orelse) == 1 and isinstance(node.orelse[0], ast.If):
                    node = node.orelse[0]
                    continue
                if len(node.orelse) == 1 and isinstance(node.orelse[0], ast.Assign) and isinstance(node.orelse[0].value, ast.Constant):
                    default = node.orelse[0].value.value
                    break
                raise Untranslatable(f"{fname}: else branch")
            names = {"pulsarcentric": "pulsar", "barycentric": "bary"}
            if any(k not in names for k, _ in arms):
                raise Untranslatable(f"{fname}: flags {arms}")
            body = "".join(f"if {names[k]} ≠ 0 then \"{v}\" else " for k, v in arms) + f"\"{default}\""
            out.append((tag, "/-- `from_sigproc`: the frame read back from the two flags (a missing flag is falsy, like 0) -/\n"
                             f"def frameOfFlags (pulsar bary : Int) : String :=\n  {body}\n"))
        except (Untranslatable, KeyError) as e:
            out.append((tag, e if isinstance(e, Untranslatable) else Untranslatable(f"{fname} not found")))
        try:
            import re
            src = ast.unparse(fns[fname])
            m1 = re.search(r"telescope_ids\.inv\.get\(header\.get\('telescope_id', (\d+)\), '([^']*)'\)", src)
            m2 = re.search(r"machine_ids\.inv\.get\(header\.get\('machine_id', (\d+)\), '([^']*)'\)", src)
            if not (m1 and m2):
                raise Untranslatable(f"{fname}: id lookups")
            out.append(("id_defaults",
                        f"def telescopeDefaultId : Nat := {m1.group(1)}\ndef telescopeDefaultName : String := \"{m1.group(2)}\"\n"
                        f"def machineDefaultId : Nat := {m2.group(1)}\ndef machineDefaultName : String := \"{m2.group(2)}\"\n"))
        except (Untranslatable, KeyError) as e:
            out.append(("id_defaults", e if isinstance(e, Untranslatable) else Untranslatable(f"{fname} not found")))
    # Header.telescope_id / machine_id: sigproc.telescope_ids.get(self.telescope, 0)
    try:
        import re
        t = ast.unparse(fns["telescope_id"])
        m = ast.unparse(fns["machine_id"])
        m1 = re.search(r"return sigproc\.telescope_ids\.get\(self\.telescope, (\d+)\)", t)
        m2 = re.search(r"return sigproc\.machine_ids\.get\(self\.backend, (\d+)\)", m)
        if not (m1 and m2):
            raise Untranslatable("telescope_id / machine_id properties")
        out.append(("id_of_name", f"def telescopeUnknownId : Nat := {m1.group(1)}\ndef machineUnknownId : Nat := {m2.group(1)}\n"))
    except (Untranslatable, KeyError) as e:
        out.append(("id_of_name", e if isinstance(e, Untranslatable) else Untranslatable("id properties not found")))
    return out


FRAME_STUBS = {
    "flags_of_frame": "def flagsOfFrame (_frame : String) : Int × Int := (0, 0)\n",
    "frame_of_flags": "def frameOfFlags (_pulsar _bary : Int) : String := \"\"\n",
    "id_defaults": ("def telescopeDefaultId : Nat := 0\ndef telescopeDefaultName : String := \"\"\n"
                    "def machineDefaultId : Nat := 0\ndef machineDefaultName : String := \"\"\n"),
    "id_of_name": "def telescopeUnknownId : Nat := 0\ndef machineUnknownId : Nat := 0\n",
}
RADEC_STUB = ("def parse_radec (_src_raj _src_dej : Rat) : (Int × Int × Rat) × (Bool × Int × Int × Rat) := "
              "((0, 0, 0), (false, 0, 0, 0))\n")

"""Python loop nests (numba kernels) -> Lean definitions over functional arrays.

Supported subset (anything else raises Untranslatable, which the caller turns
into a failing obligation):

  parameters   `x: np.ndarray` (array), `x: int` (Nat), `x: float` (Rat)
  statements   `v = e`, `v += e`, `a[i] = e`, `a[i] += e`,
               `for v in range(e)` / `prange(e)`, `if c:` (no else),
               `a = np.empty(n, ...)` / `np.zeros(n, ...)` / `np.empty_like(b)`,
               `out[a:b] = src[a:b][::-1]`, `return name`
  expressions  integer + - * // %, float /, float `//` (floor of the exact quotient),
               constants (floats as exact fractions), module-level float constants,
               `a[i]`, `np.sum(a[i:j])`, `len(a)`, `int(x)` (truncation; as an index: `.toNat`),
               `abs(int(x))`

Arrays become total functions `Nat → α` (`Loop.upd` for a store), loops become
`Loop.forRange n state (fun i state => …)` over the variables the body mutates,
integers are `Nat` (so `a - b` is truncated subtraction: every use in the
kernels is a loop bound, where Python's empty `range` of a negative number and
the truncated bound agree), floats are exact rationals.
"""
from __future__ import annotations

import ast

from pyexpr import Untranslatable

NAT, RAT, BOOL = "Nat", "Rat", "Bool"
INDEX_ARRAYS = {"delays", "chan_to_sub"}        # i4 arrays holding indices / sample delays (given non-negative)
BOOL_ARRAYS = {"mask"}


def rat_literal(x: float) -> str:
    """a non-negative Python float as the exact rational it denotes"""
    from fractions import Fraction
    fr = Fraction(x)
    if fr.denominator == 1:
        return f"({fr.numerator} : Rat)"
    return f"(({fr.numerator} : Rat) / ({fr.denominator} : Rat))"


def arr_ty(elem: str) -> str:
    return f"Nat → {elem}"


class Kernel:
    def __init__(self, fn: ast.FunctionDef, exec_twin: bool = False, consts: dict[str, float] | None = None):
        self.fn = fn
        self.exec_twin = exec_twin
        self.consts = dict(consts or {})     # module-level float constants
        self.name = fn.name
        self.types: dict[str, str] = {}      # scalar name -> NAT | RAT
        self.arrays: dict[str, str] = {}     # array name -> element type
        self.params: list[tuple[str, str]] = []
        self.extra_len: list[str] = []       # arrays whose len() is used
        self.fresh = 0

    # ------------------------------------------------------------------ types
    def declare_params(self):
        for a in self.fn.args.args:
            ann = ast.unparse(a.annotation) if a.annotation is not None else "?"
            if ann == "np.ndarray":
                el = NAT if a.arg in INDEX_ARRAYS else BOOL if a.arg in BOOL_ARRAYS else RAT
                self.arrays[a.arg] = el
                self.params.append((a.arg, arr_ty(el)))
            elif ann == "int":
                self.types[a.arg] = NAT
                self.params.append((a.arg, NAT))
            elif ann == "float":
                self.types[a.arg] = RAT
                self.params.append((a.arg, RAT))
            else:
                raise Untranslatable(f"parameter `{a.arg}: {ann}`")

    def infer_types(self):
        """fixpoint: a scalar assigned a Rat anywhere is a Rat everywhere"""
        for _ in range(6):
            changed = False
            for node in ast.walk(self.fn):
                tgt = val = None
                if isinstance(node, ast.Assign) and len(node.targets) == 1 and isinstance(node.targets[0], ast.Name):
                    tgt, val = node.targets[0].id, node.value
                elif isinstance(node, ast.AugAssign) and isinstance(node.target, ast.Name):
                    tgt, val = node.target.id, node.value
                elif isinstance(node, ast.For) and isinstance(node.target, ast.Name):
                    if self.types.get(node.target.id) != NAT:
                        self.types[node.target.id] = NAT
                        changed = True
                    continue
                if tgt is None:
                    continue
                if self._is_alloc(val) is not None:
                    if tgt not in self.arrays:
                        self.arrays[tgt] = RAT
                        changed = True
                    continue
                try:
                    t = self.type_of(val)
                except Untranslatable:
                    continue
                old = self.types.get(tgt)
                new = RAT if RAT in (old, t) else t
                if new != old:
                    self.types[tgt] = new
                    changed = True
            if not changed:
                return

    def _is_alloc(self, v: ast.AST):
        if isinstance(v, ast.Call):
            f = ast.unparse(v.func)
            if f in ("np.empty", "np.zeros") and v.args:
                return "sized"
            if f in ("np.empty_like", "np.zeros_like") and v.args:
                return "like"
        return None

    def type_of(self, n: ast.AST) -> str:
        if isinstance(n, ast.Constant):
            if isinstance(n.value, bool):
                raise Untranslatable("bool constant")
            if isinstance(n.value, int):
                return NAT
            if isinstance(n.value, float):
                return RAT
        if isinstance(n, ast.Name):
            if n.id in self.types:
                return self.types[n.id]
            if n.id in self.consts:
                return RAT
            raise Untranslatable(f"untyped name `{n.id}`")
        if isinstance(n, ast.BinOp):
            if isinstance(n.op, ast.Div):
                return RAT
            a, b = self.type_of(n.left), self.type_of(n.right)
            if isinstance(n.op, (ast.Add, ast.Sub, ast.Mult)):
                return NAT if a == b == NAT else RAT
            if isinstance(n.op, ast.FloorDiv):
                return NAT if a == b == NAT else RAT
            if isinstance(n.op, ast.Mod) and a == b == NAT:
                return NAT
        if isinstance(n, ast.Subscript) and isinstance(n.value, ast.Name) and n.value.id in self.arrays \
                and not isinstance(n.slice, ast.Slice):
            return self.arrays[n.value.id]
        if isinstance(n, ast.Call):
            f = ast.unparse(n.func)
            if f == "np.sum":
                return RAT
            if f == "len":
                return NAT
            if f == "int" and len(n.args) == 1:
                return NAT
            if f == "abs" and len(n.args) == 1 and isinstance(n.args[0], ast.Call) \
                    and ast.unparse(n.args[0].func) == "int":
                return NAT
        raise Untranslatable(f"cannot type `{ast.unparse(n)}`")

    # ------------------------------------------------------------ expressions
    def expr(self, n: ast.AST, want: str) -> str:
        text, t = self._expr(n)
        if t == want:
            return text
        if t == NAT and want == RAT:
            return f"(({text} : Nat) : Rat)"
        raise Untranslatable(f"`{ast.unparse(n)}` has type {t}, {want} expected")

    def _expr(self, n: ast.AST) -> tuple[str, str]:
        if isinstance(n, ast.Constant) and not isinstance(n.value, bool):
            if isinstance(n.value, int) and n.value >= 0:
                return str(n.value), NAT
            if isinstance(n.value, float) and n.value >= 0:
                return rat_literal(n.value), RAT
        if isinstance(n, ast.Name) and n.id in self.types:
            return n.id, self.types[n.id]
        if isinstance(n, ast.Name) and n.id in self.consts and self.consts[n.id] >= 0:
            return rat_literal(self.consts[n.id]), RAT
        if isinstance(n, ast.BinOp):
            t = self.type_of(n)
            if isinstance(n.op, ast.FloorDiv) and t == RAT:
                # Python float floor division: the floor of the exact quotient, as a float
                return f"(Loop.floorDivQ {self.expr(n.left, RAT)} {self.expr(n.right, RAT)})", RAT
            ops = {ast.Add: "+", ast.Sub: "-", ast.Mult: "*", ast.FloorDiv: "/", ast.Div: "/", ast.Mod: "%"}
            if type(n.op) in ops:
                return f"({self.expr(n.left, t)} {ops[type(n.op)]} {self.expr(n.right, t)})", t
        if isinstance(n, ast.Subscript) and isinstance(n.value, ast.Name) and n.value.id in self.arrays \
                and not isinstance(n.slice, ast.Slice):
            return f"({n.value.id} {self.expr(n.slice, NAT)})", self.arrays[n.value.id]
        if isinstance(n, ast.Call):
            f = ast.unparse(n.func)
            if f == "np.sum" and len(n.args) == 1 and isinstance(n.args[0], ast.Subscript) \
                    and isinstance(n.args[0].slice, ast.Slice) and isinstance(n.args[0].value, ast.Name) \
                    and self.arrays.get(n.args[0].value.id) == RAT:
                sl = n.args[0].slice
                if sl.step is not None or sl.lower is None or sl.upper is None:
                    raise Untranslatable("slice shape")
                return (f"(Loop.sumSlice {n.args[0].value.id} {self.expr(sl.lower, NAT)} {self.expr(sl.upper, NAT)})", RAT)
            if f == "len" and len(n.args) == 1 and isinstance(n.args[0], ast.Name) and n.args[0].id in self.arrays:
                a = n.args[0].id
                if a not in self.extra_len:
                    self.extra_len.append(a)
                return f"{a}_len", NAT
            if f == "int" and len(n.args) == 1:
                text, t = self._expr(n.args[0])
                # only used where the value is an array index or a count: non-negative in every use,
                # so the truncated integer is taken as a natural number
                return (text, NAT) if t == NAT else (f"(Loop.pyInt {text}).toNat", NAT)
            if f == "abs" and len(n.args) == 1 and isinstance(n.args[0], ast.Call) \
                    and ast.unparse(n.args[0].func) == "int" and len(n.args[0].args) == 1:
                text, t = self._expr(n.args[0].args[0])
                return (text, NAT) if t == NAT else (f"(Loop.pyInt {text}).natAbs", NAT)
        raise Untranslatable(f"expression `{ast.unparse(n)}`")

    def cond(self, n: ast.AST) -> str:
        if isinstance(n, ast.Subscript) and isinstance(n.value, ast.Name) and self.arrays.get(n.value.id) == BOOL:
            return f"({n.value.id} {self.expr(n.slice, NAT)}) = true"
        if isinstance(n, ast.Compare) and len(n.ops) == 1:
            ops = {ast.GtE: "≥", ast.Gt: ">", ast.LtE: "≤", ast.Lt: "<", ast.Eq: "=", ast.NotEq: "≠"}
            if type(n.ops[0]) in ops:
                t = self.type_of(n.left)
                return f"{self.expr(n.left, t)} {ops[type(n.ops[0])]} {self.expr(n.comparators[0], t)}"
        raise Untranslatable(f"condition `{ast.unparse(n)}`")

    # ------------------------------------------------------------- statements
    def assigned(self, stmts) -> list[str]:
        """names (scalars and arrays) assigned anywhere in stmts, in first-occurrence order"""
        out: list[str] = []

        def add(x):
            if x not in out:
                out.append(x)
        for st in stmts:
            for node in ast.walk(st):
                if isinstance(node, (ast.Assign, ast.AugAssign)):
                    t = node.targets[0] if isinstance(node, ast.Assign) else node.target
                    if isinstance(t, ast.Name):
                        add(t.id)
                    elif isinstance(t, ast.Subscript) and isinstance(t.value, ast.Name):
                        add(t.value.id)
                    else:
                        raise Untranslatable(f"assignment target `{ast.unparse(t)}`")
        return out

    def ty(self, name: str) -> str:
        if name in self.arrays:
            return arr_ty(self.arrays[name])
        return self.types[name]

    def pack(self, names: list[str]) -> str:
        return names[0] if len(names) == 1 else "(" + ", ".join(names) + ")"

    def block(self, stmts: list[ast.stmt], defined: set[str], result: str, ind: str) -> str:
        """Lean text for `stmts` followed by `result` (an expression over the variables)."""
        if not stmts:
            return ind + result
        st, rest = stmts[0], stmts[1:]
        if isinstance(st, ast.Expr) and isinstance(st.value, ast.Constant):       # docstring
            return self.block(rest, defined, result, ind)
        if isinstance(st, ast.Return):
            if rest:
                raise Untranslatable("statements after return")
            return ind + result
        if isinstance(st, ast.Assign) and len(st.targets) == 1:
            t, v = st.targets[0], st.value
            if isinstance(t, ast.Name):
                kind = self._is_alloc(v)
                if kind is not None:
                    line = f"let {t.id} : {arr_ty(self.arrays[t.id])} := fun _ => 0"
                else:
                    line = f"let {t.id} : {self.types[t.id]} := {self.expr(v, self.types[t.id])}"
                return ind + line + "\n" + self.block(rest, defined | {t.id}, result, ind)
            if isinstance(t, ast.Subscript) and isinstance(t.value, ast.Name) and t.value.id in self.arrays:
                a = t.value.id
                if isinstance(t.slice, ast.Slice):
                    return ind + self.slice_store(a, t.slice, v) + "\n" + self.block(rest, defined, result, ind)
                line = f"let {a} : {self.ty(a)} := Loop.upd {a} {self.expr(t.slice, NAT)} {self.expr(v, self.arrays[a])}"
                return ind + line + "\n" + self.block(rest, defined, result, ind)
        if isinstance(st, ast.AugAssign) and isinstance(st.op, ast.Add):
            t, v = st.target, st.value
            if isinstance(t, ast.Name) and t.id in defined:
                ty = self.types[t.id]
                return (ind + f"let {t.id} : {ty} := {t.id} + {self.expr(v, ty)}\n"
                        + self.block(rest, defined, result, ind))
            if isinstance(t, ast.Subscript) and isinstance(t.value, ast.Name) and t.value.id in self.arrays \
                    and not isinstance(t.slice, ast.Slice):
                a = t.value.id
                i = self.expr(t.slice, NAT)
                line = f"let {a} : {self.ty(a)} := Loop.upd {a} {i} ({a} {i} + {self.expr(v, self.arrays[a])})"
                return ind + line + "\n" + self.block(rest, defined, result, ind)
        if isinstance(st, ast.For) and isinstance(st.target, ast.Name) and not st.orelse \
                and isinstance(st.iter, ast.Call) and ast.unparse(st.iter.func) in ("range", "prange") \
                and len(st.iter.args) == 1:
            v = st.target.id
            bound = self.expr(st.iter.args[0], NAT)
            mut = [x for x in self.assigned(st.body) if x in defined]
            if not mut:
                raise Untranslatable(f"loop over `{v}` mutates nothing visible")
            pk = self.pack(mut)
            body = self.block(list(st.body), defined | {v}, pk, ind + "    ")
            tys = " × ".join(f"({self.ty(x)})" for x in mut)
            if len(mut) == 1:
                head = f"let {mut[0]} : {self.ty(mut[0])} := {self.loop_prim()} {bound} {mut[0]} (fun {v} {mut[0]} =>"
            else:
                head = (f"let {pk} : {tys} := {self.loop_prim()} {bound} {pk} (fun {v} (st : {tys}) =>\n"
                        + ind + "    " + f"let {pk} := st")
            return ind + head + "\n" + body + ")\n" + self.block(rest, defined, result, ind)
        if isinstance(st, ast.If) and not st.orelse:
            mut = [x for x in self.assigned(st.body) if x in defined]
            if not mut:
                raise Untranslatable("if mutates nothing visible")
            pk = self.pack(mut)
            body = self.block(list(st.body), set(defined), pk, ind + "    ")
            tys = " × ".join(f"({self.ty(x)})" for x in mut)
            return (ind + f"let {pk} : {tys if len(mut) > 1 else self.ty(mut[0])} := if {self.cond(st.test)} then\n"
                    + body + "\n" + ind + f"  else {pk}\n" + self.block(rest, defined, result, ind))
        raise Untranslatable(f"statement `{ast.unparse(st)[:60]}`")

    def slice_store(self, a: str, sl: ast.Slice, v: ast.AST) -> str:
        """out[lo:hi] = src[lo2:hi2][::-1]"""
        if sl.step is not None or sl.lower is None or sl.upper is None:
            raise Untranslatable("slice store shape")
        if not (isinstance(v, ast.Subscript) and isinstance(v.slice, ast.Slice) and v.slice.lower is None
                and v.slice.upper is None and ast.unparse(v.slice.step or ast.Constant(0)) == "-1"
                and isinstance(v.value, ast.Subscript) and isinstance(v.value.slice, ast.Slice)
                and isinstance(v.value.value, ast.Name) and v.value.value.id in self.arrays):
            raise Untranslatable(f"slice store value `{ast.unparse(v)}`")
        src = v.value.value.id
        s2 = v.value.slice
        if s2.step is not None or s2.lower is None or s2.upper is None:
            raise Untranslatable("slice source shape")
        lo, hi = self.expr(sl.lower, NAT), self.expr(sl.upper, NAT)
        lo2, hi2 = self.expr(s2.lower, NAT), self.expr(s2.upper, NAT)
        return f"let {a} : {self.ty(a)} := Loop.storeReversed {a} {lo} {hi} {src} {lo2} {hi2}"

    def loop_prim(self) -> str:
        return "Loop.forRangeM memo" if self.exec_twin else "Loop.forRange"

    # ------------------------------------------------------------------ whole
    def translate(self) -> str:
        self.declare_params()
        self.infer_types()
        body = [s for s in self.fn.body if not (isinstance(s, ast.Expr) and isinstance(s.value, ast.Constant))]
        ret = [s for s in body if isinstance(s, ast.Return)]
        if ret:
            if len(ret) != 1 or body[-1] is not ret[0] or not isinstance(ret[0].value, ast.Name):
                raise Untranslatable("return shape")
            res = [ret[0].value.id]
        else:
            # void kernel: the array parameters it writes, in parameter order
            written = self.assigned(body)
            res = [p for p, _ in self.params if p in written and p in self.arrays]
            if not res:
                raise Untranslatable("kernel writes no array parameter")
        defined = {p for p, _ in self.params}
        text = self.block(body, defined, self.pack(res), "  ")
        rty = " × ".join(f"({self.ty(x)})" for x in res) if len(res) > 1 else self.ty(res[0])
        params = " ".join(f"({p} : {t})" for p, t in self.params) + "".join(f" ({a}_len : Nat)" for a in self.extra_len)
        if self.exec_twin:
            return f"def {self.name}_exec (memo : Nat) {params} : {rty} :=\n{text}\n"
        return f"def {self.name} {params} : {rty} :=\n{text}\n"


def stub_kernel(fn: ast.FunctionDef) -> str:
    """signature-correct placeholder for a kernel whose body could not be translated (keeps the driver, which
    names every kernel, elaborating): returns the written array parameters unchanged"""
    out = []
    for twin in (False, True):
        k = Kernel(fn, exec_twin=twin)
        k.declare_params()
        body = [s for s in fn.body if not (isinstance(s, ast.Expr) and isinstance(s.value, ast.Constant))]
        ret = [s for s in body if isinstance(s, ast.Return)]
        if ret:
            rty, val = arr_ty(RAT), "fun _ => 0"
        else:
            written = k.assigned(body)
            res = [p for p, _ in k.params if p in written and p in k.arrays]
            if not res:
                raise Untranslatable("kernel writes no array parameter")
            rty = " × ".join(f"({k.ty(x)})" for x in res) if len(res) > 1 else k.ty(res[0])
            val = k.pack(res)
        extra = "".join(f" ({a}_len : Nat)" for a in sorted({ast.unparse(c.args[0]) for c in ast.walk(fn)
                        if isinstance(c, ast.Call) and ast.unparse(c.func) == "len" and c.args
                        and isinstance(c.args[0], ast.Name) and c.args[0].id in k.arrays}))
        params = " ".join(f"({p} : {t})" for p, t in k.params) + extra
        name = f"{fn.name}_exec (memo : Nat)" if twin else fn.name
        out.append(f"def {name} {params} : {rty} := {val}\n")
    return "\n".join(out)


def translate_kernel(fn: ast.FunctionDef, consts: dict[str, float] | None = None) -> str:
    """the kernel as a functional program, and its executable twin (same walk, loops tabulate their state)"""
    return Kernel(fn, consts=consts).translate() + "\n" + Kernel(fn, exec_twin=True, consts=consts).translate()

"""Small stateful NumPy classes -> Lean state machines over lists (C16 `RFIMask`, C17 `FoldedData`).

A class is described in `CLASSES`: its mutable fields (with their vector types), the read-only attributes
its methods use (they become fields of an `Env` structure), and the external functions whose results are
not modelled (they become function-valued fields of `Env`, applied to exactly the arguments that vary).
Each listed method is translated statement by statement into

    def <Class>.<method> (env : <Class>Env) (self : <Class>St) (<params>) : <result> × <Class>St     (or Except)

Vectors are Lean lists with the element-wise primitives of `Model/VecPrims.lean`.  Supported:

  statements   `x = e`, `self.f = e`, `self.f.fill(0)`, `for r in <list param>:` (a fold), `if c: … return e`
               (early return), `if/elif/else` whose last branch raises (`Except`), `if not callable(f): raise`
               (a Python type check: skipped), `return e`, the double loop
               `for i in range(A): for j in range(B): self.data[i][j] = np.roll(self.data[i][j], k, axis=0)`
  expressions  scalar `+ - * /`, `== 0`, `np.zeros(n, dtype="bool")`, `np.logical_and/or(a, b)`,
               `np.logical_or.reduce((a, b, c))`, `vec >= s`, `vec <= s`, `r[0]`, `r[1]`, `-1 * vec`, `vec - vec`,
               `v[i]`, `-v[i]`, `np.arange(n, dtype=…)`, `vec / s`, `np.round(vec).astype(np.int32)`,
               calls of external functions and of other translated methods of the same class

Anything else raises `Untranslatable`; the caller records the fragment in `translationFailures`.
"""
from __future__ import annotations

import ast

from pyexpr import Untranslatable

RAT, NAT, INT, BOOL, STR = "Rat", "Nat", "Int", "Bool", "String"
VB, VI, VQ = "List Bool", "List Int", "List Rat"
CUBE = "List (List (List Int))"
PAIRS = "List (Rat × Rat)"

CLASSES = {
    "RFIMask": {
        "file": "sigpyproc/core/rfi.py",
        "state": {"chan_mask": VB, "user_mask": VB, "stats_mask": VB, "custom_mask": VB},
        "env": {"self.header.nchans": ("nchans", NAT), "self.header.chan_freqs": ("chan_freqs", VQ),
                "self.threshold": ("threshold", RAT), "self.chan_var": ("chan_var", VQ),
                "self.chan_skew": ("chan_skew", VQ), "self.chan_kurt": ("chan_kurt", VQ)},
        # module-level functions used as values / called: name -> Lean type
        "externals": {"double_mad_mask": "List Rat → Rat → List Bool", "iqrm_mask": "List Rat → Rat → List Bool"},
        "methods": {"apply_mask": {"freq_mask": PAIRS}, "apply_method": {"method": STR},
                    "apply_funcn": {"custom_funcn": "List Bool → List Bool"}},
    },
    "FoldedData": {
        "file": "sigpyproc/foldedcube.py",
        "state": {"_data": CUBE, "_dm": RAT, "_period": RAT, "_fph_shifts": VI, "_tph_shifts": VI},
        "env": {"self._fold_dm": ("fold_dm", RAT), "self._fold_period": ("fold_period", RAT),
                "self.header.tobs": ("tobs", RAT), "self.nbins": ("nbins", NAT), "self.nsubints": ("nsubints", NAT),
                "self.nsubbands": ("nsubbands", NAT),
                # read only to build the arguments of the external delay law; constants of the cube
                "self.header.foff": ("foff", RAT), "self.header.nchans": ("hdr_nchans", NAT),
                "self.header.fch1": ("fch1", RAT)},
        # external call -> (Env field, Lean type, names its *varying* arguments may depend on)
        "calls": {"params.compute_dmdelays": ("dm_drifts", "Rat → List Int", ["delta_dm"])},
        "aliases": {"self.data": "self._data"},
        "methods": {"_get_dmdelays": {"newdm": RAT}, "_get_pdelays": {"newperiod": RAT},
                    "update_dm": {"dm": RAT}, "update_period": {"period": RAT}},
    },
}



def _inline_data_views(loop: ast.For) -> ast.For:
    """`v = self.data[i]` / `p = self.data[i][j]` inside the profile loops: a basic-index view of the cube, never
    rebound - every use (reads, and writes `v[j] = ...` which go through to the cube) is replaced by the indexed cube"""
    import copy
    loop = copy.deepcopy(loop)
    views: dict[str, ast.AST] = {}

    def rooted(e):
        while isinstance(e, ast.Subscript):
            e = e.value
        return ast.unparse(e) == "self.data"

    counts: dict[str, int] = {}
    for n in ast.walk(loop):
        if isinstance(n, ast.Assign):
            for t in n.targets:
                if isinstance(t, ast.Name):
                    counts[t.id] = counts.get(t.id, 0) + 1
    for n in ast.walk(loop):
        if (isinstance(n, ast.Assign) and len(n.targets) == 1 and isinstance(n.targets[0], ast.Name)
                and counts.get(n.targets[0].id) == 1 and isinstance(n.value, ast.Subscript) and rooted(n.value)):
            views[n.targets[0].id] = n.value
    if not views:
        return loop

    class Sub(ast.NodeTransformer):
        def visit_Name(self, node):
            if node.id in views and isinstance(node.ctx, ast.Load):
                return copy.deepcopy(views[node.id])
            return node

    class Drop(ast.NodeTransformer):
        def visit_Assign(self, node):
            if len(node.targets) == 1 and isinstance(node.targets[0], ast.Name) and node.targets[0].id in views:
                return None
            return self.generic_visit(node)

    loop = Drop().visit(loop)
    for _ in range(3):
        views = {k: Sub().visit(copy.deepcopy(v)) for k, v in views.items()}
    loop = Sub().visit(loop)
    return ast.fix_missing_locations(loop)


class Method:
    def __init__(self, cname: str, spec: dict, fn: ast.FunctionDef, returns: dict[str, str]):
        self.cname, self.spec, self.fn = cname, spec, fn
        self.types: dict[str, str] = dict(spec["methods"][fn.name])
        self.returns = returns                    # already translated methods -> result type ('' = none)
        self.may_raise = False
        self.result_type = ""

    # ------------------------------------------------------------------ names
    def attr(self, n: ast.AST) -> str | None:
        try:
            s = ast.unparse(n)
        except Exception:  # noqa: BLE001
            return None
        return self.spec.get("aliases", {}).get(s, s)

    def state_field(self, n: ast.AST) -> str | None:
        s = self.attr(n)
        if s and s.startswith("self.") and s[5:] in self.spec["state"]:
            return s[5:]
        return None

    # ------------------------------------------------------------ expressions
    def expr(self, n: ast.AST, want: str | None = None) -> tuple[str, str]:
        text, t = self._expr(n)
        if want and t != want:
            if t == NAT and want == RAT:
                return f"(({text} : Nat) : Rat)", RAT
            if t == NAT and want == INT:
                return f"(({text} : Nat) : Int)", INT
            raise Untranslatable(f"`{ast.unparse(n)}` has type {t}, {want} expected")
        return text, t

    def _expr(self, n: ast.AST) -> tuple[str, str]:
        s = self.attr(n)
        if s in self.spec["env"]:
            f, t = self.spec["env"][s]
            return f"env.{f}", t
        f = self.state_field(n)
        if f is not None:
            return f"self.{f}", self.spec["state"][f]
        if isinstance(n, ast.Name):
            if n.id in self.types:
                return n.id, self.types[n.id]
            if n.id in self.spec.get("externals", {}):
                return f"env.{n.id}", self.spec["externals"][n.id]
            raise Untranslatable(f"unknown name `{n.id}`")
        if isinstance(n, ast.Constant):
            if isinstance(n.value, bool):
                return ("true" if n.value else "false"), BOOL
            if isinstance(n.value, int) and n.value >= 0:
                return str(n.value), NAT
            if isinstance(n.value, str):
                return '"' + n.value.replace('"', '\\"') + '"', STR
        if isinstance(n, ast.UnaryOp) and isinstance(n.op, ast.USub):
            a, t = self._expr(n.operand)
            if t in (INT, RAT):
                return f"(-{a})", t
            if t == NAT:
                return f"(-(({a} : Nat) : Int))", INT
        if isinstance(n, ast.BinOp):
            return self.binop(n)
        if isinstance(n, ast.Compare) and len(n.ops) == 1:
            a, ta = self._expr(n.left)
            b, tb = self._expr(n.comparators[0])
            op = type(n.ops[0])
            if ta == VQ and tb in (RAT, NAT) and op in (ast.GtE, ast.LtE):
                b = b if tb == RAT else f"(({b} : Nat) : Rat)"
                return f"(Vec.{'geS' if op is ast.GtE else 'leS'} {a} {b})", VB
        if isinstance(n, ast.Subscript):
            a, ta = self._expr(n.value)
            if ta == "Rat × Rat" and isinstance(n.slice, ast.Constant) and n.slice.value in (0, 1):
                return f"{a}.{n.slice.value + 1}", RAT
            if ta in (VI, VQ) and not isinstance(n.slice, ast.Slice):
                i, _ = self.expr(n.slice, NAT)
                return f"({a}.getD {i} 0)", (INT if ta == VI else RAT)
        if isinstance(n, ast.Call):
            return self.call(n)
        raise Untranslatable(f"expression `{ast.unparse(n)}`")

    def binop(self, n: ast.BinOp) -> tuple[str, str]:
        a, ta = self._expr(n.left)
        b, tb = self._expr(n.right)
        op = type(n.op)
        # -1 * vec
        if op is ast.Mult and ast.unparse(n.left) == "-1" and tb == VI:
            return f"(Vec.negI {b})", VI
        if op is ast.Sub and ta == tb == VI:
            return f"(Vec.subI {a} {b})", VI
        if op is ast.Div and ta == VQ and tb in (RAT, NAT):
            b = b if tb == RAT else f"(({b} : Nat) : Rat)"
            return f"(Vec.divS {a} {b})", VQ
        sym = {ast.Add: "+", ast.Sub: "-", ast.Mult: "*", ast.Div: "/"}.get(op)
        if sym and ta in (RAT, NAT, INT) and tb in (RAT, NAT, INT):
            if op is ast.Div or RAT in (ta, tb):
                t = RAT
            elif INT in (ta, tb) or op is ast.Sub:
                t = INT
            else:
                t = NAT
            ca = a if ta == t else f"(({a} : {ta}) : {t})"
            cb = b if tb == t else f"(({b} : {tb}) : {t})"
            return f"({ca} {sym} {cb})", t
        raise Untranslatable(f"operator in `{ast.unparse(n)}` on {ta}, {tb}")

    def call(self, n: ast.Call) -> tuple[str, str]:
        f = ast.unparse(n.func)
        kw = {k.arg: ast.unparse(k.value) for k in n.keywords}
        if f == "np.zeros" and len(n.args) == 1 and kw.get("dtype") in ("'bool'", '"bool"', "bool"):
            a, _ = self.expr(n.args[0], NAT)
            return f"(Vec.zerosB {a})", VB
        if f in ("np.logical_and", "np.logical_or") and len(n.args) == 2:
            a, _ = self.expr(n.args[0], VB)
            b, _ = self.expr(n.args[1], VB)
            return f"(Vec.{'land' if f.endswith('and') else 'lor'} {a} {b})", VB
        if f == "np.logical_or.reduce" and len(n.args) == 1 and isinstance(n.args[0], ast.Tuple) and n.args[0].elts:
            parts = [self.expr(e, VB)[0] for e in n.args[0].elts]
            acc = parts[0]
            for p in parts[1:]:
                acc = f"(Vec.lor {acc} {p})"
            return acc, VB
        if f == "np.arange" and len(n.args) == 1:
            a, _ = self.expr(n.args[0], NAT)
            return f"(Vec.arangeQ {a})", VQ
        # np.round(v).astype(np.int32)
        if isinstance(n.func, ast.Attribute) and n.func.attr == "astype" and isinstance(n.func.value, ast.Call) \
                and ast.unparse(n.func.value.func) == "np.round" and len(n.func.value.args) == 1 \
                and [ast.unparse(a) for a in n.args] == ["np.int32"]:
            a, _ = self.expr(n.func.value.args[0], VQ)
            return f"(Vec.roundI {a})", VI
        # external module functions: arguments that vary are passed, the others must be constants of the object
        if f in self.spec.get("calls", {}):
            field, _ty, varying = self.spec["calls"][f]
            deps = set()
            for a in list(n.args) + [k.value for k in n.keywords]:
                deps |= self.depends(a, stop=set(varying))
            bad = deps - set(varying) - {"<env>"}
            if bad:
                raise Untranslatable(f"arguments of `{f}` depend on {sorted(bad)}")
            args = " ".join(self.expr(ast.Name(id=v, ctx=ast.Load()))[0] for v in varying)
            ty = _ty.split("→")[-1].strip()
            return f"(env.{field} {args})", ty
        # function-valued local / parameter applied to arguments
        if isinstance(n.func, ast.Name) and n.func.id in self.types and "→" in self.types[n.func.id]:
            parts = [p.strip() for p in self.types[n.func.id].split("→")]
            if len(parts) - 1 != len(n.args):
                raise Untranslatable(f"arity of `{n.func.id}`")
            args = " ".join(self.expr(a, t)[0] for a, t in zip(n.args, parts[:-1]))
            return f"({n.func.id} {args})", parts[-1]
        raise Untranslatable(f"call `{ast.unparse(n)[:60]}`")

    def depends(self, n: ast.AST, stop: set[str] = frozenset()) -> set[str]:
        """names an expression depends on: parameters/locals by name (through `self.local_deps`), mutable state
        fields as `self.<f>`, read-only attributes as `<env>`"""
        out: set[str] = set()
        for node in ast.walk(n):
            if isinstance(node, ast.Attribute):
                s = self.attr(node)
                if s and s.startswith("self."):
                    if self.state_field(node) is not None:
                        out.add(s)
                    elif s in self.spec["env"]:
                        out.add("<env>")
                    elif not any(k.startswith(s + ".") for k in self.spec["env"]):
                        out.add(s)
            elif isinstance(node, ast.Name) and node.id not in ("self", "np", "params", "True", "False"):
                out |= {node.id} if node.id in stop else self.local_deps.get(node.id, {node.id})
        return out

    # ------------------------------------------------------------- statements
    def block(self, stmts: list[ast.stmt], ind: str, tail: str | None) -> str:
        """Lean for `stmts`; `tail` is the value when control falls off the end (None: must return)."""
        if not stmts:
            if tail is None:
                raise Untranslatable("control falls off the end")
            return ind + tail
        st, rest = stmts[0], stmts[1:]
        if isinstance(st, ast.Expr) and isinstance(st.value, ast.Constant):
            return self.block(rest, ind, tail)
        if isinstance(st, ast.Return):
            return ind + self.ret(st.value)
        # self.f.fill(0)
        if isinstance(st, ast.Expr) and isinstance(st.value, ast.Call) and isinstance(st.value.func, ast.Attribute) \
                and st.value.func.attr == "fill" and [ast.unparse(a) for a in st.value.args] == ["0"]:
            f = self.state_field(st.value.func.value)
            if f is None or self.spec["state"][f] != VI:
                raise Untranslatable(f"fill on `{ast.unparse(st.value.func.value)}`")
            return ind + f"let self := {{ self with {f} := Vec.zerosLikeI self.{f} }}\n" + self.block(rest, ind, tail)
        if isinstance(st, ast.Assign) and len(st.targets) == 1 and isinstance(st.targets[0], ast.Tuple) \
                and isinstance(st.value, ast.Tuple) and len(st.targets[0].elts) == len(st.value.elts) \
                and all(isinstance(e, ast.Name) for e in st.targets[0].elts):
            # a, b = x, y  (the right-hand sides are evaluated first: only safe when they do not mention a, b)
            names = {e.id for e in st.targets[0].elts}
            if any(isinstance(x, ast.Name) and x.id in names for v in st.value.elts for x in ast.walk(v)):
                raise Untranslatable("simultaneous assignment")
            seq = [ast.Assign(targets=[t], value=v) for t, v in zip(st.targets[0].elts, st.value.elts)]
            return self.block([ast.fix_missing_locations(a) for a in seq] + list(rest), ind, tail)
        if isinstance(st, ast.Assign) and len(st.targets) == 1:
            tgt, v = st.targets[0], st.value
            f = self.state_field(tgt)
            if f is not None:
                e, _ = self.expr(v, self.spec["state"][f])
                return ind + f"let self := {{ self with {f} := {e} }}\n" + self.block(rest, ind, tail)
            if isinstance(tgt, ast.Name):
                # call of another translated method of the class: (result, self)
                if isinstance(v, ast.Call) and isinstance(v.func, ast.Attribute) and ast.unparse(v.func.value) == "self" \
                        and v.func.attr in self.returns:
                    m = v.func.attr
                    args = " ".join(self.expr(a)[0] for a in v.args)
                    self.types[tgt.id] = self.returns[m]
                    self.local_deps[tgt.id] = {f"<call {m}>"}
                    return (ind + f"let ({tgt.id}, self) := {self.cname}.{m} env self {args}\n"
                            + self.block(rest, ind, tail))
                try:
                    e, t = self._expr(v)
                except Untranslatable:
                    if isinstance(v, ast.Call) and ast.unparse(v.func) in self.spec.get("calls", {}):
                        raise
                    # a local that only feeds an external call: keep its dependencies, emit nothing
                    self.local_deps[tgt.id] = self.depends(v)
                    self.opaque.add(tgt.id)
                    return self.block(rest, ind, tail)
                self.types[tgt.id] = t
                self.local_deps[tgt.id] = self.depends(v)
                return ind + f"let {tgt.id} : {t} := {e}\n" + self.block(rest, ind, tail)
        if isinstance(st, ast.For):
            return self.loop(st, rest, ind, tail)
        if isinstance(st, ast.If):
            return self.cond_stmt(st, rest, ind, tail)
        raise Untranslatable(f"statement `{ast.unparse(st)[:70]}`")

    def ret(self, v: ast.AST | None) -> str:
        if v is None:
            val = "()"
            t = "Unit"
        else:
            val, t = self._expr(v)
        if self.result_type and self.result_type != t:
            raise Untranslatable("inconsistent return types")
        self.result_type = t
        return f"{self.ok}({val}, self)"

    def loop(self, st: ast.For, rest, ind, tail) -> str:
        # for r in <list parameter>: body assigning locals only
        if isinstance(st.iter, ast.Name) and self.types.get(st.iter.id) == PAIRS and isinstance(st.target, ast.Name):
            v = st.target.id
            self.types[v] = "Rat × Rat"
            self.local_deps[v] = {st.iter.id}
            mut = []
            for node in ast.walk(st):
                if isinstance(node, ast.Assign) and isinstance(node.targets[0], ast.Name) \
                        and node.targets[0].id in self.types and node.targets[0].id != v \
                        and node.targets[0].id in self.defined_before(st):
                    if node.targets[0].id not in mut:
                        mut.append(node.targets[0].id)
            if len(mut) != 1:
                raise Untranslatable(f"loop over `{st.iter.id}` mutates {mut}")
            m = mut[0]
            body = self.block(list(st.body), ind + "    ", m)
            return (ind + f"let {m} : {self.types[m]} := {st.iter.id}.foldl (fun {m} {v} =>\n" + body + f") {m}\n"
                    + self.block(rest, ind, tail))
        # for i in range(A): for j in range(B): self.data[i][j] = np.roll(self.data[i][j], k, axis=0)
        if isinstance(st.target, ast.Name) and any(isinstance(b, ast.For) for b in st.body):
            st = _inline_data_views(st)
        if isinstance(st.target, ast.Name) and len(st.body) == 1 and isinstance(st.body[0], ast.For):
            inner = st.body[0]
            i, j = st.target.id, inner.target.id if isinstance(inner.target, ast.Name) else None
            ri, rj = ast.unparse(st.iter), ast.unparse(inner.iter)
            a, _ = self.expr(st.iter.args[0], NAT) if ri.startswith("range(") else (None, None)
            b, _ = self.expr(inner.iter.args[0], NAT) if rj.startswith("range(") else (None, None)
            pre = [s for s in inner.body[:-1]]
            last = inner.body[-1] if inner.body else None
            if a and b and j and isinstance(last, ast.Assign) and len(last.targets) == 1:
                cell = f"self.data[{i}][{j}]"
                t = last.targets[0]
                if ast.unparse(t) == cell and isinstance(last.value, ast.Call) and ast.unparse(last.value.func) == "np.roll" \
                        and ast.unparse(last.value.args[0]) == cell \
                        and {k.arg: ast.unparse(k.value) for k in last.value.keywords} in ({"axis": "0"}, {}):
                    self.types[i] = self.types[j] = NAT
                    lets = ""
                    for s in pre:      # hoisted temporaries of the inner body
                        if isinstance(s, ast.Assign) and isinstance(s.targets[0], ast.Name):
                            e, ty = self._expr(s.value)
                            self.types[s.targets[0].id] = ty
                            lets += f"let {s.targets[0].id} : {ty} := {e}; "
                        else:
                            raise Untranslatable("statement in the profile loop")
                    k, _ = self.expr(last.value.args[1], INT)
                    return (ind + f"let self := {{ self with _data := Vec.mapCube {a} {b} self._data (fun {i} {j} p => "
                            f"{lets}Vec.roll p {k}) }}\n" + self.block(rest, ind, tail))
        if isinstance(st.target, ast.Name) and len(st.body) == 2 and isinstance(st.body[0], ast.Assign) \
                and isinstance(st.body[1], ast.For):
            # outer-loop temporary (e.g. `shift = -pdelays[isubint]`), then the inner loop
            tmp = st.body[0]
            inner = ast.For(target=st.body[1].target, iter=st.body[1].iter, body=[tmp] + list(st.body[1].body), orelse=[])
            outer = ast.For(target=st.target, iter=st.iter, body=[inner], orelse=[])
            return self.loop(ast.fix_missing_locations(outer), rest, ind, tail)
        raise Untranslatable(f"loop `{ast.unparse(st)[:60]}`")

    def defined_before(self, st: ast.stmt) -> set[str]:
        return set(self.types)

    def cond_stmt(self, st: ast.If, rest, ind, tail) -> str:
        test = ast.unparse(st.test)
        # Python type check with a raise: no counterpart
        if test.startswith("not callable(") and self.raises(st.body) and not st.orelse:
            return self.block(rest, ind, tail)
        # if/elif/else selecting a value, last branch raises
        chain, node = [], st
        while True:
            chain.append((node.test, node.body))
            if len(node.orelse) == 1 and isinstance(node.orelse[0], ast.If):
                node = node.orelse[0]
                continue
            final = node.orelse
            break
        if final and self.raises(final) and all(len(b) == 1 and isinstance(b[0], ast.Assign) for _, b in chain):
            names = {ast.unparse(b[0].targets[0]) for _, b in chain}
            if len(names) == 1:
                (name,) = names
                self.may_raise = True
                txt, ty = "", None
                for tst, b in chain:
                    e, t = self._expr(b[0].value)
                    ty = ty or t
                    txt += f"if {self.cond(tst)} then .ok {e} else "
                txt += f'.error "{self.exc_name(final)}"'
                self.types[name] = ty
                self.local_deps[name] = set().union(*[self.depends(t) for t, _ in chain])
                return (ind + f"match (({txt}) : Except String ({ty})) with\n" + ind + "| .error e => .error e\n"
                        + ind + f"| .ok {name} =>\n" + self.block(rest, ind, tail))
        # early return
        if not st.orelse and st.body and isinstance(st.body[-1], ast.Return):
            a = self.block(list(st.body), ind + "    ", None)
            b = self.block(rest, ind + "    ", tail)
            return ind + f"if {self.cond(st.test)} then\n" + a + "\n" + ind + "  else\n" + b
        raise Untranslatable(f"if `{test[:50]}`")

    @staticmethod
    def raises(body) -> bool:
        return bool(body) and isinstance(body[-1], ast.Raise)

    @staticmethod
    def exc_name(body) -> str:
        r = body[-1]
        return ast.unparse(r.exc.func) if isinstance(r.exc, ast.Call) else ast.unparse(r.exc)

    def cond(self, n: ast.AST) -> str:
        if isinstance(n, ast.Compare) and len(n.ops) == 1 and isinstance(n.ops[0], ast.Eq):
            a, ta = self._expr(n.left)
            b, tb = self._expr(n.comparators[0])
            if ta == STR and tb == STR:
                return f"{a} = {b}"
            if ta == RAT and tb in (RAT, NAT):
                return f"{a} = {b if tb == RAT else f'(({b} : Nat) : Rat)'}"
        raise Untranslatable(f"condition `{ast.unparse(n)}`")

    # ------------------------------------------------------------------ whole
    def translate(self) -> tuple[str, str]:
        self.local_deps: dict[str, set[str]] = {p: {p} for p in self.types}
        self.opaque: set[str] = set()
        body = list(self.fn.body)
        # a first pass decides whether the method can raise
        self.may_raise = any(isinstance(x, ast.Raise) for x in ast.walk(self.fn)
                             if not self._is_type_check_raise(x))
        self.ok = ".ok " if self.may_raise else ""
        text = self.block(body, "  ", f"{self.ok}((), self)")
        rt = self.result_type or "Unit"
        self.result_type = rt
        res = f"({rt}) × {self.cname}St"
        if self.may_raise:
            res = f"Except String ({res})"
        params = " ".join(f"({p} : {t})" for p, t in self.spec["methods"][self.fn.name].items())
        return (f"def {self.cname}.{self.fn.name} (env : {self.cname}Env) (self : {self.cname}St) {params} : {res} :=\n"
                f"{text}\n", rt)

    def _is_type_check_raise(self, r: ast.AST) -> bool:
        for node in ast.walk(self.fn):
            if isinstance(node, ast.If) and ast.unparse(node.test).startswith("not callable(") and r in node.body:
                return True
        return False


def translate_class(cname: str, tree: ast.Module):
    """yield ('decl', lean text) for the structures, then (method name, lean text | Untranslatable)"""
    spec = CLASSES[cname]
    cls = next((n for n in tree.body if isinstance(n, ast.ClassDef) and n.name == cname), None)
    st = "\n".join(f"  {f} : {t}" for f, t in spec["state"].items())
    envf = [f"  {f} : {t}" for f, t in spec["env"].values()]
    envf += [f"  {n} : {t}" for n, t in spec.get("externals", {}).items()]
    envf += [f"  {f} : {t}" for f, t, _ in spec.get("calls", {}).values()]
    yield "decl", (f"structure {cname}St where\n{st}\n\nstructure {cname}Env where\n" + "\n".join(envf) + "\n")
    if cls is None:
        for m in spec["methods"]:
            yield m, Untranslatable(f"class {cname} not found")
        return
    fns = {n.name: n for n in cls.body if isinstance(n, ast.FunctionDef)}
    returns: dict[str, str] = {}
    order = sorted(spec["methods"], key=lambda m: (not m.startswith("_"), m))     # helpers first
    for m in order:
        try:
            text, rt = Method(cname, spec, fns[m], returns).translate()
            returns[m] = rt
            yield m, text
        except (Untranslatable, KeyError) as e:
            yield m, e if isinstance(e, Untranslatable) else Untranslatable(f"method {m} not found")

"""Tiny Python-ast -> Lean expression translator for closed integer expressions.

Only the operators that occur in the fragments we regenerate are supported;
anything else raises Untranslatable, which the caller turns into a failing
Lean obligation (so the build breaks loudly instead of silently skipping).
"""
from __future__ import annotations

import ast


class Untranslatable(Exception):
    pass


BINOPS = {
    ast.RShift: ">>>",
    ast.LShift: "<<<",
    ast.BitAnd: "&&&",
    ast.BitOr: "|||",
    ast.BitXor: "^^^",
    ast.Add: "+",
    ast.Sub: "-",
    ast.Mult: "*",
    ast.FloorDiv: "/",
    ast.Mod: "%",
}


def const_eval(node: ast.AST, env: dict[str, int]) -> int:
    """Evaluate an integer expression over constants and env names."""
    if isinstance(node, ast.Constant) and isinstance(node.value, int):
        return node.value
    if isinstance(node, ast.Name) and node.id in env:
        return env[node.id]
    if isinstance(node, ast.BinOp):
        a, b = const_eval(node.left, env), const_eval(node.right, env)
        op = type(node.op)
        if op is ast.Add:
            return a + b
        if op is ast.Sub:
            return a - b
        if op is ast.Mult:
            return a * b
        if op is ast.FloorDiv:
            return a // b
        if op is ast.Mod:
            return a % b
    if isinstance(node, ast.UnaryOp) and isinstance(node.op, ast.USub):
        return -const_eval(node.operand, env)
    raise Untranslatable(f"not a constant integer expression: {ast.dump(node)}")


def to_lean(node: ast.AST, leaf) -> str:
    """Translate an integer expression to Lean `Nat` syntax.

    `leaf(node)` returns a Lean string for leaves it recognises (subscripts,
    names) or None.
    """
    s = leaf(node)
    if s is not None:
        return s
    if isinstance(node, ast.Constant) and isinstance(node.value, int) and node.value >= 0:
        return str(node.value)
    if isinstance(node, ast.BinOp) and type(node.op) in BINOPS:
        return f"({to_lean(node.left, leaf)} {BINOPS[type(node.op)]} {to_lean(node.right, leaf)})"
    raise Untranslatable(f"unsupported expression: {ast.unparse(node)}")


class _Subst(ast.NodeTransformer):
    def __init__(self, env: dict[str, ast.AST]):
        self.env = env

    def visit_Name(self, node: ast.Name):
        if isinstance(node.ctx, ast.Load) and node.id in self.env:
            import copy
            return copy.deepcopy(self.env[node.id])
        return node


def inline_temps(stmts: list[ast.stmt], protect: set[str] = frozenset()) -> list[ast.stmt]:
    """Remove local temporaries from a straight-line statement list: a statement `name = expr` whose target is a
    plain name assigned exactly once in `stmts` (and not in `protect`) is dropped and `expr` substituted for
    every later use (also inside nested loop bodies).  `expr` must be free of calls other than casts, so that
    duplicating it is harmless.  Everything else is returned unchanged."""
    counts: dict[str, int] = {}
    for st in stmts:
        for node in ast.walk(st):
            tgts = []
            if isinstance(node, ast.Assign):
                tgts = node.targets
            elif isinstance(node, (ast.AugAssign, ast.For)):
                tgts = [node.target]
            for t in tgts:
                if isinstance(t, ast.Name):
                    counts[t.id] = counts.get(t.id, 0) + 1
    env: dict[str, ast.AST] = {}
    out: list[ast.stmt] = []
    for st in stmts:
        st = ast.fix_missing_locations(_Subst(env).visit(st))
        if isinstance(st, ast.Assign) and len(st.targets) == 1 and isinstance(st.targets[0], ast.Name) \
                and counts.get(st.targets[0].id) == 1 and st.targets[0].id not in protect \
                and not any(isinstance(x, ast.Call) for x in ast.walk(st.value)):
            env[st.targets[0].id] = st.value
            continue
        out.append(st)
    return out

"""Tiny Python-ast -> Lean expression translator for closed integer expressions.

Only the operators that occur in the fragments we regenerate are supported;
anything else raises Untranslatable, which the caller turns into a failing
Lean obligation (so the build breaks loudly instead of silently skipping).
"""
from __future__ import annotations

import ast


class Untranslatable(Exception):
    pass


BINOPS = {
    ast.RShift: ">>>",
    ast.LShift: "<<<",
    ast.BitAnd: "&&&",
    ast.BitOr: "|||",
    ast.BitXor: "^^^",
    ast.Add: "+",
    ast.Sub: "-",
    ast.Mult: "*",
    ast.FloorDiv: "/",
    ast.Mod: "%",
}


def const_eval(node: ast.AST, env: dict[str, int]) -> int:
    """Evaluate an integer expression over constants and env names."""
    if isinstance(node, ast.Constant) and isinstance(node.value, int):
        return node.value
    if isinstance(node, ast.Name) and node.id in env:
        return env[node.id]
    if isinstance(node, ast.BinOp):
        a, b = const_eval(node.left, env), const_eval(node.right, env)
        op = type(node.op)
        if op is ast.Add:
            return a + b
        if op is ast.Sub:
            return a - b
        if op is ast.Mult:
            return a * b
        if op is ast.FloorDiv:
            return a // b
        if op is ast.Mod:
            return a % b
    if isinstance(node, ast.UnaryOp) and isinstance(node.op, ast.USub):
        return -const_eval(node.operand, env)
    raise Untranslatable(f"not a constant integer expression: {ast.dump(node)}")


def to_lean(node: ast.AST, leaf) -> str:
    """Translate an integer expression to Lean `Nat` syntax.

    `leaf(node)` returns a Lean string for leaves it recognises (subscripts,
    names) or None.
    """
    s = leaf(node)
    if s is not None:
        return s
    if isinstance(node, ast.Constant) and isinstance(node.value, int) and node.value >= 0:
        return str(node.value)
    if isinstance(node, ast.BinOp) and type(node.op) in BINOPS:
        return f"({to_lean(node.left, leaf)} {BINOPS[type(node.op)]} {to_lean(node.right, leaf)})"
    raise Untranslatable(f"unsupported expression: {ast.unparse(node)}")

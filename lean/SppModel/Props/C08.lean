import SppModel.Lemmas.Meta
import SppModel.Frozen.HeaderUpdates
/-!
# C08 — derived headers describe the derived data

Every API site that builds a derived header is translated from the Python source
into `Generated/HeaderUpdates.lean` (`Site h params… : Hdr`, exact over ℚ).  Here:

1. `tstart_<site>` — every streaming site that takes a start sample advances
   `tstart` by `start * tsamp` seconds (`/ 86400` days); `tstart_start_zero`.
2. shape / depth / dm fields of the reductions.
3. channel labels of selections / permutations (`invert_labels`,
   `extract_chans_label`, `extract_bands_label`, `*_keeps_channels`).
4. channel labels of combined channels (`downsample_label[_span]`,
   `subband_label[_span]`).
5. frequency → channel index is exact on labels and robust to < half a channel of
   error (`roundHalfEven_near`), unlike truncation.
6. `no_dropped_keys` — no site passes a key that is not a header field.
7. `ftop / fbottom / fcenter` sanity.
-/
namespace SppModel.Meta
open SppModel.Frozen.HeaderUpdates

/-! ## 1. tstart -/

theorem tstart_Filterbank_collapse (h : Hdr) (start tim_len : ℚ) :
    (Filterbank_collapse h tim_len start).tstart = h.tstart + start * h.tsamp / 86400 := rfl

theorem tstart_Filterbank_dedisperse (h : Hdr) (dm md nread start : ℚ) :
    (Filterbank_dedisperse h dm md nread start).tstart = h.tstart + start * h.tsamp / 86400 := rfl

theorem tstart_Filterbank_read_chan (h : Hdr) (start tim_len : ℚ) :
    (Filterbank_read_chan h tim_len start).tstart = h.tstart + start * h.tsamp / 86400 := rfl

theorem tstart_Filterbank_invert_freq (h : Hdr) (start : ℚ) :
    (Filterbank_invert_freq h start).tstart = h.tstart + start * h.tsamp / 86400 := rfl

theorem tstart_Filterbank_apply_channel_mask (h : Hdr) (start : ℚ) :
    (Filterbank_apply_channel_mask h start).tstart = h.tstart + start * h.tsamp / 86400 := rfl

/-- NB the advance uses the INPUT sampling time, not the down-sampled one -/
theorem tstart_Filterbank_downsample (h : Hdr) (ff start tf : ℚ) :
    (Filterbank_downsample h ff start tf).tstart = h.tstart + start * h.tsamp / 86400 := rfl

theorem tstart_Filterbank_extract_samps (h : Hdr) (start : ℚ) :
    (Filterbank_extract_samps h start).tstart = h.tstart + start * h.tsamp / 86400 := rfl

theorem tstart_Filterbank_extract_chans (h : Hdr) (chan start : ℚ) :
    (Filterbank_extract_chans h chan start).tstart = h.tstart + start * h.tsamp / 86400 := rfl

theorem tstart_Filterbank_extract_bands (h : Hdr) (bs per cs i start : ℚ) :
    (Filterbank_extract_bands h bs per cs i start).tstart
      = h.tstart + start * h.tsamp / 86400 := rfl

theorem tstart_Filterbank_requantize (h : Hdr) (start : ℚ) :
    (Filterbank_requantize h start).tstart = h.tstart + start * h.tsamp / 86400 := rfl

theorem tstart_Filterbank_remove_zerodm (h : Hdr) (start : ℚ) :
    (Filterbank_remove_zerodm h start).tstart = h.tstart + start * h.tsamp / 86400 := rfl

theorem tstart_Filterbank_subband (h : Hdr) (dm nsub start : ℚ) :
    (Filterbank_subband h dm nsub start).tstart = h.tstart + start * h.tsamp / 86400 := rfl

theorem tstart_FilReader_read_block (h : Hdr) (data_size fch1 nchans start : ℚ) :
    (FilReader_read_block h data_size fch1 nchans start).tstart
      = h.tstart + start * h.tsamp / 86400 := rfl

theorem tstart_FilReader_read_dedisp_block (h : Hdr) (nsamps start : ℚ) :
    (FilReader_read_dedisp_block h nsamps start).tstart
      = h.tstart + start * h.tsamp / 86400 := rfl

theorem tstart_PFITSReader_read_block (h : Hdr) (fch1 nchans nsamps start : ℚ) :
    (PFITSReader_read_block h fch1 nchans nsamps start).tstart
      = h.tstart + start * h.tsamp / 86400 := rfl

/-- generic corollary: any product whose `tstart` is the input's advanced by
`start` samples has the input's `tstart` when `start = 0`
(apply to any `tstart_<site>` above). -/
theorem tstart_start_zero {h h' : Hdr} {start : ℚ}
    (hs : h'.tstart = h.tstart + start * h.tsamp / 86400) (h0 : start = 0) :
    h'.tstart = h.tstart := by
  rw [hs, h0]; ring

theorem mjdAfter_zero (h : Hdr) : Hdr.mjdAfter h 0 = h.tstart := by
  simp [Hdr.mjdAfter]

example (h : Hdr) (dm nsub : ℚ) : (Filterbank_subband h dm nsub 0).tstart = h.tstart :=
  tstart_start_zero (tstart_Filterbank_subband h dm nsub 0) rfl

/-! ## 2. shape / depth / dm -/

theorem shape_Filterbank_collapse (h : Hdr) (start tim_len : ℚ) :
    (Filterbank_collapse h tim_len start).nchans = 1 ∧
    (Filterbank_collapse h tim_len start).dm = 0 ∧
    (Filterbank_collapse h tim_len start).nsamples = tim_len := ⟨rfl, rfl, rfl⟩

theorem shape_Filterbank_dedisperse (h : Hdr) (dm md nread start : ℚ) :
    (Filterbank_dedisperse h dm md nread start).dm = dm ∧
    (Filterbank_dedisperse h dm md nread start).nsamples = nread - md ∧
    (Filterbank_dedisperse h dm md nread start).nchans = 1 := ⟨rfl, rfl, rfl⟩

theorem shape_Filterbank_subband (h : Hdr) (dm nsub start : ℚ) :
    (Filterbank_subband h dm nsub start).dm = dm ∧
    (Filterbank_subband h dm nsub start).nchans = nsub ∧
    (Filterbank_subband h dm nsub start).nbits = 32 := ⟨rfl, rfl, rfl⟩

theorem shape_Filterbank_extract_chans (h : Hdr) (chan start : ℚ) :
    (Filterbank_extract_chans h chan start).nchans = 1 ∧
    (Filterbank_extract_chans h chan start).nbits = 32 := ⟨rfl, rfl⟩

theorem shape_Filterbank_downsample (h : Hdr) (ff start tf : ℚ) :
    (Filterbank_downsample h ff start tf).tsamp = h.tsamp * tf ∧
    (Filterbank_downsample h ff start tf).foff = h.foff * ff := ⟨rfl, rfl⟩

theorem shape_FilterbankBlock_downsample (h : Hdr) (ff tf : ℚ) :
    (FilterbankBlock_downsample h ff tf).tsamp = h.tsamp * tf ∧
    (FilterbankBlock_downsample h ff tf).foff = h.foff * ff := ⟨rfl, rfl⟩

theorem shape_TimeSeries_downsample (h : Hdr) (f n : ℚ) :
    (TimeSeries_downsample h f n).tsamp = h.tsamp * f := rfl

/-! ## 3. channel labels: selections / permutations -/

/-- output channel `i` of the inverted band carries the label of input channel
`nchans - 1 - i`, and the channel step changes sign -/
theorem invert_labels (h : Hdr) (start i : ℚ) :
    chanFreq (Filterbank_invert_freq h start) i = chanFreq h (h.nchans - 1 - i) := by
  simp only [chanFreq, Filterbank_invert_freq]; ring

theorem invert_foff (h : Hdr) (start : ℚ) :
    (Filterbank_invert_freq h start).foff = -h.foff := by
  simp only [Filterbank_invert_freq]; ring

theorem invert_nchans (h : Hdr) (start : ℚ) :
    (Filterbank_invert_freq h start).nchans = h.nchans := rfl

theorem extract_chans_label (h : Hdr) (chan start : ℚ) :
    (Filterbank_extract_chans h chan start).fch1 = chanFreq h chan := rfl

theorem extract_bands_label (h : Hdr) (bs per cs i start j : ℚ) :
    chanFreq (Filterbank_extract_bands h bs per cs i start) j
      = chanFreq h (cs + (bs + i) * per + j) := by
  simp only [chanFreq, Filterbank_extract_bands]; ring

theorem extract_bands_foff_nchans (h : Hdr) (bs per cs i start : ℚ) :
    (Filterbank_extract_bands h bs per cs i start).foff = h.foff ∧
    (Filterbank_extract_bands h bs per cs i start).nchans = per := ⟨rfl, rfl⟩

theorem mask_keeps_channels (h : Hdr) (start : ℚ) :
    (Filterbank_apply_channel_mask h start).fch1 = h.fch1 ∧
    (Filterbank_apply_channel_mask h start).foff = h.foff ∧
    (Filterbank_apply_channel_mask h start).nchans = h.nchans := ⟨rfl, rfl, rfl⟩

theorem samps_keeps_channels (h : Hdr) (start : ℚ) :
    (Filterbank_extract_samps h start).fch1 = h.fch1 ∧
    (Filterbank_extract_samps h start).foff = h.foff ∧
    (Filterbank_extract_samps h start).nchans = h.nchans := ⟨rfl, rfl, rfl⟩

theorem zerodm_keeps_channels (h : Hdr) (start : ℚ) :
    (Filterbank_remove_zerodm h start).fch1 = h.fch1 ∧
    (Filterbank_remove_zerodm h start).foff = h.foff ∧
    (Filterbank_remove_zerodm h start).nchans = h.nchans := ⟨rfl, rfl, rfl⟩

theorem requantize_keeps_channels (h : Hdr) (start : ℚ) :
    (Filterbank_requantize h start).fch1 = h.fch1 ∧
    (Filterbank_requantize h start).foff = h.foff ∧
    (Filterbank_requantize h start).nchans = h.nchans := ⟨rfl, rfl, rfl⟩

/-! ## 4. channel labels: combined channels -/

/-- the label of down-sampled channel `i` is the label of the FIRST input channel
it averages (`i * ff`) -/
theorem downsample_label (h : Hdr) (ff start tf i : ℚ) :
    chanFreq (Filterbank_downsample h ff start tf) i = chanFreq h (i * ff) := by
  simp only [chanFreq, Filterbank_downsample]; ring

/-- … hence within the closed span of the inputs `i*ff … i*ff + ff - 1` -/
theorem downsample_label_span (h : Hdr) (ff start tf i : ℚ) (_hff : 1 ≤ ff) :
    min (chanFreq h (i * ff)) (chanFreq h (i * ff + ff - 1))
        ≤ chanFreq (Filterbank_downsample h ff start tf) i ∧
    chanFreq (Filterbank_downsample h ff start tf) i
        ≤ max (chanFreq h (i * ff)) (chanFreq h (i * ff + ff - 1)) := by
  rw [downsample_label]; exact ⟨min_le_left _ _, le_max_left _ _⟩

/-- the same, oriented by the sign of the channel step (descending band) -/
theorem downsample_label_span_desc (h : Hdr) (ff start tf i : ℚ) (hff : 1 ≤ ff)
    (hf : h.foff ≤ 0) :
    chanFreq h (i * ff + ff - 1) ≤ chanFreq (Filterbank_downsample h ff start tf) i ∧
    chanFreq (Filterbank_downsample h ff start tf) i ≤ chanFreq h (i * ff) := by
  rw [downsample_label]
  refine ⟨?_, le_refl _⟩
  have : (ff - 1) * h.foff ≤ 0 := mul_nonpos_of_nonneg_of_nonpos (by linarith) hf
  simp only [chanFreq]; nlinarith

/-- … ascending band -/
theorem downsample_label_span_asc (h : Hdr) (ff start tf i : ℚ) (hff : 1 ≤ ff)
    (hf : 0 ≤ h.foff) :
    chanFreq h (i * ff) ≤ chanFreq (Filterbank_downsample h ff start tf) i ∧
    chanFreq (Filterbank_downsample h ff start tf) i ≤ chanFreq h (i * ff + ff - 1) := by
  rw [downsample_label]
  refine ⟨le_refl _, ?_⟩
  have : 0 ≤ (ff - 1) * h.foff := mul_nonneg (by linarith) hf
  simp only [chanFreq]; nlinarith

theorem subband_foff (h : Hdr) (dm start : ℚ) (per nsub : ℕ) (hn : 0 < nsub)
    (hc : h.nchans = ((per * nsub : ℕ) : ℚ)) :
    (Filterbank_subband h dm (nsub : ℕ) start).foff = h.foff * (per : ℕ) := by
  simp only [Filterbank_subband, hc, floorQ_mul_div per nsub hn]

/-- the label of sub-band `i` is the midpoint of the labels of the first and last
input channel it sums -/
theorem subband_label (h : Hdr) (dm start : ℚ) (per nsub : ℕ) (hn : 0 < nsub) (_hp : 0 < per)
    (hc : h.nchans = ((per * nsub : ℕ) : ℚ)) (i : ℚ) :
    chanFreq (Filterbank_subband h dm (nsub : ℕ) start) i
      = (chanFreq h (i * per) + chanFreq h (i * per + per - 1)) / 2 := by
  simp only [chanFreq, Filterbank_subband, Hdr.ftop, hc, floorQ_mul_div per nsub hn]
  ring

/-- … hence within their span -/
theorem subband_label_span (h : Hdr) (dm start : ℚ) (per nsub : ℕ) (hn : 0 < nsub) (hp : 0 < per)
    (hc : h.nchans = ((per * nsub : ℕ) : ℚ)) (i : ℚ) :
    min (chanFreq h (i * per)) (chanFreq h (i * per + per - 1))
        ≤ chanFreq (Filterbank_subband h dm (nsub : ℕ) start) i ∧
    chanFreq (Filterbank_subband h dm (nsub : ℕ) start) i
        ≤ max (chanFreq h (i * per)) (chanFreq h (i * per + per - 1)) := by
  rw [subband_label h dm start per nsub hn hp hc i]
  generalize chanFreq h (i * per) = a
  generalize chanFreq h (i * per + per - 1) = b
  rcases le_total a b with hab | hab
  · rw [min_eq_left hab, max_eq_right hab]; constructor <;> linarith
  · rw [min_eq_right hab, max_eq_left hab]; constructor <;> linarith

/-! ## 5. frequency → channel index -/

theorem roundHalfEven_label (h : Hdr) (j : ℤ) (hf : h.foff ≠ 0) :
    roundHalfEven ((chanFreq h j - h.fch1) / h.foff) = j := by
  have : (chanFreq h j - h.fch1) / h.foff = (j : ℚ) := by
    simp only [chanFreq]; field_simp; ring
  rw [this, roundHalfEven_intCast]

/-- requesting the label of channel `j` selects channel `j` -/
theorem FilReader_read_block_fch1 (h : Hdr) (data_size nchans start : ℚ) (j : ℤ)
    (hf : h.foff ≠ 0) :
    (FilReader_read_block h data_size (chanFreq h j) nchans start).fch1 = chanFreq h j := by
  show h.fch1 + roundHalfEven ((chanFreq h j - h.fch1) / h.foff) * h.foff = chanFreq h j
  rw [roundHalfEven_label h j hf]; rfl

theorem PFITSReader_read_block_fch1 (h : Hdr) (nchans nsamps start : ℚ) (j : ℤ)
    (hf : h.foff ≠ 0) :
    (PFITSReader_read_block h (chanFreq h j) nchans nsamps start).fch1 = chanFreq h j := by
  show h.fch1 + roundHalfEven ((chanFreq h j - h.fch1) / h.foff) * h.foff = chanFreq h j
  rw [roundHalfEven_label h j hf]; rfl

/-- float-safe form: anything closer than half a channel rounds to the integer -/
theorem roundHalfEven_near (j : ℤ) (ε : ℚ) (hε : |ε| < 1 / 2) :
    roundHalfEven ((j : ℚ) + ε) = j := by
  have := abs_lt.mp hε
  exact roundHalfEven_near' j ε this.1 this.2

/-- … so a request within half a channel of a label still selects that channel -/
theorem FilReader_read_block_fch1_near (h : Hdr) (data_size nchans start : ℚ) (j : ℤ) (ε : ℚ)
    (hf : h.foff ≠ 0) (hε : |ε| < 1 / 2) :
    (FilReader_read_block h data_size (chanFreq h (j + ε)) nchans start).fch1 = chanFreq h j := by
  have : (chanFreq h (j + ε) - h.fch1) / h.foff = (j : ℚ) + ε := by
    simp only [chanFreq]; field_simp; ring
  show h.fch1 + roundHalfEven ((chanFreq h (j + ε) - h.fch1) / h.foff) * h.foff = chanFreq h j
  rw [this, roundHalfEven_near j ε hε]; rfl

theorem PFITSReader_read_block_fch1_near (h : Hdr) (nchans nsamps start : ℚ) (j : ℤ) (ε : ℚ)
    (hf : h.foff ≠ 0) (hε : |ε| < 1 / 2) :
    (PFITSReader_read_block h (chanFreq h (j + ε)) nchans nsamps start).fch1 = chanFreq h j := by
  have : (chanFreq h (j + ε) - h.fch1) / h.foff = (j : ℚ) + ε := by
    simp only [chanFreq]; field_simp; ring
  show h.fch1 + roundHalfEven ((chanFreq h (j + ε) - h.fch1) / h.foff) * h.foff = chanFreq h j
  rw [this, roundHalfEven_near j ε hε]; rfl

/-- truncation does not have that property: 1 % below channel 3 gives channel 2 … -/
example : floorQ ((3 : ℚ) - 1 / 100) = 2 := by decide +kernel
/-- … rounding gives 3 -/
example : roundHalfEven ((3 : ℚ) - 1 / 100) = 3 := by decide +kernel

/-! ## 6. no silently dropped keys -/

theorem no_dropped_keys : ∀ p ∈ Generated.HeaderUpdates.allDropped, p.2 = [] := by decide +kernel

/-! ## 7. band edges -/

theorem fbottom_eq (h : Hdr) :
    Hdr.fbottom h = chanFreq h (h.nchans - 1) + h.foff / 2 := by
  simp only [Hdr.fbottom, Hdr.ftop, chanFreq]; ring

theorem fcenter_eq (h : Hdr) :
    Hdr.fcenter h = (Hdr.ftop h + Hdr.fbottom h) / 2 := by
  simp only [Hdr.fcenter, Hdr.fbottom, Hdr.ftop]; ring

/-! ## concrete non-dyadic channelisations -/

/-- 64 channels of -1/10 MHz from 1500 MHz -/
def h10 : Hdr := ⟨1500, -1 / 10, 64 / 1000000, 60000, 0, 64, 1000, 8⟩
/-- 96 channels of -1/3 MHz from 800 MHz -/
def h3 : Hdr := ⟨800, -1 / 3, 1 / 3000, 59000, 0, 96, 3000, 8⟩

/-- sub-banding 64 × -1/10 MHz into 8 gives exactly -4/5 MHz, first label 1499.65 -/
example : (Filterbank_subband h10 10 8 0).foff = -4 / 5 ∧
    (Filterbank_subband h10 10 8 0).fch1 = 29993 / 20 := by decide +kernel
/-- the same through the general theorem -/
example : (Filterbank_subband h10 10 ((8 : ℕ) : ℚ) 0).foff = h10.foff * ((8 : ℕ) : ℚ) :=
  subband_foff h10 10 0 8 8 (by decide) (by decide)
/-- sub-band 3 of 8: midpoint of input channels 24 and 31 -/
example : chanFreq (Filterbank_subband h10 10 8 0) 3 = (chanFreq h10 24 + chanFreq h10 31) / 2 := by
  decide +kernel
/-- 96 × -1/3 MHz into 12 sub-bands of 8: step -8/3, label of sub-band 5 -/
example : (Filterbank_subband h3 0 12 0).foff = -8 / 3 ∧
    chanFreq (Filterbank_subband h3 0 12 0) 5 = 800 - 87 / 6 := by decide +kernel
/-- down-sampling 96 × -1/3 MHz by 3 in frequency: step exactly -1, 32 channels,
    channel 7 labelled as input channel 21 (= 793) -/
example : (Filterbank_downsample h3 3 0 1).foff = -1 ∧ (Filterbank_downsample h3 3 0 1).nchans = 32 ∧
    chanFreq (Filterbank_downsample h3 3 0 1) 7 = 793 := by decide +kernel
/-- inverting 64 × -1/10: first label 1493.7, step +1/10, channel 63 is the old channel 0 -/
example : (Filterbank_invert_freq h10 0).fch1 = 14937 / 10 ∧ (Filterbank_invert_freq h10 0).foff = 1 / 10 ∧
    chanFreq (Filterbank_invert_freq h10 0) 63 = 1500 := by decide +kernel
/-- band edges: 1500.05 … 1493.65, centre 1496.85 -/
example : Hdr.ftop h10 = 30001 / 20 ∧ Hdr.fbottom h10 = 29873 / 20 ∧ Hdr.fcenter h10 = 29937 / 20 := by
  decide +kernel
/-- reading from sample 1000 of 1/3000 s: tstart advances by 1/3 s -/
example : (Filterbank_extract_samps h3 1000).tstart = 59000 + (1 / 3) / 86400 := by decide +kernel
/-- requesting 1496.8 MHz in the -1/10 grid selects channel 32 exactly -/
example : (FilReader_read_block h10 64000 (14968 / 10) 16 0).fch1 = chanFreq h10 32 := by decide +kernel

end SppModel.Meta

import SppModel.Lemmas.Fold
/-!
# C11 — folding does not depend on the gulp, and partitions the samples over the cube

`fold` (`Model/Fold.lean`) streams the range `[s, s+n)` through the C01 read plan with
`gulp = max (2*maxdelay) g`, `skipback = maxdelay`, and for every block accumulates
`x[t + delay_c, c]` into the cell chosen by the phase bin / sub-integration of the ABSOLUTE
folded sample number `ii*(gulp - maxdelay) + t` and the sub-band of channel `c`.
For every in-range request and EVERY positive gulp the accumulations are exactly one per
(folded sample `j < n - maxdelay`, channel `c`), in order — so the sums and hit counts are
the same cube whatever the gulp, every (sample, channel) lands in exactly one cell, and each
cell holds the sum of exactly the samples assigned to it.
No bound on any of `g s n N C nbins nints nsubs`, the data, the delays or the tables.
-/
namespace SppModel.Fold
open SppModel SppModel.Plan SppModel.Reduce

/-- the accumulations performed over all blocks, for EVERY gulp, are exactly one per
    (folded sample j, channel c), in order: cell fixed by the absolute sample number j
    (from the start of the range) and the channel, value x[s+j+d_c, c] -/
theorem foldWrites_eq (flat : List Int) (C : Nat) (delays : List Nat) (g s n N nbins nsubs : Nat)
    (pb si sb : List Nat) (hmd : maxDelay delays < n) (hg : 0 < g) (hr : s + n ≤ N) :
    ∃ bs, blocksOf (max (2 * maxDelay delays) g) s n (maxDelay delays) N = .ok bs ∧
      foldWrites flat C delays (maxDelay delays) (max (2 * maxDelay delays) g) nbins nsubs pb si sb bs
        = (List.range (n - maxDelay delays)).flatMap (fun j => (List.range C).map (fun c =>
            (cell nbins nsubs pb si sb j c, getS flat C (s + j + delays.getD c 0) c))) :=
  ⟨_, blocksOf_dedisp g s n _ N hmd hg hr,
    foldWrites_expected flat C delays g s n nbins nsubs pb si sb hmd hg⟩

/-- **C11 (gulp independence)**: the cube (sums and counts) is identical for every gulp size -/
theorem fold_gulp_independent (flat : List Int) (C : Nat) (delays : List Nat)
    (g₁ g₂ s n N nbins nints nsubs : Nat) (pb si sb : List Nat)
    (hmd : maxDelay delays < n) (h₁ : 0 < g₁) (h₂ : 0 < g₂) (hr : s + n ≤ N) :
    fold flat C delays g₁ s n N nbins nints nsubs pb si sb
      = fold flat C delays g₂ s n N nbins nints nsubs pb si sb := by
  rw [fold_eq flat C delays g₁ s n N nbins nints nsubs pb si sb hmd h₁ hr,
    fold_eq flat C delays g₂ s n N nbins nints nsubs pb si sb hmd h₂ hr]

/-- generic accumulation lemma: applying `(k, v)` adds to a zeroed array of size `size` gives,
    at every in-range cell, the sum of the values written to it -/
theorem applyAdd_cell (size : Nat) (ws : List (Nat × Int)) (hin : ∀ w ∈ ws, w.1 < size)
    (k : Nat) (hk : k < size) :
    (applyAdd (List.replicate size 0) ws).getD k 0 = ((ws.filter (fun w => w.1 == k)).map (·.2)).sum := by
  have _ := hin   -- not needed: a write to another (even out-of-range) index never changes cell `k`
  rw [applyAdd_getD _ _ _ (by simpa using hk), getD_replicate_zero, Int.zero_add]

theorem applyAdd_length (out : List Int) (ws : List (Nat × Int)) : (applyAdd out ws).length = out.length :=
  applyAdd_length' out ws

/-- **C11 (partition)**: every (sample, channel) lands in exactly one cell: the hit counts sum
    to the number of samples folded times the channel count, and each cell holds the sum of
    exactly the samples assigned to it (so cell/count is their mean) -/
theorem fold_partition (flat : List Int) (C : Nat) (delays : List Nat)
    (g s n N nbins nints nsubs : Nat) (pb si sb : List Nat)
    (hmd : maxDelay delays < n) (hg : 0 < g) (hr : s + n ≤ N)
    (hcell : ∀ j c, j < n - maxDelay delays → c < C → cell nbins nsubs pb si sb j c < nbins * nints * nsubs) :
    ∃ sums cnts, fold flat C delays g s n N nbins nints nsubs pb si sb = .ok (sums, cnts) ∧
      sums.length = nbins * nints * nsubs ∧ cnts.length = nbins * nints * nsubs ∧
      cnts.sum = ((n - maxDelay delays) * C : Nat) ∧
      ∀ k, k < nbins * nints * nsubs →
        cnts.getD k 0 = (((List.range (n - maxDelay delays)).flatMap (fun j => (List.range C).map (fun c => (j, c)))).filter
                            (fun p => cell nbins nsubs pb si sb p.1 p.2 == k)).length ∧
        sums.getD k 0 = ((((List.range (n - maxDelay delays)).flatMap (fun j => (List.range C).map (fun c => (j, c)))).filter
                            (fun p => cell nbins nsubs pb si sb p.1 p.2 == k)).map
                            (fun p => getS flat C (s + p.1 + delays.getD p.2 0) p.2)).sum := by
  refine ⟨_, _, fold_eq flat C delays g s n N nbins nints nsubs pb si sb hmd hg hr, ?_, ?_, ?_, ?_⟩
  · rw [applyAdd_length, List.length_replicate]
  · rw [applyAdd_length, List.length_replicate]
  · rw [foldW_eq_map_pairs, List.map_map, applyAdd_sum, sum_replicate_zero, Int.zero_add, List.map_map]
    · have e : (List.map ((fun w : Nat × Int => w.2) ∘ (fun w : Nat × Int => (w.1, (1 : Int))) ∘ fun p : Nat × Nat =>
            (cell nbins nsubs pb si sb p.1 p.2, getS flat C (s + p.1 + delays.getD p.2 0) p.2))
            (pairs (n - maxDelay delays) C)) = (pairs (n - maxDelay delays) C).map (fun _ => (1 : Int)) := rfl
      rw [e, sum_map_one, pairs_length]
    · intro w hw
      rw [List.length_replicate]
      obtain ⟨p, hp, rfl⟩ := List.mem_map.mp hw
      obtain ⟨h1, h2⟩ := (mem_pairs _ _ p).mp hp
      exact hcell p.1 p.2 h1 h2
  · intro k hk
    constructor
    · rw [foldW_eq_map_pairs, List.map_map]
      have := applyAdd_keyed (nbins * nints * nsubs) (pairs (n - maxDelay delays) C)
        (fun p => cell nbins nsubs pb si sb p.1 p.2) (fun _ => 1) k hk
      rw [sum_map_one] at this
      exact this
    · rw [foldW_eq_map_pairs]
      exact applyAdd_keyed (nbins * nints * nsubs) (pairs (n - maxDelay delays) C)
        (fun p => cell nbins nsubs pb si sb p.1 p.2)
        (fun p => getS flat C (s + p.1 + delays.getD p.2 0) p.2) k hk

/-- in-range tables give in-range cells -/
theorem cell_lt (nbins nints nsubs : Nat) (pb si sb : List Nat) (j c : Nat)
    (hp : pb.getD j 0 < nbins) (hs : si.getD j 0 < nints) (hb : sb.getD c 0 < nsubs) :
    cell nbins nsubs pb si sb j c < nbins * nints * nsubs := by
  unfold cell
  have h1 : (sb.getD c 0 + 1) * nbins ≤ nsubs * nbins := Nat.mul_le_mul_right _ hb
  have h2 : (si.getD j 0 + 1) * (nbins * nsubs) ≤ nints * (nbins * nsubs) := Nat.mul_le_mul_right _ hs
  rw [Nat.add_mul, Nat.one_mul] at h1 h2
  have e1 : si.getD j 0 * nbins * nsubs = si.getD j 0 * (nbins * nsubs) := Nat.mul_assoc _ _ _
  have e2 : nbins * nints * nsubs = nints * (nbins * nsubs) := by
    rw [Nat.mul_comm nbins nints, Nat.mul_assoc]
  have e3 : nsubs * nbins = nbins * nsubs := Nat.mul_comm _ _
  rw [e1, e2]
  omega

/-- the partition theorem specialised to in-range tables (the hypothesis `hcell` is met) -/
theorem fold_partition_tables (flat : List Int) (C : Nat) (delays : List Nat)
    (g s n N nbins nints nsubs : Nat) (pb si sb : List Nat)
    (hmd : maxDelay delays < n) (hg : 0 < g) (hr : s + n ≤ N)
    (hp : ∀ j, j < n - maxDelay delays → pb.getD j 0 < nbins)
    (hs : ∀ j, j < n - maxDelay delays → si.getD j 0 < nints)
    (hb : ∀ c, c < C → sb.getD c 0 < nsubs) :
    ∃ sums cnts, fold flat C delays g s n N nbins nints nsubs pb si sb = .ok (sums, cnts) ∧
      cnts.sum = ((n - maxDelay delays) * C : Nat) := by
  obtain ⟨sums, cnts, h, _, _, hc, _⟩ := fold_partition flat C delays g s n N nbins nints nsubs pb si sb hmd hg hr
    (fun j c hj hc => cell_lt nbins nints nsubs pb si sb j c (hp j hj) (hs j hj) (hb c hc))
  exact ⟨sums, cnts, h, hc⟩

/-- a strictly periodic pulse train folded at its period (m samples, zero acceleration) occupies
    a single phase bin: every pulse sample t0 + j*m has the phase bin of t0 -/
theorem periodic_single_bin (nbins t0 m j : Nat) (hm : 0 < m) (hn : 0 < nbins) :
    phaseBinQ nbins (t0 + j * m) m = phaseBinQ nbins t0 m := by
  have _ := hn   -- not needed: `x % 0 = x` and both floors differ by `0 * j = 0`
  unfold phaseBinQ
  have hq : (m : ℚ) ≠ 0 := by exact_mod_cast hm.ne'
  have e : ((nbins * (t0 + j * m) : Nat) : ℚ) / (m : ℚ) + 1 / 2
      = (((nbins * t0 : Nat) : ℚ) / (m : ℚ) + 1 / 2) + (((nbins : ℤ) * (j : ℤ) : ℤ) : ℚ) := by
    push_cast; field_simp; ring
  rw [e, ratFloor_add_int, Int.add_mul_emod_self_left]

/-! ## Non-vacuity on concrete data -/

-- 12 samples × 2 channels, delays [0,1] (maxdelay 1): 11 folded samples, 4 phase bins,
-- 2 sub-integrations, 2 sub-bands (one channel each)
example : maxDelay [0, 1] = 1 := by rfl
-- gulp 1 is raised to 2: twelve overlapping blocks, the last one of length maxdelay contributes nothing
example : blocksOf (max (2 * 1) 1) 0 12 1 12
    = .ok [⟨0, 0, 2⟩, ⟨1, 1, 2⟩, ⟨2, 2, 2⟩, ⟨3, 3, 2⟩, ⟨4, 4, 2⟩, ⟨5, 5, 2⟩, ⟨6, 6, 2⟩, ⟨7, 7, 2⟩,
           ⟨8, 8, 2⟩, ⟨9, 9, 2⟩, ⟨10, 10, 2⟩, ⟨11, 11, 1⟩] := by rfl
example : blocksOf (max (2 * 1) 4) 0 12 1 12 = .ok [⟨0, 0, 4⟩, ⟨1, 3, 4⟩, ⟨2, 6, 4⟩, ⟨3, 9, 3⟩] := by rfl
example : blocksOf (max (2 * 1) 100) 0 12 1 12 = .ok [⟨0, 0, 12⟩] := by rfl
-- … and the three gulps give the same sums and hit counts (the counts add up to 11 * 2 = 22)
example : fold [1, 2, 3, 4, 5, 6, 7, 8, 9, 10, 11, 12, 13, 14, 15, 16, 17, 18, 19, 20, 21, 22, 23, 24] 2 [0, 1]
      1 0 12 12 4 2 2 [0, 1, 2, 3, 0, 1, 2, 3, 0, 1, 2] [0, 0, 0, 0, 0, 0, 1, 1, 1, 1, 1] [0, 1]
    = .ok ([10, 14, 5, 7, 16, 20, 8, 10, 17, 19, 34, 15, 20, 22, 40, 18],
           [2, 2, 1, 1, 2, 2, 1, 1, 1, 1, 2, 1, 1, 1, 2, 1]) := by rfl
example : fold [1, 2, 3, 4, 5, 6, 7, 8, 9, 10, 11, 12, 13, 14, 15, 16, 17, 18, 19, 20, 21, 22, 23, 24] 2 [0, 1]
      4 0 12 12 4 2 2 [0, 1, 2, 3, 0, 1, 2, 3, 0, 1, 2] [0, 0, 0, 0, 0, 0, 1, 1, 1, 1, 1] [0, 1]
    = .ok ([10, 14, 5, 7, 16, 20, 8, 10, 17, 19, 34, 15, 20, 22, 40, 18],
           [2, 2, 1, 1, 2, 2, 1, 1, 1, 1, 2, 1, 1, 1, 2, 1]) := by rfl
example : fold [1, 2, 3, 4, 5, 6, 7, 8, 9, 10, 11, 12, 13, 14, 15, 16, 17, 18, 19, 20, 21, 22, 23, 24] 2 [0, 1]
      100 0 12 12 4 2 2 [0, 1, 2, 3, 0, 1, 2, 3, 0, 1, 2] [0, 0, 0, 0, 0, 0, 1, 1, 1, 1, 1] [0, 1]
    = .ok ([10, 14, 5, 7, 16, 20, 8, 10, 17, 19, 34, 15, 20, 22, 40, 18],
           [2, 2, 1, 1, 2, 2, 1, 1, 1, 1, 2, 1, 1, 1, 2, 1]) := by rfl
example : ([2, 2, 1, 1, 2, 2, 1, 1, 1, 1, 2, 1, 1, 1, 2, 1] : List Int).sum = ((12 - 1) * 2 : Nat) := by decide
-- `hcell` is needed: with `nints = 1` the second sub-integration lies outside the cube and the
-- model drops those accumulations (the counts add up to 12, not 22)
example : fold [1, 2, 3, 4, 5, 6, 7, 8, 9, 10, 11, 12, 13, 14, 15, 16, 17, 18, 19, 20, 21, 22, 23, 24] 2 [0, 1]
      4 0 12 12 4 1 2 [0, 1, 2, 3, 0, 1, 2, 3, 0, 1, 2] [0, 0, 0, 0, 0, 0, 1, 1, 1, 1, 1] [0, 1]
    = .ok ([10, 14, 5, 7, 16, 20, 8, 10], [2, 2, 1, 1, 2, 2, 1, 1]) := by rfl
-- a range no longer than the maximum delay is rejected by the plan
example : fold [1, 2, 3, 4] 2 [0, 2] 1 0 2 2 4 1 1 [0] [0] [0, 0] = .error .valueError := by rfl
-- phase bins: period 5 samples, 8 bins, pulse at sample 3 (+ multiples of 5) always in bin 5
example : (List.range 7).map (fun j => phaseBinQ 8 (3 + j * 5) 5) = [5, 5, 5, 5, 5, 5, 5] := by decide +kernel
-- one full turn of a 10-sample period over 4 bins (rounding, wrap-around at the end)
example : (List.range 10).map (fun t => phaseBinQ 4 t 10) = [0, 0, 1, 1, 2, 2, 2, 3, 3, 0] := by decide +kernel

end SppModel.Fold

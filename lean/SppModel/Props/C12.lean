import SppModel.Lemmas.Conv
/-!
# C12 — FFT convolution / correlation bookkeeping

`fftconvolve` (`Model/Conv.lean`) zero-pads both series to a transform size `N`, takes the
CIRCULAR convolution (what `irfft(rfft x * rfft y, N)` computes) and slices `[:n1+n2-1]`.
For EVERY `N ≥ n1+n2-1` — FFT-friendly or not, even or odd, exact fit or larger — the wrapped
terms of the circular product land on the zero padding, so the result is the full LINEAR
convolution and does not depend on `N`.  `correlate` (convolution with the reversed second
series) therefore returns the full cross-correlation at lags `-(m-1) .. n-1`.
The `rfft`/`irfft` length bookkeeping: `irfft`'s default length `2*(bins-1)` gives back the
forward length only for even `N`; asking for the header's `nsamples` always does.
No bound on `N`, the lengths or the data.
-/
namespace SppModel.Conv
open SppModel

/-! ## zero padding -/

theorem padTo_length (N : Nat) (x : List Int) : (padTo N x).length = N := by
  simp [padTo]

theorem padTo_take (N : Nat) (x : List Int) (h : x.length ≤ N) :
    (padTo N x).take x.length = x := by
  apply List.ext_getElem
  · simp [padTo_length, h]
  · intro i h1 h2
    simp [padTo, List.getD_eq_getElem?_getD, h2]

theorem padTo_zero_tail (N : Nat) (x : List Int) (i : Nat) (hi : x.length ≤ i) (hN : i < N) :
    (padTo N x).getD i 0 = 0 := by
  rw [padTo_getD, if_pos hN, getD_zero_of_le x i hi]

/-! ## convolution -/

/-- **C12**: FFT convolution = full linear convolution, for EVERY size `N ≥ n1+n2-1`
    (FFT-friendly or not) -/
theorem fftconvolve_eq_lconv (N : Nat) (a b : List Int) (hN : a.length + b.length - 1 ≤ N) :
    fftconvolve N a b = lconv a b := by
  unfold fftconvolve lconv
  by_cases h : a.length = 0 ∨ b.length = 0
  · rw [if_pos h, if_pos h]
  · rw [if_neg h, if_neg h]
    unfold cconv
    rw [← List.map_take, List.take_range, Nat.min_eq_left hN]
    apply List.map_congr_left
    intro k hk
    rw [List.mem_range] at hk
    exact cconv_pad_entry N a b (by omega) hN k hk

/-- the size does not matter -/
theorem fftconvolve_size_independent (N₁ N₂ : Nat) (a b : List Int)
    (h₁ : a.length + b.length - 1 ≤ N₁) (h₂ : a.length + b.length - 1 ≤ N₂) :
    fftconvolve N₁ a b = fftconvolve N₂ a b := by
  rw [fftconvolve_eq_lconv N₁ a b h₁, fftconvolve_eq_lconv N₂ a b h₂]

theorem lconv_length (a b : List Int) (ha : a ≠ []) (hb : b ≠ []) :
    (lconv a b).length = a.length + b.length - 1 := by
  have ha' : a.length ≠ 0 := fun h => ha (List.eq_nil_of_length_eq_zero h)
  have hb' : b.length ≠ 0 := fun h => hb (List.eq_nil_of_length_eq_zero h)
  unfold lconv
  rw [if_neg (by omega)]
  simp

/-- entry `k` of the linear convolution -/
theorem lconv_get (a b : List Int) (k : Nat) (hk : k < a.length + b.length - 1)
    (ha : a ≠ []) (hb : b ≠ []) :
    (lconv a b).getD k 0
      = ((List.range a.length).map (fun j =>
          if j ≤ k then a.getD j 0 * b.getD (k - j) 0 else 0)).sum := by
  have ha' : a.length ≠ 0 := fun h => ha (List.eq_nil_of_length_eq_zero h)
  have hb' : b.length ≠ 0 := fun h => hb (List.eq_nil_of_length_eq_zero h)
  unfold lconv
  rw [if_neg (by omega), getD_map_range _ _ _ hk]

/-- empty inputs -/
theorem fftconvolve_empty (N : Nat) (a b : List Int) (h : a = [] ∨ b = []) :
    fftconvolve N a b = [] := by
  unfold fftconvolve
  rw [if_pos]
  rcases h with h | h
  · exact Or.inl (by rw [h]; rfl)
  · exact Or.inr (by rw [h]; rfl)

/-! ## correlation -/

theorem correlate_eq_lconv (N : Nat) (a b : List Int) (hN : a.length + b.length - 1 ≤ N) :
    correlate N a b = lconv a b.reverse := by
  unfold correlate
  exact fftconvolve_eq_lconv N a b.reverse (by rw [List.length_reverse]; exact hN)

theorem correlate_length (N : Nat) (a b : List Int) (ha : a ≠ []) (hb : b ≠ [])
    (hN : a.length + b.length - 1 ≤ N) :
    (correlate N a b).length = a.length + b.length - 1 := by
  rw [correlate_eq_lconv N a b hN, lconv_length a b.reverse ha (by simpa using hb),
    List.length_reverse]

/-- cross-correlation returns the full correlation at lags `-(m-1)..n-1`: entry `ℓ+(m-1)` is
    `Σ_j a[j+ℓ]·b[j]` (terms with `j+ℓ` outside `[0,n)` vanish) -/
theorem correlate_lags (N : Nat) (a b : List Int) (ha : a ≠ []) (hb : b ≠ [])
    (hN : a.length + b.length - 1 ≤ N) (i : Nat) (hi : i < a.length + b.length - 1) :
    (correlate N a b).getD i 0 =
      ((List.range b.length).map (fun j =>
        if b.length - 1 ≤ i + j ∧ i + j - (b.length - 1) < a.length
        then a.getD (i + j - (b.length - 1)) 0 * b.getD j 0 else 0)).sum := by
  rw [correlate_eq_lconv N a b hN,
    lconv_get a b.reverse i (by rw [List.length_reverse]; exact hi) ha (by simpa using hb),
    lconv_sum_left, ← lconv_sum_right, List.length_reverse,
    ← sum_range_reflect (fun j =>
        if b.length - 1 ≤ i + j ∧ i + j - (b.length - 1) < a.length
        then a.getD (i + j - (b.length - 1)) 0 * b.getD j 0 else 0) b.length]
  apply sum_map_congr
  intro j hj
  rw [List.mem_range] at hj
  have e1 : i + (b.length - 1 - j) - (b.length - 1) = i - j := by omega
  have e2 : (b.length - 1 ≤ i + (b.length - 1 - j)) ↔ j ≤ i := by omega
  simp only [e1, e2, getD_reverse b j hj]

/-- the same with an integer lag `ℓ ∈ [-(m-1), n-1]` -/
theorem correlate_lag_int (N : Nat) (a b : List Int) (ha : a ≠ []) (hb : b ≠ [])
    (hN : a.length + b.length - 1 ≤ N) (l : Int)
    (hl : -((b.length : Int) - 1) ≤ l) (hu : l < a.length) :
    (correlate N a b).getD (l + ((b.length : Int) - 1)).toNat 0 =
      ((List.range b.length).map (fun (j : Nat) =>
        if 0 ≤ (j : Int) + l ∧ (j : Int) + l < a.length
        then a.getD ((j : Int) + l).toNat 0 * b.getD j 0 else 0)).sum := by
  have hb' : b.length ≠ 0 := fun h => hb (List.eq_nil_of_length_eq_zero h)
  rw [correlate_lags N a b ha hb hN _ (by omega)]
  apply sum_map_congr
  intro j hj
  rw [List.mem_range] at hj
  by_cases h : 0 ≤ (j : Int) + l ∧ (j : Int) + l < a.length
  · have e : (l + ((b.length : Int) - 1)).toNat + j - (b.length - 1) = ((j : Int) + l).toNat := by
      omega
    rw [if_pos h, if_pos (by omega), e]
  · rw [if_neg h, if_neg (by omega)]

/-! ## lengths of the real transform -/

/-- an inverse of the default length `2*(bins-1)` has the forward length `N` exactly when `N` is even -/
theorem irfft_default_len (N : Nat) (hN : 0 < N) :
    irfftDefaultLen (rfftBins N) = N ↔ N % 2 = 0 := by
  unfold irfftDefaultLen rfftBins
  omega

/-- asking for the header's `nsamples` always gives `N` back -/
theorem ifftLen_roundtrip (N : Nat) (_hN : 0 < N) : ifftLen (rfftBins N) N = N := by
  simp [ifftLen, rfftBins]

/-! ## concrete instances -/

example : fftconvolve 8 [1, 2, 3] [4, 5] = [4, 13, 22, 15] := by decide
example : fftconvolve 4 [1, 2, 3] [4, 5] = [4, 13, 22, 15] := by decide
example : fftconvolve 9 [1, 2, 3] [4, 5] = [4, 13, 22, 15] := by decide
example : lconv [1, 2, 3] [4, 5] = [4, 13, 22, 15] := by decide
example : correlate 8 [1, 2, 3] [4, 5] = [5, 14, 23, 12] := by decide
/-- a transform that is too short wraps around: the hypothesis `n1+n2-1 ≤ N` is needed -/
example : fftconvolve 3 [1, 2, 3] [4, 5] ≠ lconv [1, 2, 3] [4, 5] := by decide
example : irfftDefaultLen (rfftBins 9) = 8 ∧ ifftLen (rfftBins 9) 9 = 9 := by decide

end SppModel.Conv

import SppModel.Model.Parallel
import SppModel.Generated.Prange
/-!
# C19 — parallel kernels give the same answer for every thread count and schedule

Two layers:

* generic theorems (this file): if every iteration writes only inside its own
  footprint, its result there depends only on its own footprint and on memory no
  iteration writes, and footprints of different iterations are disjoint, then
  running the iterations in ANY order — hence any chunking, thread count,
  chunk size or repetition — gives the sequential result;
* obligations regenerated from `kernels.py` on every run
  (`Generated/Prange.lean`): for each `prange` loop, the store index is injective
  in the prange variable (given the inner-loop bounds), slices of different
  iterations are disjoint, and no iteration reads a cell of an array the loop
  writes other than its own.  These are exactly the `disjoint` hypothesis below
  for the footprints the source denotes.
-/
namespace SppModel.Parallel

/-- What a race-free parallel loop satisfies. `W i a`: iteration `i` may write address `a`. -/
structure RaceFree (body : Nat → Mem → Mem) (W : Nat → Nat → Prop) : Prop where
  /-- writes stay inside the footprint -/
  frame : ∀ i m a, ¬ W i a → body i m a = m a
  /-- what is written depends only on memory that no OTHER iteration writes -/
  local_ : ∀ i m m', (∀ a, (∀ j, j ≠ i → ¬ W j a) → m a = m' a) → ∀ a, W i a → body i m a = body i m' a
  /-- each output element belongs to one iteration only -/
  disjoint : ∀ i j a, i ≠ j → W i a → ¬ W j a

theorem comm {body W} (L : RaceFree body W) (i j : Nat) (h : i ≠ j) (m : Mem) :
    body i (body j m) = body j (body i m) := by
  funext a
  by_cases hi : W i a
  · have hj : ¬ W j a := L.disjoint i j a h hi
    rw [L.frame j _ a hj]
    apply L.local_ i _ _ _ a hi
    intro b hb
    exact L.frame j m b (hb j (Ne.symm h))
  · rw [L.frame i _ a hi]
    by_cases hj : W j a
    · symm
      apply L.local_ j _ _ _ a hj
      intro b hb
      exact L.frame i m b (hb i h)
    · rw [L.frame j _ a hj, L.frame j _ a hj, L.frame i _ a hi]

/-- **Schedule independence**: any two orders that are permutations of each
    other give the same memory. -/
theorem perm_independent {body W} (L : RaceFree body W) (o₁ o₂ : List Nat) (hp : o₁.Perm o₂) (m : Mem) :
    run body o₁ m = run body o₂ m := by
  unfold run
  induction hp generalizing m with
  | nil => rfl
  | cons x _ ih => simp only [List.foldl_cons]; exact ih _
  | swap x y l =>
    simp only [List.foldl_cons]
    by_cases hxy : x = y
    · subst hxy; rfl
    · rw [comm L x y hxy m]
  | trans _ _ ih₁ ih₂ => rw [ih₁, ih₂]

/-- every schedule that runs each of the `n` iterations exactly once equals the sequential loop -/
theorem schedule_eq_seq {body W} (L : RaceFree body W) (n : Nat) (order : List Nat)
    (hp : order.Perm (List.range n)) (m : Mem) : run body order m = runSeq body n m :=
  perm_independent L order (List.range n) hp m

/-- any partition of the iteration space into per-thread chunks (any thread count, any chunk size),
    executed in any chunk order -/
theorem chunks_eq_seq {body W} (L : RaceFree body W) (n : Nat) (chunks : List (List Nat))
    (hp : chunks.flatten.Perm (List.range n)) (m : Mem) : runChunks body chunks m = runSeq body n m :=
  schedule_eq_seq L n chunks.flatten hp m

/-- repeated runs under different schedules agree with each other -/
theorem schedules_agree {body W} (L : RaceFree body W) (n : Nat) (o₁ o₂ : List Nat)
    (h₁ : o₁.Perm (List.range n)) (h₂ : o₂.Perm (List.range n)) (m : Mem) : run body o₁ m = run body o₂ m := by
  rw [schedule_eq_seq L n o₁ h₁, schedule_eq_seq L n o₂ h₂]

/-- footprints given by a store-index family that is injective in the prange variable are disjoint —
    the form in which the generated obligations deliver `RaceFree.disjoint` -/
theorem footprint_disjoint {ι : Type} (idx : Nat → ι → Nat)
    (hinj : ∀ i i' j j', idx i j = idx i' j' → i = i') :
    ∀ i i' a, i ≠ i' → footprint idx i a → ¬ footprint idx i' a := by
  intro i i' a hne ⟨j, hj⟩ ⟨j', hj'⟩
  exact hne (hinj i i' j j' (hj.trans hj'.symm))

/-! ## The generated obligations instantiate `disjoint` for the kernels in the source -/
open SppModel.Generated.Prange

/-- `extract_tim` / `dedisperse`: cell `index + isamp` -/
theorem extract_tim_disjoint (index : Nat) :
    ∀ i i' a, i ≠ i' → footprint (fun i (_ : Unit) => index + i) i a → ¬ footprint (fun i (_ : Unit) => index + i) i' a :=
  footprint_disjoint _ (fun i i' _ _ h => extract_tim_outarray_1_inj index i i' h)

theorem dedisperse_disjoint (index : Nat) :
    ∀ i i' a, i ≠ i' → footprint (fun i (_ : Unit) => index + i) i a → ¬ footprint (fun i (_ : Unit) => index + i) i' a :=
  footprint_disjoint _ (fun i i' _ _ h => dedisperse_outarray_1_inj index i i' h)

/-- `extract_bpass`, online moments: cell / record `ichan` -/
theorem extract_bpass_disjoint :
    ∀ i i' a, i ≠ i' → footprint (fun i (_ : Unit) => i) i a → ¬ footprint (fun i (_ : Unit) => i) i' a :=
  footprint_disjoint _ (fun i i' _ _ h => extract_bpass_outarray_1_inj i i' h)

theorem moments_disjoint :
    ∀ i i' a, i ≠ i' → footprint (fun i (_ : Unit) => i) i a → ¬ footprint (fun i (_ : Unit) => i) i' a :=
  footprint_disjoint _ (fun i i' _ _ h => compute_online_moments_moments_1_inj i i' h)

/-- `remove_zerodm`: cells `nchans*isamp + ichan`, `ichan < nchans` -/
theorem remove_zerodm_disjoint (nchans : Nat) :
    ∀ i i' a, i ≠ i' → footprint (fun i (c : Fin nchans) => nchans * i + c.val) i a →
      ¬ footprint (fun i (c : Fin nchans) => nchans * i + c.val) i' a :=
  footprint_disjoint _ (fun i i' c c' h => remove_zerodm_outarray_1_inj nchans i i' c.val c'.val c.isLt c'.isLt h)

/-- `downsample_2d_mean_flat`: cells `new_dim2*i + j`, `j < new_dim2` -/
theorem downsample_2d_disjoint (new_dim2 : Nat) :
    ∀ i i' a, i ≠ i' → footprint (fun i (j : Fin new_dim2) => new_dim2 * i + j.val) i a →
      ¬ footprint (fun i (j : Fin new_dim2) => new_dim2 * i + j.val) i' a :=
  footprint_disjoint _ (fun i i' j j' h => downsample_2d_mean_flat_result_1_inj new_dim2 i i' j.val j'.val j.isLt j'.isLt h)

/-- `subband`: cells `nsubs*isamp + chan_to_sub[ichan]`, under the caller-side bound `chan_to_sub c < nsubs` -/
theorem subband_disjoint (nsubs : Nat) (chan_to_sub : Nat → Nat) (hb : ∀ c, chan_to_sub c < nsubs) :
    ∀ i i' a, i ≠ i' → footprint (fun i (c : Nat) => nsubs * i + chan_to_sub c) i a →
      ¬ footprint (fun i (c : Nat) => nsubs * i + chan_to_sub c) i' a :=
  footprint_disjoint _ (fun i i' c c' h => subband_outarray_1_inj nsubs chan_to_sub i i' c c' hb h)

/-- the caller-side fact for `subband`: `arange(C) // (C // nsub)` stays below `nsub` when `nsub ∣ C` -/
theorem chan_to_sub_lt (C nsub c : Nat) (_hns : 0 < nsub) (hd : C % nsub = 0) (hc : c < C) (hC : 0 < C) :
    c / (C / nsub) < nsub := by
  have hq : C = nsub * (C / nsub) := by
    have := Nat.div_add_mod C nsub; rw [hd] at this; omega
  have hper : 0 < C / nsub := by
    rcases Nat.eq_zero_or_pos (C / nsub) with h0 | h0
    · rw [h0] at hq; omega
    · exact h0
  apply (Nat.div_lt_iff_lt_mul hper).mpr
  rw [← hq]; exact hc

/-- `mask_channels`: cells `nchans*isamp + ichan` for the iteration's own channel (`ichan < nchans`) -/
theorem mask_channels_disjoint (nchans : Nat) :
    ∀ (i i' : Fin nchans) a, i ≠ i' → (∃ t, nchans * t + i.val = a) → ¬ (∃ t', nchans * t' + i'.val = a) := by
  intro i i' a hne ⟨t, ht⟩ ⟨t', ht'⟩
  exact hne (Fin.ext (mask_channels_array_1_inj nchans i.val i'.val t t' i.isLt i'.isLt (ht.trans ht'.symm)))

/-- `invert_freq`: slices `[nchans*isamp, nchans*(isamp+1))` -/
theorem invert_freq_disjoint (nchans : Nat) (i i' x : Nat) (h : i ≠ i')
    (hx : nchans * i ≤ x ∧ x < nchans * (i + 1)) : ¬ (nchans * i' ≤ x ∧ x < nchans * (i' + 1)) :=
  invert_freq_outarray_1_disjoint nchans i i' x h hx

/-! ## Non-vacuity: a concrete race-free loop, and a racy one that is NOT schedule independent -/

/-- iteration `i` adds `i+1` to cell `i` -/
def exBody (i : Nat) (m : Mem) : Mem := fun a => if a = i then m a + (i + 1 : Int) else m a

theorem exBody_racefree : RaceFree exBody (fun i a => a = i) where
  frame i m a h := by simp [exBody, h]
  local_ i m m' hm a ha := by
    subst ha
    have : m a = m' a := hm a (fun j hj h => hj h.symm)
    simp [exBody, this]
  disjoint i j a h hi hj := h (hi.symm.trans hj)

example (m : Mem) : run exBody [2, 0, 1] m = runSeq exBody 3 m :=
  schedule_eq_seq exBody_racefree 3 [2, 0, 1] (by decide) m

/-- a loop parallelised over the wrong axis: every iteration overwrites cell 0 -/
def racyBody (i : Nat) (m : Mem) : Mem := fun a => if a = 0 then (i : Int) else m a

example : run racyBody [0, 1] (fun _ => 0) 0 ≠ run racyBody [1, 0] (fun _ => 0) 0 := by decide

end SppModel.Parallel

import SppModel.Lemmas.Robust
/-!
C15 properties: affine equivariance of the location / scale estimators, sign-equivariance of
z-scores, absence of division by zero, and axis consistency (`core/stats.py:279-718`).
`aff a b xs = xs.map (fun x => a * x + b)`.
-/
namespace SppModel.Robust

/-! ## order statistics under an increasing / decreasing affine map -/

theorem sortQ_aff_pos (a b : ℚ) (ha : 0 < a) (xs : List ℚ) :
    sortQ (aff a b xs) = aff a b (sortQ xs) := sortQ_aff_pos_lem a b ha xs

theorem sortQ_aff_neg (a b : ℚ) (ha : a < 0) (xs : List ℚ) :
    sortQ (aff a b xs) = (aff a b (sortQ xs)).reverse := sortQ_aff_neg_lem a b ha xs

theorem sortQ_length (xs : List ℚ) : (sortQ xs).length = xs.length := sortQ_length_lem xs

/-! ## location estimators are affine-equivariant -/

theorem mean_aff (a b : ℚ) (xs : List ℚ) (h : xs ≠ []) : mean (aff a b xs) = a * mean xs + b :=
  mean_aff_lem a b xs h

theorem median_aff (a b : ℚ) (ha : a ≠ 0) (xs : List ℚ) (h : xs ≠ []) :
    median (aff a b xs) = a * median xs + b := median_aff_lem a b ha xs h

/-- (extra) percentiles `0 ≤ p ≤ 1`: increasing maps commute, decreasing maps mirror `p ↦ 1 - p` -/
theorem percentile_aff (a b : ℚ) (ha : a ≠ 0) (xs : List ℚ) (h : xs ≠ []) (p : ℚ)
    (hp0 : 0 ≤ p) (hp1 : p ≤ 1) :
    percentile (aff a b xs) p = a * percentile xs (if 0 < a then p else 1 - p) + b := by
  rcases lt_or_gt_of_ne ha with ha | ha
  · rw [if_neg (not_lt.mpr ha.le)]; exact percentile_aff_neg a b ha xs h hp0 hp1
  · rw [if_pos ha]; exact percentile_aff_pos a b ha xs h hp0 hp1

/-! ## scale estimators: scale(a·x+b) = |a|·scale(x) -/

theorem iqr_aff (norm a b : ℚ) (ha : a ≠ 0) (xs : List ℚ) (h : xs ≠ []) :
    iqr norm (aff a b xs) = absQ a * iqr norm xs := by
  unfold iqr
  rcases lt_or_gt_of_ne ha with ha | ha
  · rw [percentile_aff_neg a b ha xs h (by norm_num) (by norm_num),
      percentile_aff_neg a b ha xs h (by norm_num) (by norm_num), absQ_of_neg ha]
    have e1 : (1 : ℚ) - 3 / 4 = 1 / 4 := by norm_num
    have e2 : (1 : ℚ) - 1 / 4 = 3 / 4 := by norm_num
    rw [e1, e2]; ring
  · rw [percentile_aff_pos a b ha xs h (by norm_num) (by norm_num),
      percentile_aff_pos a b ha xs h (by norm_num) (by norm_num), absQ_of_pos ha]
    ring

/-- `mad_aff` without the (unneeded) hypothesis `norm ≠ 0` -/
theorem mad_aff' (norm normAad a b : ℚ) (ha : a ≠ 0) (xs : List ℚ) (h : xs ≠ []) :
    mad norm normAad (aff a b xs) = absQ a * mad norm normAad xs := by
  have hdev : xs.map (fun x => absQ (x - median xs)) ≠ [] := by simpa using h
  simp only [mad]
  rw [median_aff a b ha xs h, map_absdev_aff, median_aff _ _ (absQ_ne_zero ha) _ hdev,
    mean_aff _ _ _ hdev]
  have e : (absQ a * median (xs.map (fun x => absQ (x - median xs))) + 0) / norm
      = absQ a * (median (xs.map (fun x => absQ (x - median xs))) / norm) := by ring
  rw [e]
  by_cases hm : median (xs.map (fun x => absQ (x - median xs))) / norm = 0
  · rw [if_pos hm, if_pos (by rw [hm]; ring)]; ring
  · rw [if_neg hm, if_neg (mul_ne_zero (absQ_ne_zero ha) hm)]

theorem mad_aff (norm normAad a b : ℚ) (ha : a ≠ 0) (_hn : norm ≠ 0) (xs : List ℚ) (h : xs ≠ []) :
    mad norm normAad (aff a b xs) = absQ a * mad norm normAad xs := mad_aff' norm normAad a b ha xs h

theorem qn_aff (norm a b : ℚ) (ha : a ≠ 0) (xs : List ℚ) :
    qn norm (aff a b xs) = absQ a * qn norm xs := by
  simp only [qn]
  rw [pairDiffs_aff, sortQ_aff_pos _ _ (absQ_pos ha), getD_scale, aff_length]; ring

theorem sn_aff (norm a b : ℚ) (ha : a ≠ 0) (xs : List ℚ) (h : xs ≠ []) :
    sn norm (aff a b xs) = absQ a * sn norm xs := by
  have hne : xs.map (fun xi => median (xs.map (fun xj => absQ (xi - xj)))) ≠ [] := by simpa using h
  unfold sn
  have inner : ∀ xi, median ((aff a b xs).map (fun xj => absQ (a * xi + b - xj)))
      = absQ a * median (xs.map (fun xj => absQ (xi - xj))) := by
    intro xi
    have : (aff a b xs).map (fun xj => absQ (a * xi + b - xj))
        = aff (absQ a) 0 (xs.map (fun xj => absQ (xi - xj))) := by
      unfold aff; rw [List.map_map, List.map_map]
      apply List.map_congr_left; intro y _
      simp only [Function.comp]; rw [absQ_aff_sub]; ring
    rw [this, median_aff _ _ (absQ_ne_zero ha) _ (by simpa using h)]; ring
  have outer : (aff a b xs).map (fun xi => median ((aff a b xs).map (fun xj => absQ (xi - xj))))
      = aff (absQ a) 0 (xs.map (fun xi => median (xs.map (fun xj => absQ (xi - xj))))) := by
    conv_lhs => unfold aff
    conv_rhs => unfold aff
    rw [List.map_map, List.map_map]
    apply List.map_congr_left; intro xi _
    simp only [Function.comp]
    have := inner xi
    unfold aff at this
    rw [this]; ring
  rw [outer, median_aff _ _ (absQ_ne_zero ha) _ hne]; ring

theorem gapper_aff (c a b : ℚ) (ha : a ≠ 0) (xs : List ℚ) :
    gapper c (aff a b xs) = absQ a * gapper c xs := by
  rw [gapper_eq, gapper_eq]
  rcases lt_or_gt_of_ne ha with ha | ha
  · rw [sortQ_aff_neg a b ha, gapS_reverse, gapS_aff, List.length_reverse, aff_length, absQ_of_neg ha]
    ring
  · rw [sortQ_aff_pos a b ha, gapS_aff, aff_length, absQ_of_pos ha]; ring

/-- std in squared form -/
theorem variance_aff (a b : ℚ) (xs : List ℚ) (h : xs ≠ []) :
    variance (aff a b xs) = a * a * variance xs := by
  unfold variance
  rw [mean_aff a b xs h, aff_length]
  have : (aff a b xs).map (fun x => (x - (a * mean xs + b)) * (x - (a * mean xs + b)))
      = (xs.map (fun x => (x - mean xs) * (x - mean xs))).map (fun t => a * a * t) := by
    unfold aff; rw [List.map_map, List.map_map]
    apply List.map_congr_left; intro x _; simp only [Function.comp]; ring
  rw [this, List.map_map]; simp only [Function.comp_def]; rw [List.sum_map_mul_left]; ring

/-! ## z-scores -/

/-- explicit form: location `a·loc+b`, scale `|a|·scale` -/
theorem zscore_aff (loc scale a b : ℚ) (ha : a ≠ 0) (hnz : scale ≠ 0) (xs : List ℚ) :
    zscore (a * loc + b) (absQ a * scale) (aff a b xs)
      = (zscore loc scale xs).map (fun z => (if 0 < a then 1 else -1) * z) := by
  simp only [zscore]
  rw [if_neg (mul_ne_zero (absQ_ne_zero ha) hnz), if_neg hnz]
  unfold aff; rw [List.map_map, List.map_map]
  apply List.map_congr_left; intro x _
  simp only [Function.comp]
  rcases lt_or_gt_of_ne ha with ha' | ha'
  · rw [absQ_of_neg ha', if_neg (not_lt.mpr ha'.le)]; field_simp; ring
  · rw [absQ_of_pos ha', if_pos ha']; field_simp; ring

/-- for ANY location/scale pair obeying the two laws, `z(a·x+b) = sign(a)·z(x)` when the scale is non-zero -/
theorem zscore_equivariant (loc scale : List ℚ → ℚ) (a b : ℚ) (ha : a ≠ 0) (xs : List ℚ)
    (hloc : loc (aff a b xs) = a * loc xs + b) (hsc : scale (aff a b xs) = absQ a * scale xs)
    (hnz : scale xs ≠ 0) :
    zscore (loc (aff a b xs)) (scale (aff a b xs)) (aff a b xs)
      = (zscore (loc xs) (scale xs) xs).map (fun z => (if 0 < a then 1 else -1) * z) := by
  rw [hloc, hsc]; exact zscore_aff (loc xs) (scale xs) a b ha hnz xs

/-! ## never a division by zero -/

theorem zscore_divisor_ne_zero (scale : ℚ) : (if scale = 0 then (1 : ℚ) else scale) ≠ 0 := by
  split
  · exact one_ne_zero
  · assumption

theorem zscore_length (loc scale : ℚ) (xs : List ℚ) : (zscore loc scale xs).length = xs.length := by
  simp [zscore]

theorem zscore_const (c : ℚ) (n : Nat) (scale : ℚ) :
    zscore c scale (List.replicate n c) = List.replicate n 0 := by
  simp [zscore]

theorem median_replicate (c : ℚ) (n : Nat) (hn : 0 < n) : median (List.replicate n c) = c := by
  rw [median_eq, sortQ_replicate]
  unfold medS
  rw [List.length_replicate]
  split
  · rw [List.getD_replicate (h := by omega)]
  · rw [List.getD_replicate (h := by omega), List.getD_replicate (h := by omega)]; ring

/-! ## axis consistency -/

theorem alongAxis_none (est : List ℚ → ℚ) (m : List (List ℚ)) :
    alongAxis est m none = [est m.flatten] := rfl

theorem alongAxis_rows (est : List ℚ → ℚ) (m : List (List ℚ)) :
    alongAxis est m (some 1) = m.map est := rfl

theorem alongAxis_cols (est : List ℚ → ℚ) (m : List (List ℚ)) (j : Nat)
    (hj : j < (m.getD 0 []).length) :
    (alongAxis est m (some 0)).getD j 0 = est (m.map (fun r => r.getD j 0)) := by
  simp only [alongAxis]
  rw [List.getD_eq_getElem?_getD, List.getElem?_map, List.getElem?_range hj]; rfl

theorem alongAxis_shape (est : List ℚ → ℚ) (m : List (List ℚ)) :
    (alongAxis est m (some 0)).length = (m.getD 0 []).length
      ∧ (alongAxis est m (some 1)).length = m.length := by
  constructor <;> simp [alongAxis]

/-! ## concrete checks
`List.mergeSort` is defined by well-founded recursion and does not reduce in the kernel, so the
checks first rewrite `sortQ` to insertion sort (`sortQ_eq_insertionSort`) and then `decide +kernel`. -/

example : median [3, 1, 2, 5, 4] = 3 := by
  simp only [median, sortQ_eq_insertionSort]; decide +kernel
example : median [4, 1, 3, 2] = 5 / 2 := by
  simp only [median, sortQ_eq_insertionSort]; decide +kernel
example : iqr 1 [1, 2, 3, 4] = 3 / 2 := by
  simp only [iqr, percentile, sortQ_eq_insertionSort]; decide +kernel
example : qn 1 [1, 2, 4, 8, 16] = 3 := by
  simp only [qn, sortQ_eq_insertionSort]; decide +kernel
example : sn 1 [1, 2, 4, 8, 16] = 3 := by
  simp only [sn, median, sortQ_eq_insertionSort]; decide +kernel
example : gapper 1 [1, 2, 4] = 1 := by
  simp only [gapper, sortQ_eq_insertionSort]; decide +kernel
/-- zero scale ⇒ unit scale, no division by zero -/
example : zscore 2 0 [1, 2, 3] = [-1, 0, 1] := by decide +kernel
example : zscore 5 0 [5, 5, 5] = [0, 0, 0] := by decide +kernel
/-- zero-MAD fallback to the mean absolute deviation -/
example : mad 1 1 [5, 5, 5, 7] = 1 / 2 := by
  simp only [mad, median, sortQ_eq_insertionSort]; decide +kernel
example : median (aff (-2) 1 [3, 1, 2, 5, 4]) = -5 := by
  simp only [median, sortQ_eq_insertionSort]; decide +kernel
example : iqr 1 (aff (-2) 1 [1, 2, 3, 4]) = 3 := by
  simp only [iqr, percentile, sortQ_eq_insertionSort]; decide +kernel
example : alongAxis median [[1, 2, 3], [4, 5, 9]] (some 0) = [5 / 2, 7 / 2, 6] := by
  simp only [alongAxis, median, sortQ_eq_insertionSort]; decide +kernel

end SppModel.Robust

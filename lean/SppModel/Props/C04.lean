import SppModel.Lemmas.Samples
/-!
# C04 — samples written at depth `d` read back bit-identical, at every depth

`Depth`, `InRange`, `WholeBytes` are defined in `SppModel/Lemmas/Samples.lean`:

* `Depth d      := d = 1 ∨ d = 2 ∨ d = 4 ∨ d = 8 ∨ d = 16 ∨ d = 32`
* `InRange d ws := ∀ w ∈ ws, w < 2 ^ d`      (for d = 32 the value is the 32-bit pattern)
* `WholeBytes d ws := (ws.length * d) % 8 = 0`

Sub-byte depths go through the C03 kernels (`codec_good`, default bit order from the
generated table); the file composition goes through the C05 header codec (`parse_encode`).
-/
namespace SppModel.Samples
open SppModel SppModel.Bits

/-- read back = written, bit-identical, same order, at every depth -/
theorem decode_encode (d : Nat) (hd : Depth d) (ws : List Nat) (hr : InRange d ws)
    (hw : WholeBytes d ws) :
    ∃ bs, encodeSamples d ws = .ok bs ∧ decodeSamples d bs = .ok ws
      ∧ bs.length * 8 = ws.length * d ∧ ∀ b ∈ bs, b < 256 :=
  ⟨encP d ws, encodeSamples_ok hd ws, decode_encP hd ws hr hw, encP_length hd ws hw,
    encP_lt hd ws hr⟩

/-- never a different width than declared: whatever the in-memory dtype, `cwrite` either
    refuses or appends exactly `len*d/8` bytes which decode to the values -/
theorem cwrite_width (d : Nat) (hd : Depth d) (dt : DType) (ws : List Nat) (hr : InRange d ws)
    (hw : WholeBytes d ws) :
    cwrite d dt ws = .error .valueError ∨
    ∃ bs, cwrite d dt ws = .ok bs ∧ bs.length * 8 = ws.length * d ∧ decodeSamples d bs = .ok ws := by
  by_cases h : d < 8 ∧ dt ≠ .uint8
  · left
    have hs : d = 1 ∨ d = 2 ∨ d = 4 := by have := h.1; unfold Depth at hd; omega
    exact cwrite_refuse hs h.2 ws
  · right
    exact ⟨encP d ws, by rw [cwrite_eq_encode h, encodeSamples_ok hd], encP_length hd ws hw,
      decode_encP hd ws hr hw⟩

/-- refusal happens exactly for sub-byte depths with a non-uint8 array
    (`encodeSamples` itself never fails at a supported depth) -/
theorem cwrite_refuses_iff (d : Nat) (hd : Depth d) (dt : DType) (ws : List Nat) :
    cwrite d dt ws = .error .valueError ↔ (d < 8 ∧ dt ≠ .uint8) := by
  constructor
  · intro he
    apply Classical.byContradiction
    intro h
    rw [cwrite_eq_encode h, encodeSamples_ok hd] at he
    cases he
  · intro h
    have hs : d = 1 ∨ d = 2 ∨ d = 4 := by have := h.1; unfold Depth at hd; omega
    exact cwrite_refuse hs h.2 ws

/-- the bytes written do not depend on the in-memory dtype (≥ 8 bits) -/
theorem cwrite_dtype_irrelevant (d : Nat) (h8 : 8 ≤ d) (dt₁ dt₂ : DType) (ws : List Nat) :
    cwrite d dt₁ ws = cwrite d dt₂ ws := by
  have hs : ¬ (d = 1 ∨ d = 2 ∨ d = 4) := by omega
  rw [cwrite_of_wide hs, cwrite_of_wide hs]

/-- writing block by block appends: outside the refusing case several `cwrite` calls of
    whole-byte chunks equal one `cwrite` of the concatenation (and succeed) -/
theorem cwriteAll_flatten_ok (d : Nat) (hd : Depth d) (dt : DType) (chunks : List (List Nat))
    (hw : ∀ c ∈ chunks, WholeBytes d c) (h : ¬ (d < 8 ∧ dt ≠ .uint8)) :
    cwriteAll d dt chunks = cwrite d dt chunks.flatten
      ∧ ∃ bs, cwriteAll d dt chunks = .ok bs := by
  rw [cwriteAll_ok h hd chunks hw, cwrite_eq_encode h, encodeSamples_ok hd]
  exact ⟨rfl, _, rfl⟩

/-- in the refusing case a non-empty sequence of writes fails with the same error as the single
    write (for `chunks = []` nothing is written: `cwriteAll = .ok []`, while `cwrite … []`
    still refuses) -/
theorem cwriteAll_flatten_refuse (d : Nat) (hd : Depth d) (dt : DType) (chunks : List (List Nat))
    (hne : chunks ≠ []) (h : d < 8 ∧ dt ≠ .uint8) :
    cwriteAll d dt chunks = .error .valueError
      ∧ cwrite d dt chunks.flatten = .error .valueError := by
  have hs : d = 1 ∨ d = 2 ∨ d = 4 := by have := h.1; unfold Depth at hd; omega
  refine ⟨?_, cwrite_refuse hs h.2 _⟩
  cases chunks with
  | nil => exact absurd rfl hne
  | cons c cs => rw [cwriteAll, cwrite_refuse hs h.2]

/-- the statement as requested (a consequence of the two sharper ones above) -/
theorem cwriteAll_flatten (d : Nat) (hd : Depth d) (dt : DType) (chunks : List (List Nat))
    (hw : ∀ c ∈ chunks, WholeBytes d c) :
    cwriteAll d dt chunks = cwrite d dt chunks.flatten ∨ (d < 8 ∧ dt ≠ .uint8) := by
  by_cases h : d < 8 ∧ dt ≠ .uint8
  · exact .inr h
  · exact .inl (cwriteAll_flatten_ok d hd dt chunks hw h).1

/-- the reader infers exactly the number of samples written -/
theorem infer_nsamples (n C d : Nat) (hd : Depth d) (hC : 0 < C) (hb : (C * d) % 8 = 0) :
    inferNsamples (n * C * d / 8) d C = n :=
  infer_nsamples_lem n C d hd.pos hC hb

/-- prefix: decoding a whole-sample prefix of the data gives a prefix of the values -/
theorem decode_prefix (d : Nat) (hd : Depth d) (ws : List Nat) (hr : InRange d ws)
    (_hw : WholeBytes d ws) (m : Nat) (hm : m ≤ ws.length) (hmw : (m * d) % 8 = 0) :
    ∃ bs, encodeSamples d ws = .ok bs
      ∧ decodeSamples d (bs.take (m * d / 8)) = .ok (ws.take m) := by
  refine ⟨encP d ws, encodeSamples_ok hd ws, ?_⟩
  have hwt : WholeBytes d (ws.take m) := WholeBytes.take hm hmw
  have hrt : InRange d (ws.take m) := fun w h => hr w (List.mem_of_mem_take h)
  have hlen := encP_length hd (ws.take m) hwt
  rw [List.length_take, Nat.min_eq_left hm] at hlen
  have hl : (encP d (ws.take m)).length = m * d / 8 := by omega
  conv => lhs; rw [← List.take_append_drop m ws, encP_append hd _ _ hwt, ← hl]
  rw [List.take_left, decode_encP hd _ hrt hwt]

/-- the full write → read composition for a SIGPROC file: header (any well-typed entries
    containing nbits = d and nchans = C, in any position) followed by the samples of `n`
    whole time samples reads back as `(d, C, n, ws)` -/
theorem readback_fil (kvs : List (Sigproc.Bytes × Sigproc.Val))
    (hk : ∀ kv ∈ kvs, Sigproc.EntryWF kv)
    (d C n : Nat) (hd : Depth d) (hC : 0 < C) (hb : (C * d) % 8 = 0)
    (hnb : lookupU32 kvs "nbits" = some d) (hnc : lookupU32 kvs "nchans" = some C)
    (ws : List Nat) (hl : ws.length = n * C) (hr : InRange d ws) (bs : List Nat)
    (he : encodeSamples d ws = .ok bs) :
    readFil (Sigproc.encodeHeader kvs ++ bs) = .ok (d, C, n, ws) := by
  have hw : WholeBytes d ws := by
    unfold WholeBytes
    rw [hl, Nat.mul_assoc]
    exact Nat.mod_eq_zero_of_dvd
      (Nat.dvd_trans (Nat.dvd_of_mod_eq_zero hb) (Nat.dvd_mul_left _ _))
  have hbs : bs = encP d ws := (encP_eq he).symm
  have hlen : bs.length * 8 = n * C * d := by rw [hbs, encP_length hd ws hw, hl]
  have hlen' : bs.length = n * C * d / 8 := by omega
  have hd0 : ¬ (d = 0 ∨ C = 0) := by have := hd.pos; omega
  unfold readFil
  rw [Sigproc.parse_encode kvs hk bs]
  simp only [hnb, hnc, hd0, if_false, List.drop_left]
  rw [hlen', infer_nsamples n C d hd hC hb, ← hlen', List.take_length, hbs,
    decode_encP hd ws hr hw]

/-! ## Non-vacuity: the hypotheses are met by concrete files at several depths -/

/-- a 2-bit, 4-channel file with 2 time samples -/
example :
    readFil (Sigproc.encodeHeader
        [(Sigproc.ascii "nchans", .u32 4), (Sigproc.ascii "nbits", .u32 2)] ++ [0xB4, 0x1E])
      = .ok (2, 4, 2, [2, 3, 1, 0, 0, 1, 3, 2]) := by
  refine readback_fil _ (by decide +kernel) 2 4 2 (by decide) (by decide) (by decide)
    (by decide +kernel) (by decide +kernel) [2, 3, 1, 0, 0, 1, 3, 2] rfl (by decide) _ ?_
  have h : encP 2 [2, 3, 1, 0, 0, 1, 3, 2] = [0xB4, 0x1E] := by decide +kernel
  rw [encodeSamples_ok (by decide), h]

/-- an 8-bit, 2-channel file with 3 time samples (header also carries a string and a double) -/
example :
    readFil (Sigproc.encodeHeader
        [(Sigproc.ascii "source_name", .str (Sigproc.ascii "J0000")),
         (Sigproc.ascii "nbits", .u32 8), (Sigproc.ascii "tsamp", .f64 [0, 0, 0, 0, 0, 0, 240, 63]),
         (Sigproc.ascii "nchans", .u32 2)] ++ [0, 255, 17, 200, 3, 128])
      = .ok (8, 2, 3, [0, 255, 17, 200, 3, 128]) :=
  readback_fil _ (by decide +kernel) 8 2 3 (by decide) (by decide) (by decide)
    (by decide +kernel) (by decide +kernel) [0, 255, 17, 200, 3, 128] rfl (by decide) _
    (by rw [encodeSamples_ok (by decide)]; exact congrArg _ (by decide +kernel))

/-- a 32-bit (float32 bit patterns), 1-channel file with 2 time samples:
    1.0f = 0x3F800000, -2.5f = 0xC0200000 -/
example :
    readFil (Sigproc.encodeHeader
        [(Sigproc.ascii "nbits", .u32 32), (Sigproc.ascii "nchans", .u32 1)]
        ++ [0, 0, 128, 63, 0, 0, 32, 192])
      = .ok (32, 1, 2, [0x3F800000, 0xC0200000]) :=
  readback_fil _ (by decide +kernel) 32 1 2 (by decide) (by decide) (by decide)
    (by decide +kernel) (by decide +kernel) [0x3F800000, 0xC0200000] rfl (by decide) _
    (by rw [encodeSamples_ok (by decide)]; exact congrArg _ (by decide +kernel))

/-- 16-bit samples are little-endian and round-trip -/
example : encodeSamples 16 [513, 65535] = .ok [1, 2, 255, 255]
    ∧ decodeSamples 16 [1, 2, 255, 255] = .ok [513, 65535] :=
  ⟨by rw [encodeSamples_ok (by decide)]; exact congrArg _ (by decide +kernel),
   by simp [decodeSamples, rd16s]⟩

/-- packing refuses a float32 array at a sub-byte depth ... -/
example : cwrite 2 .float32 [2, 3, 1, 0] = .error .valueError :=
  (cwrite_refuses_iff 2 (by decide) .float32 _).mpr (by decide)

/-- ... but writes the same bytes for every dtype at 8 bits and above -/
example : cwrite 8 .float32 [7, 9] = cwrite 8 .uint8 [7, 9] :=
  cwrite_dtype_irrelevant 8 (by decide) _ _ _

/-- the hypotheses of `decode_prefix` / `cwriteAll_flatten_ok` are satisfiable at a sub-byte depth -/
example : WholeBytes 2 [2, 3, 1, 0, 0, 1, 3, 2] ∧ InRange 2 [2, 3, 1, 0, 0, 1, 3, 2] ∧ (4 * 2) % 8 = 0
    ∧ ∀ c ∈ [[2, 3, 1, 0], [0, 1, 3, 2]], WholeBytes 2 c := by decide

/-- the requirement `WholeBytes` is needed: 3 two-bit values do not fill a byte and are dropped -/
example : encodeSamples 2 [1, 2, 3] = .ok [] := by
  rw [encodeSamples_ok (by decide)]; exact congrArg _ (by decide +kernel)

/-- the requirement `InRange` is needed at 8 bits: 256 is stored as 0 -/
example : encodeSamples 8 [256] = .ok [0] := by
  rw [encodeSamples_ok (by decide)]; exact congrArg _ (by decide +kernel)

/-- in the refusing case the empty sequence of writes differs from the single empty write -/
example : cwriteAll 2 .float32 [] = .ok [] ∧ cwrite 2 .float32 [].flatten = .error .valueError :=
  ⟨rfl, cwrite_refuse (by decide) (by decide) _⟩

end SppModel.Samples

import SppModel.Lemmas.Plan
/-!
# C01 — gulped reading delivers every requested sample exactly once, in order

`runPlan g s n k N` is the model of iterating
`FilReader.read_plan(gulp=g, start=s, nsamps=n, skipback=k)` over a stream of
`N` samples (`Model/Plan.lean`, tied to the code by the correspondence run).
No bound on any of `g s n k N`.
-/
namespace SppModel.Plan
open SppModel

/-- A plan the reader honours. -/
def Accepted (g n k : Nat) : Prop := k < geff g n ∧ ¬ lastread g n k < k

instance (g n k : Nat) : Decidable (Accepted g n k) := by unfold Accepted; exact inferInstance

/-- **Rejected plans yield nothing**: whatever is not accepted ends in
    `ValueError` with zero blocks yielded. -/
theorem rejected_before_yield (g s n k N : Nat) (h : ¬ Accepted g n k) :
    runPlan g s n k N = ⟨[], some .valueError⟩ := by
  unfold runPlan
  by_cases h1 : k ≥ geff g n
  · simp [h1]
  · simp only [h1, ↓reduceIte]
    by_cases h2 : s ≥ N
    · simp [h2]
    · simp only [h2, ↓reduceIte]
      have h3 : lastread g n k < k := by
        unfold Accepted at h
        have : k < geff g n := by omega
        simp only [this, true_and, Classical.not_not] at h
        exact h
      simp [planBlocks, h1, h3]

/-- always rejected when skipback is not smaller than the effective gulp -/
theorem rejects_ge (g s n k N : Nat) (h : k ≥ min n g) :
    runPlan g s n k N = ⟨[], some .valueError⟩ :=
  rejected_before_yield g s n k N (by unfold Accepted geff; omega)

/-- plans whose skipback is at most half the effective gulp are accepted -/
theorem half_accepted (g n k : Nat) (hn : 0 < n) (hg : 0 < g) (h : 2 * k ≤ min n g) : Accepted g n k := by
  have hge : 0 < geff g n := by unfold geff; omega
  have hk : k < geff g n := by unfold geff at *; omega
  refine ⟨hk, ?_⟩
  have hgn : geff g n ≤ n := Nat.min_le_left _ _
  by_cases hs : geff g n = n
  · rw [lastread_single g n k hs]; omega
  rw [lastread_multi g n k hs]
  unfold lastreadM
  simp only
  have hst : 0 < geff g n - k := by omega
  split
  · rename_i hr
    -- corrected: last = n - (q-1)*st ≥ st ≥ k
    have hq : (n / (geff g n - k)) * (geff g n - k) ≤ n := Nat.div_mul_le_self _ _
    have e : (n / (geff g n - k) - 1) * (geff g n - k)
        = (n / (geff g n - k)) * (geff g n - k) - (geff g n - k) := by rw [Nat.sub_mul, Nat.one_mul]
    have hq1 : 1 ≤ n / (geff g n - k) := (Nat.one_le_div_iff hst).mpr (by omega)
    have h3 : (geff g n - k) ≤ (n / (geff g n - k)) * (geff g n - k) := Nat.le_mul_of_pos_left _ (by omega)
    unfold geff at *
    rw [e]; omega
  · omega

/-- **Accepted plans run to completion** on any in-range request and yield
    exactly the explicit block list. -/
theorem accepted_run (g s n k N : Nat) (h : Accepted g n k) (hr : s + n ≤ N) :
    runPlan g s n k N = ⟨expected g s n k, none⟩ := by
  obtain ⟨hk, hl⟩ := h
  have A := arith_of g n k hk hl
  have hn : 0 < n := by have := Nat.min_le_left n g; unfold geff at hk; omega
  unfold runPlan
  have h1 : ¬ k ≥ geff g n := by omega
  have h2 : ¬ s ≥ N := by omega
  simp only [h1, h2, ↓reduceIte, planBlocks, hl]
  have hst : 0 < geff g n - k := by omega
  have hkst : k + (geff g n - k) = geff g n := by omega
  -- all full blocks fit: the last full block ends at s + nreads*st + k ≤ s + n
  have hfit : nreads g n k = 0 ∨ s + (0 + nreads g n k - 1) * (geff g n - k) + geff g n ≤ N := by
    rcases Nat.eq_zero_or_pos (nreads g n k) with hz0 | hpos
    · left; exact hz0
    right
    have e : (0 + nreads g n k - 1) * (geff g n - k) = nreads g n k * (geff g n - k) - (geff g n - k) := by
      rw [Nat.zero_add, Nat.sub_mul, Nat.one_mul]
    have h3 : (geff g n - k) ≤ nreads g n k * (geff g n - k) := Nat.le_mul_of_pos_left _ hpos
    have := A.total; have := A.hlast
    rw [e]; omega
  rw [List.range_eq_range']
  by_cases hz : lastread g n k = 0
  · simp only [hz, ne_eq, not_true_eq_false, ↓reduceIte]
    have := runLoop_full N s (geff g n - k) k (geff g n) hkst hst [] (nreads g n k) 0 hfit
    simp only [Nat.zero_mul, Nat.add_zero, List.append_nil] at this
    rw [this]
    simp [runLoop, expected, hz]
  · simp only [hz, ne_eq, not_false_eq_true, ↓reduceIte]
    have := runLoop_full N s (geff g n - k) k (geff g n) hkst hst
      [(nreads g n k, lastread g n k, 0)] (nreads g n k) 0 hfit
    simp only [Nat.zero_mul, Nat.add_zero] at this
    rw [this]
    have hend : ¬ (N < s + nreads g n k * (geff g n - k) + lastread g n k) := by
      have := A.total; omega
    simp [runLoop, expected, hz, hend]

/-- **Exactly once, in order**: laid end to end (first block whole, later
    blocks without their leading `k` samples) an accepted plan's blocks are
    exactly the sample indices `[s, s+n)`. -/
theorem expected_delivers (g s n k : Nat) (h : Accepted g n k) :
    delivered k (expected g s n k) = List.range' s n := by
  obtain ⟨hk, hl⟩ := h
  have A := arith_of g n k hk hl
  have hkst : k + (geff g n - k) = geff g n := by omega
  rcases Nat.eq_zero_or_pos (nreads g n k) with hz0 | hpos
  · -- a single block holding the whole range
    have hl0 := A.nr hz0
    have hn : n ≠ 0 := by have := Nat.min_le_left n g; unfold geff at hk; omega
    unfold expected
    simp [hz0, hl0, hn, delivered]
  obtain ⟨m, hm⟩ : ∃ m, nreads g n k = m + 1 := ⟨nreads g n k - 1, by omega⟩
  unfold expected
  simp only
  rw [hm, List.range'_succ, List.map_cons, List.cons_append, delivered]
  simp only [Nat.zero_mul, Nat.add_zero, List.map_append, List.map_map, List.flatten_append]
  have hfun : ((fun c : Blk => List.range' (c.off + k) (c.len - k)) ∘
      fun i => (⟨i, s + i * (geff g n - k), geff g n⟩ : Blk))
      = fun i => List.range' (s + i * (geff g n - k) + k) (geff g n - k) := by
    funext i; simp
  rw [hfun, full_chain s (geff g n - k) k (geff g n) hkst m 1]
  have ht := A.total; rw [hm] at ht
  have e1 : s + 1 * (geff g n - k) + k = s + geff g n := by omega
  rw [e1, ← List.append_assoc, range'_append']
  by_cases hz : lastread g n k = 0
  · simp only [hz, ne_eq, not_true_eq_false, ↓reduceIte, List.map_nil, List.flatten_nil, List.append_nil]
    have hk0 : k = 0 := by have := A.hlast; omega
    congr 1
    rw [Nat.add_mul] at ht; omega
  · simp only [hz, ne_eq, not_false_eq_true, ↓reduceIte, List.map_cons, List.map_nil, List.flatten_cons,
      List.flatten_nil, List.append_nil]
    have e2 : s + (m + 1) * (geff g n - k) + k = s + (geff g n + m * (geff g n - k)) := by
      rw [Nat.add_mul]; omega
    rw [e2, range'_append']
    congr 1
    have := A.hlast
    rw [Nat.add_mul] at ht; omega

/-- every block holds a whole, positive number of samples no larger than the
    gulp and lies inside the requested range -/
theorem expected_bounded (g s n k : Nat) (h : Accepted g n k) :
    ∀ b ∈ expected g s n k, 0 < b.len ∧ b.len ≤ g ∧ s ≤ b.off ∧ b.off + b.len ≤ s + n := by
  obtain ⟨hk, hl⟩ := h
  have A := arith_of g n k hk hl
  have hgg : geff g n ≤ g := Nat.min_le_right _ _
  intro b hb
  unfold expected at hb
  simp only [List.mem_append, List.mem_map, List.mem_range'_1, Nat.zero_add, Nat.zero_le, true_and] at hb
  rcases hb with ⟨i, hi, rfl⟩ | hb
  · simp only
    have h1 : (i + 1) * (geff g n - k) ≤ nreads g n k * (geff g n - k) := Nat.mul_le_mul_right _ (by omega)
    rw [Nat.add_mul] at h1
    have := A.total; have := A.hlast
    refine ⟨by omega, hgg, by omega, by omega⟩
  · by_cases hz : lastread g n k = 0
    · simp [hz] at hb
    · simp only [hz, ne_eq, not_false_eq_true, ↓reduceIte, List.mem_cons, List.not_mem_nil, or_false] at hb
      subst hb
      simp only
      have := A.total; have := A.lastle
      refine ⟨by omega, by omega, by omega, by omega⟩

/-- **C01, assembled.**  For every in-range request the iteration either
    yields nothing and raises `ValueError`, or completes without error and its
    blocks — each a whole number of samples no larger than the gulp, inside the
    range — laid end to end are exactly samples `[s, s+n)`, each once, in order.
    The first case is forced when `k ≥ min n g` and excluded when `2k ≤ min n g`. -/
theorem plan_covers (g s n k N : Nat) (hr : s + n ≤ N) :
    (runPlan g s n k N = ⟨[], some .valueError⟩ ∧ ¬ Accepted g n k)
    ∨ (∃ bs, runPlan g s n k N = ⟨bs, none⟩ ∧ Accepted g n k
        ∧ delivered k bs = List.range' s n
        ∧ ∀ b ∈ bs, 0 < b.len ∧ b.len ≤ g ∧ s ≤ b.off ∧ b.off + b.len ≤ s + n) := by
  by_cases h : Accepted g n k
  · right
    exact ⟨_, accepted_run g s n k N h hr, h, expected_delivers g s n k h, expected_bounded g s n k h⟩
  · left; exact ⟨rejected_before_yield g s n k N h, h⟩

/-- values: what is delivered is the stream's samples, for any sample function -/
theorem plan_values {α} (flat : Nat → α) (g s n k N : Nat) (hr : s + n ≤ N) (h : Accepted g n k) :
    ∃ bs, runPlan g s n k N = ⟨bs, none⟩ ∧ (delivered k bs).map flat = (List.range' s n).map flat :=
  ⟨_, accepted_run g s n k N h hr, by rw [expected_delivers g s n k h]⟩

/-! ## Non-vacuity and the regime the repair closed -/
example : Accepted 4 10 1 := by decide
example : runPlan 4 0 10 1 10 = ⟨[⟨0, 0, 4⟩, ⟨1, 3, 4⟩, ⟨2, 6, 4⟩, ⟨3, 9, 1⟩], none⟩ := by decide
example : Accepted 512 1300 200 := by decide
-- a range that fits in one gulp is read as a single block whatever the (smaller) skipback
example : runPlan 16 1 8 7 20 = ⟨[⟨0, 1, 8⟩], none⟩ := by decide
-- gulp=4, nsamps=10, skipback=3 cannot be honoured and is rejected before anything is yielded
example : ¬ Accepted 4 10 3 := by decide
example : runPlan 4 0 10 3 12 = ⟨[], some .valueError⟩ := by decide

end SppModel.Plan

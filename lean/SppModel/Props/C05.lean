import SppModel.Lemmas.SigprocHeader
/-!
C05 properties: the SIGPROC header byte codec round-trips in both directions,
`edit_header` rewrites exactly one key in place (or fails leaving the file alone),
and the Header ⇄ SIGPROC field mappings (frame flags, telescope / machine id tables,
sexagesimal coordinates) round-trip.

`EntryWF` (well-typed entry) is defined in `SppModel.Lemmas.SigprocHeader`:
`keyFmt kv.1 = some kv.2.fmt ∧ kv.2.WF ∧ kv.1.length < 2^32`.
-/
namespace SppModel.Sigproc
open SppModel

/-! ### primitives -/

theorem rd32_le32 (n : Nat) (h : n < 2 ^ 32) (rest : Bytes) :
    rd32 (le32 n ++ rest) = some (n, rest) := rd32_le32_lem n h rest

theorem rdStr_encStr (s rest : Bytes) (h : s.length < 2 ^ 32) :
    rdStr (encStr s ++ rest) = some (s, rest) := rdStr_encStr_lem s rest h

/-! ### codec round trips -/

/-- parse ∘ encode = id, for ANY list of well-typed entries (any subset, any order,
    duplicates allowed at this level) and ANY trailing data -/
theorem parse_encode (kvs : List (Bytes × Val)) (h : ∀ kv ∈ kvs, EntryWF kv) (rest : Bytes) :
    parseHeader (encodeHeader kvs ++ rest) = .ok (kvs, (encodeHeader kvs).length) :=
  parseHeader_encode kvs h rest

/-- encode ∘ parse = the original header bytes (bytes are real bytes) -/
theorem encode_parse (bs : Bytes) (hb : ∀ b ∈ bs, b < 256) (kvs : List (Bytes × Val)) (n : Nat)
    (h : parseHeader bs = .ok (kvs, n)) :
    encodeHeader kvs = bs.take n ∧ n ≤ bs.length := by
  obtain ⟨r, e, hn, _⟩ := parseHeader_inv hb h
  refine ⟨?_, parseHeader_len_le h⟩
  rw [e, hn, List.take_left]

/-- whatever parses is well-typed (so `parse_encode` applies to it) -/
theorem parse_wf (bs : Bytes) (hb : ∀ b ∈ bs, b < 256) (kvs : List (Bytes × Val)) (n : Nat)
    (h : parseHeader bs = .ok (kvs, n)) : ∀ kv ∈ kvs, EntryWF kv := by
  obtain ⟨_, _, _, hwf⟩ := parseHeader_inv hb h
  exact hwf

/-! ### in-place edit -/

/-- a successful edit: same total length, data bytes untouched, and the new file parses to
    the old entries with exactly `key` updated -/
theorem edit_exact (file key : Bytes) (v : EditVal) (file' : Bytes) (hb : ∀ b ∈ file, b < 256)
    (h : editHeader file key v = .ok file') :
    ∃ kvs n val, parseHeader file = .ok (kvs, n) ∧ file'.length = file.length ∧
      file'.drop n = file.drop n ∧ parseHeader file' = .ok (update kvs key val, n) := by
  obtain ⟨kvs, n, val, hp, hk, h0, hlen, rfl⟩ := editHeader_ok_inv h
  obtain ⟨r, e, hn, hwf⟩ := parseHeader_inv hb hp
  have hle := parseHeader_len_le hp
  have hval : val.WF := wf_of_same_length kvs hwf key val hk h0 (by rw [hlen, hn])
  have hwf' : ∀ kv ∈ update kvs key val, EntryWF kv := by
    intro kv hkv
    rw [update_eq] at hkv
    split at hkv
    · obtain ⟨kv0, hkv0, rfl⟩ := List.mem_map.1 hkv
      unfold upd
      split
      · exact ⟨hk, hval, keyFmt_len hk⟩
      · exact hwf kv0 hkv0
    · rcases List.mem_append.1 hkv with hkv | hkv
      · exact hwf kv hkv
      · rw [List.mem_singleton.1 hkv]
        exact ⟨hk, hval, keyFmt_len hk⟩
  refine ⟨kvs, n, val, hp, ?_, ?_, ?_⟩
  · simp only [List.length_append, List.length_drop, hlen]
    omega
  · rw [List.drop_left' hlen]
  · rw [parse_encode _ hwf', hlen]

/-- `update` touches only `key` -/
theorem update_other (kvs : List (Bytes × Val)) (k k' : Bytes) (v : Val) (hne : k' ≠ k) :
    (update kvs k v).filter (·.1 == k') = kvs.filter (·.1 == k') :=
  update_filter_other kvs k k' v hne

/-- the only bytes `editHeader` ever returns are a same-length header followed by the
    untouched remainder of the file (every other outcome is an error, file untouched) -/
theorem edit_ok_shape (file key : Bytes) (v : EditVal) (file' : Bytes)
    (h : editHeader file key v = .ok file') :
    ∃ newHdr n, file' = newHdr ++ file.drop n ∧ newHdr.length = n ∧ n ≤ file.length := by
  obtain ⟨kvs, n, val, hp, _, _, hlen, rfl⟩ := editHeader_ok_inv h
  exact ⟨_, n, rfl, hlen, parseHeader_len_le hp⟩

theorem edit_invalid_key (file key : Bytes) (v : EditVal) (h : keyFmt key = none) :
    editHeader file key v = .error .valueError := by
  simp [editHeader, h]

/-! ### field mappings -/

theorem frame_roundtrip (f : Frame) : frameOf (flagsOf f).1 (flagsOf f).2 = f := by
  cases f <;> rfl

/-- id tables (generated from the source): name → id → name for every known name -/
theorem telescope_roundtrip :
    ∀ p ∈ Generated.Tables.telescopeIds, telescopeName (telescopeId p.1) = p.1 := by
  decide +kernel

theorem machine_roundtrip :
    ∀ p ∈ Generated.Tables.machineIds, machineName (machineId p.1) = p.1 := by
  decide +kernel

/-- unknown id ↦ "Fake" -/
theorem telescope_unknown (id : Nat) (h : ∀ p ∈ Generated.Tables.telescopeIds, p.2 ≠ id) :
    telescopeName id = "Fake" := nameOf_unknown _ _ id h

/-- unknown id ↦ "FAKE" -/
theorem machine_unknown (id : Nat) (h : ∀ p ∈ Generated.Tables.machineIds, p.2 ≠ id) :
    machineName id = "FAKE" := nameOf_unknown _ _ id h

/-- unknown name ↦ 0 -/
theorem telescope_unknown_name (name : String)
    (h : ∀ p ∈ Generated.Tables.telescopeIds, p.1 ≠ name) : telescopeId name = 0 :=
  idOf_unknown _ name h

theorem machine_unknown_name (name : String)
    (h : ∀ p ∈ Generated.Tables.machineIds, p.1 ≠ name) : machineId name = 0 :=
  idOf_unknown _ name h

/-- sexagesimal round trip over ℚ, either sign, INCLUDING d = 0 (southern declinations
    between 0 and -1 degree) -/
theorem radec_roundtrip (neg : Bool) (d m : Nat) (s : Rat) (hm : m < 100) (hs0 : 0 ≤ s)
    (hs : s < 100) (hnz : neg = true → 0 < (d : Rat) * 10000 + m * 100 + s) :
    parseRadec (packRadec neg d m s) = (neg, d, m, s) := by
  have hm0 : (0 : Rat) ≤ m := by exact_mod_cast Nat.zero_le m
  have hd0 : (0 : Rat) ≤ d := by exact_mod_cast Nat.zero_le d
  rw [parseRadec_eq]
  cases neg with
  | false =>
    have hv : ¬ ((d : Rat) * 10000 + (m : Rat) * 100 + s < 0) := by grind
    simp only [packRadec, Bool.false_eq_true, if_false, hv, decide_false]
    rw [parseMag_pack d m s hm hs0 hs]
  | true =>
    have hpos := hnz rfl
    have hv : -((d : Rat) * 10000 + (m : Rat) * 100 + s) < 0 := by grind
    simp only [packRadec, if_true, hv, decide_true, Rat.neg_neg]
    rw [parseMag_pack d m s hm hs0 hs]

/-! ### non-vacuity: a concrete 3-key header (`nbits`/I, `foff`/d, `source_name`/str) + 4 data bytes -/

/-- the hypotheses of `parse_encode` / `encode_parse` / `edit_exact` are satisfiable -/
example : ∀ kv ∈ exHdr, EntryWF kv := by decide +kernel
example : ∀ b ∈ exFile, b < 256 := by decide +kernel
example : (encodeHeader exHdr).length = 83 ∧ exFile.length = 87 := by decide +kernel

/-- `parse_encode` instantiated, and the same fact by evaluation -/
example : parseHeader exFile = .ok (exHdr, (encodeHeader exHdr).length) :=
  parse_encode exHdr (by decide +kernel) exData
example : parseHeader exFile = .ok (exHdr, 83) := by rfl

/-- `encode_parse` instantiated -/
example : encodeHeader exHdr = exFile.take 83 ∧ 83 ≤ exFile.length :=
  encode_parse exFile (by decide +kernel) exHdr 83 (by rfl)

/-- a successful edit: nbits 8 → 16; only that value byte changes, the data is untouched -/
example : editHeader exFile (ascii "nbits") (.int 16)
    = .ok (encodeHeader [(ascii "nbits", .u32 16), (ascii "foff", .f64 [0, 0, 0, 0, 0, 0, 224, 191]),
            (ascii "source_name", .str (ascii "J0437"))] ++ exData) := by rfl

/-- a successful `source_name` edit pads the shorter name with blanks to the old length -/
example : editHeader exFile (ascii "source_name") (.str (ascii "B1"))
    = .ok (encodeHeader (update exHdr (ascii "source_name") (.str (ascii "B1   "))) ++ exData) := by
  rfl

/-- `edit_exact` instantiated on the successful edit: the conclusion is inhabited -/
example : ∃ kvs n val, parseHeader exFile = .ok (kvs, n) ∧
    (encodeHeader (update exHdr (ascii "nbits") (.u32 16)) ++ exData).length = exFile.length ∧
    (encodeHeader (update exHdr (ascii "nbits") (.u32 16)) ++ exData).drop n = exFile.drop n ∧
    parseHeader (encodeHeader (update exHdr (ascii "nbits") (.u32 16)) ++ exData)
      = .ok (update kvs (ascii "nbits") val, n) :=
  edit_exact exFile (ascii "nbits") (.int 16) _ (by decide +kernel) (by rfl)

/-- failures (the file is not returned): out-of-range value, length-changing edit (a key
    that is absent would have to be appended), unknown key, wrong value type -/
example : editHeader exFile (ascii "nbits") (.int (2 ^ 32)) = .error .other := by rfl
example : editHeader exFile (ascii "rawdatafile") (.str (ascii "x")) = .error .valueError := by rfl
example : editHeader exFile (ascii "bogus") (.int 1) = .error .valueError :=
  edit_invalid_key _ _ _ (by decide +kernel)
example : editHeader exFile (ascii "foff") (.int 1) = .error .other := by rfl
/-- a "double" that is not 8 bytes cannot slip through: the length check rejects it -/
example : editHeader exFile (ascii "foff") (.flt [1, 2, 3]) = .error .valueError := by rfl

/-- a truncated file does not parse -/
example : parseHeader (exFile.take 50) = .error .other := by rfl
example : parseHeader [] = .error .osError := by rfl

/-- `update_other` on the example: editing `nbits` leaves the `foff` lookup alone -/
example : (update exHdr (ascii "nbits") (.u32 16)).filter (·.1 == ascii "foff")
    = [(ascii "foff", .f64 [0, 0, 0, 0, 0, 0, 224, 191])] := by
  rw [update_other _ _ _ _ (by decide +kernel)]; rfl

/-- `radec_roundtrip` at d = 0, negative: -00:30:15.5 survives the round trip -/
example : parseRadec (packRadec true 0 30 (31 / 2)) = (true, 0, 30, 31 / 2) :=
  radec_roundtrip true 0 30 (31 / 2) (by decide) (by decide +kernel) (by decide +kernel)
    (fun _ => by decide +kernel)

/-- the excluded case really fails: "-0" packs to 0, which parses as non-negative -/
example : parseRadec (packRadec true 0 0 0) = (false, 0, 0, 0) := by decide +kernel

example : telescopeName (telescopeId "MeerKAT") = "MeerKAT" ∧ telescopeId "MeerKAT" = 64 ∧
    telescopeName 13 = "Fake" ∧ telescopeId "nowhere" = 0 ∧ machineName 12 = "FAKE" := by
  decide +kernel

end SppModel.Sigproc

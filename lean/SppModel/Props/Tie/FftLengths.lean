import SppModel.Generated.FftLengths
import SppModel.Model.Conv
/-!
# Source tie — length bookkeeping around the FFT (C12)

`Generated/FftLengths.lean` is re-translated from the source on every run: `fftconvolve` keeps `n1 + n2 - 1` samples
of a circular product whose three transforms are all taken at one explicit size; `FourierSeries.ifft` passes the
inverse length explicitly exactly when it cannot be inferred from the number of bins.  These theorems say this is
the bookkeeping of the C12 model (`Conv.fftconvolve`, `Conv.ifftLen`) that `fftconvolve_eq_lconv`,
`irfft_default_len` and `ifftLen_roundtrip` are about.
-/
namespace SppModel.Tie
open SppModel SppModel.Generated.FftLengths

theorem fft_lengths_translated : ∀ f ∈ translationFailures,
    f.1 ∉ ["fftconvolve_lengths", "ifft_length", "correlate", "FftLengths_does_not_elaborate"] := by decide

/-- the three transforms of `fftconvolve` all get the explicit size (none relies on a default length) -/
theorem fftconv_explicit : fftconvAllTransformsExplicit = true := by decide

/-- the number of samples kept is the length of the model's result, for every transform size -/
theorem fftconv_out_len_is_model (N : Nat) (a b : List Int) :
    (Conv.fftconvolve N a b).length = min (fftconvOutLen a.length b.length) N := by
  unfold Conv.fftconvolve fftconvOutLen Conv.cconv
  split <;> simp [Nat.min_comm]

/-- the length the inverse transform produces, explicit or by the library default, is the model's `ifftLen` -/
theorem ifft_len_is_model (nsamps nbins : Nat) :
    (ifftExplicitLen nsamps nbins).getD (Conv.irfftDefaultLen nbins) = Conv.ifftLen nbins nsamps := by
  unfold ifftExplicitLen Conv.ifftLen Conv.irfftDefaultLen
  have := Nat.mod_two_eq_zero_or_one nsamps
  repeat' split
  all_goals simp_all
  all_goals omega

/-- `TimeSeries.correlate` is the model's correlation for every pair of operands: the convolution with the reversed
    second operand, whatever the two arrays are (the same array, overlapping windows of one buffer, ...) -/
theorem correlate_is_model (N : Nat) (a b : List Int) :
    correlate (Conv.fftconvolve N) a b = Conv.correlate N a b := rfl

end SppModel.Tie

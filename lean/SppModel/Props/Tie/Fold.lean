import SppModel.Generated.ReaderArith
import SppModel.Frozen.ReaderArith
import SppModel.Model.Fold
/-!
# Source tie — `Filterbank.fold` gulp clamp, skipback and phase offset (C11)

`Generated/ReaderArith.lean` is re-translated from the current source on every run; a fragment the
translator no longer recognises is listed in its `translationFailures` (the module still elaborates).
-/
namespace SppModel.Tie
open SppModel SppModel.Frozen.ReaderArith

theorem fold_translated : ∀ f ∈ Generated.ReaderArith.translationFailures, f.1 ∉ ["base_py", "fold_index", "fold_gulp", "fold_skipback"] := by decide

theorem fold_index_eq (G ii md : Nat) : fold_index G ii md = ii * (G - md) := rfl
theorem fold_gulp_eq (g md : Nat) : fold_gulp g md = max (2 * md) g := rfl
theorem fold_skipback_eq (md : Nat) : fold_skipback md = md := rfl

/-- the model's `Fold.fold` uses exactly these: clamped gulp, skipback, and sample number `index + isamp`
    with `index = fold_index G ii md` -/
theorem fold_uses_source (flat : List Int) (C : Nat) (delays : List Nat) (g s n N nbins nints nsubs : Nat)
    (pb si sb : List Nat) :
    Fold.fold flat C delays g s n N nbins nints nsubs pb si sb =
      (let md := Reduce.maxDelay delays
       let G := fold_gulp g md
       match Reduce.blocksOf G s n (fold_skipback md) N with
       | .error e => .error e
       | .ok bs =>
         let ws := bs.flatMap (fun b => (List.range (b.len - md)).flatMap (fun t =>
           (List.range C).map (fun c =>
             (Fold.cell nbins nsubs pb si sb (fold_index G b.ii md + t) c,
              Reduce.getS flat C (b.off + t + delays.getD c 0) c))))
         let size := nbins * nints * nsubs
         .ok (Reduce.applyAdd (List.replicate size 0) ws,
              Reduce.applyAdd (List.replicate size 0) (ws.map (fun w => (w.1, (1 : Int)))))) := rfl

end SppModel.Tie

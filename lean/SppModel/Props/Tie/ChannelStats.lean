import SppModel.Generated.ChannelStats
import SppModel.Model.Moments
/-!
# Source tie — the statistics `ChannelStats` derives from the moment record (C10)

`Generated/ChannelStats.lean` is re-translated from the properties of `ChannelStats` (`core/stats.py`) on every run:
`var = m2 / nsamps`, `kurtosis = m4 / m2² · nsamps − 3` and `skew = m3 / m2^1.5 · √nsamps` with their `m2 ≠ 0`
guards (`skew` through its square and sign, the model's own form), `__add__` (counts add, records merged by the
translated `add_online_moments`, `Tie/Moments`), `push_data` (which kernel, `start_index` handed on).  They are the
model's `Moments.var / skewSq / skewSign / kurt`, which `constant_channel` and `basic_agrees` (C10) are about.
-/
namespace SppModel.Tie.ChannelStats
open SppModel SppModel.Generated.ChannelStats

theorem channel_stats_translated : Generated.ChannelStats.translationFailures = [] := by decide

theorem var_is_model (s : Moments.Mom) (n : Nat) : var s.m2 n = Moments.var s n := rfl

theorem kurtosis_is_model (s : Moments.Mom) (n : Nat) : kurtosis s.m2 s.m4 n = Moments.kurt s n := by
  unfold kurtosis Moments.kurt
  by_cases h : s.m2 = 0 <;> simp [h]

theorem skewSq_is_model (s : Moments.Mom) (n : Nat) : skewSq s.m2 s.m3 n = Moments.skewSq s n := by
  unfold skewSq Moments.skewSq
  by_cases h : s.m2 = 0 <;> simp [h]

theorem skewSign_is_model (s : Moments.Mom) : skewSign s.m2 s.m3 = Moments.skewSign s := by
  unfold skewSign Moments.skewSign
  by_cases h : s.m2 = 0 <;> simp [h]

/-- a channel whose central second sum vanishes (constant data) has zero variance and skewness: no division happens -/
theorem constant_channel_source (m3 m4 : Rat) (n : Nat) : var 0 n = 0 ∧ skewSq 0 m3 n = 0 ∧ skewSign 0 m3 = 0 := by
  refine ⟨?_, ?_, ?_⟩
  · unfold var; rw [Rat.div_def, Rat.zero_mul]
  · simp [skewSq]
  · simp [skewSign]

theorem add_counts (a b : Nat) : addNsamps a b = a + b := rfl

theorem push_kernel_basic : pushKernel "basic" = "compute_online_moments_basic" := by decide
theorem push_kernel_full : pushKernel "full" = "compute_online_moments" := by decide

end SppModel.Tie.ChannelStats

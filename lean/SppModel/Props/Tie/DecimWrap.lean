import SppModel.Generated.DecimWrap
import SppModel.Model.Filters
import SppModel.Lemmas.DecimWrap
/-!
# Source tie — the decimation wrappers of `core/stats.py` (C14)

`Generated/DecimWrap.lean` is re-translated from `stats.downsample_1d / downsample_2d / downsample_2d_flat` on every
run: the argument checks, the dispatch on `method`, and the NumPy expression each branch returns (front slice,
C-order reshape, reduction over the group axes with no keyword but `axis`, `ravel`).  These theorems say that the
translated wrappers accept exactly the documented arguments, hand the mean to the compiled kernels that
`Kernels/Downsample1d`, `Kernels/Downsample2d` specify, and reduce - with `np.median`, or `np.mean` for the 2-D
wrapper - exactly the consecutive full groups the C14 model (`Filters.downsample1d / downsample2d /
downsample2dFlat`) averages, dropping the incomplete remainder.
-/
set_option linter.unusedVariables false

namespace SppModel.Tie
open SppModel SppModel.DecimPrims SppModel.Generated.DecimWrap SppModel.DecimLemmas

theorem decim_wrap_translated : ∀ f ∈ translationFailures,
    f.1 ∉ ["decim_source", "decim_downsample_1d", "decim_downsample_2d", "decim_downsample_2d_flat"] := by decide

/-! ## argument checks -/

theorem down1d_accepts_iff (isArr : Bool) (ndim : Nat) (fi : Bool) (factor : Int) (size : Nat) :
    down1d_rejects isArr ndim fi factor size = false ↔
      (isArr = true ∧ ndim = 1 ∧ fi = true ∧ 1 ≤ factor ∧ factor ≤ (size : Int)) := by
  unfold down1d_rejects
  cases isArr <;> cases fi <;> (simp; try omega)

theorem down2d_accepts_iff (isArr : Bool) (ndim : Nat) (f1i f2i : Bool) (f1 f2 : Int) (method : String) :
    down2d_rejects isArr ndim f1i f2i f1 f2 method = false ↔
      (isArr = true ∧ ndim = 2 ∧ f1i = true ∧ f2i = true ∧ 1 ≤ f1 ∧ 1 ≤ f2 ∧ (method = "mean" ∨ method = "median")) := by
  unfold down2d_rejects
  by_cases hm : method = "mean" <;> by_cases hd : method = "median" <;>
    cases isArr <;> cases f1i <;> cases f2i <;> (simp [hm, hd]; try omega)

theorem down2dflat_accepts_iff (isArr : Bool) (ndim : Nat) (f1i f2i : Bool) (f1 f2 : Int) (size d1 d2 : Nat) :
    down2dflat_rejects isArr ndim f1i f2i f1 f2 size d1 d2 = false ↔
      (isArr = true ∧ ndim = 1 ∧ f1i = true ∧ f2i = true ∧ 1 ≤ f1 ∧ 1 ≤ f2 ∧ size = d1 * d2) := by
  unfold down2dflat_rejects
  have hsz : ((size : Int) = (d1 : Int) * (d2 : Int)) ↔ size = d1 * d2 := by
    rw [← Int.natCast_mul, Int.natCast_inj]
  cases isArr <;> cases f1i <;> cases f2i <;> (simp [hsz]; try omega)

/-! ## `downsample_1d` -/

/-- the group of output `i`: samples `i·f … i·f + f − 1` -/
def group1 (x : Vec) (f i : Nat) : Vec := (List.range f).map (fun a => x.getD (i * f + a) 0)

theorem down1d_mean_is_kernel (k : Vec → Nat → Vec) (mean median : Vec → Rat) (x : Vec) (f : Nat) :
    down1d k mean median "mean" x f = some (k x f) := by
  unfold down1d; rw [if_pos rfl]

/-- the median branch reduces exactly the `⌊n/f⌋` consecutive full groups, nothing else -/
theorem down1d_median_is_groups (k : Vec → Nat → Vec) (mean median : Vec → Rat) (x : Vec) (f : Nat) (hf : 0 < f) :
    down1d k mean median "median" x f =
      some ((List.range (x.length / f)).map (fun i => median (group1 x f i))) := by
  unfold down1d group1
  rw [if_neg (by decide), if_pos rfl, reduceAxis1_reshapeRows_sliceTo median x f hf]

theorem down1d_other_method (k : Vec → Nat → Vec) (mean median : Vec → Rat) (m : String) (x : Vec) (f : Nat)
    (h1 : m ≠ "mean") (h2 : m ≠ "median") : down1d k mean median m x f = none := by
  unfold down1d; rw [if_neg h1, if_neg h2]

/-- the groups are those of the model: with the arithmetic mean in place of the median the branch IS
    `Filters.downsample1d` -/
theorem down1d_groups_are_model (x : Vec) (f : Nat) (hf : 0 < f) :
    (List.range (x.length / f)).map (fun i => DecimPrims.mean (group1 x f i)) = Filters.downsample1d x f := by
  unfold Filters.downsample1d group1
  apply List.map_congr_left
  intro i _
  exact mean_group _ f (by simp)

/-! ## `downsample_2d` and `downsample_2d_flat` -/

/-- the group of output `(i, j)` of a row-major `d1 × d2` array: rows `i·f1 … i·f1+f1−1`, columns `j·f2 … j·f2+f2−1` -/
def group2 (x : Vec) (d2 f1 f2 i j : Nat) : Vec :=
  (List.range f1).flatMap (fun a => (List.range f2).map (fun b => x.getD ((i * f1 + a) * d2 + (j * f2 + b)) 0))

theorem down2d_is_groups (mean median : Vec → Rat) (m : String) (x : Vec) (d1 d2 f1 f2 : Nat)
    (hx : x.length = d1 * d2) (hf1 : 0 < f1) (hf2 : 0 < f2) :
    down2d mean median m x d1 d2 f1 f2 =
      some ((List.range (d1 / f1)).map (fun i => (List.range (d2 / f2)).map (fun j =>
        npOp mean median m (group2 x d2 f1 f2 i j)))) := by
  unfold down2d group2
  rw [reduce_wrapped _ x d1 d2 f1 f2 hf1]

theorem npOp_mean (mean median : Vec → Rat) : npOp mean median "mean" = mean := by
  unfold npOp; rw [if_pos rfl]

theorem npOp_median (mean median : Vec → Rat) : npOp mean median "median" = median := by
  unfold npOp; rw [if_neg (by decide)]

/-- with `method = "mean"` the 2-D wrapper is the model decimator -/
theorem down2d_mean_is_model (median : Vec → Rat) (x : Vec) (d1 d2 f1 f2 : Nat)
    (hx : x.length = d1 * d2) (hf1 : 0 < f1) (hf2 : 0 < f2) :
    down2d DecimPrims.mean median "mean" x d1 d2 f1 f2 = some (Filters.downsample2d x d1 d2 f1 f2) := by
  rw [down2d_is_groups _ _ _ x d1 d2 f1 f2 hx hf1 hf2, npOp_mean]
  unfold Filters.downsample2d group2
  congr 1
  apply List.map_congr_left
  intro i _
  apply List.map_congr_left
  intro j _
  exact mean_flatMap_range f1 f2 _

theorem down2dflat_mean_is_kernel (k : Vec → Nat → Nat → Nat → Nat → Vec) (mean median : Vec → Rat) (x : Vec)
    (f1 f2 d1 d2 : Nat) : down2dflat k mean median "mean" x f1 f2 d1 d2 = some (k x f1 f2 d1 d2) := by
  unfold down2dflat; rw [if_pos rfl]

theorem down2dflat_median_is_groups (k : Vec → Nat → Nat → Nat → Nat → Vec) (mean median : Vec → Rat) (x : Vec)
    (f1 f2 d1 d2 : Nat) (hx : x.length = d1 * d2) (hf1 : 0 < f1) (hf2 : 0 < f2) :
    down2dflat k mean median "median" x f1 f2 d1 d2 =
      some ((List.range (d1 / f1)).flatMap (fun i => (List.range (d2 / f2)).map (fun j =>
        median (group2 x d2 f1 f2 i j)))) := by
  unfold down2dflat group2
  rw [if_neg (by decide), if_pos rfl, reduce_wrapped _ x d1 d2 f1 f2 hf1, ravel_map_map]

theorem down2dflat_other_method (k : Vec → Nat → Nat → Nat → Nat → Vec) (mean median : Vec → Rat) (m : String)
    (x : Vec) (f1 f2 d1 d2 : Nat) (h1 : m ≠ "mean") (h2 : m ≠ "median") :
    down2dflat k mean median m x f1 f2 d1 d2 = none := by
  unfold down2dflat; rw [if_neg h1, if_neg h2]

/-- the flattened groups are those of the model (`Filters.downsample2dFlat`, the kernel's own index arithmetic) -/
theorem down2dflat_groups_are_model (x : Vec) (f1 f2 d1 d2 : Nat) (hf1 : 0 < f1) (hf2 : 0 < f2) :
    (List.range (d1 / f1)).flatMap (fun i => (List.range (d2 / f2)).map (fun j =>
        DecimPrims.mean (group2 x d2 f1 f2 i j))) = Filters.downsample2dFlat x d1 d2 f1 f2 := by
  unfold Filters.downsample2dFlat group2
  apply flatMap_congr_left
  intro i _
  apply List.map_congr_left
  intro j _
  rw [mean_flatMap_range f1 f2 _]
  simp only [flat_index]

/-! ## non-vacuity: a 2 × 5 array decimated by (1, 2), and 7 samples by 3 -/

example : down1d (fun _ _ => []) DecimPrims.mean (fun l => l.getD (l.length / 2) 0) "median"
    [5, 1, 3, 9, 8, 7, 100] 3 = some [1, 8] := by decide +kernel
example : down2d DecimPrims.mean (fun _ => 0) "mean" [1, 3, 5, 7, 100, 2, 4, 6, 8, 100] 2 5 1 2
    = some [[2, 6], [3, 7]] := by decide +kernel

end SppModel.Tie

import SppModel.Generated.Detrend
import SppModel.Frozen.Detrend
import SppModel.Model.Filters
import SppModel.Lemmas.Filters
/-!
# Source tie — `kernels.detrend_1d` (C14)

`Generated/Detrend.lean` is the kernel translated statement by statement on every run (guards, closed-form index
sums, the accumulation loop, slope and intercept, the vectorised tail); the bridge obligation proves it equal to
`Frozen.Detrend`.  The theorem: on every non-empty series the kernel returns the hand model `Filters.detrend` -
the function `detrend_normal_eqs` / `detrend_line` / `detrend_length` (C14) are about - and it rejects the empty
series.
-/
namespace SppModel.Tie.Detrend
open SppModel SppModel.Frozen.Detrend

theorem detrend_translated : Generated.Detrend.translationFailures = [] := by decide

theorem detrend_1d_empty : detrend_1d [] = .error "ValueError" := by
  simp only [detrend_1d, List.length_nil]
  rfl

/-- the accumulation loop of the kernel computes the two running sums -/
private theorem fold_sums (x : List Rat) (k : Nat) (a b : Rat) :
    (List.range k).foldl (fun (acc : Rat × Rat) (i : Nat) =>
      (acc.1 + x.getD i 0, acc.2 + ((i : Nat) : Rat) * x.getD i 0)) (a, b)
    = (a + ((List.range k).map (fun i => x.getD i 0)).sum,
       b + ((List.range k).map (fun (i : Nat) => ((i : Nat) : Rat) * x.getD i 0)).sum) := by
  induction k with
  | zero => simp
  | succ k ih =>
    rw [List.range_succ, List.foldl_append, ih]
    simp only [List.foldl_cons, List.foldl_nil, List.map_append, List.sum_append, List.map_cons,
      List.map_nil, List.sum_cons, List.sum_nil, add_zero, add_assoc]

private theorem cast_xs (m : Nat) (hm : 1 ≤ m) :
    (((m * (m - 1) : Nat) : Rat)) = (m : Rat) * ((m : Rat) - 1) := by
  push_cast [Nat.cast_sub hm]; ring

private theorem cast_xsq (m : Nat) (hm : 1 ≤ m) :
    (((m * (m - 1) * (2 * m - 1) : Nat) : Rat)) = (m : Rat) * ((m : Rat) - 1) * (2 * (m : Rat) - 1) := by
  have h2 : 1 ≤ 2 * m := by omega
  push_cast [Nat.cast_sub hm, Nat.cast_sub h2]; ring

/-- the translated kernel is the model, for every length -/
theorem detrend_1d_is_model (x : List Rat) (h : x ≠ []) : detrend_1d x = .ok (Filters.detrend x) := by
  match x, h with
  | [], h => exact absurd rfl h
  | [a], _ => simp [detrend_1d, Filters.detrend]
  | a :: b :: t, _ =>
    have hlen : (a :: b :: t).length = t.length + 2 := by simp
    have h0 : ¬ (a :: b :: t).length = 0 := by omega
    have h1 : ¬ (a :: b :: t).length = 1 := by omega
    have hle : ¬ (a :: b :: t).length ≤ 1 := by omega
    have hm : 1 ≤ (a :: b :: t).length := by omega
    generalize (a :: b :: t) = x at *
    unfold detrend_1d Filters.detrend
    simp only [if_neg h0, if_neg h1, if_neg hle]
    rw [fold_sums x x.length 0 0, Filters.map_range_getD x, cast_xs _ hm, cast_xsq _ hm]
    simp only [zero_add, Nat.cast_ofNat]

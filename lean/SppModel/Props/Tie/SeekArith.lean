import SppModel.Generated.SeekArith
import SppModel.Model.Stream
import SppModel.Lemmas.SeekArith
/-!
# Source tie — `FileReader` position arithmetic is the C02 stream model (C02, C01)

`Generated/SeekArith.lean` is re-translated from `io/fileio.py` on every run, statement by statement:
`FileBase._open`, `FileReader._seek2hdr`, `_seek_set`, `seek`, `cur_data_pos_file`, `cur_data_pos_stream`, over the
state `(ifile_cur, file_obj.tell())` and the stream description (header / data lengths).  These theorems say that the
translated methods are the operations of the hand model (`Model/Stream.lean`: `seekSet`, `seek`, `curPos`) that the
refinement theorems of C02 (`step_refines`, `history_refines`, …) are about: same target `(file, offset)`, same
rejections, same reported stream position.
-/
namespace SppModel.Tie
open SppModel SppModel.Generated.SeekArith SppModel.SeekArith

theorem seek_translated : ∀ f ∈ translationFailures,
    f.1 ∉ ["seek_source", "seek__open", "seek__seek2hdr", "seek__seek_set", "seek_cur_data_pos_file",
           "seek_cur_data_pos_stream", "seek_seek", "SeekArith_does_not_elaborate"] := by decide

variable {α : Type}

/-- the stream description of a file list -/
def seekEnv (fs : Stream.Files α) : SeekEnv := ⟨fs.map (·.hdr.length), fs.map (·.data.length)⟩

def toSt (s : SeekSt) : Stream.St := ⟨s.ifile.toNat, s.pos.toNat⟩

/-- a reader state the library can be in: a file of the list is open, at a non-negative position -/
def ValidSt (fs : Stream.Files α) (s : SeekSt) : Prop :=
  0 ≤ s.ifile ∧ s.ifile < (fs.length : Int) ∧ 0 ≤ s.pos

theorem seekEnv_eq (fs : Stream.Files α) : seekEnv fs = envOf fs := rfl

/-- `_open` on a valid index opens that file -/
theorem open_ok (env : SeekEnv) (s : SeekSt) (i : Int) (h : ¬ (i < 0 ∨ i ≥ env.nfiles)) :
    ∃ p, _open env s i = .ok ((), ⟨i, p⟩) := by
  by_cases hi : i = s.ifile
  · refine ⟨s.pos, ?_⟩
    subst hi
    simp only [_open, h, if_false, ne_eq, not_true_eq_false]
  · refine ⟨0, ?_⟩
    simp only [_open, h, if_false, ne_eq, hi, not_false_eq_true, if_true]

/-- `_seek2hdr` on a valid index: that file, positioned at the end of its header -/
theorem seek2hdr_ok (env : SeekEnv) (s : SeekSt) (i : Int) (h : ¬ (i < 0 ∨ i ≥ env.nfiles)) :
    _seek2hdr env s i = .ok ((), ⟨i, env.hdr i⟩) := by
  obtain ⟨p, hp⟩ := open_ok env s i h
  simp only [_seek2hdr, hp]

theorem seek_set_in_range (fs : Stream.Files α) (st : SeekSt) (o : Int) (h0 : 0 ≤ o)
    (h1 : o < (Stream.total fs : Int)) :
    ∃ j r : Nat, j < fs.length ∧ Stream.locate fs 0 o.toNat = some (j, r) ∧
      _seek_set (seekEnv fs) st o = .ok ((), ⟨(j : Int), (Stream.hdrlen fs j : Int) + (r : Int)⟩) := by
  obtain ⟨j, r, hj, hloc, hfg, hr⟩ := locate_firstGt fs o h0 h1
  refine ⟨j, r, hj, hloc, ?_⟩
  rw [seekEnv_eq]
  have hrange : ¬ (o < 0 ∨ o ≥ (envOf fs).total) := by rw [total_envOf]; omega
  have hjr : ¬ ((j : Int) < 0 ∨ (j : Int) ≥ (envOf fs).nfiles) := by rw [nfiles_envOf]; omega
  have hh := hdr_envOf_nat fs j
  have hs := seek2hdr_ok (envOf fs) st (j : Int) hjr
  by_cases hj0 : (j : Int) = 0
  · have hc : (Stream.cum fs j : Int) = 0 := by
      have : j = 0 := by omega
      subst this; simp
    simp only [hj0] at hh hs hfg
    simp only [_seek_set, hrange, if_false, hfg, Except.map, hs, if_true]
    simp only [Except.ok.injEq, Prod.mk.injEq, SeekSt.mk.injEq, true_and]
    omega
  · have hc := cumsum_getD_pred fs (j : Int) (by omega) (by omega)
    rw [Int.toNat_natCast] at hc
    simp only [_seek_set, hrange, if_false, hfg, Except.map, hs, hj0, hc]
    simp only [Except.ok.injEq, Prod.mk.injEq, SeekSt.mk.injEq, true_and]
    omega

/-- packaging: a translated call that raises -/
theorem tie_of_error {m : Except Err Stream.St} {P : SeekSt → Prop} {x : Except String (Unit × SeekSt)}
    {msg : String} (hx : x = .error msg) (hm : m = .error .valueError) :
    (∀ s', x = .ok ((), s') → P s') ∧ (∀ e, x = .error e → m = .error .valueError) := by
  subst hx
  exact ⟨fun s' h => (by cases h), fun _ _ => hm⟩

/-- packaging: a translated call that returns -/
theorem tie_of_ok {m : Except Err Stream.St} {P : SeekSt → Prop} {x : Except String (Unit × SeekSt)}
    {s : SeekSt} (hx : x = .ok ((), s)) (hp : P s) :
    (∀ s', x = .ok ((), s') → P s') ∧ (∀ e, x = .error e → m = .error .valueError) := by
  subst hx
  refine ⟨fun s' h => ?_, fun e h => by cases h⟩
  cases h
  exact hp

/-- out of range `_seek_set` raises `ValueError` -/
theorem seek_set_out_of_range (fs : Stream.Files α) (st : SeekSt) (o : Int)
    (h : o < 0 ∨ o ≥ (Stream.total fs : Int)) :
    _seek_set (seekEnv fs) st o = .error "ValueError" := by
  rw [seekEnv_eq]
  have hrange : o < 0 ∨ o ≥ (envOf fs).total := by rw [total_envOf]; exact h
  simp only [_seek_set, hrange, if_true]

/-- the two outcomes of `_seek_set`, each matched by the model -/
theorem seek_set_cases (fs : Stream.Files α) (st : SeekSt) (o : Int) :
    (_seek_set (seekEnv fs) st o = .error "ValueError" ∧ Stream.seekSet fs o = .error .valueError) ∨
    (∃ s', _seek_set (seekEnv fs) st o = .ok ((), s') ∧ Stream.seekSet fs o = .ok (toSt s') ∧ ValidSt fs s') := by
  by_cases h : o < 0 ∨ o ≥ (Stream.total fs : Int)
  · exact .inl ⟨seek_set_out_of_range fs st o h, Stream.seekSet_rejects' fs o h⟩
  · obtain ⟨j, r, hj, hloc, hset⟩ := seek_set_in_range fs st o (by omega) (by omega)
    refine .inr ⟨_, hset, ?_, ?_⟩
    · simp only [Stream.seekSet, h, if_false, hloc, toSt, Except.ok.injEq, Stream.St.mk.injEq]
      refine ⟨?_, ?_⟩ <;> omega
    · refine ⟨?_, ?_, ?_⟩ <;> dsimp only <;> omega

/-- `_seek_set` is `Stream.seekSet`: it rejects exactly the offsets the model rejects, and otherwise lands on the
    same `(file, raw offset)`, which is again a valid state -/
theorem seek_set_is_model (fs : Stream.Files α) (st : SeekSt) (o : Int) :
    (∀ s', _seek_set (seekEnv fs) st o = .ok ((), s') →
        Stream.seekSet fs o = .ok (toSt s') ∧ ValidSt fs s') ∧
    (∀ e, _seek_set (seekEnv fs) st o = .error e → Stream.seekSet fs o = .error .valueError) := by
  rcases seek_set_cases fs st o with ⟨h1, h2⟩ | ⟨s, h1, h2, h3⟩
  · exact tie_of_error h1 h2
  · exact tie_of_ok h1 ⟨h2, h3⟩

theorem curPos_toSt (fs : Stream.Files α) (st : SeekSt) (hv : ValidSt fs st) :
    Stream.curPos fs (toSt st)
      = st.pos - (envOf fs).hdr st.ifile + (Stream.cum fs st.ifile.toNat : Int) := by
  obtain ⟨h0, h1, h2⟩ := hv
  simp only [Stream.curPos, toSt, hdr_envOf]
  omega

/-- `cur_data_pos_stream` is `Stream.curPos` and does not move the reader -/
theorem cur_data_pos_stream_is_model (fs : Stream.Files α) (st : SeekSt) (hv : ValidSt fs st) :
    cur_data_pos_stream (seekEnv fs) st = .ok (Stream.curPos fs (toSt st), st) := by
  rw [curPos_toSt fs st hv, seekEnv_eq]
  obtain ⟨h0, h1, h2⟩ := hv
  by_cases hi : st.ifile = 0
  · have hc : (Stream.cum fs st.ifile.toNat : Int) = 0 := by rw [hi]; simp
    simp only [cur_data_pos_stream, cur_data_pos_file, hi, if_true]
    rw [hi] at hc
    simp only [Except.ok.injEq, Prod.mk.injEq, and_true]
    omega
  · have hc := cumsum_getD_pred fs st.ifile (by omega) (by omega)
    simp only [cur_data_pos_stream, cur_data_pos_file, hi, if_false, hc]

/-- `seek(offset, whence)` is `Stream.seek`, for absolute and relative seeks and for an unsupported `whence` -/
theorem seek_is_model (fs : Stream.Files α) (st : SeekSt) (o : Int) (w : Nat) (hv : ValidSt fs st) :
    (∀ s', seek (seekEnv fs) st o (w : Int) = .ok ((), s') →
        Stream.seek fs o w (toSt st) = .ok (toSt s') ∧ ValidSt fs s') ∧
    (∀ e, seek (seekEnv fs) st o (w : Int) = .error e → Stream.seek fs o w (toSt st) = .error .valueError) := by
  by_cases hw0 : w = 0
  · subst hw0
    have hm : Stream.seek fs o 0 (toSt st) = Stream.seekSet fs o := by simp only [Stream.seek, if_true]
    have hz : ((0 : Nat) : Int) = 0 := rfl
    rw [hm, hz]
    rcases seek_set_cases fs st o with ⟨h1, h2⟩ | ⟨s, h1, h2, h3⟩
    · have hs : seek (seekEnv fs) st o 0 = .error "ValueError" := by simp only [seek, if_true, h1]
      exact tie_of_error hs h2
    · have hs : seek (seekEnv fs) st o 0 = .ok ((), s) := by simp only [seek, if_true, h1]
      exact tie_of_ok hs ⟨h2, h3⟩
  · by_cases hw1 : w = 1
    · subst hw1
      have hm : Stream.seek fs o 1 (toSt st) = Stream.seekSet fs (o + Stream.curPos fs (toSt st)) := by
        simp only [Stream.seek, hw0, if_false, if_true]
      have hz : ((1 : Nat) : Int) = 1 := rfl
      have h10 : ¬ (1 : Int) = 0 := by decide
      have hcur := cur_data_pos_stream_is_model fs st hv
      rw [hm, hz]
      rcases seek_set_cases fs st (o + Stream.curPos fs (toSt st)) with ⟨h1, h2⟩ | ⟨s, h1, h2, h3⟩
      · have hs : seek (seekEnv fs) st o 1 = .error "ValueError" := by
          simp only [seek, h10, if_false, if_true, hcur, h1]
        exact tie_of_error hs h2
      · have hs : seek (seekEnv fs) st o 1 = .ok ((), s) := by
          simp only [seek, h10, if_false, if_true, hcur, h1]
        exact tie_of_ok hs ⟨h2, h3⟩
    · have hm : Stream.seek fs o w (toSt st) = .error .valueError := by
        simp only [Stream.seek, hw0, hw1, if_false]
      have hi0 : ¬ (w : Int) = 0 := by omega
      have hi1 : ¬ (w : Int) = 1 := by omega
      have hs : seek (seekEnv fs) st o (w : Int) = .error "ValueError" := by
        simp only [seek, hi0, hi1, if_false]
      exact tie_of_error hs hm

/-- non-vacuity: two files (header 3 / data 4, header 2 / data 5); offset 6 is byte 2 of the second data section -/
example : (_seek_set (seekEnv [⟨[0, 0, 0], [1, 2, 3, 4]⟩, ⟨[0, 0], [5, 6, 7, 8, 9]⟩] : SeekEnv) ⟨0, 0⟩ 6).toOption.map (·.2)
    = some ⟨1, 4⟩ := by
  decide

end SppModel.Tie

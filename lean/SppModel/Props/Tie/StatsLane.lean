import SppModel.Generated.StatsLane
import SppModel.Frozen.StatsLane
import SppModel.Lemmas.Robust
import SppModel.Lemmas.StatsLane
/-!
# Source tie — the robust estimators of `core/stats.py` (C15)

`Generated/StatsLane.lean` is re-translated from `_scale_iqr`, `_scale_mad`, `_scale_doublemad`, `_scale_qn_1d`,
`_scale_sn_1d`, `_scale_gapper_1d`, the dispatch tables of `estimate_scale` / `estimate_loc`, the zero-scale guard
of `estimate_zscore` and `utils.apply_along_axes` on every run (NumPy vector expressions, one lane; see
`translator/pynp.py`); the bridge obligations prove it equal to `Frozen.StatsLane`, the reference these theorems
are written against.  The theorems state that the translated source IS the hand model (`Model/Robust.lean`) the
C15 theorems (`iqr_aff`, `mad_aff'`, `qn_aff`, `sn_aff`, `gapper_aff`, `zscore_equivariant`, `alongAxis_*`) are
about, and - for `doublemad`, which has no hand model - prove the C15 claims for the translated source directly.
-/
namespace SppModel.Tie.StatsLane
open SppModel SppModel.Robust SppModel.Frozen.StatsLane

theorem stats_translated : Generated.StatsLane.translationFailures = [] := by decide

/-! ## the translated estimators are the hand model (normalising constants: the doubles of the source literals) -/

theorem scale_iqr_is_model (xs : List ℚ) :
    _scale_iqr xs = Robust.iqr ((6075263575296585 : ℚ) / 4503599627370496) xs := by
  rfl

theorem scale_mad_is_model (c : ℚ) (xs : List ℚ) :
    _scale_mad c xs = Robust.mad ((6075263575296585 : ℚ) / 9007199254740992) c xs := by
  simp only [_scale_mad, Robust.mad, Np.median, Np.absV, Np.subS, Np.mean, Np.isclose0, Np.whereS,
    List.map_map, Function.comp_def, decide_eq_true_eq]
  split <;> simp_all

theorem scale_qn_is_model (xs : List ℚ) :
    _scale_qn_1d xs = Robust.qn ((507357643497463 : ℚ) / 1125899906842624) xs := by
  simp only [_scale_qn_1d, Robust.qn, Np.kth, Np.triu1_absM_outerSub]

theorem scale_sn_is_model (xs : List ℚ) :
    _scale_sn_1d xs = Robust.sn ((2685496457801027 : ℚ) / 2251799813685248) xs := by
  simp only [_scale_sn_1d, Robust.sn, Np.median, Np.rowMedians, Np.absM, Np.outerSub, Np.absV,
    List.map_map, Function.comp_def]

theorem scale_gapper_is_model (c : ℚ) (xs : List ℚ) : _scale_gapper_1d c xs = Robust.gapper c xs := by
  rw [gapper_eq]
  simp only [_scale_gapper_1d, Np.sort]
  rw [sortQ_length_lem, ← sortQ_length_lem xs, Np.gapper_dot, sortQ_length_lem]

/-- the zero-scale guard and the arithmetic of `estimate_zscore` -/
theorem zscore_is_model (loc scale : ℚ) (xs : List ℚ) : zscoreLane loc scale xs = Robust.zscore loc scale xs := by
  simp only [zscoreLane, Robust.zscore, Np.isclose0, Np.whereS, Np.divS, Np.subS, List.map_map,
    Function.comp_def, decide_eq_true_eq]
  split <;> simp_all

theorem norm_constants : normLoc = 0 ∧ normScale = 1 := ⟨rfl, rfl⟩

/-- `apply_along_axes` is per-lane evaluation (`none`: the flattened data; axis 0: columns; axis 1: rows) -/
theorem alongAxes_is_model (est : List ℚ → ℚ) (m : List (List ℚ)) (axis : Option Nat)
    (h : axis = none ∨ axis = some 0 ∨ axis = some 1) :
    alongAxes est m axis = Robust.alongAxis est m axis := by
  rcases h with rfl | rfl | rfl
  · rfl
  · simp [alongAxes, Robust.alongAxis, Np.lanesAxis0, List.map_map, Function.comp_def]
  · rfl

/-! ## dispatch: every method name reaches its own implementation -/

theorem scale_dispatch :
    scaleMethods = [("iqr", "_scale_iqr"), ("mad", "_scale_mad"), ("doublemad", "_scale_doublemad"),
      ("diffcov", "_scale_diffcov"), ("biweight", "_scale_biweight"), ("qn", "_scale_qn"), ("sn", "_scale_sn"),
      ("gapper", "_scale_gapper")] := rfl

theorem lane_wrappers :
    laneWrappers = [("_scale_qn", "_scale_qn_1d"), ("_scale_sn", "_scale_sn_1d"),
      ("_scale_gapper", "_scale_gapper_1d"), ("_scale_diffcov", "_scale_diffcov_1d")] := rfl

theorem loc_dispatch : locMethods = [("mean", "mean"), ("median", "median")] := rfl

/-! ## `doublemad` (no hand model): the C15 claims for the translated source itself

`_scale_doublemad c xs` gives one scale per sample (left MAD below the median, right MAD above it, their mean at
the median).  With `aff a b xs = xs.map (a * · + b)`: -/

theorem doublemad_length (c : ℚ) (xs : List ℚ) : (_scale_doublemad c xs).length = xs.length := by
  simp [_scale_doublemad, Np.whereMSV, Np.whereMS, Np.ltS, Np.gtS]

/-- increasing affine map: every sample keeps its side, both MADs scale by `a` -/
theorem doublemad_aff_pos (c a b : ℚ) (ha : 0 < a) (xs : List ℚ) (h : xs ≠ []) :
    _scale_doublemad c (aff a b xs) = (_scale_doublemad c xs).map (fun s => a * s) := by
  rw [doublemad_eq, doublemad_eq, median_aff_lem a b ha.ne' xs h, dmLeft_aff_pos a b _ ha,
    dmRight_aff_pos a b _ ha, dmSide_scale _ _ a ha.ne', dmSide_scale _ _ a ha.ne']
  unfold aff
  rw [List.map_map, List.map_map]
  apply List.map_congr_left; intro x _
  simp only [Function.comp]
  rcases lt_trichotomy x (median xs) with hx | hx | hx
  · rw [if_pos hx, if_pos (by nlinarith)]
  · subst hx; rw [if_neg (lt_irrefl _), if_neg (lt_irrefl _), if_neg (lt_irrefl _), if_neg (lt_irrefl _)]; ring
  · rw [if_neg (not_lt.mpr hx.le), if_pos hx, if_neg (by nlinarith), if_pos (by nlinarith)]

/-- decreasing affine map: the sides swap together with the samples, so the per-sample scale is `|a|` times the
old one (this is the clause the seeded change `C15-doublemad-median-side` and the defect repaired by `8f519be`
broke) -/
theorem doublemad_aff_neg (c a b : ℚ) (ha : a < 0) (xs : List ℚ) (h : xs ≠ []) :
    _scale_doublemad c (aff a b xs) = (_scale_doublemad c xs).map (fun s => -a * s) := by
  have hna : -a ≠ 0 := by linarith
  rw [doublemad_eq, doublemad_eq, median_aff_lem a b ha.ne xs h, dmLeft_aff_neg a b _ ha,
    dmRight_aff_neg a b _ ha, dmSide_scale _ _ (-a) hna, dmSide_scale _ _ (-a) hna]
  unfold aff
  rw [List.map_map, List.map_map]
  apply List.map_congr_left; intro x _
  simp only [Function.comp]
  rcases lt_trichotomy x (median xs) with hx | hx | hx
  · rw [if_pos hx, if_neg (by nlinarith), if_pos (by nlinarith)]
  · subst hx; rw [if_neg (lt_irrefl _), if_neg (lt_irrefl _), if_neg (lt_irrefl _), if_neg (lt_irrefl _)]; ring
  · rw [if_neg (not_lt.mpr hx.le), if_pos hx, if_pos (by nlinarith)]

end SppModel.Tie.StatsLane

import SppModel.Generated.BlockCalls
import SppModel.Model.Dedisp
import Mathlib.Tactic.Ring
import Mathlib.Tactic.FieldSimp
/-!
# Source tie — the block-level dedispersion call sites (C09)

`Generated/BlockCalls.lean` is re-translated from `FilterbankBlock.dedisperse` / `dmt_transform` (`block.py`) on
every run: which kernel is called, with which SIGN of the delay table `get_dmdelays` returns, for which DM grid, and
what the result reports.  The kernels themselves are translated (`Kernels/RollBlock`, `Kernels/DmtBlock`) and the
delay law is (`Tie/DmLaw`); this closes the chain for the call sites: all four paths hand the kernels `-delays`,
which is what the model's `blockDedisperse(_Valid)` / `dmtTransform(_Valid)` - the functions of
`blockDedisperseValid_get`, `dmtTransform_row`, `pulse_restored` - do.  (A call with `+delays` was defect
`770491d`.)
-/
namespace SppModel.Tie.BlockCalls
open SppModel SppModel.Generated.BlockCalls

theorem block_calls_translated : Generated.BlockCalls.translationFailures = [] := by decide

/-- every block path rolls by MINUS the delays -/
theorem signs (v : Bool) : dedisperseSign v = -1 ∧ dmtSign v = -1 := by
  cases v <;> decide

/-- the model's call sites are the source's: the kernels receive `sign · delays` -/
theorem dedisperse_is_model (arr : List (List Int)) (delays : List Int) :
    Dedisp.blockDedisperse arr delays = Dedisp.rollBlock arr (delays.map (fun d => dedisperseSign false * d)) ∧
    Dedisp.blockDedisperseValid arr delays = Dedisp.rollBlockValid arr (delays.map (fun d => dedisperseSign true * d)) := by
  constructor <;> simp [Dedisp.blockDedisperse, Dedisp.blockDedisperseValid, dedisperseSign]

theorem dmt_is_model (arr : List (List Int)) (table : List (List Int)) :
    Dedisp.dmtTransform arr table = Dedisp.dmtBlock arr (table.map (fun r => r.map (fun d => dmtSign false * d))) ∧
    Dedisp.dmtTransformValid arr table = Dedisp.dmtBlockValid arr (table.map (fun r => r.map (fun d => dmtSign true * d))) := by
  constructor <;> simp [Dedisp.dmtTransform, Dedisp.dmtTransformValid, dmtSign]

/-- the DM grid runs from 0 to `2·dm`, symmetric about the requested DM, which is its middle row for an odd
    number of steps -/
theorem dmGrid_ends (dm : ℚ) (steps : Nat) (h : 2 ≤ steps) :
    dmGrid dm steps 0 = 0 ∧ dmGrid dm steps (steps - 1) = 2 * dm := by
  have hne : (((steps - 1 : Nat)) : ℚ) ≠ 0 := by
    have : 0 < steps - 1 := by omega
    exact_mod_cast Nat.pos_iff_ne_zero.mp this
  constructor
  · simp [dmGrid]
  · unfold dmGrid; field_simp; ring

theorem dmGrid_middle (dm : ℚ) (k : Nat) (hk : 1 ≤ k) : dmGrid dm (2 * k + 1) k = dm := by
  have hne : (((2 * k + 1 - 1 : Nat)) : ℚ) ≠ 0 := by
    have : 0 < 2 * k + 1 - 1 := by omega
    exact_mod_cast Nat.pos_iff_ne_zero.mp this
  have e : (((2 * k + 1 - 1 : Nat)) : ℚ) = 2 * (k : ℚ) := by
    have : 2 * k + 1 - 1 = 2 * k := by omega
    rw [this]; push_cast; ring
  have hk0 : (k : ℚ) ≠ 0 := by
    have : 0 < k := by omega
    exact_mod_cast Nat.pos_iff_ne_zero.mp this
  unfold dmGrid
  rw [e]
  field_simp
  ring

end SppModel.Tie.BlockCalls

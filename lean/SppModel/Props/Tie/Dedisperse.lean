import SppModel.Generated.ReaderArith
import SppModel.Frozen.ReaderArith
import SppModel.Model.Reduce
/-!
# Source tie — `Filterbank.dedisperse` gulp clamp, skipback and output offset (C06, C09)

`Generated/ReaderArith.lean` is re-translated from the current source on every run; a fragment the
translator no longer recognises is listed in its `translationFailures` (the module still elaborates).
-/
namespace SppModel.Tie
open SppModel SppModel.Frozen.ReaderArith

theorem dedisperse_translated :
    ∀ f ∈ Generated.ReaderArith.translationFailures, f.1 ∉ ["base_py", "dedisperse_index", "dedisperse_gulp", "dedisperse_skipback"] := by decide

theorem dedisperse_index_eq (G ii md : Nat) : dedisperse_index G ii md = ii * (G - md) := rfl
theorem dedisperse_gulp_eq (g md : Nat) : dedisperse_gulp g md = max (2 * md) g := rfl
theorem dedisperse_skipback_eq (md : Nat) : dedisperse_skipback md = md := rfl

/-- the model's `Reduce.dedisperse` uses exactly these (definitional unfolding); the translator also checks
    that `read_plan` is handed the *adjusted* gulp -/
theorem dedisperse_uses_source (flat : List Int) (C : Nat) (delays : List Nat) (g s n N : Nat) :
    Reduce.dedisperse flat C delays g s n N =
      (let md := Reduce.maxDelay delays
       let G := dedisperse_gulp g md
       if n ≤ md then .error .valueError else
       match Reduce.blocksOf G s n (dedisperse_skipback md) N with
       | .error e => .error e
       | .ok bs => .ok (Reduce.applyAdd (List.replicate (n - md) 0)
           ((bs.flatMap (fun b => (List.range (b.len - md)).map
             (fun t => (dedisperse_index G b.ii md + t, Reduce.dedispSum flat C delays (b.off + t)))))))) := rfl

end SppModel.Tie

import SppModel.Generated.CleanRfi
import SppModel.Props.Tie.StateMachines
import SppModel.Props.C16
/-!
# Source tie — `Filterbank.clean_rfi` and `apply_channel_mask` glue (C16)

`Generated/CleanRfi.lean` is re-translated from `base.py` / `core/rfi.py` on every run: the masks a fresh `RFIMask`
starts with, the arguments `clean_rfi` constructs it from, the order in which `clean_rfi` applies the user mask,
the statistics mask and the custom function (written over the TRANSLATED `RFIMask` methods of
`Generated/StateMachines`), the default fill value, what is handed on to `apply_channel_mask`, and the conversions
`apply_channel_mask` applies to the mask and the fill value on their way to the kernel.  These theorems say that
this orchestration is `Rfi.cleanRfi`, the function `mask_union` (C16) is about.
-/
namespace SppModel.Tie
open SppModel SppModel.Generated.StateMachines SppModel.Generated.CleanRfi

theorem clean_rfi_translated : ∀ f ∈ SppModel.Generated.CleanRfi.translationFailures,
    f.1 ∉ ["cleanrfi_init", "cleanrfi_clean_rfi", "cleanrfi_conversions", "cleanrfi_maskfile"] := by decide

/-- the mask file carries every array of the mask - the accumulated channel mask itself, not something to be rebuilt
    from the component masks (which only hold the LATEST call of each kind) - and loading hands every one back -/
theorem mask_file_arrays : maskFileArraysWritten = "every ndarray attribute" ∧ maskFileArraysRead = "every dataset" := by
  decide

/-- a fresh `RFIMask` is the model's empty state -/
theorem rfimask_init_is_model (env : RFIMaskEnv) : rfiSt (RFIMask.init env) = Rfi.init env.nchans := by
  rfl

/-- every statistic reaches the constructor field of the same name (positional arguments in field order) -/
theorem ctor_args_spec : ctorArgs =
    [("threshold", "threshold"), ("header", "self.header"), ("chan_mean", "self.chan_stats.mean"),
     ("chan_var", "self.chan_stats.var"), ("chan_skew", "self.chan_stats.skew"),
     ("chan_kurt", "self.chan_stats.kurtosis"), ("chan_maxima", "self.chan_stats.maxima"),
     ("chan_minima", "self.chan_stats.minima")] := by decide

/-- the final mask and the (possibly defaulted) fill value are what `apply_channel_mask` receives, with the caller's
    gulp / start / nsamps -/
theorem mask_call_spec :
    maskCallArgs.lookup "chan_mask" = some "rfimask.chan_mask" ∧ maskCallArgs.lookup "mask_value" = some "mask_value" ∧
    maskCallArgs.lookup "gulp" = some "gulp" ∧ maskCallArgs.lookup "start" = some "start" ∧
    maskCallArgs.lookup "nsamps" = some "nsamps" ∧ maskCallArgs.lookup "outfile_name" = some "outfile_name" := by decide

/-- on the way to the kernel the mask is only converted to Booleans and the fill value only rounded to float32 and
    cast to the file's sample type: no arithmetic, no clipping -/
theorem conversions_spec :
    maskArg = "np.array(chan_mask).astype('bool')" ∧ maskValueArg = "np.float32(mask_value).astype(self.header.dtype)" := by
  decide

/-- the model composition with the custom function still a function of the current mask -/
def cleanSpec (n : Nat) (freqs : List Rat) (ranges : Option (List (Rat × Rat))) (a b c : Rfi.Mask)
    (custom : Option (Rfi.Mask → Rfi.Mask)) : Rfi.St :=
  let s0 := Rfi.init n
  let s1 := match ranges with | some r => Rfi.applyMask s0 freqs r | none => s0
  let s2 := Rfi.applyMethod s1 a b c
  match custom with | some g => Rfi.applyFuncn s2 g | none => s2

/-- `cleanSpec` is `Rfi.cleanRfi` with the custom mask the function returns on the mask built so far -/
theorem cleanSpec_is_cleanRfi (n : Nat) (freqs : List Rat) (ranges : Option (List (Rat × Rat))) (a b c : Rfi.Mask)
    (custom : Option (Rfi.Mask → Rfi.Mask)) :
    cleanSpec n freqs ranges a b c custom =
      Rfi.cleanRfi n freqs ranges a b c
        (custom.map (fun g => g (Rfi.applyMethod
          (match ranges with | some r => Rfi.applyMask (Rfi.init n) freqs r | none => Rfi.init n) a b c).chan)) := by
  cases ranges <;> cases custom <;> rfl

theorem rfiSt_chan_length {s : RFIMaskSt} {st : Rfi.St} (h : rfiSt s = st) :
    s.chan_mask.length = st.chan.length := by
  rw [← h]; rfl

theorem applyMask_chan_length (st : Rfi.St) (f : List Rat) (r : List (Rat × Rat)) :
    (Rfi.applyMask st f r).chan.length = st.chan.length := by
  simp [Rfi.applyMask, Rfi.orM]

theorem applyMethod_chan_length (st : Rfi.St) (a b c : Rfi.Mask) :
    (Rfi.applyMethod st a b c).chan.length = st.chan.length := by
  simp [Rfi.applyMethod, Rfi.orM]

theorem init_chan_length (n : Nat) : (Rfi.init n).chan.length = n := by
  simp [Rfi.init]

/-- **`clean_rfi` as translated is the model composition**: with a supported method (`f` its outlier detector) the
    call succeeds, the mask object is `cleanSpec`, the mask handed to `apply_channel_mask` is its channel mask -/
theorem clean_rfi_is_model (env : RFIMaskEnv) (chan_mean : List Rat) (median : List Rat → Rat) (method : String)
    (fm : Option (List (Rat × Rat))) (cf : Option (List Bool → List Bool)) (mv : Option Rat)
    (f : List Rat → Rat → List Bool)
    (hm : (method = "mad" ∧ f = env.double_mad_mask) ∨ (method = "iqrm" ∧ f = env.iqrm_mask))
    (hf : env.chan_freqs.length = env.nchans)
    (hv : (f env.chan_var env.threshold).length = env.nchans)
    (hs : (f env.chan_skew env.threshold).length = env.nchans)
    (hk : (f env.chan_kurt env.threshold).length = env.nchans)
    (hc : ∀ g, cf = some g → ∀ m : List Bool, m.length = env.nchans → (g m).length = env.nchans) :
    ∃ s v, clean_rfi env chan_mean median method fm cf mv = .ok (s, s.chan_mask, v) ∧
      rfiSt s = cleanSpec env.nchans env.chan_freqs fm (f env.chan_var env.threshold) (f env.chan_skew env.threshold)
        (f env.chan_kurt env.threshold) cf ∧
      v = (match mv with | some x => x | none => median (Vec.compress chan_mean (Vec.lnot s.chan_mask))) := by
  have hg : (!(decide (method = "mad" ∨ method = "iqrm"))) = false := by
    rcases hm with ⟨rfl, _⟩ | ⟨rfl, _⟩ <;> simp
  have h0 : (RFIMask.init env).chan_mask.length = env.nchans := by
    rw [rfiSt_chan_length (rfimask_init_is_model env), init_chan_length]
  -- everything after the optional user mask, from any state `s1` of the right length
  have tail : ∀ s1 : RFIMaskSt, s1.chan_mask.length = env.nchans →
      ∃ s2, RFIMask.apply_method env s1 method = .ok ((), s2) ∧
        rfiSt s2 = Rfi.applyMethod (rfiSt s1) (f env.chan_var env.threshold) (f env.chan_skew env.threshold)
          (f env.chan_kurt env.threshold) ∧
        s2.chan_mask.length = env.nchans := by
    intro s1 hs1l
    obtain ⟨s2, hs2, hs2m⟩ := apply_method_is_model env s1 method f hm (hv.trans hs1l.symm) (hs.trans hs1l.symm)
      (hk.trans hs1l.symm)
    refine ⟨s2, hs2, hs2m, ?_⟩
    rw [rfiSt_chan_length hs2m, applyMethod_chan_length]; exact hs1l
  cases fm with
  | none =>
    obtain ⟨s2, hs2, hs2m, hs2l⟩ := tail (RFIMask.init env) h0
    unfold clean_rfi
    simp only [hg, Bool.false_eq_true, if_false, hs2]
    cases cf with
    | none =>
      refine ⟨_, _, rfl, ?_, rfl⟩
      simp only [cleanSpec]
      rw [hs2m, rfimask_init_is_model]
    | some g =>
      refine ⟨_, _, rfl, ?_, rfl⟩
      simp only [cleanSpec]
      rw [apply_funcn_is_model env s2 g ((hc g rfl _ hs2l).trans hs2l.symm), hs2m, rfimask_init_is_model]
  | some r =>
    have hs1m := apply_mask_is_model env (RFIMask.init env) r hf h0
    have hs1l : (RFIMask.apply_mask env (RFIMask.init env) r).2.chan_mask.length = env.nchans := by
      rw [rfiSt_chan_length hs1m, applyMask_chan_length]; exact h0
    obtain ⟨s2, hs2, hs2m, hs2l⟩ := tail _ hs1l
    unfold clean_rfi
    simp only [hg, Bool.false_eq_true, if_false, hs2]
    cases cf with
    | none =>
      refine ⟨_, _, rfl, ?_, rfl⟩
      simp only [cleanSpec]
      rw [hs2m, hs1m, rfimask_init_is_model]
    | some g =>
      refine ⟨_, _, rfl, ?_, rfl⟩
      simp only [cleanSpec]
      rw [apply_funcn_is_model env s2 g ((hc g rfl _ hs2l).trans hs2l.symm), hs2m, hs1m, rfimask_init_is_model]

/-- any other method name is rejected before a mask is built -/
theorem clean_rfi_rejects (env : RFIMaskEnv) (chan_mean : List Rat) (median : List Rat → Rat) (method : String)
    (fm : Option (List (Rat × Rat))) (cf : Option (List Bool → List Bool)) (mv : Option Rat)
    (h1 : method ≠ "mad") (h2 : method ≠ "iqrm") :
    clean_rfi env chan_mean median method fm cf mv = .error "ValueError" := by
  simp [clean_rfi, h1, h2]

/-- the default fill value is the median of the means of the channels that are NOT masked -/
theorem compress_lnot_spec (v : List Rat) (m : List Bool) (hl : v.length = m.length) :
    Vec.compress v (Vec.lnot m) = ((List.range v.length).filter (fun i => !(m.getD i false))).map (fun i => v.getD i 0) := by
  induction v generalizing m with
  | nil => rfl
  | cons x xs ih =>
    cases m with
    | nil => simp at hl
    | cons b bs =>
      have hl' : xs.length = bs.length := by simpa using hl
      have ih' := ih bs hl'
      simp only [Vec.compress, Vec.lnot] at ih' ⊢
      rw [List.length_cons, List.range_succ_eq_map, List.filter_cons, List.filter_map, List.map_cons,
        List.zip_cons_cons, List.filterMap_cons]
      rw [ih']
      cases b
      · simp only [Bool.not_false, if_true, List.getD_cons_zero, List.map_cons, List.map_map]
        rfl
      · simp only [Bool.not_true, Bool.false_eq_true, if_false, List.getD_cons_zero, List.map_map]
        rfl

/-! non-vacuity: 4 channels, a user range covering channel 1, a detector flagging the largest value -/
def exEnv : RFIMaskEnv :=
  { nchans := 4, chan_freqs := [1500, 1490, 1480, 1470], threshold := 3, chan_var := [1, 1, 9, 1], chan_skew := [0, 0, 0, 0],
    chan_kurt := [0, 0, 0, 5],
    double_mad_mask := fun v t => v.map (fun x => decide (x > t)), iqrm_mask := fun v _ => v.map (fun _ => false) }

example : (match clean_rfi exEnv [10, 20, 30, 40] (fun l => l.getD 0 0) "mad" (some [(1485, 1495)]) none none with
    | .ok (s, m, v) => (m, v) | .error _ => ([], 0)) = ([false, true, true, true], 10) := by decide +kernel

end SppModel.Tie

import SppModel.Generated.PfitsCalib
/-!
# Source tie — PSRFITS element-wise calibration, polarisation selection and band flip (C18)

`Generated/PfitsCalib.lean` is re-translated from `io/pfits.py` (`read_subint`, `read_subint_pol`, `read_subints`) on
every run.  The C18 model (`Model/Pfits.lean`) keeps rows abstract because everything done to a sample after
unpacking acts on that sample alone; these theorems state, for the translated source, WHAT is done: the documented
calibration `((raw − ZERO_OFF)·DAT_SCL + DAT_OFFS)·DAT_WTS` - the formula the harness oracle evaluates
independently -, the conversion to float32 BEFORE any arithmetic on the raw unsigned samples, total intensity from
the first (Stokes) or the first two (coherence) polarisations, and a flip exactly when the stored band ascends.
None of them mentions a position: the value of a sample is a function of its own raw value and of the calibration
entries of its own sub-integration, polarisation and channel.
-/
namespace SppModel.Tie.PfitsCalib
open SppModel.Generated.PfitsCalib

theorem pfits_calib_translated : Generated.PfitsCalib.translationFailures = [] := by decide

/-- the default read (`scloffs=True, weights=True`) is the documented calibration -/
theorem calibrate_full (z s o w x : Rat) : calibrate true true z s o w x = ((x - z) * s + o) * w := by
  simp [calibrate]

theorem calibrate_scloffs_only (z s o w x : Rat) : calibrate true false z s o w x = (x - z) * s + o := by
  simp [calibrate]

theorem calibrate_weights_only (z s o w x : Rat) : calibrate false true z s o w x = x * w := by
  simp [calibrate]

theorem calibrate_raw (z s o w x : Rat) : calibrate false false z s o w x = x := by
  simp [calibrate]

/-- whenever anything is applied, the samples are converted to float32 first (raw samples are unsigned bytes:
    arithmetic on them before the conversion wraps) -/
theorem astype_first (a b : Bool) (h : (a || b) = true) : (calibSteps a b).head? = some "astype(float32)" := by
  simp [calibSteps, h]

theorem calib_steps_full :
    calibSteps true true = ["astype(float32)", "arith:(x - z)", "arith:((x * s) + o)", "arith:(x * w)"] := by
  decide

/-- total intensity: the first Stokes parameter; for coherence products `(AA + BB)·c` -/
theorem polSelect_stokes (k : Nat) (c p0 p1 : Rat) : polSelect "Stokes" k c p0 p1 = some p0 := by
  simp [polSelect]

theorem polSelect_coherence (c p0 p1 : Rat) : polSelect "Coherence" 1 c p0 p1 = some ((p0 + p1) * c) := by
  simp [polSelect]

/-- the band is flipped exactly when the stored channel order ascends -/
theorem flip_iff (foff : Rat) : flipWhen foff = true ↔ 0 < foff := by
  simp [flipWhen]

end SppModel.Tie.PfitsCalib

import SppModel.Generated.ReaderArith
import SppModel.Frozen.ReaderArith
import SppModel.Model.Reduce
/-!
# Source tie — `Filterbank.collapse` / `read_chan` output offsets (C06)

`Generated/ReaderArith.lean` is re-translated from the current source on every run; a fragment the
translator no longer recognises is listed in its `translationFailures` (the module still elaborates).
-/
namespace SppModel.Tie
open SppModel SppModel.Frozen.ReaderArith

theorem collapse_translated : ∀ f ∈ Generated.ReaderArith.translationFailures, f.1 ∉ ["base_py", "collapse_index", "read_chan_slice"] := by decide

/-- the offset handed to `kernels.extract_tim` is the model's `b.ii * g` (`Reduce.collapseWrites`) -/
theorem collapse_index_eq (g ii : Nat) : collapse_index g ii = ii * g := rfl
/-- `tim_ar[ii*gulp : ii*gulp + nsamps_r]` (`Reduce.readChanWrites`) -/
theorem read_chan_slice_eq (ii g r : Nat) : read_chan_slice ii g r = (ii * g, ii * g + r) := rfl

end SppModel.Tie

import SppModel.Generated.BitsValidation
import SppModel.Model.Bits
/-!
# Source tie — argument validation of `bits.unpack` / `bits.pack` (C03)

`Generated/BitsValidation.lean` is re-translated from `io/bits.py` on every run: the guards in source order (dtype,
depth, bit order, size of a caller-supplied buffer) and the size of the array that is filled.  These theorems say
that this decision logic is `Bits.validate`, the function the C03 theorems `rejects_invalid`, `accepts_valid` and
`buffer_irrelevant` are about: same acceptance, same rejection, same output size — in particular a supplied buffer
is accepted exactly when its size is `insize * (8/nbits)` (unpack) or `insize / (8/nbits)` (pack).
-/
namespace SppModel.Tie
open SppModel SppModel.Generated.BitsValidation

theorem bits_validation_translated : ∀ f ∈ translationFailures,
    f.1 ∉ ["bits_py", "bits_unpack_check", "bits_pack_check", "BitsValidation_does_not_elaborate"] := by decide

/-- first character of the bit-order string, as the source reads it (`bitorder[0]`, none for an empty string) -/
def order0 (s : String) : Option Char := s.toList.head?

private theorem parseOrder_some (s : String) :
    (order0 s = some 'b' ∨ order0 s = some 'l') ↔ (Bits.parseOrder s).isSome = true := by
  unfold order0 Bits.parseOrder
  cases h : s.toList with
  | nil => simp
  | cons c cs =>
    by_cases hb : c = 'b'
    · subst hb; simp
    · by_cases hl : c = 'l'
      · subst hl; simp
      · simp [hb, hl]

/-- the source accepts exactly what the model accepts, with the same output size, for both directions -/
theorem unpack_check_is_model (isU8 : Bool) (d : Nat) (order : String) (insize : Nat) (buf : Option Nat) :
    (unpack_check isU8 (d : Int) (order0 order) (insize : Int) (buf.map (fun (m : Nat) => (m : Int)))).toOption
      = ((Bits.validate .unpack isU8 d order insize buf).toOption.map (fun r => ((r.2 : Nat) : Int))) := by
  unfold unpack_check Bits.validate Bits.outSize
  cases isU8 with
  | false => simp [Except.toOption]
  | true =>
    by_cases hd : (d = 1 ∨ d = 2 ∨ d = 4)
    · have hdi : ((d : Int) = 1 ∨ (d : Int) = 2 ∨ (d : Int) = 4) := by omega
      have hb : (d == 1 || d == 2 || d == 4) = true := by rcases hd with h | h | h <;> simp [h]
      by_cases ho : (order0 order = some 'b' ∨ order0 order = some 'l')
      · have hp := (parseOrder_some order).1 ho
        obtain ⟨o, hoo⟩ := Option.isSome_iff_exists.1 hp
        have hfact : ((8 : Int) / (d : Int)) = (((8 / d : Nat) : Nat) : Int) := by
          rcases hd with h | h | h <;> subst h <;> rfl
        cases buf with
        | none =>
          simp only [hdi, ho, hb, hoo, Option.map_none, not_true_eq_false, if_false, Bool.not_true, Bool.false_eq_true,
            Except.toOption, Option.map_some, hfact]
          norm_cast
        | some m =>
          simp only [hdi, ho, hb, hoo, Option.map_some, not_true_eq_false, if_false, Bool.not_true, Bool.false_eq_true, hfact]
          by_cases hm : m = insize * (8 / d)
          · subst hm
            simp [Except.toOption]
          · have hne : ¬ ((m : Int) = (insize : Int) * ((8 : Int) / (d : Int))) := by
              rw [hfact]; intro h; apply hm; exact_mod_cast h
            simp [Except.toOption, hne, hm]
      · have hp : Bits.parseOrder order = none := by
          have h := mt (parseOrder_some order).2 ho
          cases hq : Bits.parseOrder order with
          | none => rfl
          | some o => rw [hq] at h; simp at h
        simp [hdi, ho, hb, hp, Except.toOption]
    · have hdi : ¬ ((d : Int) = 1 ∨ (d : Int) = 2 ∨ (d : Int) = 4) := by omega
      have hb : (d == 1 || d == 2 || d == 4) = false := by
        simp only [not_or] at hd
        simp [hd.1, hd.2.1, hd.2.2]
      simp [hdi, hb, Except.toOption]

end SppModel.Tie

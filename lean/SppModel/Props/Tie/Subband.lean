import SppModel.Generated.ReaderArith
import SppModel.Frozen.ReaderArith
import SppModel.Model.Transform
/-!
# Source tie — `Filterbank.subband` gulp clamp and skipback (C07, C09)

`Generated/ReaderArith.lean` is re-translated from the current source on every run; a fragment the
translator no longer recognises is listed in its `translationFailures` (the module still elaborates).
-/
namespace SppModel.Tie
open SppModel SppModel.Frozen.ReaderArith

theorem subband_translated : ∀ f ∈ Generated.ReaderArith.translationFailures, f.1 ∉ ["base_py", "subband_gulp", "subband_skipback"] := by decide

theorem subband_gulp_eq (g md : Nat) : subband_gulp g md = max (2 * md) g := rfl
theorem subband_skipback_eq (md : Nat) : subband_skipback md = md := rfl

/-- the model's `Transform.subband` uses exactly these -/
theorem subband_uses_source (flat : List Int) (C : Nat) (delays : List Nat) (nsub g s n N : Nat) :
    Transform.subband flat C delays nsub g s n N =
      (let md := Reduce.maxDelay delays
       let G := subband_gulp g md
       if nsub = 0 ∨ C / nsub = 0 then .error .other else
       match Reduce.blocksOf G s n (subband_skipback md) N with
       | .error e => .error e
       | .ok bs => .ok (bs.flatMap (fun b => (List.range (b.len - md)).map
           (fun t => Transform.subbandRow flat C delays nsub (b.off + t))))) := rfl

end SppModel.Tie

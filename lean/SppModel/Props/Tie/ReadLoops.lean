import SppModel.Props.Tie.SeekArith
import SppModel.Lemmas.ReadLoops
/-!
# Source tie — the read loops of `FileReader` are the C02 stream model (C02, C01)

`Generated/SeekArith.lean` also holds `FileReader.eos`, `creadinto` and `cread`, re-translated from `io/fileio.py`
on every run: the `while` loops with their `break`s (bounded by a fuel argument), `file_obj.readinto(view[nbytes:])`
and `np.fromfile(file_obj, count=…)` as "take what the open file still has", the hop to the next file's header
(`_seek2hdr(ifile_cur + 1)`), the end-of-stream test.  A read yields the list of segments `(file, first byte, count)`
it took.  These theorems say that, for every file list (empty data sections included), every valid reader state and
every request, the bytes of those segments, the reported count and the final reader state are those of the hand
model (`Stream.creadinto`, `Stream.cread`) that `step_refines` / `history_refines` are about.
-/
namespace SppModel.Tie
open SppModel SppModel.Generated.SeekArith

theorem read_loops_translated : ∀ f ∈ translationFailures,
    f.1 ∉ ["seek_source", "seek__open", "seek__seek2hdr", "seek_eos", "seek_creadinto", "seek_cread",
           "SeekArith_does_not_elaborate"] := by decide

variable {α : Type}

/-- the bytes of a list of segments -/
def segBytes (fs : Stream.Files α) (segs : List Seg) : List α :=
  segs.flatMap (fun s => (((fs.getD s.1.toNat ⟨[], []⟩).content.drop s.2.1.toNat).take s.2.2.toNat))

/-- a reader state inside the open file: a file of the list is open at a position between 0 and its size -/
def InFile (fs : Stream.Files α) (s : SeekSt) : Prop :=
  ValidSt fs s ∧ s.pos ≤ (((fs.getD s.ifile.toNat ⟨[], []⟩).content.length : Nat) : Int)

/-! ### helper lemmas -/
section helpers
open SppModel.ReadLoops SppModel.SeekArith

/-- the translated `creadinto` is its loop (whose body is `ciStep`, by unfolding whatever was generated) and `finish` -/
theorem creadinto_eq (env : SeekEnv) (self : SeekSt) (want : Int) (fuel : Nat) :
    ∃ body, (∀ s segs nb, body (s, segs, nb) = ciStep env want s segs nb) ∧
      creadinto env self want fuel = finish (whileFuel fuel (self, [], 0) body) :=
  ⟨_, fun _ _ _ => rfl, rfl⟩

/-- the translated `cread` is its loop (whose body is `crStep`) and `finish` -/
theorem cread_eq (env : SeekEnv) (self : SeekSt) (n bf w : Int) (fuel : Nat) :
    ∃ body, (∀ s segs cnt, body (s, segs, cnt) = crStep env w s segs cnt) ∧
      cread env self n bf w fuel = finish (whileFuel fuel (self, [], n / bf) body) :=
  ⟨_, fun _ _ _ => rfl, rfl⟩

theorem segBytes_snoc (fs : Stream.Files α) (segs : List Seg) (i p g : Nat) :
    segBytes fs (segs ++ [((i : Int), (p : Int), (g : Int))])
      = segBytes fs segs ++ ((fs.getD i ⟨[], []⟩).content.drop p).take g := by
  simp [segBytes]

theorem whileFuel_stop {σ : Type} (fuel : Nat) (s s' : σ) (body : σ → Except String (Bool × σ))
    (h : body s = .ok (false, s')) : whileFuel (fuel + 1) s body = .ok s' := by
  simp only [whileFuel, h]

theorem whileFuel_next {σ : Type} (fuel : Nat) (s s' : σ) (body : σ → Except String (Bool × σ))
    (h : body s = .ok (true, s')) : whileFuel (fuel + 1) s body = whileFuel fuel s' body := by
  simp only [whileFuel, h]

theorem whileFuel_error {σ : Type} (fuel : Nat) (s : σ) (e : String) (body : σ → Except String (Bool × σ))
    (h : body s = .error e) : whileFuel (fuel + 1) s body = .error e := by
  simp only [whileFuel, h]

theorem inFile_nat (fs : Stream.Files α) (i p : Nat) (hi : i < fs.length)
    (hp : p ≤ (fs.getD i ⟨[], []⟩).content.length) : InFile fs ⟨(i : Int), (p : Int)⟩ := by
  refine ⟨⟨?_, ?_, ?_⟩, ?_⟩ <;> simp only [Int.toNat_natCast] <;> omega

/-- a state inside the open file, with natural-number coordinates -/
theorem inFile_cases (fs : Stream.Files α) (st : SeekSt) (hv : InFile fs st) :
    ∃ i p : Nat, st = ⟨(i : Int), (p : Int)⟩ ∧ i < fs.length ∧ p ≤ (fs.getD i ⟨[], []⟩).content.length := by
  obtain ⟨⟨h0, h1, h2⟩, h3⟩ := hv
  obtain ⟨ifile, pos⟩ := st
  dsimp only at h0 h1 h2 h3
  obtain ⟨i, rfl⟩ := Int.eq_ofNat_of_zero_le h0
  obtain ⟨p, rfl⟩ := Int.eq_ofNat_of_zero_le h2
  rw [Int.toNat_natCast] at h3
  exact ⟨i, p, rfl, by omega, by omega⟩

/-- the `creadinto` loop against the model's `readLoop` -/
theorem ci_loop (fs : Stream.Files α) (want : Nat) (body : Loop → Except String (Bool × Loop))
    (hbody : ∀ s segs nb, body (s, segs, nb) = ciStep (envOf fs) (want : Int) s segs nb) :
    ∀ (fm fg i p nb : Nat) (segs : List Seg), i < fs.length → p ≤ (fs.getD i ⟨[], []⟩).content.length →
      nb ≤ want → nb = (segBytes fs segs).length → fs.length - i ≤ fm → fs.length - i ≤ fg →
      ∃ segs' st', whileFuel fg (⟨(i : Int), (p : Int)⟩, segs, (nb : Int)) body
            = .ok (st', segs', ((segBytes fs segs').length : Int)) ∧
        segBytes fs segs' = (Stream.readLoop fs fm ⟨i, p⟩ (want - nb) (segBytes fs segs)).1 ∧
        toSt st' = (Stream.readLoop fs fm ⟨i, p⟩ (want - nb) (segBytes fs segs)).2.1 ∧ InFile fs st' := by
  intro fm
  induction fm with
  | zero => intro fg i p nb segs hi; omega
  | succ fm ih =>
    intro fg i p nb segs hi hp hnb hlen hfm hfg
    cases fg with
    | zero => omega
    | succ fg =>
      by_cases h : (want - nb) - min (want - nb) ((fs.getD i ⟨[], []⟩).content.length - p) = 0 ∨ ¬ i + 1 < fs.length
      · have hseg := segBytes_snoc fs segs i p (min (want - nb) ((fs.getD i ⟨[], []⟩).content.length - p))
        have hm := readLoop_stop fs fm i p (want - nb) (segBytes fs segs) hi h
        refine ⟨segs ++ [((i : Int), (p : Int), ((min (want - nb) ((fs.getD i ⟨[], []⟩).content.length - p) : Nat) : Int))],
          ⟨(i : Int), ((p + min (want - nb) ((fs.getD i ⟨[], []⟩).content.length - p) : Nat) : Int)⟩, ?_, ?_, ?_, ?_⟩
        · rw [whileFuel_stop fg _ _ body ((hbody _ _ _).trans (ciStep_stop fs i p want nb segs hi hp hnb h))]
          rw [hseg, List.length_append, List.length_take, List.length_drop, ← hlen, Nat.min_assoc, Nat.min_self]
        · rw [hm, hseg]
        · rw [hm]; simp only [toSt, Int.toNat_natCast]
        · exact inFile_nat fs i _ hi (by omega)
      · have h0 : (want - nb) - min (want - nb) ((fs.getD i ⟨[], []⟩).content.length - p) ≠ 0 := by omega
        have h1 : i + 1 < fs.length := by omega
        have hseg := segBytes_snoc fs segs i p (min (want - nb) ((fs.getD i ⟨[], []⟩).content.length - p))
        rw [whileFuel_next fg _ _ body ((hbody _ _ _).trans (ciStep_next fs i p want nb segs hp hnb h0 h1)),
          readLoop_next fs fm i p (want - nb) (segBytes fs segs) hi h0 h1, ← hseg, Nat.sub_sub]
        refine ih fg (i + 1) (Stream.hdrlen fs (i + 1)) _ _ h1 (hdrlen_le_content fs (i + 1)) (by omega) ?_
          (by omega) (by omega)
        rw [hseg, List.length_append, List.length_take, List.length_drop, ← hlen, Nat.min_assoc, Nat.min_self]

/-- the `cread` loop against the model's `readLoop`: it ends with nothing left to read exactly when the model does,
    and otherwise raises (past the last file) exactly when the model is left with a remainder -/
theorem cr_loop (fs : Stream.Files α) (w : Nat) (hw : 0 < w)
    (hfiles : ∀ f ∈ fs, w ∣ f.data.length ∧ w ∣ f.hdr.length)
    (body : Loop → Except String (Bool × Loop))
    (hbody : ∀ s segs cnt, body (s, segs, cnt) = crStep (envOf fs) (w : Int) s segs cnt) :
    ∀ (fm fg i p c : Nat) (segs : List Seg), i < fs.length → p ≤ (fs.getD i ⟨[], []⟩).content.length →
      Stream.hdrlen fs i ≤ p → w ∣ p → fs.length - i ≤ fm → fs.length - i ≤ fg →
      (∃ segs' st', whileFuel fg (⟨(i : Int), (p : Int)⟩, segs, (c : Int)) body = .ok (st', segs', 0) ∧
        Stream.readLoop fs fm ⟨i, p⟩ (c * w) (segBytes fs segs) = (segBytes fs segs', toSt st', 0)) ∨
      (∃ e, whileFuel fg (⟨(i : Int), (p : Int)⟩, segs, (c : Int)) body = .error e ∧
        (Stream.readLoop fs fm ⟨i, p⟩ (c * w) (segBytes fs segs)).2.2 ≠ 0) := by
  intro fm
  induction fm with
  | zero => intro fg i p c segs hi; omega
  | succ fm ih =>
    intro fg i p c segs hi hp hH hwp hfm hfg
    cases fg with
    | zero => omega
    | succ fg =>
      obtain ⟨k, hk, hkD⟩ := items_left fs w i p hw hi hfiles hwp hH
      have hgot : min (c * w) ((fs.getD i ⟨[], []⟩).content.length - p) = min c k * w := by
        rw [hk, min_mul_mul]
      have hrem : c * w - min c k * w = (c - min c k) * w := (Nat.sub_mul _ _ _).symm
      have hseg := segBytes_snoc fs segs i p (min c k * w)
      by_cases h : c ≤ k
      · have hz : c - min c k = 0 := by omega
        refine .inl ⟨segs ++ [((i : Int), (p : Int), ((min c k * w : Nat) : Int))],
          ⟨(i : Int), ((p + min c k * w : Nat) : Int)⟩, ?_, ?_⟩
        · rw [whileFuel_stop fg _ _ body ((hbody _ _ _).trans (crStep_done fs i p w c k segs hw hp hk hkD h))]
        · rw [readLoop_stop fs fm i p (c * w) (segBytes fs segs) hi (.inl (by rw [hgot, hrem, hz, Nat.zero_mul])),
            hgot, hrem, hz, Nat.zero_mul, hseg]
          simp only [toSt, Int.toNat_natCast]
      · have hkc : k < c := by omega
        have h0 : c * w - min (c * w) ((fs.getD i ⟨[], []⟩).content.length - p) ≠ 0 := by
          rw [hgot, hrem]; exact Nat.mul_ne_zero (by omega) (by omega)
        by_cases h1 : i + 1 < fs.length
        · rw [whileFuel_next fg _ _ body ((hbody _ _ _).trans (crStep_next fs i p w c k segs hw hp hk hkD hkc h1)),
            readLoop_next fs fm i p (c * w) (segBytes fs segs) hi h0 h1, hgot, hrem, ← hseg]
          exact ih fg (i + 1) (Stream.hdrlen fs (i + 1)) (c - min c k) _ h1 (hdrlen_le_content fs (i + 1))
            (Nat.le_refl _) (hdrlen_dvd fs w (i + 1) h1 hfiles) (by omega) (by omega)
        · obtain ⟨e, he⟩ := crStep_raise fs i p w c k segs hw hp hk hkD hkc h1
          refine .inr ⟨e, whileFuel_error fg _ e body ((hbody _ _ _).trans he), ?_⟩
          rw [readLoop_stop fs fm i p (c * w) (segBytes fs segs) hi (.inr h1)]
          exact h0

end helpers

/-- **`creadinto`** (a buffer of `want` bytes): with enough fuel for one pass over the files it never raises, and
    bytes, byte count and final position are the model's -/
theorem creadinto_is_model (fs : Stream.Files α) (st : SeekSt) (want : Nat) (fuel : Nat)
    (hv : InFile fs st) (hf : fs.length + 1 ≤ fuel) :
    ∃ segs st', creadinto (seekEnv fs) st (want : Int) fuel = .ok ((segs, ((segBytes fs segs).length : Int)), st') ∧
      segBytes fs segs = (Stream.creadinto fs want (toSt st)).1 ∧
      toSt st' = (Stream.creadinto fs want (toSt st)).2 ∧ InFile fs st' := by
  obtain ⟨i, p, rfl, hi, hp⟩ := inFile_cases fs st hv
  obtain ⟨body, hbody, heq⟩ := creadinto_eq (seekEnv fs) ⟨(i : Int), (p : Int)⟩ (want : Int) fuel
  obtain ⟨segs', st', hw, hs, ht, hI⟩ := ci_loop fs want body hbody fs.length fuel i p 0 [] hi hp
    (Nat.zero_le _) rfl (by omega) (by omega)
  rw [Nat.sub_zero] at hs ht
  refine ⟨segs', st', ?_, ?_, ?_, hI⟩
  · rw [heq]
    rw [Int.natCast_zero] at hw
    rw [hw]; rfl
  · rw [hs]; rfl
  · rw [ht]; rfl

/-- **`cread`** of `count` items of `w` bytes, under the precondition of the model (every data section, header
    and the current position are whole numbers of items; the reader stands in the data section, where every seek
    and every read leaves it): the bytes are the model's `cread` of `count*w` bytes, and
    it raises exactly when the model does (the stream ends before the request is satisfied) -/
theorem cread_is_model (fs : Stream.Files α) (st : SeekSt) (count w : Nat) (fuel : Nat)
    (hv : InFile fs st) (hf : fs.length + 1 ≤ fuel) (hw : 0 < w)
    (hfiles : ∀ f ∈ fs, w ∣ f.data.length ∧ w ∣ f.hdr.length) (hpos : (w : Int) ∣ st.pos)
    (hdata : (((fs.getD st.ifile.toNat ⟨[], []⟩).hdr.length : Nat) : Int) ≤ st.pos) :
    (∀ segs r st', cread (seekEnv fs) st (count : Int) 1 (w : Int) fuel = .ok ((segs, r), st') →
        (Stream.cread fs (count * w) (toSt st)).1 = .ok (segBytes fs segs) ∧
        toSt st' = (Stream.cread fs (count * w) (toSt st)).2 ∧ r = 0) ∧
    (∀ e, cread (seekEnv fs) st (count : Int) 1 (w : Int) fuel = .error e →
        (Stream.cread fs (count * w) (toSt st)).1 = .error .valueError) := by
  obtain ⟨i, p, rfl, hi, hp⟩ := inFile_cases fs st hv
  dsimp only at hpos hdata
  rw [Int.toNat_natCast] at hdata
  have hwp : w ∣ p := Int.natCast_dvd_natCast.mp hpos
  have hH : Stream.hdrlen fs i ≤ p := by
    rw [Stream.hdrlen_of_lt fs i hi, ← ReadLoops.getD_of_lt fs i hi]; omega
  have hts : toSt ⟨(i : Int), (p : Int)⟩ = ⟨i, p⟩ := by simp only [toSt, Int.toNat_natCast]
  obtain ⟨body, hbody, heq⟩ := cread_eq (seekEnv fs) ⟨(i : Int), (p : Int)⟩ (count : Int) 1 (w : Int) fuel
  rw [Int.ediv_one] at heq
  rw [heq, hts]
  rcases cr_loop fs w hw hfiles body hbody fs.length fuel i p count [] hi hp hH hwp (by omega) (by omega) with
    ⟨segs', st', hwl, hR⟩ | ⟨e, hwl, hR⟩
  · have hR' : Stream.readLoop fs fs.length ⟨i, p⟩ (count * w) [] = (segBytes fs segs', toSt st', 0) := hR
    have hm : Stream.cread fs (count * w) ⟨i, p⟩ = (.ok (segBytes fs segs'), toSt st') := by
      simp only [Stream.cread, hR', if_true]
    rw [hwl, hm]
    refine ⟨fun segs r st'' h => ?_, fun e h => ?_⟩
    · simp only [ReadLoops.finish, Except.ok.injEq, Prod.mk.injEq] at h
      obtain ⟨⟨rfl, rfl⟩, rfl⟩ := h
      exact ⟨rfl, rfl, rfl⟩
    · simp only [ReadLoops.finish] at h
      cases h
  · have hR' : (Stream.readLoop fs fs.length ⟨i, p⟩ (count * w) []).2.2 ≠ 0 := hR
    have hm : (Stream.cread fs (count * w) ⟨i, p⟩).1 = .error .valueError := by
      simp only [Stream.cread]
      generalize Stream.readLoop fs fs.length ⟨i, p⟩ (count * w) [] = r at hR' ⊢
      obtain ⟨acc, st', rem⟩ := r
      dsimp only at hR' ⊢
      rw [if_neg hR']
    rw [hwl]
    refine ⟨fun segs r st'' h => ?_, fun e h => hm⟩
    simp only [ReadLoops.finish] at h
    cases h

/-- non-vacuity: two files (header 3 / data 4, header 2 / data 5), 6 bytes from data offset 2 of the first file -/
example : ((creadinto (seekEnv [⟨[0, 0, 0], [1, 2, 3, 4]⟩, ⟨[0, 0], [5, 6, 7, 8, 9]⟩] : SeekEnv) ⟨0, 5⟩ 6 3).toOption.map
    (fun r => segBytes [⟨[0, 0, 0], [1, 2, 3, 4]⟩, ⟨[0, 0], [5, 6, 7, 8, 9]⟩] r.1.1)) = some [3, 4, 5, 6, 7, 8] := by
  decide

end SppModel.Tie

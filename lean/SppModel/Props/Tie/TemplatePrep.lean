import SppModel.Generated.TemplatePrep
import SppModel.Model.MatchedFilter
/-!
# Source tie — the template pipeline of `kernels.convolve_templates` (C13)

`Generated/TemplatePrep.lean` is re-translated from `core/kernels.py` on every run: the data are transformed at
their own length (no padding of the ring), and every template is padded to the ring, rolled so that its reference
bin sits at index 0, time-reversed (`roll(x[::-1], 1)`) and normalised before the spectrum product.  These theorems
say that this is `MatchedFilter.prepTemplate`, the pipeline `response_is_correlation` (C13) is about.
-/
namespace SppModel.Tie
open SppModel SppModel.Generated.TemplatePrep

theorem template_prep_translated : ∀ f ∈ translationFailures, f.1 ∉ ["template_prep", "TemplatePrep_does_not_elaborate"] := by
  decide

/-- the ring of the circular product is the data themselves -/
theorem transform_len_is_data_len (nbins : Nat) : transformLen nbins = nbins := rfl

/-- the translated pipeline followed by the normalisation is the model's prepared template -/
theorem prepared_is_model (n : Nat) (kernel : List Rat) (ref : Nat) (mu sigma : Rat) :
    (prepared n kernel ref).map (fun v => (v - mu) / sigma) = MatchedFilter.prepTemplate n kernel ref mu sigma := by
  unfold prepared MatchedFilter.prepTemplate
  rfl

/-- hence the response of the translated pipeline is the model's response -/
theorem response_uses_source (data kernel : List Rat) (ref : Nat) (mu sigma : Rat) :
    MatchedFilter.cconv data.length data ((prepared (transformLen data.length) kernel ref).map (fun v => (v - mu) / sigma))
      = MatchedFilter.response data kernel ref mu sigma := by
  rw [transform_len_is_data_len, prepared_is_model]
  rfl

end SppModel.Tie

import SppModel.Generated.StreamCalls
/-!
# Source tie — which array, count and offset every streaming loop hands to its kernel (C06, C07, C11)

`Generated/StreamCalls.lean` lists, for every `for nsamps_r, ii, data in self.read_plan(…)` loop of `Filterbank`
(`base.py`), the plan arguments and - with the parameter NAMES taken from the kernel's own signature in
`kernels.py` - the argument bound to each parameter.  The kernels are translated (`Kernels/*`), the plan and its
loop are (`Tie/Plan`, `Tie/ReadPlanLoop`), the output offsets are (`Tie/Collapse`, `Tie/Dedisperse`, `Tie/Fold`);
these obligations close the remaining gap, the loop headers: every kernel gets the block just read, the number of
samples of THAT block, the header's channel count in the `nchans` slot, and the dedispersing loops ask the plan for
an overlap of `max_delay`.  (Passing `(nchans, nsamps_r)` in the `(dim1, dim2)` slots of the decimation kernel was
defect `060af39`.)  Only roles are asserted, not the names of local arrays.
-/
namespace SppModel.Tie.StreamCalls
open SppModel.Generated.StreamCalls

theorem stream_calls_translated : Generated.StreamCalls.translationFailures = [] := by decide

/-- every kernel call receives the block of this iteration and its sample count -/
theorem block_and_count :
    (∀ r ∈ calls, r.2.2.1 ≠ "cwrite" →
      (r.2.2.2.head?.map (·.2) = some "data") ∧
      (∀ p ∈ r.2.2.2, p.1 = "nsamps" → p.2 = "nsamps_r") ∧
      (∀ p ∈ r.2.2.2, p.1 = "nchans" → p.2 = "self.header.nchans")) := by
  decide

/-- the decimation kernel gets (time factor, frequency factor, samples, channels) in that order of roles -/
theorem downsample_roles :
    argOf "downsample" "downsample_2d_mean_flat" "factor1" = some "tfactor" ∧
    argOf "downsample" "downsample_2d_mean_flat" "factor2" = some "ffactor" ∧
    argOf "downsample" "downsample_2d_mean_flat" "dim1" = some "nsamps_r" ∧
    argOf "downsample" "downsample_2d_mean_flat" "dim2" = some "self.header.nchans" := by
  decide

/-- output offsets: block index times the samples a full block contributes -/
theorem offsets :
    argOf "collapse" "extract_tim" "index" = some "gulp*ii" ∧
    argOf "dedisperse" "dedisperse" "index" = some "(gulp-max_delay)*ii" ∧
    argOf "fold" "fold" "index" = some "(gulp-max_delay)*ii" := by
  decide

/-- the loops that shift channels ask the plan for an overlap of `max_delay` and tell the kernel the same value;
    the others read disjoint blocks -/
theorem overlaps :
    planArg "dedisperse" "skipback" = some "max_delay" ∧ argOf "dedisperse" "dedisperse" "maxdelay" = some "max_delay" ∧
    planArg "subband" "skipback" = some "max_delay" ∧ argOf "subband" "subband" "maxdelay" = some "max_delay" ∧
    planArg "fold" "skipback" = some "max_delay" ∧ argOf "fold" "fold" "maxdelay" = some "max_delay" ∧
    planArg "collapse" "skipback" = none ∧ planArg "bandpass" "skipback" = none ∧ planArg "downsample" "skipback" = none := by
  decide

/-- every loop forwards the caller's `start` and `nsamps` to the plan -/
theorem ranges : ∀ r ∈ calls, r.2.1.lookup "start" = some "start" ∧ r.2.1.lookup "nsamps" = some "nsamps" := by
  decide

/-- what is written: the kernel's output (or the block itself for in-place / pass-through transforms), trimmed to the
    samples this block produced -/
theorem written :
    argOf "remove_zerodm" "cwrite" "arr" = some "out_ar[:nsamps_r*self.header.nchans]" ∧
    argOf "subband" "cwrite" "arr" = some "out_ar[:(nsamps_r-max_delay)*nsub]" ∧
    argOf "apply_channel_mask" "cwrite" "arr" = some "data" ∧ argOf "extract_samps" "cwrite" "arr" = some "data" := by
  decide

/-- the three delay-shifting loops start from the SAME preparation: the header's delays for `dm`, referred to the
    earliest channel (so that none is negative, whatever the band order or the sign of the DM), the overlap is their
    maximum and the effective gulp at least twice the overlap -/
theorem delay_prep :
    let D := "self.header.get_dmdelays(dm)-min(0,int(self.header.get_dmdelays(dm).min()))"
    delayPrep = ["dedisperse", "subband", "fold"].map (fun m =>
      (m, D, "int((" ++ D ++ ").max())", "max(2*int((" ++ D ++ ").max()),gulp)")) := by
  decide

end SppModel.Tie.StreamCalls

import SppModel.Generated.DmLaw
import SppModel.Model.Dedisp
import Mathlib.Tactic.Ring
import Mathlib.Tactic.FieldSimp
/-!
# Source tie — the dispersion law of `params.compute_dmdelays` (C09)

`Generated/DmLaw.lean` is re-translated from `params.py` / `header.py` on every run: the constant
`DM_CONSTANT_LK` as the decimal literal written in the source, the delay expression, its conversion to samples
and the reference frequencies `Header.get_dmdelays` accepts by name.  These theorems say that this is the law
the C09 theorems (`delay_zero_at_ref`, `delay_antisymm`, `delay_mono_freq`, `delay_is_rounded_law`) are about.
-/
namespace SppModel.Tie
open SppModel SppModel.Generated.DmLaw

theorem dm_law_translated : ∀ f ∈ translationFailures, f.1 ∉ ["dm_law", "dm_ref_names"] := by decide

/-- the constant of the source is the model's `4.148808e3` -/
theorem dm_constant_eq : DM_CONSTANT_LK = Dedisp.KDM := by
  unfold DM_CONSTANT_LK Dedisp.KDM; norm_num

/-- the source's delay in samples is the model's `delayQ`, for every DM, frequency, reference and sampling time -/
theorem delaySamples_is_model (dm f fref tsamp : ℚ) :
    delaySamples dm f fref tsamp = Dedisp.delayQ dm f fref tsamp := by
  unfold delaySamples delaySeconds Dedisp.delayQ
  rw [dm_constant_eq]
  congr 1
  rw [pow_two, pow_two]
  ring

/-- exactly the four named references of the property are accepted (anything else by name raises) -/
theorem ref_names : refFreqNames = ["center", "ch1", "max", "min"] := by decide

end SppModel.Tie

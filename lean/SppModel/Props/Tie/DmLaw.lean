import SppModel.Generated.DmLaw
import SppModel.Model.Dedisp
import Mathlib.Tactic.Ring
import Mathlib.Tactic.FieldSimp
import Mathlib.Tactic.NormNum
import Mathlib.Algebra.Order.Field.Rat
/-!
# Source tie — the dispersion law of `params.compute_dmdelays` (C09)

`Generated/DmLaw.lean` is re-translated from `params.py` / `header.py` on every run: the constant
`DM_CONSTANT_LK` as the decimal literal written in the source, the delay expression, its conversion to samples
and the reference frequencies `Header.get_dmdelays` accepts by name.  These theorems say that this is the law
the C09 theorems (`delay_zero_at_ref`, `delay_antisymm`, `delay_mono_freq`, `delay_is_rounded_law`) are about.
-/
namespace SppModel.Tie
open SppModel SppModel.Generated.DmLaw

theorem dm_law_translated : ∀ f ∈ translationFailures, f.1 ∉ ["dm_law", "dm_ref_names", "dm_ref_extremes"] := by decide

/-- the constant of the source is the model's `4.148808e3` -/
theorem dm_constant_eq : DM_CONSTANT_LK = Dedisp.KDM := by
  unfold DM_CONSTANT_LK Dedisp.KDM; norm_num

/-- the source's delay in samples is the model's `delayQ`, for every DM, frequency, reference and sampling time -/
theorem delaySamples_is_model (dm f fref tsamp : ℚ) :
    delaySamples dm f fref tsamp = Dedisp.delayQ dm f fref tsamp := by
  unfold delaySamples delaySeconds Dedisp.delayQ
  rw [dm_constant_eq]
  congr 1
  rw [pow_two, pow_two]
  ring

/-- exactly the four named references of the property are accepted (anything else by name raises) -/
theorem ref_names : refFreqNames = ["center", "ch1", "max", "min"] := by decide

/-! ### the named references `max` / `min` are channel centres

`Header.fmax` / `fmin` are `chan_freqs.max()` / `.min()`: for every band direction the reference named `max`
(`min`) is the centre of an existing channel - channel 0 or the last one - and bounds every channel centre, so the
delay at that channel is exactly zero (`Dedisp.delay_zero_at_ref`) and no channel lies beyond the reference. -/

private theorem foldl_max_ge (xs : List ℚ) (a : ℚ) :
    a ≤ xs.foldl max a ∧ ∀ x ∈ xs, x ≤ xs.foldl max a := by
  induction xs generalizing a with
  | nil => exact ⟨le_refl _, fun x hx => absurd hx (List.not_mem_nil)⟩
  | cons y ys ih =>
    rw [List.foldl_cons]
    obtain ⟨h1, h2⟩ := ih (max a y)
    refine ⟨le_trans (le_max_left a y) h1, fun x hx => ?_⟩
    rcases List.mem_cons.mp hx with rfl | hx
    · exact le_trans (le_max_right a x) h1
    · exact h2 x hx

private theorem foldl_max_le (xs : List ℚ) (a b : ℚ) (ha : a ≤ b) (hxs : ∀ x ∈ xs, x ≤ b) :
    xs.foldl max a ≤ b := by
  induction xs generalizing a with
  | nil => exact ha
  | cons y ys ih =>
    rw [List.foldl_cons]
    exact ih (max a y) (max_le ha (hxs y List.mem_cons_self))
      (fun x hx => hxs x (List.mem_cons_of_mem _ hx))

private theorem foldl_min_le (xs : List ℚ) (a : ℚ) :
    xs.foldl min a ≤ a ∧ ∀ x ∈ xs, xs.foldl min a ≤ x := by
  induction xs generalizing a with
  | nil => exact ⟨le_refl _, fun x hx => absurd hx (List.not_mem_nil)⟩
  | cons y ys ih =>
    rw [List.foldl_cons]
    obtain ⟨h1, h2⟩ := ih (min a y)
    refine ⟨le_trans h1 (min_le_left a y), fun x hx => ?_⟩
    rcases List.mem_cons.mp hx with rfl | hx
    · exact le_trans h1 (min_le_right a x)
    · exact h2 x hx

private theorem foldl_min_ge (xs : List ℚ) (a b : ℚ) (ha : b ≤ a) (hxs : ∀ x ∈ xs, b ≤ x) :
    b ≤ xs.foldl min a := by
  induction xs generalizing a with
  | nil => exact ha
  | cons y ys ih =>
    rw [List.foldl_cons]
    exact ih (min a y) (le_min ha (hxs y List.mem_cons_self))
      (fun x hx => hxs x (List.mem_cons_of_mem _ hx))

private theorem chanFreq_mono_of_nonneg (fch1 foff : ℚ) (h : 0 ≤ foff) {i j : Nat} (hij : i ≤ j) :
    chanFreq fch1 foff i ≤ chanFreq fch1 foff j := by
  unfold chanFreq
  have : (i : ℚ) ≤ (j : ℚ) := by exact_mod_cast hij
  exact add_le_add_left (mul_le_mul_of_nonneg_right this h) _

private theorem chanFreq_anti_of_nonpos (fch1 foff : ℚ) (h : foff ≤ 0) {i j : Nat} (hij : i ≤ j) :
    chanFreq fch1 foff j ≤ chanFreq fch1 foff i := by
  unfold chanFreq
  have : (i : ℚ) ≤ (j : ℚ) := by exact_mod_cast hij
  exact add_le_add_left (mul_le_mul_of_nonpos_right this h) _

private theorem mem_chans {fch1 foff : ℚ} {n : Nat} {x : ℚ}
    (hx : x ∈ (List.range n).map (chanFreq fch1 foff)) : ∃ i, i < n ∧ chanFreq fch1 foff i = x := by
  obtain ⟨i, hi, rfl⟩ := List.mem_map.mp hx
  exact ⟨i, List.mem_range.mp hi, rfl⟩

private theorem chan_mem (fch1 foff : ℚ) {n i : Nat} (hi : i < n) :
    chanFreq fch1 foff i ∈ (List.range n).map (chanFreq fch1 foff) :=
  List.mem_map.mpr ⟨i, List.mem_range.mpr hi, rfl⟩

theorem fmax_spec (fch1 foff : ℚ) (n : Nat) (hn : 0 < n) :
    fmaxOf fch1 foff n = if foff ≤ 0 then chanFreq fch1 foff 0 else chanFreq fch1 foff (n - 1) := by
  unfold fmaxOf
  split
  · next h =>
    apply le_antisymm
    · apply foldl_max_le _ _ _ (le_refl _)
      intro x hx
      obtain ⟨i, _, rfl⟩ := mem_chans hx
      exact chanFreq_anti_of_nonpos fch1 foff h (Nat.zero_le i)
    · exact (foldl_max_ge _ _).1
  · next h =>
    have h' : 0 ≤ foff := le_of_lt (not_le.mp h)
    apply le_antisymm
    · apply foldl_max_le _ _ _ (chanFreq_mono_of_nonneg fch1 foff h' (Nat.zero_le _))
      intro x hx
      obtain ⟨i, hi, rfl⟩ := mem_chans hx
      exact chanFreq_mono_of_nonneg fch1 foff h' (Nat.le_sub_one_of_lt hi)
    · exact (foldl_max_ge _ _).2 _ (chan_mem fch1 foff (Nat.sub_lt hn Nat.one_pos))

theorem fmin_spec (fch1 foff : ℚ) (n : Nat) (hn : 0 < n) :
    fminOf fch1 foff n = if foff ≤ 0 then chanFreq fch1 foff (n - 1) else chanFreq fch1 foff 0 := by
  unfold fminOf
  split
  · next h =>
    apply le_antisymm
    · exact (foldl_min_le _ _).2 _ (chan_mem fch1 foff (Nat.sub_lt hn Nat.one_pos))
    · apply foldl_min_ge _ _ _ (chanFreq_anti_of_nonpos fch1 foff h (Nat.zero_le _))
      intro x hx
      obtain ⟨i, hi, rfl⟩ := mem_chans hx
      exact chanFreq_anti_of_nonpos fch1 foff h (Nat.le_sub_one_of_lt hi)
  · next h =>
    have h' : 0 ≤ foff := le_of_lt (not_le.mp h)
    apply le_antisymm
    · exact (foldl_min_le _ _).1
    · apply foldl_min_ge _ _ _ (le_refl _)
      intro x hx
      obtain ⟨i, _, rfl⟩ := mem_chans hx
      exact chanFreq_mono_of_nonneg fch1 foff h' (Nat.zero_le i)

/-- every channel centre lies between the two named references -/
theorem chan_between (fch1 foff : ℚ) (n i : Nat) (hi : i < n) :
    fminOf fch1 foff n ≤ chanFreq fch1 foff i ∧ chanFreq fch1 foff i ≤ fmaxOf fch1 foff n :=
  ⟨(foldl_min_le _ _).2 _ (chan_mem fch1 foff hi), (foldl_max_ge _ _).2 _ (chan_mem fch1 foff hi)⟩

private theorem roundHalfEven_zero' : Meta.roundHalfEven 0 = 0 := by
  have h0 : Rat.floor 0 = 0 := by decide
  unfold Meta.roundHalfEven
  simp only [h0]
  norm_num

private theorem delaySamples_self (dm f tsamp : ℚ) : delaySamples dm f f tsamp = 0 := by
  unfold delaySamples delaySeconds
  rw [sub_self, mul_zero, zero_div, roundHalfEven_zero']

/-- the delay of the reference channel itself is zero, for the translated law and the translated references -/
theorem delay_zero_at_named_max (dm fch1 foff tsamp : ℚ) (n : Nat) (hn : 0 < n) :
    ∃ i, i < n ∧ delaySamples dm (chanFreq fch1 foff i) (fmaxOf fch1 foff n) tsamp = 0 := by
  rw [fmax_spec fch1 foff n hn]
  split
  · exact ⟨0, hn, delaySamples_self _ _ _⟩
  · exact ⟨n - 1, Nat.sub_lt hn Nat.one_pos, delaySamples_self _ _ _⟩

end SppModel.Tie

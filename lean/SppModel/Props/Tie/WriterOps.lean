import SppModel.Generated.WriterOps
/-! # Source tie — the writer inventory was produced by the translator on this run (C20) -/
namespace SppModel.Tie
theorem writer_ops_translated : Generated.WriterOps.translationFailures = [] := by decide
end SppModel.Tie

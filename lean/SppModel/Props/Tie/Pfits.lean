import SppModel.Generated.ReaderArith
import SppModel.Frozen.ReaderArith
import SppModel.Model.Pfits
/-!
# Source tie — `PFITSReader.read_plan` / `read_block` arithmetic (C18)

`Generated/ReaderArith.lean` is re-translated from the current source on every run; a fragment the
translator no longer recognises is listed in its `translationFailures` (the module still elaborates).
-/
namespace SppModel.Tie
open SppModel SppModel.Frozen.ReaderArith

theorem pfits_translated : ∀ f ∈ Generated.ReaderArith.translationFailures, f.1 ∉ ["FilReader_planArith", "PFITSReader_planArith", "PFITSReader_rowArith"] := by
  decide

/-- the PSRFITS reader uses the same plan arithmetic as `FilReader.read_plan`, token for token -/
theorem pfits_plan_arith_same : PFITSReader_planArith = FilReader_planArith := rfl

/-- `PFITSReader.read_block` row arithmetic is the model's -/
theorem pfits_row_arith (nsblk s n : Nat) :
    PFITSReader_rowArith nsblk s n = (s / nsblk, s % nsblk, (s % nsblk + n + nsblk - 1) / nsblk) := rfl

end SppModel.Tie

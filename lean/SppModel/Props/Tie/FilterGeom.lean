import SppModel.Generated.FilterGeom
import SppModel.Model.Filters
/-!
# Source tie — `stats.running_filter` geometry (C14)

`Generated/FilterGeom.lean` is re-translated from `core/stats.py` on every run: the pad widths for odd / even
windows, the pad mode, and the index of the first output kept.  These theorems say that this is the geometry the
C14 model (`Filters.windowIdx`, `Filters.runningLen`) and theorems (`running_len`, `windowIdx_*`,
`runningMean_get`) are about.
-/
namespace SppModel.Tie
open SppModel SppModel.Generated.FilterGeom

theorem filter_geom_translated : ∀ f ∈ translationFailures, f.1 ∉ ["running_filter_geom"] := by decide

/-- edges are reflected with the edge sample repeated (`Filters.refl` is NumPy's 'symmetric' mode) -/
theorem running_pad_mode_eq : running_pad_mode = "symmetric" := by decide

/-- the number of outputs of the source: padded length minus the samples dropped in front, is the model's -/
theorem running_len_is_source (n w : Nat) :
    Filters.runningLen n w = n + ((running_pad w).1 + (running_pad w).2) - running_keep_from w := by
  unfold Filters.runningLen running_pad running_keep_from
  by_cases h : w % 2 = 1 <;> simp [h]

/-- the left pad is `window // 2`: output `t` is centred on original index `t` (the offset used by
    `Filters.windowIdx`), for odd and even windows alike -/
theorem running_left_pad (w : Nat) : (running_pad w).1 = w / 2 := by
  unfold running_pad; split <;> rfl

/-- hence, for every window ≥ 1, exactly one output per input sample -/
theorem running_same_length (n w : Nat) (hw : 1 ≤ w) :
    n + ((running_pad w).1 + (running_pad w).2) - running_keep_from w = n := by
  unfold running_pad running_keep_from
  split <;> simp only [] <;> omega

end SppModel.Tie

import SppModel.Generated.Prange
/-! # Source tie — every `prange` kernel was recognised by the translator on this run (C19) -/
namespace SppModel.Tie
theorem prange_translated : Generated.Prange.translationFailures = [] := by decide
end SppModel.Tie

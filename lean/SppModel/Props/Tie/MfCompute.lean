import SppModel.Generated.MfCompute
import SppModel.Props.C13
/-!
# Source tie — `MatchedFilter._compute` (C13)

`Generated/MfCompute.lean` is re-translated from `core/filters.py` on every run: `_compute` convolves the z-scores
with the WHOLE template bank, takes `np.unravel_index(convs.argmax(), convs.shape)` over ALL responses (no row or bin
is excluded), and stores the response at that position as the S/N; the public attributes return exactly those
fields.  With `peakOf_spec` (C13) this makes "the reported S/N is the maximum response and its position the first
argmax" a statement about the translated source.
-/
namespace SppModel.Tie
open SppModel SppModel.Generated.MfCompute

theorem mf_compute_translated : ∀ f ∈ SppModel.Generated.MfCompute.translationFailures, f.1 ∉ ["mf_compute"] := by decide

/-- the reported (template, bin) is a valid position and the reported S/N is the response there -/
theorem compute_position (convs : List (List Rat)) (n : Nat) (hn : 0 < n) (hne : convs ≠ [])
    (hrect : ∀ r ∈ convs, r.length = n) :
    (compute convs).1 < convs.length ∧ (compute convs).2.1 < n ∧
      (compute convs).2.2 = (convs.getD (compute convs).1 []).getD (compute convs).2.1 0 := by
  have h := MatchedFilter.peakOf_spec convs n hn hne hrect
  exact ⟨h.1, h.2.1, rfl⟩

/-- **the reported S/N is the maximum over every template and every bin** -/
theorem compute_is_max (convs : List (List Rat)) (n : Nat) (hn : 0 < n) (hne : convs ≠ [])
    (hrect : ∀ r ∈ convs, r.length = n) (i j : Nat) (hi : i < convs.length) (hj : j < n) :
    (convs.getD i []).getD j 0 ≤ (compute convs).2.2 := by
  have h := MatchedFilter.peakOf_spec convs n hn hne hrect
  exact h.2.2 i j hi hj

/-- non-vacuity: two templates, three bins; the maximum 9 sits at template 1, bin 0, and the earlier 7 is not chosen -/
example : compute [[1, 7, 2], [9, 7, 9]] = (1, 0, 9) := by decide +kernel

end SppModel.Tie

import SppModel.Generated.Tables
/-! # Source tie — the SIGPROC key/format and id tables were recognised by the translator on this run (C04, C05) -/
namespace SppModel.Tie
theorem sigproc_tables_translated : ∀ f ∈ Generated.Tables.translationFailures, f.1 ∉ ["sigproc_tables"] := by decide
end SppModel.Tie

import SppModel.Generated.ReaderArith
import SppModel.Frozen.ReaderArith
import SppModel.Model.Plan
/-!
# Source tie — `FilReader.read_plan` block arithmetic (C01, C06, C07, C11, C18)

`Generated/ReaderArith.lean` is re-translated from the current source on every run; a fragment the
translator no longer recognises is listed in its `translationFailures` (the module still elaborates).
The theorems state that the hand model `Plan.planBlocks` (which C01's theorems are about) computes exactly
what the translated source text computes.
-/
namespace SppModel.Tie
open SppModel SppModel.Plan SppModel.Frozen.ReaderArith

/-- the fragment was recognised on this run -/
theorem plan_translated : ∀ f ∈ Generated.ReaderArith.translationFailures, f.1 ∉ ["FilReader_planArith"] := by decide

/-- the plan arithmetic of `FilReader.read_plan` IS the model's `geff / nreads / lastread` with its two rejections -/
theorem filreader_plan_arith (g n k : Nat) :
    FilReader_planArith g n k =
      (if k ≥ geff g n ∨ lastread g n k < k then none
       else some (geff g n, k, nreads g n k, lastread g n k)) := by
  unfold FilReader_planArith geff nreads lastread
  simp only [geff]
  by_cases h1 : k ≥ min n g
  · simp [h1]
  · simp only [h1, ↓reduceIte, false_or]
    by_cases h2 : min n g = n
    · have hk : ¬ n < k := by omega
      simp [h2, hk]
    · simp only [h2, ↓reduceIte]
      by_cases h3 : n % (min n g - k) < k
      · simp only [h3, ↓reduceIte]
        split <;> simp_all
      · simp only [h3, ↓reduceIte]
        split <;> simp_all

/-- hence the model's `planBlocks` rejects exactly where the source raises, and otherwise builds its block list from the source's numbers -/
theorem planBlocks_iff_source (g n k : Nat) :
    (∃ e, planBlocks g n k = .error e) ↔ FilReader_planArith g n k = none := by
  rw [filreader_plan_arith]
  unfold planBlocks
  by_cases h1 : k ≥ geff g n
  · simp [h1]
  · by_cases h2 : lastread g n k < k
    · simp [h1, h2]
    · simp [h1, h2]

example : FilReader_planArith 4 10 3 = none := by decide
example : FilReader_planArith 4 10 1 = some (4, 1, 3, 1) := by decide
example : FilReader_planArith 16 8 7 = some (8, 7, 0, 8) := by decide

end SppModel.Tie

import SppModel.Generated.BitKernels
import SppModel.Generated.Tables
/-! # Source tie — the bit kernels and depth tables were recognised by the translator on this run (C03, C04) -/
namespace SppModel.Tie
theorem bitkernels_translated : Generated.BitKernels.translationFailures = [] := by decide
theorem bits_tables_translated : ∀ f ∈ Generated.Tables.translationFailures, f.1 ∉ ["bits_tables"] := by decide
end SppModel.Tie

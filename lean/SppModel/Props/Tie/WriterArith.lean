import SppModel.Generated.WriterArith
import SppModel.Generated.Tables
import SppModel.Model.Samples
/-!
# Source tie — `FileWriter.cwrite` and the `BitsInfo` properties it consults (C04, C20)

`Generated/WriterArith.lean` is re-translated from `io/bits.py` (`BitsInfo.unpack / bitfact / bitorder / dtype /
digi_min / digi_max`) and `io/fileio.py` (`FileWriter.cwrite`) on every run.  The theorems: the writer takes the
packing path exactly at the depths the model `Samples.cwrite` packs at, with the default bit order of the depth; at
every other depth the array is CONVERTED to the file's sample type before it is written (the last sentence of C04:
never the array's own item size); the file's sample types have the widths `Samples.encodeSamples` writes.
-/
namespace SppModel.Tie.WriterArith
open SppModel SppModel.Generated.WriterArith

theorem writer_arith_translated : Generated.WriterArith.translationFailures = [] := by decide

/-- the packing branch of `cwrite` is taken exactly where the model packs -/
theorem unpackFlag_iff (d : Nat) : unpackFlag d = true ↔ (d = 1 ∨ d = 2 ∨ d = 4) := by
  simp [unpackFlag]

theorem bitfact_spec (d : Nat) : bitfact d = if d = 1 ∨ d = 2 ∨ d = 4 then 8 / d else 1 := by
  unfold bitfact
  by_cases h : d = 1 ∨ d = 2 ∨ d = 4
  · rw [if_pos ((unpackFlag_iff d).mpr h), if_pos h]
  · rw [if_neg (fun hu => h ((unpackFlag_iff d).mp hu)), if_neg h]

/-- without rescaling: sub-byte depths are packed with the depth's default order and the packed bytes written -/
theorem cwrite_subbyte (d : Nat) (h : d = 1 ∨ d = 2 ∨ d = 4) :
    cwriteSteps d false = ["pack(nbits, default bitorder)", "tofile(packed)"] := by
  unfold cwriteSteps
  rw [if_pos ((unpackFlag_iff d).mpr h)]
  simp

/-- without rescaling: every other depth converts to the file's sample type, then writes -/
theorem cwrite_wide (d : Nat) (h : ¬ (d = 1 ∨ d = 2 ∨ d = 4)) :
    cwriteSteps d false = ["tofile(astype(file dtype))"] := by
  unfold cwriteSteps
  rw [if_neg (fun hu => h ((unpackFlag_iff d).mp hu))]
  simp

/-- the array is never written as it is: every path either packs or converts to the file's sample type -/
theorem cwrite_never_raw (d : Nat) (r : Bool) :
    "tofile(packed)" ∈ cwriteSteps d r ∨ "tofile(astype(file dtype))" ∈ cwriteSteps d r := by
  unfold cwriteSteps
  by_cases hu : unpackFlag d = true
  · left; simp [hu]
  · right; simp [hu]

/-- the refusal of `Samples.cwrite` for a non-uint8 array at a packed depth is the packers' own argument check
    (`Tie/BitsValidation`); at the other depths the model writes whatever the in-memory dtype is - as the source,
    which converts -/
theorem model_branches (d : Nat) (dt : Samples.DType) (ws : List Nat) :
    Samples.cwrite d dt ws =
      if unpackFlag d = true then (if dt = .uint8 then Samples.encodeSamples d ws else .error .valueError)
      else Samples.encodeSamples d ws := by
  unfold Samples.cwrite
  by_cases h : d = 1 ∨ d = 2 ∨ d = 4
  · rw [if_pos h, if_pos ((unpackFlag_iff d).mpr h)]
  · rw [if_neg h, if_neg (fun hu => h ((unpackFlag_iff d).mp hu))]

/-- the sample types of the file (`nbits_to_dtype`) have the byte widths the model encodes at, and the default bit
    orders of the packed depths are the ones `Samples.encodeSamples` uses (`Bits.defaultOrder`) -/
theorem file_dtypes :
    Generated.Tables.nbitsToDtype = [(1, "<u1"), (2, "<u1"), (4, "<u1"), (8, "<u1"), (16, "<u2"), (32, "<f4")] := by
  decide

theorem clip_range (d : Nat) : digiMin = 0 ∧ digiMax d = 2 ^ d - 1 := ⟨rfl, rfl⟩

end SppModel.Tie.WriterArith

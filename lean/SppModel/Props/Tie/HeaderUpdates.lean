import SppModel.Generated.HeaderUpdates
/-! # Source tie — every header-update site was recognised by the translator on this run (C08) -/
namespace SppModel.Tie
theorem header_updates_translated : Generated.HeaderUpdates.translationFailures = [] := by decide
end SppModel.Tie

import SppModel.Generated.OnPulse
/-!
# Source tie — `Template.get_on_pulse` (C13)

`Generated/OnPulse.lean` is re-translated from `core/filters.py` on every run.  C13 says a noiseless boxcar of a width
in the bank is "recovered at its start bin with that width": the region reported for a boxcar found at `peak` is the
half-open range `[peak, peak + width)` whenever the pulse fits in the data, including when it ends exactly at the
last bin; in every case the region lies inside the data.
-/
namespace SppModel.Tie
open SppModel.Generated.OnPulse

theorem on_pulse_translated : ∀ f ∈ translationFailures, f.1 ∉ ["on_pulse"] := by decide

/-- a boxcar found at `peak` that fits in the data (`peak + width ≤ nbins`, the last bin included) -/
theorem on_pulse_boxcar (width rwidth peak nbins : Int) (h0 : 0 ≤ peak) (hfit : peak + width ≤ nbins) :
    onPulse true width rwidth peak nbins = (peak, peak + width) := by
  unfold onPulse
  simp only [if_true]
  rw [Int.max_eq_right h0, Int.min_eq_right hfit]

/-- the region never leaves the data -/
theorem on_pulse_inside (r : Bool) (width rwidth peak nbins : Int) (hn : 0 ≤ nbins) :
    0 ≤ (onPulse r width rwidth peak nbins).1 ∧ (onPulse r width rwidth peak nbins).2 ≤ nbins := by
  unfold onPulse
  constructor
  · exact Int.le_max_left _ _
  · exact Int.min_le_left _ _

/-- a symmetric template (gaussian, lorentzian) found at `peak`, away from the edges: `round(width)` bins either side -/
theorem on_pulse_centred (width rwidth peak nbins : Int) (hl : rwidth ≤ peak) (hr : peak + rwidth ≤ nbins) :
    onPulse false width rwidth peak nbins = (peak - rwidth, peak + rwidth) := by
  unfold onPulse
  simp only [Bool.false_eq_true, if_false]
  rw [Int.max_eq_right (by omega), Int.min_eq_right hr]

example : onPulse true 4 4 207 211 = (207, 211) := by decide
example : onPulse true 1 1 52 53 = (52, 53) := by decide

end SppModel.Tie

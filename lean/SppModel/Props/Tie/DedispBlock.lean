import SppModel.Generated.DedispBlock
import SppModel.Frozen.DedispBlock
import SppModel.Model.Dedisp
import SppModel.Lemmas.DedispBlock
/-!
# Source tie — `FilReader.read_dedisp_block` (C09)

`Generated/DedispBlock.lean` is the loop of `readers.py` translated statement by statement on every run (the
reader position is part of the loop state: one `cread` per sample offset); the bridge obligation proves it equal
to `Frozen.DedispBlock`.  The theorem: for every band, delay vector (either sign), start and length, the loop
delivers exactly the windows `x[c, start + delay_c + t]`, `t < nsamps`, of the specification
`Dedisp.readDedispBlock` the C09 theorems (`readDedispBlock_get`, `pulse_restored`) are about, and rejects exactly
the requests the specification rejects.
-/
namespace SppModel.Tie.DedispBlock
open SppModel SppModel.Frozen.DedispBlock

theorem dedisp_block_translated : Generated.DedispBlock.translationFailures = [] := by decide

/-- the file as the loop sees it: sample `t` = the values of all channels at `t` -/
def sampleOf (stream : List (List Int)) (t : Nat) : List Int := stream.map (fun row => row.getD t 0)

def errName : Err → String
  | .valueError => "ValueError"
  | _ => "other"

/-- channel-major data of `C ≥ 1` channels × `N` samples, one delay per channel, a non-negative length:
the translated loop is the specification -/
theorem read_dedisp_block_is_model (stream : List (List Int)) (N : Nat) (delays : List Int) (start nsamps : Int)
    (hC : stream ≠ []) (hrows : ∀ row ∈ stream, row.length = N) (hd : delays.length = stream.length)
    (hn : 0 ≤ nsamps) :
    read_dedisp_block (sampleOf stream) stream.length N delays start nsamps =
      (match Dedisp.readDedispBlock stream N delays start nsamps with
       | .ok b => .ok b
       | .error e => .error (errName e)) := by
  have hg := Rdb.guard_iff delays start nsamps N
  unfold read_dedisp_block Dedisp.readDedispBlock
  by_cases hany : delays.any (fun d => decide (start + d < 0 ∨ start + d + nsamps > (N : Int))) = true
  · simp only [if_pos (hg.mpr hany), if_pos hany, errName]
  · simp only [if_neg (fun h => hany (hg.mp h)), if_neg hany]
    have hmlen : (Rdb.addSV start delays).length = stream.length := by
      unfold Rdb.addSV; rw [List.length_map, hd]
    have hbounds : ∀ m ∈ Rdb.addSV start delays, 0 ≤ m ∧ m + nsamps ≤ (N : Int) := by
      intro m hm
      unfold Rdb.addSV at hm
      rw [List.mem_map] at hm
      obtain ⟨d, hdm, rfl⟩ := hm
      simp only [List.any_eq_true, decide_eq_true_eq, not_exists, not_and, not_or] at hany
      have := hany d hdm
      omega
    have hlo : ∀ m ∈ Rdb.addSV start delays, 0 ≤ m := fun m hm => (hbounds m hm).1
    have hhi : ∀ m ∈ Rdb.addSV start delays, m + nsamps ≤ (N : Int) := fun m hm => (hbounds m hm).2
    have hne : Rdb.addSV start delays ≠ [] := by
      intro h
      rw [h, List.length_nil] at hmlen
      exact hC (List.length_eq_zero_iff.mp hmlen.symm)
    have hfirst0 : 0 ≤ Rdb.minI (Rdb.addSV start delays) := Rdb.le_minI _ 0 hne hlo
    have hfirst : ∀ m ∈ Rdb.addSV start delays, Rdb.minI (Rdb.addSV start delays) ≤ m := Rdb.minI_le _
    have hlast : ∀ m ∈ Rdb.addSV start delays,
        m + nsamps ≤ Rdb.maxI (Rdb.addVS (Rdb.addSV start delays) nsamps) := by
      intro m hm
      apply Rdb.le_maxI
      unfold Rdb.addVS
      exact List.mem_map.mpr ⟨m, hm, rfl⟩
    have hle : Rdb.minI (Rdb.addSV start delays) ≤ Rdb.maxI (Rdb.addVS (Rdb.addSV start delays) nsamps) := by
      obtain ⟨m, hm⟩ := List.exists_mem_of_ne_nil _ hne
      have h1 := hfirst m hm
      have h2 := hlast m hm
      omega
    unfold Rdb.forRangeI
    rw [Rdb.zeros_eq_blockAt (sampleOf stream) stream.length nsamps.toNat (Rdb.addSV start delays)
      (Rdb.minI (Rdb.addSV start delays)) hfirst hmlen]
    rw [Rdb.loop_invariant (sampleOf stream) stream.length nsamps.toNat (Rdb.addSV start delays) nsamps
      (Rdb.minI (Rdb.addSV start delays)) hmlen rfl hn hlo]
    have hk : Rdb.minI (Rdb.addSV start delays) +
        (((Rdb.maxI (Rdb.addVS (Rdb.addSV start delays) nsamps) - Rdb.minI (Rdb.addSV start delays)).toNat : Nat) : Int)
        = Rdb.maxI (Rdb.addVS (Rdb.addSV start delays) nsamps) := by omega
    rw [hk]
    have hfin := Rdb.blockAt_final stream N nsamps.toNat (Rdb.addSV start delays) nsamps
      (Rdb.maxI (Rdb.addVS (Rdb.addSV start delays) nsamps)) hmlen rfl hn hrows hlo hhi hlast
    unfold sampleOf
    simp only [hfin]
    congr 1
    apply List.map_congr_left
    intro c hc
    rw [List.mem_range] at hc
    have : (Rdb.addSV start delays).getD c 0 = start + delays.getD c 0 := by
      unfold Rdb.addSV
      simp only [List.getD_eq_getElem?_getD, List.getElem?_map, List.getElem?_eq_getElem (hd ▸ hc),
        Option.map_some, Option.getD_some]
    rw [this]

end SppModel.Tie.DedispBlock

import SppModel.Generated.StateMachines
import SppModel.Model.Rfi
import SppModel.Model.FoldedCube
import SppModel.Lemmas.FoldedCube
import SppModel.Props.C17
import SppModel.Lemmas.StateMachines
/-!
# Source tie — `RFIMask` (C16) and `FoldedData` (C17) as translated are the hand models

`Generated/StateMachines.lean` is re-translated from `core/rfi.py` and `foldedcube.py` on every run, statement by
statement (NumPy vectors as lists, external numerics — outlier detection, the dispersion law — as function
parameters of the environment, applied to exactly the arguments that vary).  These theorems say that the
translated methods are the operations of the hand models (`Model/Rfi.lean`, `Model/FoldedCube.lean`) the
C16 / C17 theorems are about, and restate the headline C17 property directly for the translated code:
after ANY history of `update_dm` / `update_period` the cube depends only on the last DM and the last period.
-/
namespace SppModel.Tie
open SppModel SppModel.Generated.StateMachines

theorem rfimask_translated : ∀ f ∈ translationFailures,
    f.1 ∉ ["sm_RFIMask_source", "sm_RFIMask_apply_mask", "sm_RFIMask_apply_method", "sm_RFIMask_apply_funcn"] := by decide

theorem foldeddata_translated : ∀ f ∈ translationFailures,
    f.1 ∉ ["sm_FoldedData_source", "sm_FoldedData__get_dmdelays", "sm_FoldedData__get_pdelays",
           "sm_FoldedData_update_dm", "sm_FoldedData_update_period"] := by decide

/-! ## C16 — `RFIMask` -/

def rfiSt (s : RFIMaskSt) : Rfi.St := ⟨s.chan_mask, s.user_mask, s.stats_mask, s.custom_mask⟩

/-- `apply_mask` is `Rfi.applyMask`: the user mask is REPLACED by the channels inside the given closed ranges and
    OR-ed into the channel mask -/
theorem apply_mask_is_model (env : RFIMaskEnv) (self : RFIMaskSt) (fm : List (Rat × Rat))
    (hf : env.chan_freqs.length = env.nchans) (hc : self.chan_mask.length = env.nchans) :
    rfiSt (RFIMask.apply_mask env self fm).2 = Rfi.applyMask (rfiSt self) env.chan_freqs fm := by
  rw [SMLemmas.applyMask_vec (rfiSt self) env.chan_freqs fm (by simp only [rfiSt]; rw [hf, hc])]
  simp only [RFIMask.apply_mask, rfiSt, SMLemmas.foldl_lor_userMask _ _ _ hf]

/-- `apply_method` with a supported method is `Rfi.applyMethod` on the three outlier masks of that method -/
theorem apply_method_is_model (env : RFIMaskEnv) (self : RFIMaskSt) (method : String)
    (f : List Rat → Rat → List Bool)
    (hm : (method = "mad" ∧ f = env.double_mad_mask) ∨ (method = "iqrm" ∧ f = env.iqrm_mask))
    (hv : (f env.chan_var env.threshold).length = self.chan_mask.length)
    (hs : (f env.chan_skew env.threshold).length = self.chan_mask.length)
    (hk : (f env.chan_kurt env.threshold).length = self.chan_mask.length) :
    ∃ s', RFIMask.apply_method env self method = .ok ((), s') ∧
      rfiSt s' = Rfi.applyMethod (rfiSt self) (f env.chan_var env.threshold) (f env.chan_skew env.threshold)
        (f env.chan_kurt env.threshold) := by
  rw [SMLemmas.applyMethod_vec (rfiSt self) _ _ _ hv hs hk]
  rcases hm with ⟨rfl, rfl⟩ | ⟨rfl, rfl⟩
  · exact ⟨_, rfl, rfl⟩
  · exact ⟨_, rfl, rfl⟩

/-- any other method name is rejected (and, being a pure function, leaves the mask untouched) -/
theorem apply_method_rejects (env : RFIMaskEnv) (self : RFIMaskSt) (method : String)
    (h1 : method ≠ "mad") (h2 : method ≠ "iqrm") :
    RFIMask.apply_method env self method = .error "ValueError" := by
  simp only [RFIMask.apply_method, if_neg h1, if_neg h2]

/-- `apply_funcn` is `Rfi.applyFuncn` -/
theorem apply_funcn_is_model (env : RFIMaskEnv) (self : RFIMaskSt) (f : List Bool → List Bool)
    (hl : (f self.chan_mask).length = self.chan_mask.length) :
    rfiSt (RFIMask.apply_funcn env self f).2 = Rfi.applyFuncn (rfiSt self) f := by
  rw [SMLemmas.applyFuncn_vec (rfiSt self) f hl]
  rfl

/-! ## C17 — `FoldedData` -/

def cubeSt (s : FoldedDataSt) : FoldedCube.St := ⟨s._data, s._fph_shifts, s._tph_shifts⟩

/-- the per-sub-band drift the source uses for target `dm`: zero at the FOLDING dm, otherwise the external
    dispersion law evaluated at `dm - fold_dm` (never at the current dm) -/
def dmDrift (env : FoldedDataEnv) (dm : Rat) : List Int :=
  if dm - env.fold_dm = 0 then List.replicate env.nsubbands 0 else env.dm_drifts (dm - env.fold_dm)

def pDbins (env : FoldedDataEnv) (p : Rat) : Rat :=
  (p / env.fold_period - 1) * env.tobs * ((env.nbins : Nat) : Rat) / env.fold_period

/-- the per-sub-integration drift the source uses for target period `p` (relative to the FOLDING period) -/
def pDrift (env : FoldedDataEnv) (p : Rat) : List Int :=
  if pDbins env p = 0 then List.replicate env.nsubints 0
  else Vec.roundI (Vec.divS (Vec.arangeQ env.nsubints) (((env.nsubints : Nat) : Rat) / pDbins env p))

/-- well-formed environment / state: every drift vector has one entry per sub-band, shapes agree -/
structure CubeOk (env : FoldedDataEnv) (s : FoldedDataSt) : Prop where
  drifts : ∀ δ, (env.dm_drifts δ).length = env.nsubbands
  fph : s._fph_shifts.length = env.nsubbands
  tph : s._tph_shifts.length = env.nsubints
  shaped : FoldedCube.Shaped s._data env.nsubints env.nsubbands

/-- the branch of `update_dm` taken at the folding DM, as one state -/
theorem update_dm_at_fold (env : FoldedDataEnv) (self : FoldedDataSt) (dm : Rat) (h : dm - env.fold_dm = 0) :
    (FoldedData.update_dm env self dm).2 =
      ⟨Vec.mapCube env.nsubints env.nsubbands self._data
          (fun _ b p => Vec.roll p (-((Vec.negI self._fph_shifts).getD b 0))),
        dm, self._period, Vec.zerosLikeI self._fph_shifts, self._tph_shifts⟩ := by
  simp only [FoldedData.update_dm, FoldedData._get_dmdelays, Nat.cast_zero, if_pos h]

/-- the branch of `update_dm` taken away from the folding DM, as one state -/
theorem update_dm_off_fold (env : FoldedDataEnv) (self : FoldedDataSt) (dm : Rat) (h : ¬ dm - env.fold_dm = 0) :
    (FoldedData.update_dm env self dm).2 =
      ⟨Vec.mapCube env.nsubints env.nsubbands self._data
          (fun _ b p => Vec.roll p (-((Vec.subI (env.dm_drifts (dm - env.fold_dm)) self._fph_shifts).getD b 0))),
        dm, self._period, env.dm_drifts (dm - env.fold_dm), self._tph_shifts⟩ := by
  simp only [FoldedData.update_dm, FoldedData._get_dmdelays, Nat.cast_zero, if_neg h]

theorem pdbins_eq (env : FoldedDataEnv) (p : Rat) :
    (((((p / env.fold_period) - ((1 : Nat) : Rat)) * env.tobs) * ((env.nbins : Nat) : Rat)) / env.fold_period)
      = pDbins env p := by
  simp only [pDbins, Nat.cast_one]

theorem update_period_at_fold (env : FoldedDataEnv) (self : FoldedDataSt) (p : Rat) (h : pDbins env p = 0) :
    (FoldedData.update_period env self p).2 =
      ⟨Vec.mapCube env.nsubints env.nsubbands self._data
          (fun i _ q => Vec.roll q (-((Vec.negI self._tph_shifts).getD i 0))),
        self._dm, p, self._fph_shifts, Vec.zerosLikeI self._tph_shifts⟩ := by
  simp only [FoldedData.update_period, FoldedData._get_pdelays, pdbins_eq, Nat.cast_zero, if_pos h]

theorem update_period_off_fold (env : FoldedDataEnv) (self : FoldedDataSt) (p : Rat) (h : ¬ pDbins env p = 0) :
    (FoldedData.update_period env self p).2 =
      ⟨Vec.mapCube env.nsubints env.nsubbands self._data
          (fun i _ q => Vec.roll q (-((Vec.subI (pDrift env p) self._tph_shifts).getD i 0))),
        self._dm, p, self._fph_shifts, pDrift env p⟩ := by
  simp only [FoldedData.update_period, FoldedData._get_pdelays, pdbins_eq, Nat.cast_zero, if_neg h, pDrift]

theorem pDrift_length (env : FoldedDataEnv) (p : Rat) : (pDrift env p).length = env.nsubints := by
  unfold pDrift
  split <;> simp [Vec.roundI, Vec.divS, Vec.arangeQ]

theorem update_dm_is_model (env : FoldedDataEnv) (self : FoldedDataSt) (dm : Rat) (ok : CubeOk env self) :
    cubeSt (FoldedData.update_dm env self dm).2 = FoldedCube.updateDm (cubeSt self) (dmDrift env dm)
    ∧ (FoldedData.update_dm env self dm).2._dm = dm
    ∧ (FoldedData.update_dm env self dm).2._period = self._period
    ∧ CubeOk env (FoldedData.update_dm env self dm).2 := by
  obtain ⟨hdr, hf, ht, hs⟩ := ok
  have hs' : FoldedCube.Shaped (cubeSt self).data env.nsubints env.nsubbands := hs
  have hf' : (cubeSt self).fph.length = env.nsubbands := hf
  by_cases h : dm - env.fold_dm = 0
  · rw [update_dm_at_fold env self dm h]
    refine ⟨?_, rfl, rfl, ⟨hdr, ?_, ht, by dsimp only; exact SMLemmas.mapCube_shaped_preserved hs _⟩⟩
    · simp only [dmDrift, if_pos h]
      rw [SMLemmas.updateDm_zero_vec hs' hf']
      rfl
    · show (Vec.zerosLikeI self._fph_shifts).length = env.nsubbands
      rw [SMLemmas.zerosLikeI_eq, List.length_replicate, hf]
  · rw [update_dm_off_fold env self dm h]
    refine ⟨?_, rfl, rfl, ⟨hdr, hdr _, ht, by dsimp only; exact SMLemmas.mapCube_shaped_preserved hs _⟩⟩
    simp only [dmDrift, if_neg h]
    rw [SMLemmas.updateDm_vec hs' hf' _ (hdr _)]
    rfl

theorem update_period_is_model (env : FoldedDataEnv) (self : FoldedDataSt) (p : Rat) (ok : CubeOk env self) :
    cubeSt (FoldedData.update_period env self p).2 = FoldedCube.updatePeriod (cubeSt self) (pDrift env p)
    ∧ (FoldedData.update_period env self p).2._period = p
    ∧ (FoldedData.update_period env self p).2._dm = self._dm
    ∧ CubeOk env (FoldedData.update_period env self p).2 := by
  obtain ⟨hdr, hf, ht, hs⟩ := ok
  have hs' : FoldedCube.Shaped (cubeSt self).data env.nsubints env.nsubbands := hs
  have ht' : (cubeSt self).tph.length = env.nsubints := ht
  by_cases h : pDbins env p = 0
  · rw [update_period_at_fold env self p h]
    refine ⟨?_, rfl, rfl, ⟨hdr, hf, ?_, by dsimp only; exact SMLemmas.mapCube_shaped_preserved hs _⟩⟩
    · have e : pDrift env p = List.replicate env.nsubints 0 := by simp only [pDrift, if_pos h]
      rw [e, SMLemmas.updatePeriod_zero_vec hs' ht']
      rfl
    · show (Vec.zerosLikeI self._tph_shifts).length = env.nsubints
      rw [SMLemmas.zerosLikeI_eq, List.length_replicate, ht]
  · rw [update_period_off_fold env self p h]
    refine ⟨?_, rfl, rfl, ⟨hdr, hf, pDrift_length env p, by dsimp only; exact SMLemmas.mapCube_shaped_preserved hs _⟩⟩
    rw [SMLemmas.updatePeriod_vec hs' ht' _ (pDrift_length env p)]
    rfl

/-- a re-tuning request -/
inductive Retune where
  | dm (v : Rat)
  | period (v : Rat)

/-- the translated methods run over a history -/
def runGen (env : FoldedDataEnv) (s : FoldedDataSt) (ops : List Retune) : FoldedDataSt :=
  ops.foldl (fun s op => match op with
    | .dm v => (FoldedData.update_dm env s v).2
    | .period v => (FoldedData.update_period env s v).2) s

/-- last requested DM / period of a history (the folding values if none) -/
def lastDmTarget (env : FoldedDataEnv) (ops : List Retune) : Rat :=
  ops.foldl (fun acc op => match op with | .dm v => v | .period _ => acc) env.fold_dm
def lastPeriodTarget (env : FoldedDataEnv) (ops : List Retune) : Rat :=
  ops.foldl (fun acc op => match op with | .dm _ => acc | .period v => v) env.fold_period

/-- a freshly folded cube: no shifts applied yet -/
def fresh (env : FoldedDataEnv) (data : List (List (List Int))) : FoldedDataSt :=
  ⟨data, env.fold_dm, env.fold_period, List.replicate env.nsubbands 0, List.replicate env.nsubints 0⟩

/-! ### histories: the translated run is the model run on the drifts of the requested targets -/

/-- the model operation a re-tuning request amounts to -/
def toOp (env : FoldedDataEnv) : Retune → FoldedCube.Op
  | .dm v => .dm (dmDrift env v)
  | .period v => .period (pDrift env v)

theorem runGen_cons (env : FoldedDataEnv) (s : FoldedDataSt) (op : Retune) (ops : List Retune) :
    runGen env s (op :: ops) = runGen env (runGen env s [op]) ops := rfl

theorem runGen_model (env : FoldedDataEnv) (s : FoldedDataSt) (ops : List Retune) (ok : CubeOk env s) :
    cubeSt (runGen env s ops) = FoldedCube.run (cubeSt s) (ops.map (toOp env)) ∧ CubeOk env (runGen env s ops) := by
  induction ops generalizing s with
  | nil => exact ⟨rfl, ok⟩
  | cons op ops ih =>
    rw [runGen_cons]
    cases op with
    | dm v =>
      obtain ⟨e, _, _, ok'⟩ := update_dm_is_model env s v ok
      obtain ⟨e', ok''⟩ := ih (FoldedData.update_dm env s v).2 ok'
      refine ⟨?_, ok''⟩
      show cubeSt (runGen env (FoldedData.update_dm env s v).2 ops) = _
      rw [e', e]
      rfl
    | period v =>
      obtain ⟨e, _, _, ok'⟩ := update_period_is_model env s v ok
      obtain ⟨e', ok''⟩ := ih (FoldedData.update_period env s v).2 ok'
      refine ⟨?_, ok''⟩
      show cubeSt (runGen env (FoldedData.update_period env s v).2 ops) = _
      rw [e', e]
      rfl

theorem dmDrift_fold (env : FoldedDataEnv) : dmDrift env env.fold_dm = List.replicate env.nsubbands 0 := by
  simp only [dmDrift, sub_self, if_true]

theorem pDbins_fold (env : FoldedDataEnv) : pDbins env env.fold_period = 0 := by
  by_cases h : env.fold_period = 0
  · simp [pDbins, h]
  · simp [pDbins, div_self h]

theorem pDrift_fold (env : FoldedDataEnv) : pDrift env env.fold_period = List.replicate env.nsubints 0 := by
  simp only [pDrift, pDbins_fold, if_true]

/-- the last DM drift of the model history is the drift of the last requested DM -/
theorem lastDm_toOp (env : FoldedDataEnv) (ops : List Retune) :
    FoldedCube.lastDm env.nsubbands (ops.map (toOp env))
      = FoldedCube.norm env.nsubbands (dmDrift env (lastDmTarget env ops)) := by
  have gen : ∀ (ops : List Retune) (v : Rat),
      (ops.map (toOp env)).foldl (fun acc op => match op with
          | .dm d => FoldedCube.norm env.nsubbands d
          | .period _ => acc) (FoldedCube.norm env.nsubbands (dmDrift env v))
        = FoldedCube.norm env.nsubbands (dmDrift env
            (ops.foldl (fun acc op => match op with | .dm v => v | .period _ => acc) v)) := by
    intro ops
    induction ops with
    | nil => intro v; rfl
    | cons op ops ih =>
      intro v
      cases op with
      | dm w => exact ih w
      | period w => exact ih v
  have h0 : List.replicate env.nsubbands (0 : Int)
      = FoldedCube.norm env.nsubbands (dmDrift env env.fold_dm) := by
    rw [dmDrift_fold, SMLemmas.norm_replicate_zero]
  unfold FoldedCube.lastDm lastDmTarget
  rw [h0]
  exact gen ops env.fold_dm

theorem lastPeriod_toOp (env : FoldedDataEnv) (ops : List Retune) :
    FoldedCube.lastPeriod env.nsubints (ops.map (toOp env))
      = FoldedCube.norm env.nsubints (pDrift env (lastPeriodTarget env ops)) := by
  have gen : ∀ (ops : List Retune) (v : Rat),
      (ops.map (toOp env)).foldl (fun acc op => match op with
          | .dm _ => acc
          | .period d => FoldedCube.norm env.nsubints d) (FoldedCube.norm env.nsubints (pDrift env v))
        = FoldedCube.norm env.nsubints (pDrift env
            (ops.foldl (fun acc op => match op with | .dm _ => acc | .period v => v) v)) := by
    intro ops
    induction ops with
    | nil => intro v; rfl
    | cons op ops ih =>
      intro v
      cases op with
      | dm w => exact ih v
      | period w => exact ih w
  have h0 : List.replicate env.nsubints (0 : Int)
      = FoldedCube.norm env.nsubints (pDrift env env.fold_period) := by
    rw [pDrift_fold, SMLemmas.norm_replicate_zero]
  unfold FoldedCube.lastPeriod lastPeriodTarget
  rw [h0]
  exact gen ops env.fold_period

theorem fresh_ok (env : FoldedDataEnv) (data : List (List (List Int)))
    (hd : ∀ δ, (env.dm_drifts δ).length = env.nsubbands)
    (hs : FoldedCube.Shaped data env.nsubints env.nsubbands) : CubeOk env (fresh env data) :=
  ⟨hd, List.length_replicate, List.length_replicate, hs⟩

/-- the cube of the translated run is the cube of the model run -/
theorem runGen_data (env : FoldedDataEnv) (data : List (List (List Int)))
    (hd : ∀ δ, (env.dm_drifts δ).length = env.nsubbands)
    (hs : FoldedCube.Shaped data env.nsubints env.nsubbands) (ops : List Retune) :
    (runGen env (fresh env data) ops)._data
      = (FoldedCube.run (cubeSt (fresh env data)) (ops.map (toOp env))).data :=
  congrArg FoldedCube.St.data (runGen_model env _ ops (fresh_ok env data hd hs)).1

theorem cubeSt_fresh_init (env : FoldedDataEnv) (data : List (List (List Int)))
    (hs : FoldedCube.Shaped data env.nsubints env.nsubbands) (hpos : 0 < env.nsubints) :
    cubeSt (fresh env data) = FoldedCube.init data :=
  SMLemmas.fresh_eq_init hs hpos

theorem data_nil_of_no_subints (env : FoldedDataEnv) (data : List (List (List Int)))
    (hs : FoldedCube.Shaped data env.nsubints env.nsubbands) (h0 : env.nsubints = 0) : data = [] :=
  List.eq_nil_of_length_eq_zero (by rw [hs.1, h0])

/-- **C17 for the translated source**: two histories that end at the same DM and the same period leave the same
    cube, whatever happened in between -/
theorem generated_history_irrelevant (env : FoldedDataEnv) (data : List (List (List Int)))
    (hd : ∀ δ, (env.dm_drifts δ).length = env.nsubbands)
    (hs : FoldedCube.Shaped data env.nsubints env.nsubbands) (ops₁ ops₂ : List Retune)
    (h1 : lastDmTarget env ops₁ = lastDmTarget env ops₂)
    (h2 : lastPeriodTarget env ops₁ = lastPeriodTarget env ops₂) :
    (runGen env (fresh env data) ops₁)._data = (runGen env (fresh env data) ops₂)._data := by
  rw [runGen_data env data hd hs, runGen_data env data hd hs]
  rcases Nat.eq_zero_or_pos env.nsubints with h0 | hpos
  · have hnil : (cubeSt (fresh env data)).data = [] := data_nil_of_no_subints env data hs h0
    rw [SMLemmas.run_data_nil _ hnil, SMLemmas.run_data_nil _ hnil]
  · rw [cubeSt_fresh_init env data hs hpos]
    apply FoldedCube.history_irrelevant data env.nsubints env.nsubbands hs
    · rw [lastDm_toOp, lastDm_toOp, h1]
    · rw [lastPeriod_toOp, lastPeriod_toOp, h2]

/-- returning to the folding values restores the original cube, bit for bit -/
theorem generated_return_restores (env : FoldedDataEnv) (data : List (List (List Int)))
    (hd : ∀ δ, (env.dm_drifts δ).length = env.nsubbands)
    (hs : FoldedCube.Shaped data env.nsubints env.nsubbands) (ops : List Retune)
    (h1 : lastDmTarget env ops = env.fold_dm) (h2 : lastPeriodTarget env ops = env.fold_period)
    (hp0 : env.fold_period ≠ 0) :
    (runGen env (fresh env data) ops)._data = data := by
  have _ := hp0  -- not needed: `pDbins env env.fold_period = 0` also when `fold_period = 0` (`x / 0 = 0`)
  rw [runGen_data env data hd hs]
  rcases Nat.eq_zero_or_pos env.nsubints with h0 | hpos
  · have hnil : (cubeSt (fresh env data)).data = [] := data_nil_of_no_subints env data hs h0
    rw [SMLemmas.run_data_nil _ hnil, data_nil_of_no_subints env data hs h0]
  · rw [cubeSt_fresh_init env data hs hpos]
    apply FoldedCube.return_restores data env.nsubints env.nsubbands hs
    · rw [lastDm_toOp, h1, dmDrift_fold, SMLemmas.norm_replicate_zero]
    · rw [lastPeriod_toOp, h2, pDrift_fold, SMLemmas.norm_replicate_zero]

theorem update_dm_fields (env : FoldedDataEnv) (s : FoldedDataSt) (v : Rat) :
    (FoldedData.update_dm env s v).2._dm = v ∧ (FoldedData.update_dm env s v).2._period = s._period := by
  by_cases h : v - env.fold_dm = 0
  · rw [update_dm_at_fold env s v h]; exact ⟨rfl, rfl⟩
  · rw [update_dm_off_fold env s v h]; exact ⟨rfl, rfl⟩

theorem update_period_fields (env : FoldedDataEnv) (s : FoldedDataSt) (v : Rat) :
    (FoldedData.update_period env s v).2._period = v ∧ (FoldedData.update_period env s v).2._dm = s._dm := by
  by_cases h : pDbins env v = 0
  · rw [update_period_at_fold env s v h]; exact ⟨rfl, rfl⟩
  · rw [update_period_off_fold env s v h]; exact ⟨rfl, rfl⟩

theorem runGen_fields (env : FoldedDataEnv) (s : FoldedDataSt) (ops : List Retune) :
    (runGen env s ops)._dm = ops.foldl (fun acc op => match op with | .dm v => v | .period _ => acc) s._dm ∧
    (runGen env s ops)._period
      = ops.foldl (fun acc op => match op with | .dm _ => acc | .period v => v) s._period := by
  induction ops generalizing s with
  | nil => exact ⟨rfl, rfl⟩
  | cons op ops ih =>
    rw [runGen_cons]
    cases op with
    | dm v =>
      obtain ⟨a, b⟩ := update_dm_fields env s v
      obtain ⟨c, d⟩ := ih (runGen env s [Retune.dm v])
      rw [c, d, show (runGen env s [Retune.dm v])._dm = v from a,
        show (runGen env s [Retune.dm v])._period = s._period from b]
      exact ⟨rfl, rfl⟩
    | period v =>
      obtain ⟨a, b⟩ := update_period_fields env s v
      obtain ⟨c, d⟩ := ih (runGen env s [Retune.period v])
      rw [c, d, show (runGen env s [Retune.period v])._period = v from a,
        show (runGen env s [Retune.period v])._dm = s._dm from b]
      exact ⟨rfl, rfl⟩

/-- the reported DM and period are the last requested ones -/
theorem generated_reports_targets (env : FoldedDataEnv) (data : List (List (List Int))) (ops : List Retune) :
    (runGen env (fresh env data) ops)._dm = lastDmTarget env ops ∧
    (runGen env (fresh env data) ops)._period = lastPeriodTarget env ops :=
  runGen_fields env (fresh env data) ops

end SppModel.Tie

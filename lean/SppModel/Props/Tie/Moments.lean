import SppModel.Model.Moments
import SppModel.Generated.MomentKernels
import SppModel.Frozen.MomentKernels
import Mathlib.Tactic.Ring
import Mathlib.Tactic.FieldSimp
/-!
# Source tie — the online-moment recurrences (C10)
-/
namespace SppModel.Moments

theorem moments_translated : Generated.MomentKernels.translationFailures = [] := by decide

/-! ## Source tie: the recurrences the theorems above are about are the ones in `kernels.py`

`Generated/MomentKernels.lean` is re-translated from `update_moments`, `update_moments_basic` and
`add_online_moments` on every run (statement by statement, floats read as exact rationals).  The
theorems below prove that the hand model `update` / `updateBasic` / `merge` computes exactly those
expressions, so an edit of a coefficient, a sign or an operand in the source breaks one of them. -/

open Frozen.MomentKernels in
theorem update_is_source (s : Mom) (x : ℚ) :
    update_moments x s.m1 s.m2 s.m3 s.m4 s.n
      = ((update s x).m1, (update s x).m2, (update s x).m3, (update s x).m4, (update s x).n) := by
  simp only [update_moments, update]
  try (refine Prod.ext ?_ (Prod.ext ?_ (Prod.ext ?_ (Prod.ext ?_ ?_))) <;> (try simp) <;> (try ring))

open Frozen.MomentKernels in
theorem updateBasic_is_source (s : Mom) (x : ℚ) :
    update_moments_basic x s.m1 s.m2 s.n
      = ((updateBasic s x).m1, (updateBasic s x).m2, (updateBasic s x).n) := by
  simp only [update_moments_basic, updateBasic]
  try (refine Prod.ext ?_ (Prod.ext ?_ ?_) <;> (try simp) <;> (try ring))

open Frozen.MomentKernels in
theorem merge_is_source (a b : Mom) (amn amx bmn bmx : ℚ) :
    add_online_moments a.n b.n a.m1 a.m2 a.m3 a.m4 amn amx b.m1 b.m2 b.m3 b.m4 bmn bmx
      = ((merge a b).n, (merge a b).m1, (merge a b).m2, (merge a b).m3, (merge a b).m4, min amn bmn, max amx bmx) := by
  simp only [add_online_moments, merge]
  try (refine Prod.ext ?_ (Prod.ext ?_ (Prod.ext ?_ (Prod.ext ?_ (Prod.ext ?_ (Prod.ext ?_ ?_))))) <;> (try simp) <;> (try ring))

/-- the per-channel loop of both kernels: one scalar update per sample, in sample order, sample `isamp`
    of channel `ichan` at `isamp * nchans + ichan` (the shape `push` = `foldl update` models) -/
theorem kernel_loop_shape :
    Frozen.MomentKernels.compute_online_moments_shape = ("update_moments", "isamp * nchans + ichan") ∧
    Frozen.MomentKernels.compute_online_moments_basic_shape = ("update_moments_basic", "isamp * nchans + ichan") := by
  decide +kernel


end SppModel.Moments

import SppModel.Generated.SigprocCodec
import SppModel.Frozen.SigprocCodec
import SppModel.Model.SigprocHeader
import SppModel.Model.Samples
import SppModel.Lemmas.SigprocCodec
/-!
# Source tie — the SIGPROC header codec (C04, C05, C20)

`Generated/SigprocCodec.lean` is re-translated from `io/sigproc.py` (`_read_string`, `encode_key`,
`encode_header`, `parse_header`, `edit_header`, the numeric part of `parse_radec`) and `header.py` (frame flags,
id defaults) on every run; the bridge obligations prove it equal to `Frozen.SigprocCodec`, the reference these
theorems are written against.  The theorems state that the translated source IS the hand model
(`Model/SigprocHeader.lean`) the C05 theorems (`parse_encode`, `encode_parse`, `edit_exact`, …) are about.

Scope: well-formed input.  On malformed input the source is more lenient than the hand model in one corner —
`fp.read(n)` returns a short string at the end of the file without raising, so a header whose last length field
overstates the bytes that follow can still parse; the property is about well-formed headers only.
-/
namespace SppModel.Tie.SigprocCodec
open SppModel SppModel.CodecPrims SppModel.Frozen.SigprocCodec

theorem codec_translated : ∀ f ∈ Generated.SigprocCodec.translationFailures,
    f.1 ∉ ["codec_source", "codec__read_string", "codec_encode_key", "codec_encode_header", "codec_parse_header",
           "codec_edit_header", "codec_parse_radec", "codec_flags_of_frame", "codec_frame_of_flags",
           "codec_id_defaults", "codec_id_of_name", "SigprocCodec_does_not_elaborate", "SigprocCodec_crash"] := by decide

/-! ## correspondence of values -/

def fmtName : Sigproc.Fmt → String
  | .I => "I" | .d => "d" | .b => "b" | .str => "str"

/-- a model value as the Python value `struct.unpack` / `_read_string` delivers -/
def valOf : Sigproc.Val → PyVal
  | .u32 n => .int n
  | .f64 bs => .dbl bs
  | .i8 b => .int (if b < 128 then (b : Int) else (b : Int) - 256)
  | .str s => .str s

def dictOf (kvs : List (Sigproc.Bytes × Sigproc.Val)) : Dict := kvs.map (fun kv => (kv.1, valOf kv.2))

/-- values as they occur in files: 32-bit counts, 8-byte doubles, one-byte signed flags, strings shorter than 4 GiB -/
def WFv (v : Sigproc.Val) : Prop := v.WF ∧ (∀ b, v = .i8 b → b < 256)

/-- an entry whose key is shorter than 4 GiB and whose value has the format the key table assigns (or whose key is
not in the table: such entries are skipped by both encoders) -/
def Typed (kv : Sigproc.Bytes × Sigproc.Val) : Prop :=
  kv.1.length < 2 ^ 32 ∧ WFv kv.2 ∧ (Sigproc.keyFmt kv.1 = some kv.2.fmt ∨ Sigproc.keyFmt kv.1 = none)

/-! ## the key table -/

theorem keyFmt_is_model (k : Bytes) :
    CodecPrims.keyFmt k = (match Sigproc.keyFmt k with
                           | some f => .ok (fmtName f)
                           | none => .error "KeyError") := by
  exact CodecLemmas.keyFmt_is_model k

theorem isKey_is_model (k : Bytes) : CodecPrims.isKey k = (Sigproc.keyFmt k).isSome := by
  exact CodecLemmas.isKey_is_model k

/-! ## encoding -/

theorem le32_is_leBytes (n : Nat) : leBytes 4 n = Sigproc.le32 n := by
  exact CodecLemmas.le32_is_leBytes n

theorem encode_key_none (k : Bytes) (fmt : String) (hk : k.length < 2 ^ 32) :
    encode_key k none fmt = .ok (Sigproc.encStr k) := by
  exact CodecLemmas.encode_key_none k fmt hk

theorem encode_key_is_model (k : Bytes) (v : Sigproc.Val) (hk : k.length < 2 ^ 32) (hv : WFv v) :
    encode_key k (some (valOf v)) (fmtName v.fmt) = .ok (Sigproc.encodeKey k v) := by
  exact CodecLemmas.encode_key_is_model k v hk (CodecLemmas.WFe_of_WFv hv)

/-- `encode_header` of the translated source produces the bytes of the model's `encodeHeader` -/
theorem encode_header_is_model (kvs : List (Sigproc.Bytes × Sigproc.Val)) (h : ∀ kv ∈ kvs, Typed kv) :
    encode_header (dictOf kvs) = .ok (Sigproc.encodeHeader kvs) := by
  have hT : ∀ kv ∈ kvs, CodecLemmas.TypedE kv := fun kv hkv => CodecLemmas.TypedE_of_Typed (h kv hkv)
  show encode_header (CodecLemmas.dictOf kvs) = _
  rw [CodecLemmas.encode_header_encDict, CodecLemmas.encDict_dictOf kvs hT, CodecLemmas.bindE_ok]
  rfl

/-! ## parsing -/

/-- `_read_string` at position `fp.pos` is the model's `rdStr` on the rest of the file -/
theorem read_string_is_model (fp : Fp) (s rest : Bytes)
    (h : Sigproc.rdStr (fp.data.drop fp.pos) = some (s, rest)) :
    _read_string fp = .ok (s, ⟨fp.data, fp.pos + 4 + s.length⟩) ∧ rest = fp.data.drop (fp.pos + 4 + s.length) := by
  obtain ⟨h1, h2, _⟩ := CodecLemmas.read_string_at fp _ s rest rfl h
  exact ⟨h1, h2.symm⟩

def NBITS : Bytes := ascii "nbits"
def NCHANS : Bytes := ascii "nchans"

/-- the keys `parse_header` adds to the dict after the key/value loop -/
def derived (fileLen n nbits nchans : Nat) : Dict :=
  [(ascii "hdrlen", .int n), (ascii "filelen", .int fileLen), (ascii "datalen", .int ((fileLen : Int) - n)),
   (ascii "nsamples", .int (((8 * (fileLen - n) / nbits / nchans : Nat) : Int)))]

/-- On every file the model parses (no repeated key, `nbits` and `nchans` present and non-zero) the translated
`parse_header` succeeds and returns exactly the model's entries, in file order, followed by the derived keys;
`hdrlen` is the model's header length and `nsamples` the count `Samples.inferNsamples` infers. -/
theorem parse_header_is_model (file : Bytes) (kvs : List (Sigproc.Bytes × Sigproc.Val)) (n nbits nchans : Nat)
    (h : Sigproc.parseHeader file = .ok (kvs, n))
    (hnd : (kvs.map (·.1)).Nodup)
    (hb : (NBITS, Sigproc.Val.u32 nbits) ∈ kvs) (hc : (NCHANS, Sigproc.Val.u32 nchans) ∈ kvs)
    (hb0 : nbits ≠ 0) (hc0 : nchans ≠ 0) :
    parse_header file = .ok (dictOf kvs ++ derived file.length n nbits nchans) := by
  exact CodecLemmas.parse_header_is_model file kvs n nbits nchans h hnd hb hc hb0 hc0

/-- the model never parses more than the file -/
theorem parseHeader_le (file : Bytes) (kvs : List (Sigproc.Bytes × Sigproc.Val)) (n : Nat)
    (h : Sigproc.parseHeader file = .ok (kvs, n)) : n ≤ file.length := by
  exact Sigproc.parseHeader_len_le h

/-- a wrong magic string is `OSError` in the source, as in the model -/
theorem parse_header_bad_magic (file s rest : Bytes) (h : Sigproc.rdStr file = some (s, rest))
    (hs : s ≠ Sigproc.HEADER_START) : parse_header file = .error "OSError" := by
  exact CodecLemmas.parse_header_bad_magic file s rest h hs

/-- an empty / too short file is `OSError` in the source, as in the model -/
theorem parse_header_too_short (file : Bytes) (h : file.length < 4) : parse_header file = .error "OSError" := by
  exact CodecLemmas.parse_header_too_short file h

/-! ## in-place edit -/

def editValOf : Sigproc.EditVal → PyVal
  | .int z => .int z
  | .flt bs => .dbl bs
  | .str s => .str s

def EditWF : Sigproc.EditVal → Prop
  | .str s => s.length < 2 ^ 32
  | _ => True

/-- On a file the model parses, the translated `edit_header` succeeds exactly when the model's `editHeader`
does, with the same resulting file bytes, and raises `ValueError` exactly when the model does (unknown key,
header length would change); every other failure of the model (`struct.error`, `KeyError`: a value of the wrong
type or out of range, no `source_name` to pad against) is a failure of the source with another exception. -/
theorem edit_header_is_model (file key : Bytes) (v : Sigproc.EditVal)
    (kvs : List (Sigproc.Bytes × Sigproc.Val)) (n nbits nchans : Nat)
    (h : Sigproc.parseHeader file = .ok (kvs, n))
    (hnd : (kvs.map (·.1)).Nodup) (hT : ∀ kv ∈ kvs, Typed kv)
    (hb : (NBITS, Sigproc.Val.u32 nbits) ∈ kvs) (hc : (NCHANS, Sigproc.Val.u32 nchans) ∈ kvs)
    (hb0 : nbits ≠ 0) (hc0 : nchans ≠ 0) (hv : EditWF v) (hk : key.length < 2 ^ 32) :
    (∀ f, Sigproc.editHeader file key v = .ok f ↔ edit_header file key (editValOf v) = .ok f) ∧
    (Sigproc.editHeader file key v = .error .valueError ↔ edit_header file key (editValOf v) = .error "ValueError") := by
  exact CodecLemmas.edit_header_is_model file key v kvs n nbits nchans h hnd hT hb hc hb0 hc0 hv hk

/-- an unknown key is rejected before the file is even read -/
theorem edit_header_unknown_key (file key : Bytes) (v : PyVal) (h : Sigproc.keyFmt key = none) :
    edit_header file key v = .error "ValueError" := by
  have hk : isKey key = false := by rw [CodecLemmas.isKey_is_model, h]; rfl
  rw [CodecLemmas.edit_header_eq, if_pos hk]

/-! ## coordinates, frames, ids -/

/-- the declination fields of `parse_radec` are the model's `parseRadec` -/
theorem parse_radec_dec_is_model (ra dec : Rat) :
    (parse_radec ra dec).2 =
      ((Sigproc.parseRadec dec).1, (((Sigproc.parseRadec dec).2.1 : Nat) : Int),
       (((Sigproc.parseRadec dec).2.2.1 : Nat) : Int), (Sigproc.parseRadec dec).2.2.2) := by
  exact CodecLemmas.parse_radec_dec_is_model ra dec

/-- for a non-negative right ascension the hour fields are the same two `divmod`s -/
theorem parse_radec_ra_is_model (ra dec : Rat) (h : 0 ≤ ra) :
    (parse_radec ra dec).1 =
      ((((Sigproc.parseRadec ra).2.1 : Nat) : Int), (((Sigproc.parseRadec ra).2.2.1 : Nat) : Int),
       (Sigproc.parseRadec ra).2.2.2) := by
  exact CodecLemmas.parse_radec_ra_is_model ra dec h

def frameName : Sigproc.Frame → String
  | .topocentric => "topocentric" | .barycentric => "barycentric" | .pulsarcentric => "pulsarcentric"

theorem flagsOfFrame_is_model (f : Sigproc.Frame) :
    flagsOfFrame (frameName f) = (((Sigproc.flagsOf f).1 : Int), ((Sigproc.flagsOf f).2 : Int)) := by
  cases f <;> decide

theorem frameOfFlags_is_model (p b : Nat) : frameOfFlags p b = frameName (Sigproc.frameOf p b) := by
  unfold frameOfFlags Sigproc.frameOf
  by_cases hp : p = 0
  · by_cases hb : b = 0
    · simp only [hp, hb, Int.natCast_zero, ne_eq, not_true_eq_false, if_false, frameName]
    · have hb' : ¬ ((b : Int) = 0) := by omega
      simp only [hp, hb, hb', Int.natCast_zero, ne_eq, not_true_eq_false, not_false_eq_true, if_false, if_true,
        frameName]
  · have hp' : ¬ ((p : Int) = 0) := by omega
    simp only [hp, hp', ne_eq, not_false_eq_true, if_true, frameName]

/-- the frame survives the two flags, for the translated source itself -/
theorem frame_roundtrip_source (f : Sigproc.Frame) :
    frameOfFlags (flagsOfFrame (frameName f)).1 (flagsOfFrame (frameName f)).2 = frameName f := by
  cases f <;> decide

/-- the defaults `from_sigproc` / `Header.telescope_id` / `machine_id` use are the model's -/
theorem id_defaults_are_model :
    telescopeDefaultId = 0 ∧ telescopeDefaultName = "Fake" ∧ machineDefaultId = 0 ∧ machineDefaultName = "FAKE" ∧
    telescopeUnknownId = 0 ∧ machineUnknownId = 0 := by
  exact ⟨rfl, rfl, rfl, rfl, rfl, rfl⟩

end SppModel.Tie.SigprocCodec

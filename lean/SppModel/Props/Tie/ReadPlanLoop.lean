import SppModel.Generated.ReadPlanLoop
import SppModel.Props.Tie.ReadLoops
import SppModel.Props.Tie.SeekArith
import SppModel.Props.C02
import SppModel.Model.Plan
/-!
# Source tie — the block loop of `FilReader.read_plan` (C01)

`Generated/ReadPlanLoop.lean` is the loop body of `read_plan` translated from `readers.py` on every run - byte count
of the block, `creadinto`, the short-read check, the relative seek back by `skipback`, the yield - written over the
TRANSLATED `FileReader.creadinto` / `seek` (`Generated/SeekArith.lean`, themselves proved equal to the `Stream`
model in `Tie/ReadLoops`, `Tie/SeekArith`).  The theorem composes the three layers: started at sample `p` of a
stream of `N` whole samples, over any file list (empty members, different header lengths), for any block list, the
translated generator yields exactly the blocks `Plan.runLoop` describes - block `j` holds the bytes of samples
`[off_j, off_j + len_j)` of the concatenated data sections - and it ends with an exception exactly when `runLoop`
ends with one, after the same blocks.  `Plan.runLoop` is what `plan_covers`, `accepted_run`, `expected_delivers`
(C01) are about; with `filreader_plan_arith` (Tie/Plan: the block list) this makes the C01 theorems statements about
the translated source from the plan arithmetic down to the bytes read.
-/
namespace SppModel.Tie.ReadPlanLoop
open SppModel SppModel.Tie SppModel.Generated.SeekArith SppModel.Generated.ReadPlanLoop

theorem read_plan_loop_translated : Generated.ReadPlanLoop.translationFailures = [] := by decide

variable {α : Type}

private theorem bytesOf_mul (x s itemsize bitfact : Int) (hbf : bitfact ≠ 0) (h : x * itemsize = s * bitfact) :
    bytesOf x itemsize bitfact = s := by
  rw [bytesOf, h, Int.mul_tdiv_cancel _ hbf]

/-- the strides: with `nchans * itemsize = stride * bitfact` (a sample is a whole number of bytes, the property's
    precondition) `samp_stride` is `stride` and `x` samples × channels are `x / nchans * stride` bytes -/
theorem sampStride_eq (C itemsize bitfact stride : Nat) (hbf : 0 < bitfact) (h : C * itemsize = stride * bitfact) :
    sampStride (C : Int) (itemsize : Int) (bitfact : Int) = (stride : Int) := by
  apply bytesOf_mul _ _ _ _ (by omega)
  exact_mod_cast h

theorem bytesOf_block (len C itemsize bitfact stride : Nat) (hbf : 0 < bitfact) (h : C * itemsize = stride * bitfact) :
    bytesOf (((len * C : Nat) : Int)) (itemsize : Int) (bitfact : Int) = ((len * stride : Nat) : Int) := by
  apply bytesOf_mul _ _ _ _ (by omega)
  have : (len * C) * itemsize = (len * stride) * bitfact := by
    rw [Nat.mul_assoc, h, Nat.mul_assoc]
  exact_mod_cast this

theorem bytesOf_skip (k C itemsize bitfact stride : Nat) (hbf : 0 < bitfact) (h : C * itemsize = stride * bitfact) :
    bytesOf (-((k * C : Nat) : Int)) (itemsize : Int) (bitfact : Int) = -((k * stride : Nat) : Int) := by
  apply bytesOf_mul _ _ _ _ (by omega)
  have : (k * C) * itemsize = (k * stride) * bitfact := by
    rw [Nat.mul_assoc, h, Nat.mul_assoc]
  rw [Int.neg_mul, Int.neg_mul]
  congr 1
  exact_mod_cast this


private theorem inFile_of (fs : Stream.Files α) (st : SeekSt) (hv : ValidSt fs st) (hI : Stream.Inv fs (toSt st)) :
    InFile fs st := by
  refine ⟨hv, ?_⟩
  obtain ⟨h0, h1, h2⟩ := hv
  have hl : st.ifile.toNat < fs.length := hI.lt
  have h := (Stream.Inv_iff fs _ hI.lt).1 hI
  have hlo : fs[st.ifile.toNat].hdr.length ≤ st.pos.toNat := h.1
  have hhi : st.pos.toNat ≤ fs[st.ifile.toNat].hdr.length + fs[st.ifile.toNat].data.length := h.2
  rw [ReadLoops.getD_of_lt fs _ hl, Stream.content_length]
  omega

private theorem creadinto_spec (fs : Stream.Files α) (st : Stream.St) (B : Nat) (hI : Stream.Inv fs st) :
    (Stream.creadinto fs B st).1 = ((Stream.flat fs).drop (Stream.abs fs st)).take B ∧
    Stream.Inv fs (Stream.creadinto fs B st).2 ∧
    Stream.abs fs (Stream.creadinto fs B st).2 = min (Stream.abs fs st + B) (Stream.flat fs).length := by
  have h := Stream.readLoop_spec fs st B hI
  simp only [] at h
  obtain ⟨e1, e2, e3, _⟩ := h
  simp only [Stream.creadinto]
  generalize Stream.readLoop fs fs.length st B [] = r at e1 e2 e3 ⊢
  obtain ⟨acc, st', rem⟩ := r
  exact ⟨e1, e2, e3⟩

/-- a relative seek from a state of the invariant: rejected exactly when the target is outside the stream -/
private theorem seek_rel_spec (fs : Stream.Files α) (st : SeekSt) (o : Int) (hv : ValidSt fs st)
    (hI : Stream.Inv fs (toSt st)) :
    ((o + (Stream.abs fs (toSt st) : Int) < 0 ∨ o + (Stream.abs fs (toSt st) : Int) ≥ (Stream.total fs : Int)) →
      seek (seekEnv fs) st o 1 = .error "ValueError") ∧
    (¬ (o + (Stream.abs fs (toSt st) : Int) < 0 ∨ o + (Stream.abs fs (toSt st) : Int) ≥ (Stream.total fs : Int)) →
      ∃ s', seek (seekEnv fs) st o 1 = .ok ((), s') ∧ ValidSt fs s' ∧ Stream.Inv fs (toSt s') ∧
        (Stream.abs fs (toSt s') : Int) = o + (Stream.abs fs (toSt st) : Int)) := by
  have h10 : ¬ (1 : Int) = 0 := by decide
  have hcur := cur_data_pos_stream_is_model fs st hv
  rw [Stream.curPos_eq_abs fs _ hI] at hcur
  rcases seek_set_cases fs st (o + (Stream.abs fs (toSt st) : Int)) with ⟨h1, h2⟩ | ⟨s, h1, h2, h3⟩
  · have hs : seek (seekEnv fs) st o 1 = .error "ValueError" := by
      simp only [seek, h10, if_false, if_true, hcur, h1]
    refine ⟨fun _ => hs, fun hn => ?_⟩
    rcases Stream.seekSet_cases fs (o + (Stream.abs fs (toSt st) : Int)) with ⟨_, h⟩ | ⟨st', e, _, _, _⟩
    · rw [← Stream.total_eq_flat_length] at h; exact absurd h hn
    · rw [h2] at e; cases e
  · have hs : seek (seekEnv fs) st o 1 = .ok ((), s) := by
      simp only [seek, h10, if_false, if_true, hcur, h1]
    rcases Stream.seekSet_cases fs (o + (Stream.abs fs (toSt st) : Int)) with ⟨e, _⟩ | ⟨st', e, hi, ha, h⟩
    · rw [h2] at e; cases e
    · rw [h2] at e
      cases e
      rw [← Stream.total_eq_flat_length] at h
      exact ⟨fun hr => absurd hr h, fun _ => ⟨s, hs, h3, hi, ha.symm⟩⟩

/-- one iteration of the translated loop from sample `p`: the short read, the rejected seek, the yielded block -/
private theorem planStep_spec (fs : Stream.Files α) (C itemsize bitfact stride N : Nat)
    (hbf : 0 < bitfact) (hC : 0 < C) (hst : 0 < stride) (hstride : C * itemsize = stride * bitfact)
    (hT : Stream.total fs = N * stride) (fuel : Nat) (hf : fs.length + 1 ≤ fuel)
    (st : SeekSt) (hv : ValidSt fs st) (hI : Stream.Inv fs (toSt st))
    (p : Nat) (hp : Stream.abs fs (toSt st) = p * stride) (ii len k : Nat) :
    (p + len > N ∨ (k ≠ 0 ∧ (p + len < k ∨ p + len - k ≥ N)) →
      planStep (seekEnv fs) st (ii : Int) ((len * C : Nat) : Int) (-((k * C : Nat) : Int))
        (itemsize : Int) (bitfact : Int) (C : Int) fuel = .error "ValueError") ∧
    (¬ (p + len > N) → ¬ (k ≠ 0 ∧ (p + len < k ∨ p + len - k ≥ N)) →
      ∃ segs st', planStep (seekEnv fs) st (ii : Int) ((len * C : Nat) : Int) (-((k * C : Nat) : Int))
          (itemsize : Int) (bitfact : Int) (C : Int) fuel = .ok (((len : Int), (ii : Int), segs), st') ∧
        segBytes fs segs = ((Stream.flat fs).drop (p * stride)).take (len * stride) ∧
        ValidSt fs st' ∧ Stream.Inv fs (toSt st') ∧ Stream.abs fs (toSt st') = (p + len - k) * stride) := by
  have hB := bytesOf_block len C itemsize bitfact stride hbf hstride
  have hK := bytesOf_skip k C itemsize bitfact stride hbf hstride
  obtain ⟨segs, st', hcr, hseg, hto, hIn'⟩ :=
    creadinto_is_model fs st (len * stride) fuel (inFile_of fs st hv hI) hf
  obtain ⟨e1, e2, e3⟩ := creadinto_spec fs (toSt st) (len * stride) hI
  rw [← hseg, hp] at e1
  rw [← hto] at e2 e3
  rw [hp, ← Stream.total_eq_flat_length, hT] at e3
  have hpN : p * stride ≤ N * stride := by
    have := Stream.abs_le_flat fs _ hI
    rwa [hp, ← Stream.total_eq_flat_length, hT] at this
  have hlen : (segBytes fs segs).length = min (len * stride) (N * stride - p * stride) := by
    rw [e1, List.length_take, List.length_drop, ← Stream.total_eq_flat_length, hT]
  have hdiv : (((len * C : Nat) : Int)) / (C : Int) = (len : Int) := by
    rw [Int.natCast_mul, Int.mul_ediv_cancel _ (by omega)]
  have hadd : (p + len) * stride = p * stride + len * stride := Nat.add_mul _ _ _
  by_cases h1 : p + len > N
  · refine ⟨fun _ => ?_, fun hn => absurd h1 hn⟩
    have hlt : N * stride < (p + len) * stride := (Nat.mul_lt_mul_right hst).2 h1
    have hne : (((segBytes fs segs).length : Nat) : Int) ≠ ((len * stride : Nat) : Int) := by omega
    simp only [planStep, hB, hcr, if_pos hne]
  · have hle : (p + len) * stride ≤ N * stride := Nat.mul_le_mul_right _ (by omega)
    have heq : ¬ (((segBytes fs segs).length : Nat) : Int) ≠ ((len * stride : Nat) : Int) := by omega
    have e3' : Stream.abs fs (toSt st') = (p + len) * stride := by omega
    by_cases hk : k = 0
    · subst hk
      have hskip : ¬ (-((0 * C : Nat) : Int)) ≠ 0 := by simp
      refine ⟨fun h => ?_, fun _ _ => ⟨segs, st', ?_, e1, hIn'.1, e2, ?_⟩⟩
      · omega
      · simp only [planStep, hB, hcr, if_neg heq, if_neg hskip, hdiv]
      · rw [e3', Nat.sub_zero]
    · have hkC : 0 < k * C := Nat.mul_pos (by omega) hC
      have hskip : (-((k * C : Nat) : Int)) ≠ 0 := by omega
      obtain ⟨s1, s2⟩ := seek_rel_spec fs st' (-((k * stride : Nat) : Int)) hIn'.1 e2
      rw [e3', hT] at s1 s2
      by_cases h2 : p + len < k ∨ p + len - k ≥ N
      · refine ⟨fun _ => ?_, fun _ hn => absurd ⟨hk, h2⟩ hn⟩
        have hr : -((k * stride : Nat) : Int) + (((p + len) * stride : Nat) : Int) < 0 ∨
            -((k * stride : Nat) : Int) + (((p + len) * stride : Nat) : Int) ≥ ((N * stride : Nat) : Int) := by
          by_cases h3 : p + len < k
          · have := (Nat.mul_lt_mul_right hst).2 h3
            left; omega
          · have hge : N ≤ p + len - k := by omega
            have := Nat.mul_le_mul_right stride hge
            have hkle : k * stride ≤ (p + len) * stride := Nat.mul_le_mul_right _ (by omega)
            rw [Nat.sub_mul] at this
            right; omega
        simp only [planStep, hB, hK, hcr, if_neg heq, if_pos hskip, s1 hr]
      · refine ⟨fun h => ?_, fun _ _ => ?_⟩
        · omega
        · have hkle : k * stride ≤ (p + len) * stride := Nat.mul_le_mul_right _ (by omega)
          have hlt : (p + len - k) * stride < N * stride := (Nat.mul_lt_mul_right hst).2 (by omega)
          rw [Nat.sub_mul] at hlt
          obtain ⟨s', hs', hv', hI', ha'⟩ := s2 (by omega)
          refine ⟨segs, s', ?_, e1, hv', hI', ?_⟩
          · simp only [planStep, hB, hK, hcr, if_neg heq, if_pos hskip, hs', hdiv]
          · rw [Nat.sub_mul]; omega

/-- the plan entries `(ii, len, skip)` in samples as the `(ii, block, skip)` triples of the source (elements) -/
def blocksOf (C : Nat) (bl : List Plan.Entry) : List (Int × Int × Int) :=
  bl.map (fun e => ((e.1 : Int), ((e.2.1 * C : Nat) : Int), -((e.2.2 * C : Nat) : Int)))

/-- **the translated read loop is `Plan.runLoop` on the concatenated data sections** -/
theorem plan_loop_is_model (fs : Stream.Files α) (C itemsize bitfact stride N : Nat)
    (hbf : 0 < bitfact) (hC : 0 < C) (hst : 0 < stride) (hstride : C * itemsize = stride * bitfact)
    (hT : Stream.total fs = N * stride)
    (bl : List Plan.Entry) (fuel : Nat) (hf : fs.length + 1 ≤ fuel)
    (st : SeekSt) (hv : ValidSt fs st) (hI : Stream.Inv fs (toSt st))
    (p : Nat) (hp : Stream.abs fs (toSt st) = p * stride) :
    ((planLoop (seekEnv fs) (itemsize : Int) (bitfact : Int) (C : Int) fuel st (blocksOf C bl)).1.map
        (fun y => (y.1, y.2.1, segBytes fs y.2.2))
      = (Plan.runLoop N p bl).yielded.map
          (fun b => ((b.len : Int), (b.ii : Int), ((Stream.flat fs).drop (b.off * stride)).take (b.len * stride))))
    ∧ ((planLoop (seekEnv fs) (itemsize : Int) (bitfact : Int) (C : Int) fuel st (blocksOf C bl)).2 = none
        ↔ (Plan.runLoop N p bl).err = none)
    ∧ (∀ e, (planLoop (seekEnv fs) (itemsize : Int) (bitfact : Int) (C : Int) fuel st (blocksOf C bl)).2 = some e
        → e = "ValueError") := by
  induction bl generalizing st p with
  | nil => simp [blocksOf, planLoop, Plan.runLoop]
  | cons e bl ih =>
    obtain ⟨ii, len, k⟩ := e
    have hb : blocksOf C ((ii, len, k) :: bl)
        = ((ii : Int), ((len * C : Nat) : Int), -((k * C : Nat) : Int)) :: blocksOf C bl := rfl
    obtain ⟨herr, hok⟩ := planStep_spec fs C itemsize bitfact stride N hbf hC hst hstride hT fuel hf st hv hI p hp
      ii len k
    rw [hb]
    by_cases h1 : p + len > N
    · simp only [planLoop, herr (.inl h1), Plan.runLoop, if_pos h1]
      simp
    · by_cases h2 : k ≠ 0 ∧ (p + len < k ∨ p + len - k ≥ N)
      · simp only [planLoop, herr (.inr h2), Plan.runLoop, if_neg h1, if_pos h2]
        simp
      · obtain ⟨segs, st', hstep, hseg, hv', hI', hp'⟩ := hok h1 h2
        obtain ⟨i1, i2, i3⟩ := ih st' hv' hI' (p + len - k) hp'
        simp only [planLoop, hstep, Plan.runLoop, if_neg h1, if_neg h2, List.map_cons]
        exact ⟨by rw [i1, hseg], i2, i3⟩

/-! ### `FilReader.read_block` at byte level -/

private theorem cum_dvd (fs : Stream.Files α) (w : Nat)
    (hfiles : ∀ f ∈ fs, w ∣ f.data.length ∧ w ∣ f.hdr.length) (i : Nat) : w ∣ Stream.cum fs i := by
  induction fs generalizing i with
  | nil => simp
  | cons f fs ih =>
    cases i with
    | zero => simp
    | succ i =>
      rw [Stream.cum_cons_succ]
      exact Nat.dvd_add (hfiles f List.mem_cons_self).1
        (ih (fun g hg => hfiles g (List.mem_cons_of_mem _ hg)) i)

/-- `cread` only uses `count = nunits / bitfact` -/
private theorem cread_bitfact (env : SeekEnv) (st : SeekSt) (x bf w : Int) (fuel : Nat) :
    cread env st x bf w fuel = cread env st (x / bf) 1 w fuel := by
  simp only [cread, Int.ediv_one]

/-- **the translated `read_block` (range check, absolute seek, counted read over the translated `FileReader`) is
`Stream.readBlock`**: for every file list whose members hold whole items, every reader state, start and length it
returns the bytes the model returns (`readBlock_in_range`: samples `[s, s+n)` of the concatenated data sections)
and fails exactly when the model fails. -/
theorem read_block_is_model (fs : Stream.Files α) (C itemsize bitfact stride N : Nat)
    (hbf : 0 < bitfact) (hdiv : bitfact ∣ C) (hw : 0 < itemsize) (hst : 0 < stride)
    (hstride : C * itemsize = stride * bitfact) (hT : Stream.total fs = N * stride)
    (hfiles : ∀ f ∈ fs, itemsize ∣ f.data.length ∧ itemsize ∣ f.hdr.length)
    (st : SeekSt) (hv : ValidSt fs st) (s n : Int) (hn : 0 ≤ n) (fuel : Nat) (hf : fs.length + 1 ≤ fuel) :
    (∀ segs r st', read_block_bytes (seekEnv fs) st s n (N : Int) (C : Int) (itemsize : Int) (bitfact : Int) fuel
          = .ok ((segs, r), st') → Stream.readBlock fs stride N s n = .ok (segBytes fs segs)) ∧
    (∀ e, read_block_bytes (seekEnv fs) st s n (N : Int) (C : Int) (itemsize : Int) (bitfact : Int) fuel = .error e →
          ∃ e', Stream.readBlock fs stride N s n = .error e') := by
  have _ := hst
  have _ := hv
  have hss := sampStride_eq C itemsize bitfact stride hbf hstride
  by_cases hr : s < 0 ∨ s + n > (N : Int)
  · refine ⟨fun segs r st' h => ?_, fun e _ => ⟨.valueError, ?_⟩⟩
    · simp only [read_block_bytes, if_pos hr] at h
      cases h
    · simp only [Stream.readBlock, if_pos hr]
  · obtain ⟨m, rfl⟩ := Int.eq_ofNat_of_zero_le hn
    obtain ⟨k, hk⟩ := hdiv
    have hks : k * itemsize = stride := by
      have h1 : bitfact * (k * itemsize) = bitfact * stride := by
        rw [← Nat.mul_assoc, ← hk, hstride, Nat.mul_comm]
      exact Nat.eq_of_mul_eq_mul_left hbf h1
    have hcount : (C : Int) * (m : Int) / (bitfact : Int) = ((k * m : Nat) : Int) := by
      have : C * m = bitfact * (k * m) := by rw [hk, Nat.mul_assoc]
      rw [← Int.natCast_mul, this, Int.natCast_mul bitfact, Int.mul_ediv_cancel_left _ (by omega)]
    have hbytes : k * m * itemsize = m * stride := by
      rw [← hks, Nat.mul_comm k m, Nat.mul_assoc]
    by_cases ho : s * (stride : Int) < 0 ∨ s * (stride : Int) ≥ (Stream.total fs : Int)
    · have hset := seek_set_out_of_range fs st (s * (stride : Int)) ho
      have hseek : seek (seekEnv fs) st (s * sampStride (C : Int) (itemsize : Int) (bitfact : Int)) 0
          = .error "ValueError" := by
        simp only [seek, if_true, hss, hset]
      refine ⟨fun segs r st' h => ?_, fun e _ => ⟨.valueError, ?_⟩⟩
      · simp only [read_block_bytes, if_neg hr, hseek] at h
        cases h
      · simp only [Stream.readBlock, if_neg hr, Stream.seekSet_rejects' fs _ ho]
    · have hs0 : 0 ≤ s := by omega
      obtain ⟨s', rfl⟩ := Int.eq_ofNat_of_zero_le hs0
      have hoN : ((s' : Int) * (stride : Int)).toNat = s' * stride := by
        rw [← Int.natCast_mul, Int.toNat_natCast]
      obtain ⟨j, r, hj, hloc, hr', hc⟩ := Stream.locate_spec fs 0 ((s' : Int) * (stride : Int)).toNat (by omega)
      rw [Nat.zero_add] at hloc
      obtain ⟨j2, r2, _, hloc2, hset⟩ := seek_set_in_range fs st ((s' : Int) * (stride : Int)) (by omega) (by omega)
      rw [hloc] at hloc2
      simp only [Option.some.injEq, Prod.mk.injEq] at hloc2
      obtain ⟨rfl, rfl⟩ := hloc2
      rw [← Int.natCast_add] at hset
      have hseek : seek (seekEnv fs) st ((s' : Int) * sampStride (C : Int) (itemsize : Int) (bitfact : Int)) 0
          = .ok ((), ⟨(j : Int), ((Stream.hdrlen fs j + r : Nat) : Int)⟩) := by
        simp only [seek, if_true, hss, hset]
      have hmodel : Stream.seekSet fs ((s' : Int) * (stride : Int)) = .ok ⟨j, Stream.hdrlen fs j + r⟩ := by
        simp only [Stream.seekSet, ho, if_false, hloc]
      have hts : toSt ⟨(j : Int), ((Stream.hdrlen fs j + r : Nat) : Int)⟩ = ⟨j, Stream.hdrlen fs j + r⟩ := by
        simp only [toSt, Int.toNat_natCast]
      have hHl := Stream.hdrlen_of_lt fs j hj
      have hgd := ReadLoops.getD_of_lt fs j hj
      have hIn : InFile fs ⟨(j : Int), ((Stream.hdrlen fs j + r : Nat) : Int)⟩ := by
        apply inFile_nat fs j _ hj
        rw [hgd, Stream.content_length, hHl]
        omega
      have hdr : itemsize ∣ r := by
        have h1 : itemsize ∣ Stream.cum fs j := cum_dvd fs itemsize hfiles j
        have h2 : itemsize ∣ Stream.cum fs j + r := by
          rw [hc, hoN, ← hks, ← Nat.mul_assoc]
          exact Nat.dvd_mul_left _ _
        exact (Nat.dvd_add_right h1).1 h2
      have hpos : ((itemsize : Nat) : Int) ∣ ((Stream.hdrlen fs j + r : Nat) : Int) :=
        Int.natCast_dvd_natCast.mpr (Nat.dvd_add (ReadLoops.hdrlen_dvd fs itemsize j hj hfiles) hdr)
      have hdata : (((fs.getD (j : Int).toNat ⟨[], []⟩).hdr.length : Nat) : Int)
          ≤ ((Stream.hdrlen fs j + r : Nat) : Int) := by
        rw [Int.toNat_natCast, hgd, ← hHl]
        omega
      obtain ⟨c1, c2⟩ := cread_is_model fs ⟨(j : Int), ((Stream.hdrlen fs j + r : Nat) : Int)⟩ (k * m) itemsize fuel
        hIn hf hw hfiles hpos hdata
      rw [hts, hbytes] at c1 c2
      have hrb : read_block_bytes (seekEnv fs) st (s' : Int) (m : Int) (N : Int) (C : Int) (itemsize : Int)
          (bitfact : Int) fuel
          = cread (seekEnv fs) ⟨(j : Int), ((Stream.hdrlen fs j + r : Nat) : Int)⟩ ((k * m : Nat) : Int) 1
              (itemsize : Int) fuel := by
        simp only [read_block_bytes, if_neg hr, hseek]
        rw [cread_bitfact, hcount]
      have hmb : Stream.readBlock fs stride N (s' : Int) (m : Int)
          = match Stream.cread fs (m * stride) ⟨j, Stream.hdrlen fs j + r⟩ with
            | (.ok bs, _) => .ok bs
            | (.error e, _) => .error e := by
        simp only [Stream.readBlock, if_neg hr, hmodel, Int.toNat_natCast]
        rfl
      rw [hrb, hmb]
      generalize Stream.cread fs (m * stride) ⟨j, Stream.hdrlen fs j + r⟩ = res at c1 c2
      obtain ⟨a, b⟩ := res
      refine ⟨fun segs r st' h => ?_, fun e h => ⟨.valueError, ?_⟩⟩
      · have := (c1 segs r st' h).1
        dsimp only at this
        subst this
        rfl
      · have := c2 e h
        dsimp only at this
        subst this
        rfl

end SppModel.Tie.ReadPlanLoop

import SppModel.Lemmas.Bits
/-!
# C03 — bit packing and unpacking are exact inverses at every depth and order

All statements are about the kernels *as generated from the current source*
(`SppModel.Generated.BitKernels`), lifted to arrays by `unpackArr`/`packArr`.
The per-byte domain is finite (256 bytes, 256 in-range field tuples for each
depth) and is enumerated completely by `decide +kernel`; array length is
unbounded (induction in `Lemmas/Bits.lean`).
-/
namespace SppModel.Bits
open SppModel SppModel.Generated.BitKernels

/-! ## Per-byte tables (complete enumeration) -/

-- unpacking = bit-field definition, MSB-field-first for big, LSB-first for little
theorem unpack1_big_spec : ∀ b : Fin 256, unpack1_8_big b.val = unpackSpec 1 .big b.val := by decide +kernel
theorem unpack1_little_spec : ∀ b : Fin 256, unpack1_8_little b.val = unpackSpec 1 .little b.val := by decide +kernel
theorem unpack2_big_spec : ∀ b : Fin 256, unpack2_8_big b.val = unpackSpec 2 .big b.val := by decide +kernel
theorem unpack2_little_spec : ∀ b : Fin 256, unpack2_8_little b.val = unpackSpec 2 .little b.val := by decide +kernel
theorem unpack4_big_spec : ∀ b : Fin 256, unpack4_8_big b.val = unpackSpec 4 .big b.val := by decide +kernel
theorem unpack4_little_spec : ∀ b : Fin 256, unpack4_8_little b.val = unpackSpec 4 .little b.val := by decide +kernel

-- pack ∘ unpack = id on every byte; every unpacked value is below 2^nbits; 8/nbits values per byte
theorem pu1_big : ∀ b : Fin 256, pack1_8_big (unpack1_8_big b.val) = b.val ∧ (unpack1_8_big b.val).length = 8 ∧ ∀ x ∈ unpack1_8_big b.val, x < 2 := by decide +kernel
theorem pu1_little : ∀ b : Fin 256, pack1_8_little (unpack1_8_little b.val) = b.val ∧ (unpack1_8_little b.val).length = 8 ∧ ∀ x ∈ unpack1_8_little b.val, x < 2 := by decide +kernel
theorem pu2_big : ∀ b : Fin 256, pack2_8_big (unpack2_8_big b.val) = b.val ∧ (unpack2_8_big b.val).length = 4 ∧ ∀ x ∈ unpack2_8_big b.val, x < 4 := by decide +kernel
theorem pu2_little : ∀ b : Fin 256, pack2_8_little (unpack2_8_little b.val) = b.val ∧ (unpack2_8_little b.val).length = 4 ∧ ∀ x ∈ unpack2_8_little b.val, x < 4 := by decide +kernel
theorem pu4_big : ∀ b : Fin 256, pack4_8_big (unpack4_8_big b.val) = b.val ∧ (unpack4_8_big b.val).length = 2 ∧ ∀ x ∈ unpack4_8_big b.val, x < 16 := by decide +kernel
theorem pu4_little : ∀ b : Fin 256, pack4_8_little (unpack4_8_little b.val) = b.val ∧ (unpack4_8_little b.val).length = 2 ∧ ∀ x ∈ unpack4_8_little b.val, x < 16 := by decide +kernel

-- unpack ∘ pack = id on every in-range field tuple
theorem up1_big : ∀ a0 a1 a2 a3 a4 a5 a6 a7 : Fin 2,
    unpack1_8_big (pack1_8_big [a0.val, a1.val, a2.val, a3.val, a4.val, a5.val, a6.val, a7.val])
      = [a0.val, a1.val, a2.val, a3.val, a4.val, a5.val, a6.val, a7.val]
    ∧ pack1_8_big [a0.val, a1.val, a2.val, a3.val, a4.val, a5.val, a6.val, a7.val] < 256 := by decide +kernel
theorem up1_little : ∀ a0 a1 a2 a3 a4 a5 a6 a7 : Fin 2,
    unpack1_8_little (pack1_8_little [a0.val, a1.val, a2.val, a3.val, a4.val, a5.val, a6.val, a7.val])
      = [a0.val, a1.val, a2.val, a3.val, a4.val, a5.val, a6.val, a7.val]
    ∧ pack1_8_little [a0.val, a1.val, a2.val, a3.val, a4.val, a5.val, a6.val, a7.val] < 256 := by decide +kernel
theorem up2_big : ∀ a0 a1 a2 a3 : Fin 4,
    unpack2_8_big (pack2_8_big [a0.val, a1.val, a2.val, a3.val]) = [a0.val, a1.val, a2.val, a3.val]
    ∧ pack2_8_big [a0.val, a1.val, a2.val, a3.val] < 256 := by decide +kernel
theorem up2_little : ∀ a0 a1 a2 a3 : Fin 4,
    unpack2_8_little (pack2_8_little [a0.val, a1.val, a2.val, a3.val]) = [a0.val, a1.val, a2.val, a3.val]
    ∧ pack2_8_little [a0.val, a1.val, a2.val, a3.val] < 256 := by decide +kernel
theorem up4_big : ∀ a0 a1 : Fin 16,
    unpack4_8_big (pack4_8_big [a0.val, a1.val]) = [a0.val, a1.val]
    ∧ pack4_8_big [a0.val, a1.val] < 256 := by decide +kernel
theorem up4_little : ∀ a0 a1 : Fin 16,
    unpack4_8_little (pack4_8_little [a0.val, a1.val]) = [a0.val, a1.val]
    ∧ pack4_8_little [a0.val, a1.val] < 256 := by decide +kernel

/-! ## From the tables to `Codec.Good` -/

private theorem list8 (v : List Nat) (h : v.length = 8) :
    ∃ a0 a1 a2 a3 a4 a5 a6 a7, v = [a0, a1, a2, a3, a4, a5, a6, a7] := by
  match v, h with
  | [a0, a1, a2, a3, a4, a5, a6, a7], _ => exact ⟨a0, a1, a2, a3, a4, a5, a6, a7, rfl⟩
private theorem list4 (v : List Nat) (h : v.length = 4) : ∃ a0 a1 a2 a3, v = [a0, a1, a2, a3] := by
  match v, h with
  | [a0, a1, a2, a3], _ => exact ⟨a0, a1, a2, a3, rfl⟩
private theorem list2 (v : List Nat) (h : v.length = 2) : ∃ a0 a1, v = [a0, a1] := by
  match v, h with
  | [a0, a1], _ => exact ⟨a0, a1, rfl⟩

private theorem good8 (unp : Nat → List Nat) (pk : List Nat → Nat)
    (pu : ∀ b : Fin 256, pk (unp b.val) = b.val ∧ (unp b.val).length = 8 ∧ ∀ x ∈ unp b.val, x < 2)
    (up : ∀ a0 a1 a2 a3 a4 a5 a6 a7 : Fin 2,
      unp (pk [a0.val, a1.val, a2.val, a3.val, a4.val, a5.val, a6.val, a7.val])
        = [a0.val, a1.val, a2.val, a3.val, a4.val, a5.val, a6.val, a7.val]
      ∧ pk [a0.val, a1.val, a2.val, a3.val, a4.val, a5.val, a6.val, a7.val] < 256) :
    Codec.Good ⟨8, 2, unp, pk⟩ where
  hk := Nat.zero_lt_succ _
  len b hb := (pu ⟨b, hb⟩).2.1
  rng b hb := (pu ⟨b, hb⟩).2.2
  pu b hb := (pu ⟨b, hb⟩).1
  up v hl hr := by
    obtain ⟨a0, a1, a2, a3, a4, a5, a6, a7, rfl⟩ := list8 v hl
    simp only [List.mem_cons, List.not_mem_nil, or_false, forall_eq_or_imp, forall_eq] at hr
    obtain ⟨h0, h1, h2, h3, h4, h5, h6, h7⟩ := hr
    exact up ⟨a0, h0⟩ ⟨a1, h1⟩ ⟨a2, h2⟩ ⟨a3, h3⟩ ⟨a4, h4⟩ ⟨a5, h5⟩ ⟨a6, h6⟩ ⟨a7, h7⟩

private theorem good4 (unp : Nat → List Nat) (pk : List Nat → Nat)
    (pu : ∀ b : Fin 256, pk (unp b.val) = b.val ∧ (unp b.val).length = 4 ∧ ∀ x ∈ unp b.val, x < 4)
    (up : ∀ a0 a1 a2 a3 : Fin 4,
      unp (pk [a0.val, a1.val, a2.val, a3.val]) = [a0.val, a1.val, a2.val, a3.val]
      ∧ pk [a0.val, a1.val, a2.val, a3.val] < 256) :
    Codec.Good ⟨4, 4, unp, pk⟩ where
  hk := Nat.zero_lt_succ _
  len b hb := (pu ⟨b, hb⟩).2.1
  rng b hb := (pu ⟨b, hb⟩).2.2
  pu b hb := (pu ⟨b, hb⟩).1
  up v hl hr := by
    obtain ⟨a0, a1, a2, a3, rfl⟩ := list4 v hl
    simp only [List.mem_cons, List.not_mem_nil, or_false, forall_eq_or_imp, forall_eq] at hr
    obtain ⟨h0, h1, h2, h3⟩ := hr
    exact up ⟨a0, h0⟩ ⟨a1, h1⟩ ⟨a2, h2⟩ ⟨a3, h3⟩

private theorem good2 (unp : Nat → List Nat) (pk : List Nat → Nat)
    (pu : ∀ b : Fin 256, pk (unp b.val) = b.val ∧ (unp b.val).length = 2 ∧ ∀ x ∈ unp b.val, x < 16)
    (up : ∀ a0 a1 : Fin 16, unp (pk [a0.val, a1.val]) = [a0.val, a1.val] ∧ pk [a0.val, a1.val] < 256) :
    Codec.Good ⟨2, 16, unp, pk⟩ where
  hk := Nat.zero_lt_succ _
  len b hb := (pu ⟨b, hb⟩).2.1
  rng b hb := (pu ⟨b, hb⟩).2.2
  pu b hb := (pu ⟨b, hb⟩).1
  up v hl hr := by
    obtain ⟨a0, a1, rfl⟩ := list2 v hl
    simp only [List.mem_cons, List.not_mem_nil, or_false, forall_eq_or_imp, forall_eq] at hr
    obtain ⟨h0, h1⟩ := hr
    exact up ⟨a0, h0⟩ ⟨a1, h1⟩

/-- every kernel pair the dispatcher can select is a good codec with `k = 8/d`, `bound = 2^d` -/
theorem codec_good (d : Nat) (o : Order) (c : Codec) (h : codec d o = some c) :
    c.Good ∧ c.k = 8 / d ∧ c.bound = 2 ^ d := by
  unfold codec at h
  split at h <;> simp only [Option.some.injEq, reduceCtorEq] at h <;> subst h
  · exact ⟨good8 _ _ pu1_big up1_big, rfl, rfl⟩
  · exact ⟨good8 _ _ pu1_little up1_little, rfl, rfl⟩
  · exact ⟨good4 _ _ pu2_big up2_big, rfl, rfl⟩
  · exact ⟨good4 _ _ pu2_little up2_little, rfl, rfl⟩
  · exact ⟨good2 _ _ pu4_big up4_big, rfl, rfl⟩
  · exact ⟨good2 _ _ pu4_little up4_little, rfl, rfl⟩

/-- the kernel selected for `(d, o)` computes the bit-field definition -/
theorem codec_unp_spec (d : Nat) (o : Order) (c : Codec) (h : codec d o = some c) (b : Nat) (hb : b < 256) :
    c.unp b = unpackSpec d o b := by
  unfold codec at h
  split at h <;> simp only [Option.some.injEq, reduceCtorEq] at h <;> subst h
  · exact unpack1_big_spec ⟨b, hb⟩
  · exact unpack1_little_spec ⟨b, hb⟩
  · exact unpack2_big_spec ⟨b, hb⟩
  · exact unpack2_little_spec ⟨b, hb⟩
  · exact unpack4_big_spec ⟨b, hb⟩
  · exact unpack4_little_spec ⟨b, hb⟩

/-! ## The property, for arrays of every length -/

/-- Valid arguments: depth in {1,2,4}, an order string starting with b/l,
    uint8 input, and (if given) an output buffer of exactly the right size. -/
def Valid (dir : Dir) (d : Nat) (order : String) (insize : Nat) (buf : Option Nat) : Prop :=
  (d = 1 ∨ d = 2 ∨ d = 4) ∧ (parseOrder order).isSome ∧ (∀ m, buf = some m → m = outSize dir d insize)

/-- **C03 (a)**: unpacking yields `8/nbits` values per byte, each `< 2^nbits`,
    value `i*(8/d)+j` being bit-field `j` of byte `i` in the requested order. -/
theorem unpack_is_fields (d : Nat) (o : Order) (c : Codec) (h : codec d o = some c)
    (bytes : List Nat) (hb : ∀ b ∈ bytes, b < 256) :
    (unpackArr c bytes).length = bytes.length * (8 / d)
    ∧ (∀ x ∈ unpackArr c bytes, x < 2 ^ d)
    ∧ ∀ i j, (hi : i < bytes.length) → j < 8 / d →
        (unpackArr c bytes)[i * (8 / d) + j]? = some (field d o bytes[i] j) := by
  obtain ⟨g, hk, hbd⟩ := codec_good d o c h
  refine ⟨hk ▸ unpackArr_length g bytes hb, hbd ▸ unpackArr_range g bytes hb, ?_⟩
  intro i j hi hj
  have := unpackArr_get g bytes hb i j hi (hk ▸ hj)
  rw [hk] at this
  rw [this, codec_unp_spec d o c h _ (hb _ (List.getElem_mem hi)), unpackSpec]
  simp [hj]

/-- **C03 (b)**: packing the unpacked values reproduces the bytes. -/
theorem pack_unpack (d : Nat) (o : Order) (c : Codec) (h : codec d o = some c)
    (bytes : List Nat) (hb : ∀ b ∈ bytes, b < 256) :
    packArr c (unpackArr c bytes) = bytes :=
  packArr_unpackArr (codec_good d o c h).1 bytes hb

/-- **C03 (c)**: unpacking the packing of in-range samples reproduces the samples. -/
theorem unpack_pack (d : Nat) (o : Order) (c : Codec) (h : codec d o = some c)
    (vals : List Nat) (hl : vals.length % (8 / d) = 0) (hr : ∀ x ∈ vals, x < 2 ^ d) :
    unpackArr c (packArr c vals) = vals := by
  obtain ⟨g, hk, hbd⟩ := codec_good d o c h
  exact unpackArr_packArr g vals (hk ▸ hl) (hbd ▸ hr)

/-- **C03 (d)**: the result does not depend on whether the caller supplies the
    output buffer, and invalid arguments are rejected with ValueError. -/
theorem validate_buffer_irrelevant (dir : Dir) (isU8 : Bool) (d : Nat) (order : String) (n : Nat) :
    validate dir isU8 d order n (some (outSize dir d n)) = validate dir isU8 d order n none := by
  unfold validate
  cases isU8 <;> simp only [Bool.not_true, Bool.not_false, Bool.false_eq_true, ↓reduceIte]
  split
  · rfl
  · cases parseOrder order <;> simp

theorem buffer_irrelevant (isU8 : Bool) (d : Nat) (order : String) (bytes : List Nat) :
    unpack isU8 d order bytes (some (outSize .unpack d bytes.length)) = unpack isU8 d order bytes none := by
  unfold unpack; rw [validate_buffer_irrelevant]

theorem buffer_irrelevant_pack (isU8 : Bool) (d : Nat) (order : String) (vals : List Nat) :
    pack isU8 d order vals (some (outSize .pack d vals.length)) = pack isU8 d order vals none := by
  unfold pack; rw [validate_buffer_irrelevant]

theorem rejects_invalid (dir : Dir) (isU8 : Bool) (d : Nat) (order : String) (n : Nat) (buf : Option Nat)
    (h : ¬ (isU8 = true ∧ Valid dir d order n buf)) :
    validate dir isU8 d order n buf = .error .valueError := by
  unfold validate Valid at *
  by_cases h1 : isU8 = true
  · simp only [h1, true_and] at h
    by_cases h2 : (d = 1 ∨ d = 2 ∨ d = 4)
    · have hd : (d == 1 || d == 2 || d == 4) = true := by
        rcases h2 with rfl | rfl | rfl <;> rfl
      simp only [h1, Bool.not_true, Bool.false_eq_true, ↓reduceIte, hd]
      cases ho : parseOrder order with
      | none => rfl
      | some o =>
        simp only [h2, ho, Option.isSome_some, true_and] at h
        cases buf with
        | none => exact absurd (fun m hm => by cases hm) h
        | some m =>
          by_cases hm : m = outSize dir d n
          · exact absurd (fun m' hm' => by cases hm'; exact hm) h
          · simp [hm]
    · have hd : (d == 1 || d == 2 || d == 4) = false := by
        simp only [not_or] at h2
        simp [h2.1, h2.2.1, h2.2.2]
      simp [h1, hd]
  · simp at h1; simp [h1]

theorem accepts_valid (dir : Dir) (d : Nat) (order : String) (n : Nat) (buf : Option Nat)
    (h : Valid dir d order n buf) : ∃ o, validate dir true d order n buf = .ok (o, outSize dir d n) := by
  obtain ⟨hd, ho, hb⟩ := h
  unfold validate
  have hd' : (d == 1 || d == 2 || d == 4) = true := by rcases hd with rfl | rfl | rfl <;> rfl
  obtain ⟨o, ho'⟩ := Option.isSome_iff_exists.mp ho
  refine ⟨o, ?_⟩
  simp only [Bool.not_true, Bool.false_eq_true, ↓reduceIte, hd', ho']
  cases buf with
  | none => rfl
  | some m => simp [hb m rfl]

/-- default bit order table: 1-bit little, 2- and 4-bit big (from the generated table) -/
theorem default_orders : defaultOrder 1 = some .little ∧ defaultOrder 2 = some .big ∧ defaultOrder 4 = some .big := by
  decide

/-! ## Non-vacuity: the hypotheses above are met by concrete non-trivial data -/
example : ∃ c, codec 2 .big = some c ∧ unpackArr c [0xB4, 0x1E] = [2, 3, 1, 0, 0, 1, 3, 2] := ⟨_, rfl, by decide⟩
example : ∃ c, codec 4 .little = some c ∧ packArr c [4, 11, 14, 1] = [0xB4, 0x1E] := by
  refine ⟨_, rfl, ?_⟩
  have e : ([4, 11, 14, 1] : List Nat) = [4, 11] ++ ([14, 1] ++ []) := rfl
  rw [packArr, e, chunks_append_first 2 (by decide) _ _ rfl, chunks_append_first 2 (by decide) _ _ rfl, chunks_nil]
  decide
example : Valid .unpack 2 "big" 3 (some 12) := ⟨by decide, by decide, by intro m h; cases h; decide⟩

end SppModel.Bits

import SppModel.Lemmas.Pfits
import SppModel.Props.C01
/-!
# C18 — PSRFITS `read_block` / `read_plan` are position independent

`readBlock subs nsblk N s n` is the model of `PFITSReader.read_block(start=s, nsamps=n)` over a SUBINT
table `subs` of sub-integrations of `nsblk` rows each (`Model/Pfits.lean`, tied to the code by the
correspondence run); `readPlan` is `PFITSReader.read_plan`.  Rows are abstract (`α`): everything the
reader does to a row (unpack, polarisation selection, scales/offsets/weights, frequency flip) is per row.
No bound on the table, `nsblk`, the request or the gulp.
-/
namespace SppModel.Pfits
open SppModel SppModel.Plan

variable {α : Type}

theorem whole_length (subs : List (List α)) (nsblk : Nat) (h : Shaped subs nsblk) :
    (whole subs).length = subs.length * nsblk :=
  flatten_length subs nsblk h

/-- reading rows a..a+m is the corresponding slice of the whole-file read -/
theorem readSubints_eq (subs : List (List α)) (nsblk a m : Nat) (h : Shaped subs nsblk) :
    readSubints subs a m = ((whole subs).drop (a * nsblk)).take (m * nsblk) := by
  unfold readSubints whole
  rw [take_flatten _ nsblk (h.drop a), drop_flatten _ nsblk h]

/-- the rows of one request, aligned to sub-integration boundaries or not -/
theorem readRows_eq (subs : List (List α)) (nsblk start block : Nat) (h : Shaped subs nsblk) (hn : 0 < nsblk) :
    readRows subs nsblk start block = ((whole subs).drop start).take block := by
  unfold readRows
  simp only
  rw [readSubints_eq subs nsblk _ _ h]
  exact slice_arith (whole subs) nsblk start block hn

/-- **MAIN**: `read_block(start, nsamps)` returns, for EVERY in-range request, the same rows as the
    corresponding columns of the whole-file read -/
theorem readBlock_eq_whole (subs : List (List α)) (nsblk : Nat) (h : Shaped subs nsblk) (hn : 0 < nsblk)
    (s n : Int) (hs : 0 ≤ s) (hnn : 0 ≤ n) (hr : s + n ≤ (subs.length * nsblk : Nat)) :
    readBlock subs nsblk (subs.length * nsblk) s n = .ok (((whole subs).drop s.toNat).take n.toNat) := by
  have hc : ¬ (s < 0 ∨ s + n > ((subs.length * nsblk : Nat) : Int)) := by omega
  have hrows := readRows_eq subs nsblk s.toNat n.toNat h hn
  unfold readRows at hrows
  simp only at hrows
  unfold readBlock
  simp only [hc, ↓reduceIte, hrows]
  have hlen : (((whole subs).drop s.toNat).take n.toNat).length = n.toNat := by
    rw [List.length_take, List.length_drop, whole_length subs nsblk h]
    omega
  simp [hlen]

theorem readBlock_out_of_range (subs : List (List α)) (nsblk N : Nat) (s n : Int)
    (h : s < 0 ∨ s + n > (N : Int)) :
    readBlock subs nsblk N s n = .error .valueError := by
  simp [readBlock, h]

/-- `read_plan`: every block holds exactly its own rows (count = reported length) — for any gulp -/
theorem readPlan_blocks (subs : List (List α)) (nsblk g s n k : Nat) (h : Shaped subs nsblk) (hn : 0 < nsblk)
    (ha : Accepted g n k) (_hr : s + n ≤ subs.length * nsblk) :
    readPlan subs nsblk g s n k
      = .ok ((expected g s n k).map (fun b => (b.len, b.ii, ((whole subs).drop b.off).take b.len))) := by
  rw [readPlan_expected subs nsblk g s n k ha.1 ha.2]
  congr 1
  apply List.map_congr_left
  intro b _
  rw [readRows_eq subs nsblk b.off b.len h hn]

/-- for an accepted plan the blocks laid end to end (dropping the leading `k` rows of every block after the
    first) are exactly rows `[s, s+n)` of the whole-file read, each once, in order; every block holds as many
    rows as it reports, at most the gulp -/
theorem readPlan_covers (subs : List (List α)) (nsblk g s n k : Nat) (h : Shaped subs nsblk) (hn : 0 < nsblk)
    (ha : Accepted g n k) (hr : s + n ≤ subs.length * nsblk) :
    ∃ bs, readPlan subs nsblk g s n k = .ok bs ∧
      (match bs with
       | [] => []
       | b :: rest => b.2.2 ++ (rest.map (fun c => c.2.2.drop k)).flatten) = ((whole subs).drop s).take n ∧
      ∀ b ∈ bs, b.2.2.length = b.1 ∧ b.1 ≤ g := by
  refine ⟨_, readPlan_blocks subs nsblk g s n k h hn ha hr, ?_, ?_⟩
  · have hl := laid_eq_delivered (whole subs) k (expected g s n k)
    rw [expected_delivers g s n k ha, ← slice_eq_range] at hl
    exact hl
  · intro b hb
    obtain ⟨c, hc, rfl⟩ := List.mem_map.mp hb
    obtain ⟨_, hg, _, hin⟩ := expected_bounded g s n k ha c hc
    refine ⟨?_, hg⟩
    simp only [List.length_take, List.length_drop, whole_length subs nsblk h]
    omega

theorem readPlan_rejects (subs : List (List α)) (nsblk g s n k : Nat) (h : ¬ Accepted g n k) :
    ∃ e, readPlan subs nsblk g s n k = .error e := by
  refine ⟨.valueError, ?_⟩
  unfold readPlan
  by_cases h1 : k ≥ geff g n
  · simp [h1]
  · have h3 : lastread g n k < k := by
      unfold Accepted at h
      have : k < geff g n := by omega
      simp only [this, true_and, Classical.not_not] at h
      exact h
    simp [planBlocks, h1, h3]

/-- element-wise calibration / polarisation selection / frequency flip act per row: mapping any row function
    commutes with every read (position independence of scales, offsets, weights, flip) -/
theorem readBlock_map {β : Type} (f : α → β) (subs : List (List α)) (nsblk N : Nat) (s n : Int) :
    readBlock (subs.map (List.map f)) nsblk N s n = (readBlock subs nsblk N s n).map (List.map f) := by
  unfold readBlock
  by_cases hc : s < 0 ∨ s + n > (N : Int)
  · simp only [hc, ↓reduceIte]; rfl
  · simp only [hc, ↓reduceIte, readSubints_map, ← List.map_drop, ← List.map_take, List.length_map]
    split <;> rfl

/-! ## Non-vacuity -/
-- crosses a sub-integration boundary, unaligned start
example : readBlock [[0,1,2,3],[4,5,6,7],[8,9,10,11]] 4 12 3 5 = .ok [3,4,5,6,7] := rfl
-- aligned to sub-integration boundaries
example : readBlock [[0,1,2,3],[4,5,6,7],[8,9,10,11]] 4 12 4 8 = .ok [4,5,6,7,8,9,10,11] := rfl
-- the whole file
example : readBlock [[0,1,2,3],[4,5,6,7],[8,9,10,11]] 4 12 0 12 = .ok (whole [[0,1,2,3],[4,5,6,7],[8,9,10,11]]) := rfl
-- out of range: past the end, negative start
example : readBlock [[0,1,2,3],[4,5,6,7],[8,9,10,11]] 4 12 9 4 = .error .valueError := rfl
example : readBlock [[0,1,2,3],[4,5,6,7],[8,9,10,11]] 4 12 (-1) 4 = .error .valueError := rfl
-- gulp 5 (not a multiple of nsblk), skipback 1, start 1: blocks (len, ii, rows)
example : readPlan [[0,1,2,3],[4,5,6,7],[8,9,10,11]] 4 5 1 10 1
    = .ok [(5, 0, [1,2,3,4,5]), (5, 1, [5,6,7,8,9]), (2, 2, [9,10])] := rfl
example : Shaped [[0,1,2,3],[4,5,6,7],[8,9,10,11]] 4 := by unfold Shaped; decide
-- a plan that cannot be honoured is rejected
example : readPlan [[0,1,2,3],[4,5,6,7],[8,9,10,11]] 4 4 0 10 3 = .error .valueError := rfl

end SppModel.Pfits

import SppModel.Model.Rfi
import SppModel.Props.C07
/-!
# C16 — RFI cleaning masks exactly the flagged channels and nothing else

Mask composition as Boolean algebra on vectors, and the cleaned file as an
instance of C07's row-local streaming theorem.
-/
namespace SppModel.Rfi
open SppModel

theorem orM_length (a b : Mask) : (orM a b).length = a.length := by simp [orM]

theorem orM_get (a b : Mask) (i : Nat) (hi : i < a.length) :
    (orM a b).getD i false = (a.getD i false || b.getD i false) := by
  simp [orM, List.getD_eq_getElem?_getD, hi]

theorem step_length (st : St) (op : Op) : (step st op).chan.length = st.chan.length := by
  cases op <;> simp [step, applyMask, applyMethod, applyFuncn, orM]

/-- **Masks only ever add channels**: whatever is applied next, a masked channel stays masked. -/
theorem mask_monotone (st : St) (op : Op) (i : Nat) (hi : i < st.chan.length)
    (h : st.chan.getD i false = true) : (step st op).chan.getD i false = true := by
  cases op <;> simp only [step, applyMask, applyMethod, applyFuncn] <;>
    (rw [orM_get _ _ i hi, h]; rfl)

/-- along any sequence of mask applications -/
theorem mask_monotone_trace (st : St) (ops : List Op) (i : Nat) (hi : i < st.chan.length)
    (h : st.chan.getD i false = true) : ∀ s ∈ trace st ops, s.chan.getD i false = true := by
  induction ops generalizing st with
  | nil => intro s hs; simp [trace] at hs
  | cons op ops ih =>
    intro s hs
    simp only [trace, List.mem_cons] at hs
    have h1 := mask_monotone st op i hi h
    rcases hs with rfl | hs
    · exact h1
    · exact ih (step st op) (by rw [step_length]; exact hi) h1 s hs

/-- **User mask**: channel `i` is masked iff some closed range contains its centre frequency. -/
theorem user_mask_spec (freqs : List Rat) (ranges : List (Rat × Rat)) (i : Nat) (hi : i < freqs.length) :
    (userMask freqs ranges).getD i false = true ↔ ∃ r ∈ ranges, r.1 ≤ freqs.getD i 0 ∧ freqs.getD i 0 ≤ r.2 := by
  simp only [userMask, List.getD_eq_getElem?_getD, List.getElem?_map, List.getElem?_eq_getElem hi, Option.map_some,
    Option.getD_some, List.any_eq_true, Bool.and_eq_true, decide_eq_true_eq]

theorem user_mask_empty (freqs : List Rat) : userMask freqs [] = List.replicate freqs.length false := by
  induction freqs with
  | nil => rfl
  | cons f fs ih => simp only [userMask, List.map_cons, List.any_nil, List.length_cons, List.replicate_succ] at *; rw [ih]

/-- **Statistics mask**: outlier in variance OR skewness OR kurtosis. -/
theorem stats_mask_spec (st : St) (a b c : Mask) (i : Nat) (hi : i < st.chan.length) :
    (applyMethod st a b c).stats.getD i false = (a.getD i false || b.getD i false || c.getD i false) := by
  simp [applyMethod, List.getD_eq_getElem?_getD, hi]

theorem threshold_spec (z : List Rat) (thr : Rat) (i : Nat) (hi : i < z.length) :
    (thresholdMask z thr).getD i false = true ↔ (if z.getD i 0 < 0 then -(z.getD i 0) else z.getD i 0) > thr := by
  simp [thresholdMask, List.getD_eq_getElem?_getD, hi]

/-- **The returned channel mask is the union** of the user, statistics and custom masks. -/
theorem mask_union (n : Nat) (freqs : List Rat) (ranges : Option (List (Rat × Rat))) (a b c : Mask)
    (custom : Option Mask) (i : Nat) (hi : i < n) :
    let st := cleanRfi n freqs ranges a b c custom
    st.chan.getD i false = (st.user.getD i false || st.stats.getD i false || st.custom.getD i false) := by
  have hn : (init n).chan.length = n := by simp [init]
  cases ranges <;> cases custom <;>
    simp [cleanRfi, init, applyMask, applyMethod, applyFuncn, orM, List.getD_eq_getElem?_getD, hi]

theorem cleanRfi_length (n freqs ranges a b c custom) : (cleanRfi n freqs ranges a b c custom).chan.length = n := by
  cases ranges <;> cases custom <;> simp [cleanRfi, init, applyMask, applyMethod, applyFuncn, orM]

/-- **The cleaned file**: for every gulp, every sample of a masked channel equals the mask value and every
    other sample is the input's (instance of C07's `maskChannels_eq` and `maskRow_spec`). -/
theorem cleaned_file_spec (mask : Mask) (v : Int) (flat : List Int) (C g s n N : Nat)
    (hg : 0 < g) (hn : 0 < n) (hr : s + n ≤ N) :
    Transform.maskChannels mask v flat C g s n N
      = .ok ((List.range n).map (fun j => Transform.maskRow mask v (Transform.row flat C (s + j)))) :=
  Transform.maskChannels_eq mask v flat C g s n N hg hn hr

theorem cleaned_sample (mask : Mask) (v : Int) (r : List Int) (c : Nat) (hc : c < r.length) :
    (Transform.maskRow mask v r)[c]? = some (if mask.getD c false then v else r.getD c 0) :=
  Transform.maskRow_spec mask v r c hc

/-! ## Non-vacuity -/
example : (cleanRfi 4 [1500, 1498, 1496, 1494] (some [(1497, 1499)]) [false, false, true, false]
    [false, false, false, false] [false, false, false, false] (some [true, false, false, false])).chan
    = [true, true, true, false] := by decide +kernel
example : userMask [1500, 1498, 1496] [(1498, 1498)] = [false, true, false] := by decide +kernel

end SppModel.Rfi

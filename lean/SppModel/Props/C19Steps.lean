import SppModel.Model.ParallelSteps
/-!
# C19, step level — every interleaving of the atomic steps of a race-free loop gives the sequential result

`Props/C19.lean` treats whole iterations as atomic (any ORDER of iterations).  Threads really interleave the loads
and stores of different iterations; this file proves that this finer-grained freedom changes nothing either:
for step lists satisfying the same three conditions (stores inside the own footprint, values depending only on the
own footprint and on never-written memory, disjoint footprints - the conditions the generated `Prange` obligations
deliver for the index expressions of the source), EVERY interleaving that keeps program order inside each
iteration ends in the memory of the sequential loop.
-/
namespace SppModel.Parallel

/-- adjacent steps of different iterations commute -/
theorem step_comm {prog W} (L : StepRaceFree prog W) (i j : Nat) (p q : List Step) (s t : Step)
    (hi : prog[i]? = some p) (hj : prog[j]? = some q) (hs : s ∈ p) (ht : t ∈ q) (hne : i ≠ j) (m : Mem) :
    t.run (s.run m) = s.run (t.run m) := by
  have hWs : W i s.w := L.frame i p hi s hs
  have hWt : W j t.w := L.frame j q hj t ht
  have hw : s.w ≠ t.w := fun e => L.disjoint i j s.w hne hWs (e ▸ hWt)
  have hsf : s.f (t.run m) = s.f m := by
    apply L.local_ i p hi s hs
    intro a ha
    have : a ≠ t.w := fun e => ha j (Ne.symm hne) (e ▸ hWt)
    simp [Step.run, this]
  have htf : t.f (s.run m) = t.f m := by
    apply L.local_ j q hj t ht
    intro a ha
    have : a ≠ s.w := fun e => ha i hne (e ▸ hWs)
    simp [Step.run, this]
  funext a
  by_cases h1 : a = s.w
  · have h2 : a ≠ t.w := fun e => hw (h1.symm.trans e)
    simp [Step.run, h1, hw, hsf]
  · by_cases h2 : a = t.w
    · simp [Step.run, h2, Ne.symm hw, htf]
    · simp [Step.run, h1, h2]

/-- a step that commutes with every step of `xs` can be moved in front of `xs` -/
private theorem runSteps_comm_head (s : Step) (xs : List Step)
    (h : ∀ t ∈ xs, ∀ m, t.run (s.run m) = s.run (t.run m)) (m : Mem) :
    runSteps xs (s.run m) = s.run (runSteps xs m) := by
  induction xs generalizing m with
  | nil => rfl
  | cons t xs ih =>
    have ht := h t (List.mem_cons_self ..)
    have ih' := ih (fun t' ht' => h t' (List.mem_cons_of_mem _ ht'))
    show runSteps xs (t.run (s.run m)) = s.run (runSteps xs (t.run m))
    rw [ht, ih']

private theorem runSteps_append (xs ys : List Step) (m : Mem) :
    runSteps (xs ++ ys) m = runSteps ys (runSteps xs m) := by
  simp [runSteps, List.foldl_append]

/-- race freedom survives consuming the head of one list -/
private theorem StepRaceFree.set_tail {ps W} (L : StepRaceFree ps W) (k : Nat) (s : Step) (rest : List Step)
    (hk : ps[k]? = some (s :: rest)) : StepRaceFree (ps.set k rest) W := by
  have sub : ∀ (i : Nat) (p : List Step), (ps.set k rest)[i]? = some p → ∃ q, ps[i]? = some q ∧ ∀ x ∈ p, x ∈ q := by
    intro i p hp
    rw [List.getElem?_set] at hp
    by_cases hik : k = i
    · subst hik
      have hlt : k < ps.length := by
        rcases List.getElem?_eq_some_iff.mp hk with ⟨h, _⟩; exact h
      simp [hlt] at hp
      subst hp
      exact ⟨s :: rest, hk, fun x hx => List.mem_cons_of_mem _ hx⟩
    · simp [hik] at hp
      exact ⟨p, hp, fun x hx => hx⟩
  refine ⟨?_, ?_, L.disjoint⟩
  · intro i p hp x hx
    obtain ⟨q, hq, hsub⟩ := sub i p hp
    exact L.frame i q hq x (hsub x hx)
  · intro i p hp x hx
    obtain ⟨q, hq, hsub⟩ := sub i p hp
    exact L.local_ i q hq x (hsub x hx)

/-- the head of the `k`-th list may be executed first -/
private theorem runSteps_flatten_head {ps W} (L : StepRaceFree ps W) (k : Nat) (s : Step) (rest : List Step)
    (hk : ps[k]? = some (s :: rest)) (m : Mem) :
    runSteps ps.flatten m = runSteps (ps.set k rest).flatten (s.run m) := by
  obtain ⟨hlt, hget⟩ := List.getElem?_eq_some_iff.mp hk
  have hps : ps = ps.take k ++ (s :: rest) :: ps.drop (k + 1) := by
    rw [← hget]; simp
  have hset : ps.set k rest = ps.take k ++ rest :: ps.drop (k + 1) := by
    rw [List.set_eq_take_append_cons_drop]; simp [hlt]
  have hcomm : ∀ t ∈ (ps.take k).flatten, ∀ m, t.run (s.run m) = s.run (t.run m) := by
    intro t ht m
    obtain ⟨q, hq, htq⟩ := List.mem_flatten.mp ht
    obtain ⟨j, hjq⟩ := List.mem_iff_getElem?.mp hq
    rw [List.getElem?_take] at hjq
    by_cases hjk : j < k
    · simp [hjk] at hjq
      exact step_comm L k j (s :: rest) q s t hk hjq (List.mem_cons_self ..) htq (by omega) m
    · simp [hjk] at hjq
  rw [hset]
  conv => lhs; rw [hps]
  simp only [List.flatten_append, List.flatten_cons, runSteps_append]
  rw [runSteps_comm_head s _ hcomm m]
  rfl

private theorem interleave_independent_aux {W} (ps : List (List Step)) (l : List Step) (h : Interleave ps l) :
    StepRaceFree ps W → ∀ m : Mem, runSteps l m = runSteps ps.flatten m := by
  induction h with
  | done ps h =>
    intro _ m
    have : ps.flatten = [] := by
      rw [List.flatten_eq_nil_iff]; exact h
    rw [this]
  | step ps k s rest l hk tl ih =>
    intro L m
    rw [runSteps_flatten_head L k s rest hk m, ← ih (L.set_tail k s rest hk) (s.run m)]
    rfl

/-- **Step-level schedule independence**: every interleaving of the iterations' step lists equals running the
    iterations one after the other -/
theorem interleave_independent {prog W} (L : StepRaceFree prog W) (l : List Step) (h : Interleave prog l)
    (m : Mem) : runSteps l m = runSteps prog.flatten m :=
  interleave_independent_aux prog l h L m

/-- in particular any two interleavings (two runs, two thread counts, two chunk sizes) agree -/
theorem interleavings_agree {prog W} (L : StepRaceFree prog W) (l₁ l₂ : List Step)
    (h₁ : Interleave prog l₁) (h₂ : Interleave prog l₂) (m : Mem) : runSteps l₁ m = runSteps l₂ m := by
  rw [interleave_independent L l₁ h₁, interleave_independent L l₂ h₂]

private theorem Interleave.cons_nil {ps : List (List Step)} {l : List Step} (h : Interleave ps l) :
    Interleave ([] :: ps) l := by
  induction h with
  | done ps h =>
    refine Interleave.done _ ?_
    intro p hp
    rcases List.mem_cons.mp hp with rfl | hp
    · rfl
    · exact h p hp
  | step ps k s rest l hk tl ih =>
    exact Interleave.step ([] :: ps) (k + 1) s rest l (by simpa using hk) (by simpa using ih)

/-- the sequential program is itself an interleaving (so the statement is not vacuous) -/
theorem flatten_is_interleave (prog : List (List Step)) : Interleave prog prog.flatten := by
  induction prog with
  | nil => exact Interleave.done [] (by simp)
  | cons p ps ih =>
    induction p with
    | nil => simpa using ih.cons_nil
    | cons s rest ihp =>
      have : ((s :: rest) :: ps).flatten = s :: (rest :: ps).flatten := by simp
      rw [this]
      exact Interleave.step _ 0 s rest _ (by simp) (by simpa using ihp)

/-- non-vacuity: two iterations of two steps each (`out[i] = in[i]; out[i] = out[i] + 1` on cells `i`, reading
    cell `10 + i` that nobody writes) are race free -/
def exProg : List (List Step) :=
  [[⟨0, fun m => m 10⟩, ⟨0, fun m => m 0 + 1⟩], [⟨1, fun m => m 11⟩, ⟨1, fun m => m 1 + 1⟩]]

theorem exProg_racefree : StepRaceFree exProg (fun i a => a = i ∧ i < 2) := by
  refine ⟨?_, ?_, ?_⟩
  · intro i p hp s hs
    match i, hp with
    | 0, hp =>
      simp [exProg] at hp; subst hp
      simp at hs; rcases hs with rfl | rfl <;> simp
    | 1, hp =>
      simp [exProg] at hp; subst hp
      simp at hs; rcases hs with rfl | rfl <;> simp
    | (n + 2), hp => simp [exProg] at hp
  · intro i p hp s hs m m' hm
    match i, hp, hm with
    | 0, hp, hm =>
      simp [exProg] at hp; subst hp
      have h10 : m 10 = m' 10 := hm 10 (by intro j _ h; omega)
      have h0 : m 0 = m' 0 := hm 0 (by intro j hj h; omega)
      simp at hs; rcases hs with rfl | rfl <;> simp [h10, h0]
    | 1, hp, hm =>
      simp [exProg] at hp; subst hp
      have h11 : m 11 = m' 11 := hm 11 (by intro j _ h; omega)
      have h1 : m 1 = m' 1 := hm 1 (by intro j hj h; omega)
      simp at hs; rcases hs with rfl | rfl <;> simp [h11, h1]
    | (n + 2), hp, _ => simp [exProg] at hp
  · intro i j a hij hi hj
    omega

end SppModel.Parallel

import SppModel.Lemmas.Stream
/-!
C02: the multi-file `FileReader` (seek / cread / creadinto / read_block)
refines the flat byte-array model `flat fs` (concatenated data sections):
headers are never returned, positions agree, errors agree.
`Inv` and `abs` are defined in `SppModel.Lemmas.Stream`.
-/
namespace SppModel.Stream
open SppModel

variable {α : Type}

theorem total_eq_flat_length (fs : Files α) : total fs = (flat fs).length :=
  total_eq_flat_length' fs

theorem curPos_eq_abs (fs : Files α) (st : St) (h : Inv fs st) :
    curPos fs st = (abs fs st : Int) :=
  curPos_eq_abs' fs st h

theorem seekSet_ok (fs : Files α) (o : Int) (h0 : 0 ≤ o) (h1 : o < (total fs : Int)) :
    ∃ st', seekSet fs o = .ok st' ∧ Inv fs st' ∧ abs fs st' = o.toNat :=
  seekSet_ok' fs o h0 h1

theorem seekSet_rejects (fs : Files α) (o : Int) (h : o < 0 ∨ o ≥ (total fs : Int)) :
    seekSet fs o = .error .valueError :=
  seekSet_rejects' fs o h

/-- the read loop returns exactly the flat slice, never header bytes -/
theorem readLoop_spec (fs : Files α) (st : St) (B : Nat) (h : Inv fs st) :
    let r := readLoop fs fs.length st B []
    r.1 = ((flat fs).drop (abs fs st)).take B ∧ Inv fs r.2.1 ∧
    abs fs r.2.1 = min (abs fs st + B) (flat fs).length ∧
    r.2.2 = B - min B ((flat fs).length - abs fs st) := by
  have := readLoop_gen fs fs.length st B [] h (by omega)
  rwa [List.nil_append] at this

/-- one-step refinement -/
theorem step_refines (fs : Files α) (st : St) (hI : Inv fs st) (op : Op) :
    (step fs st op).1 = (specStep (flat fs) ⟨abs fs st⟩ op).1 ∧
    Inv fs (step fs st op).2 ∧
    (specStep (flat fs) ⟨abs fs st⟩ op).2.pos = (abs fs (step fs st op).2 : Int) := by
  cases op with
  | seek o w => exact step_seek_refines fs st hI o w
  | cread B => exact step_cread_refines fs st hI B
  | creadinto B => exact step_creadinto_refines fs st hI B

/-- every history: outputs and reported positions equal the byte-array model's -/
theorem history_refines (fs : Files α) (st : St) (hI : Inv fs st) (ops : List Op) :
    runOps fs st ops = specRun (flat fs) ⟨abs fs st⟩ ops := by
  induction ops generalizing st with
  | nil => rfl
  | cons op ops ih =>
    obtain ⟨e1, e2, e3⟩ := step_refines fs st hI op
    have e4 : (specStep (flat fs) ⟨abs fs st⟩ op).2 = ⟨abs fs (step fs st op).2⟩ := by
      cases hs : (specStep (flat fs) ⟨abs fs st⟩ op).2 with
      | mk p => rw [hs] at e3; rw [← e3]
    simp only [runOps, specRun]
    rw [ih _ e2, curPos_eq_abs fs _ e2, ← e4, e1, e3]

/-- a history that starts (from ANY state, e.g. `init`) with a successful
    absolute seek refines the spec afterwards -/
theorem history_after_seek (fs : Files α) (st0 : St) (o : Int) (h0 : 0 ≤ o)
    (h1 : o < (total fs : Int)) (ops : List Op) :
    runOps fs st0 (.seek o 0 :: ops) = (.unit, o) :: specRun (flat fs) ⟨o⟩ ops := by
  obtain ⟨st', e, hi, ha⟩ := seekSet_ok fs o h0 h1
  have ho : (abs fs st' : Int) = o := by omega
  simp only [runOps, step, seek, if_true, e]
  rw [history_refines fs st' hi, curPos_eq_abs fs st' hi, ho]

/-- read_block -/
theorem readBlock_in_range (fs : Files α) (stride nsamples : Nat) (s n : Int)
    (hT : total fs = nsamples * stride) (hs : 0 ≤ s) (hn : 0 < n) (hr : s + n ≤ nsamples)
    (hst : 0 < stride) :
    readBlock fs stride nsamples s n
      = .ok (((flat fs).drop (s.toNat * stride)).take (n.toNat * stride)) := by
  have hn' : ¬ (s < 0 ∨ s + n > (nsamples : Int)) := by omega
  obtain ⟨s', rfl⟩ := Int.eq_ofNat_of_zero_le hs
  obtain ⟨n', rfl⟩ := Int.eq_ofNat_of_zero_le (Int.le_of_lt hn)
  have hsn : s' + n' ≤ nsamples := by omega
  have hlen : s' * stride + n' * stride ≤ total fs := by
    rw [hT, ← Nat.add_mul]; exact Nat.mul_le_mul_right _ hsn
  have hpos : 0 < n' * stride := Nat.mul_pos (by omega) hst
  have hc : ((s' : Int) * (stride : Int)) = ((s' * stride : Nat) : Int) := (Int.natCast_mul _ _).symm
  obtain ⟨st', e, hi, ha⟩ := seekSet_ok fs ((s' * stride : Nat) : Int) (by omega) (by omega)
  rw [Int.toNat_natCast] at ha
  have hcr := cread_ok fs st' hi (n' * stride) (by rw [ha, ← total_eq_flat_length]; exact hlen)
  simp only [readBlock, hn', if_false, hc, e, Int.toNat_natCast]
  generalize cread fs (n' * stride) st' = r at hcr ⊢
  obtain ⟨x, y⟩ := r
  dsimp only at hcr
  subst hcr
  rw [ha]

theorem readBlock_out_of_range (fs : Files α) (stride nsamples : Nat) (s n : Int)
    (h : s < 0 ∨ s + n > nsamples) :
    readBlock fs stride nsamples s n = .error .valueError := by
  simp only [readBlock, h, if_true]

/-! ### the hypotheses are satisfiable: `exFiles` has 3 files, the middle one
    with an empty data section; `flat exFiles = [1,2,3,4,5]` -/

example : flat exFiles = [1, 2, 3, 4, 5] ∧ total exFiles = 5 := by decide

/-- `Inv` holds at the end of file 0, inside the empty file 1 and at the start
    of file 2, and all three abstract to the same flat position 3 -/
example : (Inv exFiles ⟨0, 5⟩ ∧ Inv exFiles ⟨1, 1⟩ ∧ Inv exFiles ⟨2, 3⟩) ∧
    abs exFiles ⟨0, 5⟩ = 3 ∧ abs exFiles ⟨1, 1⟩ = 3 ∧ abs exFiles ⟨2, 3⟩ = 3 := by
  unfold Inv; decide

/-- `readBlock_in_range` applies (stride 1, 5 samples) to a block that crosses
    the empty file, and the model computes the flat slice -/
example : readBlock exFiles 1 5 2 3 = .ok [3, 4, 5] := by
  rw [readBlock_in_range exFiles 1 5 2 3 (by decide) (by decide) (by decide) (by decide) (by decide)]
  rfl

/-- `history_after_seek` applies from `init` (which does NOT satisfy `Inv`),
    and the concrete run agrees with the spec on a history that crosses the
    empty file, over-reads, and seeks relatively -/
example : ¬ Inv exFiles init ∧
    runOps exFiles init [.seek 2 0, .cread 2, .creadinto 10, .seek (-3) 1, .cread 9]
      = [(.unit, 2), (.bytes [3, 4], 4), (.bytes [5], 5), (.unit, 2), (.err .valueError, 5)] := by
  refine ⟨by unfold Inv; decide, ?_⟩
  rw [history_after_seek exFiles init 2 (by decide) (by decide)]
  rfl

/-- the same two facts by direct evaluation of the executable model -/
example : readBlock exFiles 1 5 2 3 = .ok [3, 4, 5] ∧
    runOps exFiles init [.seek 2 0, .cread 2, .creadinto 10, .seek (-3) 1, .cread 9]
      = [(.unit, 2), (.bytes [3, 4], 4), (.bytes [5], 5), (.unit, 2), (.err .valueError, 5)] :=
  ⟨rfl, rfl⟩

end SppModel.Stream

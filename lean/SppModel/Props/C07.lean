import SppModel.Lemmas.Transform
/-!
# C07 — the streaming file-to-file transforms compute the whole-array transform

`invertFreq`, `maskChannels`, `extractSamps`, `extractChan`, `extractBand`,
`downsample` and `subband` (`Model/Transform.lean`) apply a per-block kernel to
the blocks of the C01 read plan and append the per-block outputs.  For every
in-range request and EVERY positive gulp the plan completes and the concatenated
output is the closed-form transform of samples `[s, s+n)`: the right number of
rows, each of the declared channel count, each the kernel applied to the
corresponding absolute sample(s).  No bound on `g s n N C`, the data, the mask or
the delays.
-/
namespace SppModel.Transform
open SppModel SppModel.Plan SppModel.Reduce

/-! ## Row-local transforms -/

/-- any row-local transform streamed with ANY gulp equals the transform applied row by row to the
    whole selected input -/
theorem rowLocal_stream (T : List Int → List Int) (flat : List Int) (C g s n N : Nat)
    (hg : 0 < g) (hn : 0 < n) (hr : s + n ≤ N) :
    streamRowLocal T flat C g s n N = .ok ((List.range n).map (fun j => T (row flat C (s + j)))) := by
  have h := expected_flatMap_rows g s n hg hn (fun p => T (row flat C p))
  simp only [streamRowLocal, blocksOf_zero g s n N hg hn hr, rowsOf, List.map_map, Function.comp_def, h]

theorem invertFreq_eq (flat : List Int) (C g s n N : Nat) (hg : 0 < g) (hn : 0 < n) (hr : s + n ≤ N) :
    invertFreq flat C g s n N = .ok ((List.range n).map (fun j => invertRow (row flat C (s + j)))) :=
  rowLocal_stream invertRow flat C g s n N hg hn hr

theorem maskChannels_eq (mask : List Bool) (v : Int) (flat : List Int) (C g s n N : Nat)
    (hg : 0 < g) (hn : 0 < n) (hr : s + n ≤ N) :
    maskChannels mask v flat C g s n N
      = .ok ((List.range n).map (fun j => maskRow mask v (row flat C (s + j)))) :=
  rowLocal_stream (maskRow mask v) flat C g s n N hg hn hr

theorem extractSamps_eq (flat : List Int) (C g s n N : Nat) (hg : 0 < g) (hn : 0 < n) (hr : s + n ≤ N) :
    extractSamps flat C g s n N = .ok ((List.range n).map (fun j => row flat C (s + j))) :=
  rowLocal_stream id flat C g s n N hg hn hr

theorem extractChan_eq (c : Nat) (flat : List Int) (C g s n N : Nat) (hg : 0 < g) (hn : 0 < n)
    (hr : s + n ≤ N) :
    extractChan c flat C g s n N = .ok ((List.range n).map (fun j => chanRow c (row flat C (s + j)))) :=
  rowLocal_stream (chanRow c) flat C g s n N hg hn hr

theorem extractBand_eq (a per : Nat) (flat : List Int) (C g s n N : Nat) (hg : 0 < g) (hn : 0 < n)
    (hr : s + n ≤ N) :
    extractBand a per flat C g s n N
      = .ok ((List.range n).map (fun j => bandRow a per (row flat C (s + j)))) :=
  rowLocal_stream (bandRow a per) flat C g s n N hg hn hr

/-! ## What the row kernels compute -/

theorem row_length (flat : List Int) (C t : Nat) : (row flat C t).length = C := by simp [row]

theorem row_get (flat : List Int) (C t c : Nat) (hc : c < C) : (row flat C t)[c]? = some (getS flat C t c) := by
  simp [row, hc]

/-- channel order reversed -/
theorem invertRow_get (r : List Int) (c : Nat) (hc : c < r.length) :
    (invertRow r)[c]? = r[r.length - 1 - c]? := by
  unfold invertRow
  exact List.getElem?_reverse hc

theorem invertRow_length (r : List Int) : (invertRow r).length = r.length := by simp [invertRow]

/-- masked channels become `v`, all others are bit-identical -/
theorem maskRow_spec (mask : List Bool) (v : Int) (r : List Int) (c : Nat) (hc : c < r.length) :
    (maskRow mask v r)[c]? = some (if mask.getD c false then v else r.getD c 0) := by
  simp [maskRow, hc]

theorem maskRow_length (mask : List Bool) (v : Int) (r : List Int) : (maskRow mask v r).length = r.length := by
  simp [maskRow]

theorem chanRow_spec (c : Nat) (r : List Int) : chanRow c r = [r.getD c 0] := rfl

theorem bandRow_spec (a per : Nat) (r : List Int) (j : Nat) (hj : j < per) (_ha : a + per ≤ r.length) :
    (bandRow a per r)[j]? = r[a + j]? := by
  simp [bandRow, hj]

theorem bandRow_length (a per : Nat) (r : List Int) (ha : a + per ≤ r.length) :
    (bandRow a per r).length = per := by
  simp [bandRow]; omega

/-- `extract_bands` writes `nchans / chanpersub` files whose first channels are `chanstart + i*chanpersub` -/
theorem bandStarts_spec (cs nch per : Nat) : (bandStarts cs nch per).length = nch / per ∧
    ∀ i, i < nch / per → (bandStarts cs nch per)[i]? = some (cs + i * per) := by
  refine ⟨by simp [bandStarts], ?_⟩
  intro i hi
  simp [bandStarts, hi]

/-! ## Decimation -/

theorem roundUp_spec (g tf : Nat) (htf : 0 < tf) :
    g ≤ roundUp g tf ∧ roundUp g tf % tf = 0 ∧ (0 < g → 0 < roundUp g tf) :=
  ⟨roundUp_ge g tf htf, Nat.mod_eq_zero_of_dvd (roundUp_dvd g tf), roundUp_pos g tf htf⟩

/-- with the gulp rounded up to a multiple of `tf`, block boundaries fall on group boundaries, so the
    streamed result is the whole-array block sum over consecutive FULL groups of `tf` samples
    (the remainder `n % tf` is dropped), for EVERY gulp -/
theorem downsample_stream (flat : List Int) (C tf ff g s n N : Nat) (htf : 0 < tf) (hff : 0 < ff)
    (hC : C % ff = 0) (hg : 0 < g) (hn : 0 < n) (hr : s + n ≤ N) :
    downsample flat C tf ff g s n N = .ok ((List.range (n / tf)).map (fun i =>
      (List.range (C / ff)).map (fun j =>
        ((List.range tf).map (fun a =>
          ((List.range ff).map (fun e => getS flat C (s + i * tf + a) (j * ff + e))).sum)).sum))) := by
  have hG := roundUp_pos g tf htf hg
  have hA := accepted_zero (roundUp g tf) n hG hn
  have h := expected_flatMap_groups (roundUp g tf) s n tf htf hA (geff_roundUp_dvd g tf n)
    (fun p => (List.range (C / ff)).map (fun j =>
      ((List.range tf).map (fun a =>
        ((List.range ff).map (fun e => getS flat C (p + a) (j * ff + e))).sum)).sum))
  have c1 : ¬ (tf = 0 ∨ ff = 0) := by omega
  have c2 : ¬ (C % ff ≠ 0) := by omega
  simp only [downsample, c1, c2, ↓reduceIte, blocksOf_zero (roundUp g tf) s n N hG hn hr]
  exact congrArg Except.ok h

/-! ## Sub-banding -/

/-- every output row `t < n - maxdelay` is the per-sub-band sum of delay-shifted channels of absolute
    sample `s + t`, for EVERY gulp (including `gulp < 2*maxdelay` and `gulp > n`) -/
theorem subband_stream (flat : List Int) (C : Nat) (delays : List Nat) (nsub g s n N : Nat)
    (hns : 0 < nsub) (hper : 0 < C / nsub) (hmd : maxDelay delays < n) (hg : 0 < g) (hr : s + n ≤ N) :
    subband flat C delays nsub g s n N
      = .ok ((List.range (n - maxDelay delays)).map (fun t => subbandRow flat C delays nsub (s + t))) := by
  have h := expected_flatMap _ s n _ _ (accepted_dedisp g n _ hmd hg) (mult_dedisp g n _)
    (fun _ p => subbandRow flat C delays nsub p)
  have c1 : ¬ (nsub = 0 ∨ C / nsub = 0) := by omega
  simp only [subband, c1, ↓reduceIte, blocksOf_dedisp g s n _ N hmd hg hr]
  exact congrArg Except.ok h

/-! ## Changing only the gulp never changes the output -/

theorem rowLocal_gulp_independent (T : List Int → List Int) (flat : List Int) (C g₁ g₂ s n N : Nat)
    (h₁ : 0 < g₁) (h₂ : 0 < g₂) (hn : 0 < n) (hr : s + n ≤ N) :
    streamRowLocal T flat C g₁ s n N = streamRowLocal T flat C g₂ s n N := by
  rw [rowLocal_stream T flat C g₁ s n N h₁ hn hr, rowLocal_stream T flat C g₂ s n N h₂ hn hr]

theorem downsample_gulp_independent (flat : List Int) (C tf ff g₁ g₂ s n N : Nat) (htf : 0 < tf)
    (hff : 0 < ff) (hC : C % ff = 0) (h₁ : 0 < g₁) (h₂ : 0 < g₂) (hn : 0 < n) (hr : s + n ≤ N) :
    downsample flat C tf ff g₁ s n N = downsample flat C tf ff g₂ s n N := by
  rw [downsample_stream flat C tf ff g₁ s n N htf hff hC h₁ hn hr,
    downsample_stream flat C tf ff g₂ s n N htf hff hC h₂ hn hr]

theorem subband_gulp_independent (flat : List Int) (C : Nat) (delays : List Nat) (nsub g₁ g₂ s n N : Nat)
    (hns : 0 < nsub) (hper : 0 < C / nsub) (hmd : maxDelay delays < n) (h₁ : 0 < g₁) (h₂ : 0 < g₂)
    (hr : s + n ≤ N) :
    subband flat C delays nsub g₁ s n N = subband flat C delays nsub g₂ s n N := by
  rw [subband_stream flat C delays nsub g₁ s n N hns hper hmd h₁ hr,
    subband_stream flat C delays nsub g₂ s n N hns hper hmd h₂ hr]

/-! ## Well-formedness of the output -/

/-- a row-local transform writes exactly one row per selected sample -/
theorem rowLocal_rows (T : List Int → List Int) (flat : List Int) (C g s n N : Nat)
    (hg : 0 < g) (hn : 0 < n) (hr : s + n ≤ N) (rows : List (List Int))
    (h : streamRowLocal T flat C g s n N = .ok rows) : rows.length = n := by
  rw [rowLocal_stream T flat C g s n N hg hn hr] at h
  injection h with h
  subst h
  simp

/-- … and every row has the width the kernel gives an `nchans`-wide row -/
theorem rowLocal_width (T : List Int → List Int) (W : Nat) (flat : List Int) (C g s n N : Nat)
    (hT : ∀ r : List Int, r.length = C → (T r).length = W)
    (hg : 0 < g) (hn : 0 < n) (hr : s + n ≤ N) (rows : List (List Int))
    (h : streamRowLocal T flat C g s n N = .ok rows) : ∀ r ∈ rows, r.length = W := by
  rw [rowLocal_stream T flat C g s n N hg hn hr] at h
  injection h with h
  subst h
  intro r hr'
  simp only [List.mem_map, List.mem_range] at hr'
  obtain ⟨j, _, rfl⟩ := hr'
  exact hT _ (row_length flat C (s + j))

/-- `n / tf` output samples of `nchans / ff` channels -/
theorem downsample_shape (flat : List Int) (C tf ff g s n N : Nat) (htf : 0 < tf) (hff : 0 < ff)
    (hC : C % ff = 0) (hg : 0 < g) (hn : 0 < n) (hr : s + n ≤ N) (rows : List (List Int))
    (h : downsample flat C tf ff g s n N = .ok rows) :
    rows.length = n / tf ∧ ∀ r ∈ rows, r.length = C / ff := by
  rw [downsample_stream flat C tf ff g s n N htf hff hC hg hn hr] at h
  injection h with h
  subst h
  refine ⟨by simp, ?_⟩
  intro r hr'
  simp only [List.mem_map, List.mem_range] at hr'
  obtain ⟨i, _, rfl⟩ := hr'
  simp

/-- `n - maxdelay` output samples of `nsub` channels -/
theorem subband_shape (flat : List Int) (C : Nat) (delays : List Nat) (nsub g s n N : Nat)
    (hns : 0 < nsub) (hper : 0 < C / nsub) (hmd : maxDelay delays < n) (hg : 0 < g) (hr : s + n ≤ N)
    (rows : List (List Int)) (h : subband flat C delays nsub g s n N = .ok rows) :
    rows.length = n - maxDelay delays ∧ ∀ r ∈ rows, r.length = nsub := by
  rw [subband_stream flat C delays nsub g s n N hns hper hmd hg hr] at h
  injection h with h
  subst h
  refine ⟨by simp, ?_⟩
  intro r hr'
  simp only [List.mem_map, List.mem_range] at hr'
  obtain ⟨t, _, rfl⟩ := hr'
  simp [subbandRow]

/-! ## Zero-DM removal -/

/-- for a bandpass-weighted row the exact result sums to the bandpass sum: the zero-DM component
    (the row sum `z`, distributed over channels by `bpass/Σbpass`) is removed exactly -/
theorem zerodmRow_sum (bpass : List Rat) (r : List Int) (hl : bpass.length = r.length) (hb : bpass.sum ≠ 0) :
    (zerodmRow bpass r).sum = bpass.sum := by
  unfold zerodmRow
  simp only
  rw [sum_zerodm_terms (List.range r.length) (fun c => ((r.getD c 0 : Int) : Rat)) (fun c => bpass.getD c 0)]
  have e1 : (List.range r.length).map (fun c => ((r.getD c 0 : Int) : Rat))
      = (List.range (r.map (fun (x : Int) => (x : Rat))).length).map
          (fun c => (r.map (fun (x : Int) => (x : Rat))).getD c 0) := by
    rw [List.length_map]
    apply List.map_congr_left
    intro c hc
    have hc' : c < r.length := List.mem_range.mp hc
    simp [List.getD_eq_getElem?_getD, hc']
  rw [e1, sum_range_getD, ← hl, sum_range_getD, div_self hb]
  ring

/-! ## Non-vacuity on concrete data -/

-- 4 samples × 2 channels, samples [1,4), gulp 2: two blocks ⟨0,1,2⟩ ⟨1,3,1⟩ …
example : blocksOf 2 1 3 0 4 = .ok [⟨0, 1, 2⟩, ⟨1, 3, 1⟩] := by rfl
example : invertFreq [1, 2, 3, 4, 5, 6, 7, 8] 2 2 1 3 4 = .ok [[4, 3], [6, 5], [8, 7]] := by rfl
-- … and a single block gives the same rows
example : invertFreq [1, 2, 3, 4, 5, 6, 7, 8] 2 100 1 3 4 = .ok [[4, 3], [6, 5], [8, 7]] := by rfl
example : maskChannels [false, true] 0 [1, 2, 3, 4, 5, 6, 7, 8] 2 3 0 4 4
    = .ok [[1, 0], [3, 0], [5, 0], [7, 0]] := by rfl
example : extractChan 1 [1, 2, 3, 4, 5, 6, 7, 8] 2 3 0 4 4 = .ok [[2], [4], [6], [8]] := by rfl
example : extractBand 1 2 [1, 2, 3, 4, 5, 6] 3 1 0 2 2 = .ok [[2, 3], [5, 6]] := by rfl
example : bandStarts 4 7 3 = [4, 7] := by rfl
-- decimation, 7 samples × 2 channels, tf = 3, ff = 2: gulp 4 is rounded up to 6 (tf ∤ 4), blocks
-- ⟨0,0,6⟩ ⟨1,6,1⟩; two full groups, the seventh sample is dropped; same with gulp 1 (→ 3) and 100
example : roundUp 4 3 = 6 := by rfl
example : blocksOf (roundUp 4 3) 0 7 0 7 = .ok [⟨0, 0, 6⟩, ⟨1, 6, 1⟩] := by rfl
example : downsample [1, 2, 3, 4, 5, 6, 7, 8, 9, 10, 11, 12, 13, 14] 2 3 2 4 0 7 7 = .ok [[21], [57]] := by rfl
example : downsample [1, 2, 3, 4, 5, 6, 7, 8, 9, 10, 11, 12, 13, 14] 2 3 2 1 0 7 7 = .ok [[21], [57]] := by rfl
example : downsample [1, 2, 3, 4, 5, 6, 7, 8, 9, 10, 11, 12, 13, 14] 2 3 2 100 0 7 7 = .ok [[21], [57]] := by rfl
-- the channel factor must divide the channel count
example : downsample [1, 2, 3, 4, 5, 6] 3 1 2 1 0 2 2 = .error .valueError := by rfl
-- sub-banding, 6 samples × 2 channels → 2 sub-bands, delays [0,2] (maxdelay 2): gulp 1 < 2*maxdelay
-- is raised to 4, overlapping blocks ⟨0,0,4⟩ ⟨1,2,4⟩ ⟨2,4,2⟩; 4 output rows for every gulp
example : subband [1, 2, 3, 4, 5, 6, 7, 8, 9, 10, 11, 12] 2 [0, 2] 2 1 0 6 6
    = .ok [[1, 6], [3, 8], [5, 10], [7, 12]] := by rfl
example : subband [1, 2, 3, 4, 5, 6, 7, 8, 9, 10, 11, 12] 2 [0, 2] 2 100 0 6 6
    = .ok [[1, 6], [3, 8], [5, 10], [7, 12]] := by rfl
-- one sub-band is dedispersion
example : subband [1, 2, 3, 4, 5, 6, 7, 8, 9, 10, 11, 12] 2 [0, 2] 1 3 0 6 6
    = .ok [[7], [11], [15], [19]] := by rfl
-- zero-DM: row [1,2,3] with flat bandpass [1,1,1] → [0,1,2], sum 3 = Σ bpass
example : (zerodmRow [1, 1, 1] [1, 2, 3]).sum = 3 := by decide +kernel

end SppModel.Transform

import SppModel.Lemmas.MatchedFilter
/-!
# C13 — the matched filter is a correlation with the reference bin placed at `t`

1. `roll` is `np.roll` (`roll_get`), and after "align the reference bin to 0, time-reverse,
   normalise" entry `j` of the prepared template is the normalised padded template at
   `(ref - j) mod n` (`prepTemplate_get`).
2. MAIN (`response_is_correlation`): the circular convolution of the data with the prepared
   template, read at bin `t`, is the inner product of the data with the normalised template
   whose reference bin sits at `t`.
3. the reported peak is the maximum of all responses at its first row-major location
   (`argmaxFirst_spec`, `peakOf_spec`).
4. consequences: a zero-mean template ignores a constant offset, the response is linear in
   the data, `normalize_template`'s mean makes the template zero-mean, and Cauchy–Schwarz
   bounds every response by the norms.
-/
namespace SppModel.MatchedFilter
open SppModel

/-! ## 1. `np.roll` and the prepared template -/

theorem roll_length (xs : List Rat) (s : Int) : (roll xs s).length = xs.length := roll_length' xs s

/-- np.roll index form: out[t] = x[(t - s) mod n] -/
theorem roll_get (xs : List Rat) (s : Int) (t : Nat) (ht : t < xs.length) :
    (roll xs s).getD t 0 = xs.getD ((((t : Int) - s) % (xs.length : Int)).toNat) 0 :=
  roll_getD xs s t ht

/-- after aligning the reference bin to 0 and time-reversing, entry j of the prepared template is
    the normalised padded template at (ref - j) mod n: no reversal or misalignment is left over -/
theorem prepTemplate_get (n : Nat) (kernel : List Rat) (ref : Nat) (mu sigma : Rat) (j : Nat) (hj : j < n) :
    (prepTemplate n kernel ref mu sigma).getD j 0
      = (normTemplate n kernel mu sigma).getD ((((ref : Int) - (j : Int)) % (n : Int)).toNat) 0 :=
  prepTemplate_getD n kernel ref mu sigma j hj

theorem prepTemplate_length (n : Nat) (kernel : List Rat) (ref : Nat) (mu sigma : Rat) :
    (prepTemplate n kernel ref mu sigma).length = n :=
  prepTemplate_length' n kernel ref mu sigma

/-! ## 2. the response is a correlation -/

/-- MAIN: the response at bin t is the inner product of the data with the normalised template
    whose reference bin is placed at t -/
theorem response_is_correlation (data kernel : List Rat) (ref : Nat) (mu sigma : Rat) (t : Nat)
    (ht : t < data.length) :
    (response data kernel ref mu sigma).getD t 0 = correlationAt data kernel ref mu sigma t :=
  response_getD data kernel ref mu sigma t ht

theorem response_length (data kernel : List Rat) (ref : Nat) (mu sigma : Rat) :
    (response data kernel ref mu sigma).length = data.length :=
  cconv_length _ _ _

/-- the whole response row, as a list of correlations -/
theorem response_eq_correlations (data kernel : List Rat) (ref : Nat) (mu sigma : Rat) :
    response data kernel ref mu sigma
      = (List.range data.length).map (correlationAt data kernel ref mu sigma) := by
  apply List.ext_getElem
  · rw [response_length, List.length_map, List.length_range]
  · intro t h1 h2
    have ht : t < data.length := by rwa [response_length] at h1
    have := response_is_correlation data kernel ref mu sigma t ht
    rw [List.getD_eq_getElem?_getD, List.getElem?_eq_getElem h1] at this
    rw [List.getElem_map, List.getElem_range]
    exact this

/-! ## 3. the reported peak -/

/-- reported S/N, peak bin and best template are the maximum of the responses and its
    (first, row-major) location -/
theorem argmaxFirst_spec (xs : List Rat) (h : xs ≠ []) :
    argmaxFirst xs < xs.length ∧ (∀ i, i < xs.length → xs.getD i 0 ≤ xs.getD (argmaxFirst xs) 0)
      ∧ (∀ i, i < argmaxFirst xs → xs.getD i 0 < xs.getD (argmaxFirst xs) 0) :=
  argmaxFirst_spec' xs h

theorem peakOf_spec (convs : List (List Rat)) (n : Nat) (hn : 0 < n) (hne : convs ≠ [])
    (hrect : ∀ r ∈ convs, r.length = n) :
    let p := peakOf convs
    p.1 < convs.length ∧ p.2 < n ∧
    (∀ i j, i < convs.length → j < n → (convs.getD i []).getD j 0 ≤ (convs.getD p.1 []).getD p.2 0) :=
  peakOf_spec' convs n hn hne hrect

/-! ## 4. affine behaviour and the Cauchy–Schwarz bound -/

/-- a zero-mean template ignores a constant added to the data -/
theorem correlation_add_const (data kernel : List Rat) (ref : Nat) (mu sigma c : Rat) (t : Nat)
    (hz : (normTemplate data.length kernel mu sigma).sum = 0) :
    correlationAt (data.map (· + c)) kernel ref mu sigma t = correlationAt data kernel ref mu sigma t :=
  correlation_add_const' data kernel ref mu sigma c t hz

/-- the response is linear in the data -/
theorem correlation_scale (data kernel : List Rat) (ref : Nat) (mu sigma a : Rat) (t : Nat) :
    correlationAt (data.map (a * ·)) kernel ref mu sigma t = a * correlationAt data kernel ref mu sigma t :=
  correlation_scale' data kernel ref mu sigma a t

/-- the mean-subtracted template is zero-mean when mu is its mean (so the hypothesis above is
    met by `normalize_template`) -/
theorem normTemplate_sum_zero (n : Nat) (kernel : List Rat) (sigma : Rat) (hn : 0 < n) :
    (normTemplate n kernel (((padTemplate n kernel).sum) / n) sigma).sum = 0 :=
  normTemplate_sum_zero' n kernel sigma hn

/-- Cauchy–Schwarz: no placement of a unit-norm template beats the norm of the data (the matching
    template attains it for a noiseless pulse).  The hypothesis `t < data.length` is not needed. -/
theorem correlation_sq_le (data kernel : List Rat) (ref : Nat) (mu sigma : Rat) (t : Nat)
    (_ht : t < data.length) :
    (correlationAt data kernel ref mu sigma t) ^ 2
      ≤ ((data.map (fun x => x ^ 2)).sum)
        * (((normTemplate data.length kernel mu sigma).map (fun x => x ^ 2)).sum) :=
  correlation_sq_le' data kernel ref mu sigma t

/-- the same bound for the model's output row -/
theorem response_sq_le (data kernel : List Rat) (ref : Nat) (mu sigma : Rat) (t : Nat)
    (ht : t < data.length) :
    ((response data kernel ref mu sigma).getD t 0) ^ 2
      ≤ ((data.map (fun x => x ^ 2)).sum)
        * (((normTemplate data.length kernel mu sigma).map (fun x => x ^ 2)).sum) := by
  rw [response_is_correlation data kernel ref mu sigma t ht]
  exact correlation_sq_le data kernel ref mu sigma t ht

/-! ## examples -/

/-- length-5 series, width-2 boxcar, reference bin 0 (mean 2/5 removed, unit scale):
    the pulse in bins 1–2 peaks at bin 1 -/
example : response [0, 1, 1, 0, 0] [1, 1] 0 (2 / 5) 1 = [1 / 5, 6 / 5, 1 / 5, -4 / 5, -4 / 5] := by
  decide +kernel

example : argmaxFirst (response [0, 1, 1, 0, 0] [1, 1] 0 (2 / 5) 1) = 1 := by decide +kernel

/-- the prepared boxcar: aligned at 0, time-reversed -/
example : prepTemplate 5 [1, 1] 0 0 1 = [1, 0, 0, 0, 1] := by decide +kernel

/-- a template whose reference bin is 1: the pulse `[1,2,3]` in bins 2–4 peaks at bin 3 -/
example : response [0, 0, 1, 2, 3] [1, 2, 3] 1 2 2 = [-9 / 2, -9 / 2, -2, 1, -2] := by decide +kernel

example : (List.range 5).map (correlationAt [0, 0, 1, 2, 3] [1, 2, 3] 1 2 2)
    = [-9 / 2, -9 / 2, -2, 1, -2] := by decide +kernel

example : argmaxFirst (response [0, 0, 1, 2, 3] [1, 2, 3] 1 2 2) = 3 := by decide +kernel

/-- row-major first maximum -/
example : peakOf [[1, 5, 2], [5, 0, 7]] = (1, 2) := by decide +kernel

/-- ties resolve to the first occurrence -/
example : argmaxFirst [1, 5, 2, 5] = 1 := by decide +kernel

end SppModel.MatchedFilter

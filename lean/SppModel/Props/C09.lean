import SppModel.Lemmas.Dedisp
/-!
# C09 — the dispersion delay law and the index form of every block path

1. `delayQ` (exact over ℚ) is the dispersion law rounded to the nearest sample
   (`roundHalfEven_*`, `delay_*`).
2. every block dedispersion path (`rollRow`/`blockDedisperse` circular,
   `blockDedisperseValid` valid-samples, `dmtTransform`, `readDedispBlock`) reads
   sample `t + d_c` of channel `c`; the paths agree where both are defined; a pulse
   synthesised with the delays is restored to one sample.
-/
namespace SppModel.Dedisp
open SppModel SppModel.Meta

/-! ## 1. the delay law -/

/-- round-half-even is odd -/
theorem roundHalfEven_neg (q : ℚ) : roundHalfEven (-q) = -roundHalfEven q := roundHalfEven_neg' q

theorem roundHalfEven_mono {a b : ℚ} (h : a ≤ b) : roundHalfEven a ≤ roundHalfEven b :=
  roundHalfEven_mono' h

theorem roundHalfEven_int (z : ℤ) : roundHalfEven (z : ℚ) = z := roundHalfEven_intCast z

/-- nearest sample -/
theorem roundHalfEven_close (q : ℚ) : |roundHalfEven q - q| ≤ 1 / 2 := roundHalfEven_close' q

theorem delay_zero_at_ref (dm f tsamp : ℚ) : delayQ dm f f tsamp = 0 := by
  unfold delayQ
  rw [sub_self, mul_zero, zero_div, roundHalfEven_zero]

theorem delay_antisymm (dm f fref tsamp : ℚ) :
    delayQ (-dm) f fref tsamp = -delayQ dm f fref tsamp := by
  unfold delayQ
  rw [← roundHalfEven_neg]
  congr 1; ring

/-- lower frequency arrives later -/
theorem delay_mono_freq (dm f₁ f₂ fref tsamp : ℚ) (hdm : 0 ≤ dm) (ht : 0 < tsamp) (h1 : 0 < f₁)
    (h12 : f₁ ≤ f₂) : delayQ dm f₂ fref tsamp ≤ delayQ dm f₁ fref tsamp :=
  roundHalfEven_mono (delayQ_mono_arg hdm ht h1 h12)

theorem delay_is_rounded_law (dm f fref tsamp : ℚ) :
    |delayQ dm f fref tsamp - KDM * dm * (1 / (f * f) - 1 / (fref * fref)) / tsamp| ≤ 1 / 2 :=
  roundHalfEven_close _

/-! ## 2. index form of the block paths -/

/-- circular: dedispersed row at `t` is `x[(t + d) mod n]` -/
theorem rollRow_get (row : List Int) (d : Int) (t : Nat) (ht : t < row.length) :
    (rollRow row (-d))[t]? = row[(((t : Int) + d) % (row.length : Int)).toNat]? :=
  rollRow_get' row d t ht

theorem rollRow_length (row : List Int) (s : Int) : (rollRow row s).length = row.length :=
  rollRow_length' row s

/-- dedispersing at `d` then at `-d` is the identity -/
theorem rollRow_inverse (row : List Int) (d : Int) : rollRow (rollRow row (-d)) d = row :=
  rollRow_inverse' row d

/-- (the length hypothesis is not needed: missing delays default to 0 on both passes) -/
theorem blockDedisperse_inverse (arr : List (List Int)) (d : List Int) (_hl : d.length = arr.length) :
    blockDedisperse (blockDedisperse arr d) (d.map (fun x => -x)) = arr :=
  blockDedisperse_inverse' arr d

/-- valid-samples variant: row `c` at `t` is `x[c, t + off + d_c]` with
`off = max(0, -min d)`, over the declared length `n - max(0, max d) - off` -/
theorem blockDedisperseValid_get (arr : List (List Int)) (d : List Int) (n : Nat)
    (hn : ∀ r ∈ arr, r.length = n) (hne : arr ≠ []) (_hl : d.length = arr.length)
    (out : List (List Int)) (h : blockDedisperseValid arr d = .ok out)
    (c t : Nat) (hc : c < arr.length) :
    let off := (maxI (d.map (fun x => -x))).toNat
    let L := n - off - (maxI d).toNat
    out.length = arr.length ∧ (out.getD c []).length = L ∧
      (t < L → (out.getD c [])[t]? = (arr.getD c [])[(t + off + (d.getD c 0)).toNat]?) := by
  dsimp only
  obtain ⟨hpos, rfl⟩ := blockDedisperseValid_ok arr d out h
  rw [getD_zero_length arr n hn hne] at hpos ⊢
  have hM := maxI_nonneg d
  have hO := maxI_nonneg (d.map (fun x => -x))
  have h1 := getD_le_maxI d c
  have h2 := neg_getD_le_maxI_neg d c
  have hrow : (arr.getD c []).length = n := hn _ (getD_mem_of_lt arr c [] hc)
  refine ⟨by simp, ?_, ?_⟩
  · rw [getD_map_range _ _ _ _ hc, List.length_take, List.length_drop, hrow]
    omega
  · intro ht
    rw [getD_map_range _ _ _ _ hc, List.getElem?_take, if_pos (by omega), List.getElem?_drop]
    congr 1
    omega

/-- each DM-time row is the channel sum of the dedispersed block at that row's delays -/
theorem dmtTransform_row (arr : List (List Int)) (table : List (List Int)) (i : Nat)
    (hi : i < table.length) :
    (dmtTransform arr table).getD i []
      = colSums (blockDedisperse arr (table.getD i [])) (arr.getD 0 []).length := by
  simp [dmtTransform, dmtBlock, blockDedisperse, List.getD_eq_getElem?_getD, hi]

/-- reading a dedispersed block: channel `c` holds stream samples `start + d_c + t` -/
theorem readDedispBlock_get (stream : List (List Int)) (N : Nat) (d : List Int) (start nsamps : Int)
    (out : List (List Int)) (_hN : ∀ r ∈ stream, r.length = N)
    (h : readDedispBlock stream N d start nsamps = .ok out) (c t : Nat)
    (hc : c < stream.length) (hdc : c < d.length) (ht : (t : Int) < nsamps) :
    (out.getD c [])[t]? = (stream.getD c [])[(start + d.getD c 0 + t).toNat]? := by
  unfold readDedispBlock at h
  split at h
  · cases h
  · rename_i hany
    injection h with h
    subst h
    have hge : 0 ≤ start + d.getD c 0 := by
      by_contra hneg
      exact hany (readDedisp_any N d start nsamps c hdc (Or.inl (by omega)))
    rw [getD_map_range _ _ _ _ hc, List.getElem?_take, if_pos (by omega), List.getElem?_drop]
    congr 1
    omega

theorem readDedispBlock_rejects (stream : List (List Int)) (N : Nat) (d : List Int)
    (start nsamps : Int) (c : Nat) (hc : c < d.length)
    (hbad : start + d.getD c 0 < 0 ∨ start + d.getD c 0 + nsamps > N) :
    readDedispBlock stream N d start nsamps = .error .valueError := by
  unfold readDedispBlock
  rw [if_pos (readDedisp_any N d start nsamps c hc hbad)]

/-- paths agree: for non-negative delays (max < n follows from success), the valid
variant is the prefix of the circular one, on every row -/
theorem valid_eq_roll_prefix (arr : List (List Int)) (d : List Int) (n : Nat)
    (hn : ∀ r ∈ arr, r.length = n) (hne : arr ≠ []) (hl : d.length = arr.length)
    (hd : ∀ x ∈ d, 0 ≤ x) (out : List (List Int)) (h : blockDedisperseValid arr d = .ok out)
    (c : Nat) (hc : c < arr.length) :
    out.getD c [] = ((blockDedisperse arr d).getD c []).take (n - (maxI d).toNat) := by
  obtain ⟨hpos, rfl⟩ := blockDedisperseValid_ok arr d out h
  rw [getD_zero_length arr n hn hne, maxI_map_neg_of_nonneg d hd] at hpos ⊢
  have hM := maxI_nonneg d
  have h1 := getD_le_maxI d c
  have h0 : 0 ≤ d.getD c 0 := hd _ (getD_mem_of_lt d c 0 (by omega))
  have hrow : (arr.getD c []).length = n := hn _ (getD_mem_of_lt arr c [] hc)
  rw [getD_map_range _ _ _ _ hc, blockDedisperse_row arr d c hc,
    rollRow_neg_of_lt _ _ h0 (by omega),
    List.take_append_of_le_length (by rw [List.length_drop]; omega)]
  congr 2 <;> omega

/-- a pulse synthesised with the delays is restored to a single sample: if the row is an
impulse at `t0 + d` (no wrap), the dedispersed row is an impulse at `t0`.
(The binders are annotated `(t : Nat)`: without it `(t : Int)` makes Lean coerce
`List.range n` to a `List Int` instead of casting the index.) -/
theorem pulse_restored (n t0 : Nat) (d : Int) (h0 : 0 ≤ (t0 : Int) + d) (h1 : (t0 : Int) + d < n)
    (ht0 : t0 < n) :
    rollRow ((List.range n).map (fun (t : Nat) => if (t : Int) = t0 + d then (1 : Int) else 0)) (-d)
      = (List.range n).map (fun (t : Nat) => if t = t0 then (1 : Int) else 0) := by
  apply List.ext_getElem?
  intro t
  by_cases ht : t < n
  · rw [rollRow_get _ d t (by simpa using ht)]
    have hn : (0 : Int) < n := by omega
    have hlt : ((((t : Int) + d) % (n : Int)).toNat) < n := by
      have := Int.emod_lt_of_pos ((t : Int) + d) hn
      have := Int.emod_nonneg ((t : Int) + d) hn.ne'
      omega
    simp only [List.length_map, List.length_range, List.getElem?_map, List.getElem?_range hlt,
      List.getElem?_range ht, Option.map_some, pulse_index n t t0 d h0 h1 ht0 ht]
  · have hle : n ≤ t := Nat.le_of_not_lt ht
    rw [List.getElem?_eq_none (by rw [rollRow_length]; simpa using hle),
      List.getElem?_eq_none (by simpa using hle)]

/-! ## concrete blocks -/

/-- 2×4 block, delays `[0,1]`: channel 1 is advanced by one sample (circularly) -/
example : blockDedisperse [[1, 2, 3, 4], [10, 20, 30, 40]] [0, 1] = [[1, 2, 3, 4], [20, 30, 40, 10]] := by
  decide
/-- the valid variant drops the wrapped sample -/
example : blockDedisperseValid [[1, 2, 3, 4], [10, 20, 30, 40]] [0, 1] = .ok [[1, 2, 3], [20, 30, 40]] := by
  decide
/-- … and is the prefix of the circular result -/
example : ([[1, 2, 3, 4], [20, 30, 40, 10]] : List (List Int)).map (·.take 3) = [[1, 2, 3], [20, 30, 40]] := by
  decide
/-- inverse: dedispersing at the negated delays restores the block -/
example : blockDedisperse (blockDedisperse [[1, 2, 3, 4], [10, 20, 30, 40]] [0, 1]) [0, -1]
    = [[1, 2, 3, 4], [10, 20, 30, 40]] := by decide
/-- negative delays: the window starts at `off = 1` -/
example : blockDedisperseValid [[1, 2, 3, 4], [10, 20, 30, 40]] [-1, 1] = .ok [[1, 2], [30, 40]] := by
  decide
/-- delays as large as the row leave no valid sample -/
example : blockDedisperseValid [[1, 2, 3, 4], [10, 20, 30, 40]] [0, 4] = .error .valueError := by
  decide
/-- DM–time rows: row 0 (no delay) and row 1 (delays `[0,1]`) -/
example : dmtTransform [[1, 2, 3, 4], [10, 20, 30, 40]] [[0, 0], [0, 1]]
    = [[11, 22, 33, 44], [21, 32, 43, 14]] := by decide
/-- reading a dedispersed block from a stream, and the rejected out-of-range read -/
example : readDedispBlock [[1, 2, 3, 4, 5], [10, 20, 30, 40, 50]] 5 [0, 2] 1 2 = .ok [[2, 3], [40, 50]] := by
  decide
example : readDedispBlock [[1, 2, 3, 4, 5], [10, 20, 30, 40, 50]] 5 [0, 2] 2 2 = .error .valueError := by
  decide
/-- an impulse injected at `t0 + d = 2 + 3` comes back at `t0 = 2` -/
example : rollRow [0, 0, 0, 0, 0, 1, 0, 0] (-3) = [0, 0, 1, 0, 0, 0, 0, 0] := by decide
/-- delays: zero at the reference, ties to even -/
example : roundHalfEven (5 / 2) = 2 ∧ roundHalfEven (7 / 2) = 4 ∧ roundHalfEven (-5 / 2) = -2 := by
  decide +kernel

end SppModel.Dedisp

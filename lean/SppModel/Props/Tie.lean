import SppModel.Generated.ReaderArith
import SppModel.Model.Plan
import SppModel.Model.Reduce
import SppModel.Model.Fold
import SppModel.Model.Transform
import SppModel.Model.Pfits
/-!
# Source tie: arithmetic regenerated from `readers.py` / `base.py` equals the hand model

`Generated/ReaderArith.lean` is re-translated from the current source on every
run.  The theorems here state that the hand-written models used by C01, C06,
C07, C11 and C18 compute exactly what the translated source text computes; a
source edit to the plan arithmetic, to a kernel's output index, to the gulp
adjustment or to the PSRFITS row arithmetic changes the generated term and
breaks the corresponding equation.
-/
namespace SppModel.Tie
open SppModel SppModel.Plan SppModel.Generated.ReaderArith

/-- the plan arithmetic of `FilReader.read_plan` IS the model's `geff / nreads / lastread` with its two rejections -/
theorem filreader_plan_arith (g n k : Nat) :
    FilReader_planArith g n k =
      (if k ≥ geff g n ∨ lastread g n k < k then none
       else some (geff g n, k, nreads g n k, lastread g n k)) := by
  unfold FilReader_planArith geff nreads lastread
  simp only [geff]
  by_cases h1 : k ≥ min n g
  · simp [h1]
  · simp only [h1, ↓reduceIte, false_or]
    by_cases h2 : min n g = n
    · have hk : ¬ n < k := by omega
      simp [h2, hk]
    · simp only [h2, ↓reduceIte]
      by_cases h3 : n % (min n g - k) < k
      · simp only [h3, ↓reduceIte]
        split <;> simp_all
      · simp only [h3, ↓reduceIte]
        split <;> simp_all

/-- hence the model's `planBlocks` rejects exactly where the source raises, and otherwise builds its block list from the source's numbers -/
theorem planBlocks_iff_source (g n k : Nat) :
    (∃ e, planBlocks g n k = .error e) ↔ FilReader_planArith g n k = none := by
  rw [filreader_plan_arith]
  unfold planBlocks
  by_cases h1 : k ≥ geff g n
  · simp [h1]
  · by_cases h2 : lastread g n k < k
    · simp [h1, h2]
    · simp [h1, h2]

/-- the PSRFITS reader uses the same plan arithmetic, token for token -/
theorem pfits_plan_arith_same : PFITSReader_planArith = FilReader_planArith := rfl

/-- `PFITSReader.read_block` row arithmetic is the model's -/
theorem pfits_row_arith (nsblk s n : Nat) :
    PFITSReader_rowArith nsblk s n = (s / nsblk, s % nsblk, (s % nsblk + n + nsblk - 1) / nsblk) := rfl

/-- call-site index expressions and gulp adjustments of the streaming loops (`base.py`) are the model's -/
theorem collapse_index_eq (g ii : Nat) : collapse_index g ii = ii * g := rfl
theorem read_chan_slice_eq (ii g r : Nat) : read_chan_slice ii g r = (ii * g, ii * g + r) := rfl
theorem dedisperse_index_eq (G ii md : Nat) : dedisperse_index G ii md = ii * (G - md) := rfl
theorem fold_index_eq (G ii md : Nat) : fold_index G ii md = ii * (G - md) := rfl
theorem dedisperse_gulp_eq (g md : Nat) : dedisperse_gulp g md = max (2 * md) g := rfl
theorem subband_gulp_eq (g md : Nat) : subband_gulp g md = max (2 * md) g := rfl
theorem fold_gulp_eq (g md : Nat) : fold_gulp g md = max (2 * md) g := rfl
theorem skipbacks_eq (md : Nat) : dedisperse_skipback md = md ∧ subband_skipback md = md ∧ fold_skipback md = md :=
  ⟨rfl, rfl, rfl⟩

/-- the model's `Reduce.dedisperse` / `Fold.fold` / `Transform.subband` use exactly these (definitional unfolding) -/
example (flat : List Int) (C : Nat) (delays : List Nat) (g s n N : Nat) :
    Reduce.dedisperse flat C delays g s n N =
      (let md := Reduce.maxDelay delays
       let G := dedisperse_gulp g md
       if n ≤ md then .error .valueError else
       match Reduce.blocksOf G s n (dedisperse_skipback md) N with
       | .error e => .error e
       | .ok bs => .ok (Reduce.applyAdd (List.replicate (n - md) 0) (Reduce.dedispWrites flat C delays md G bs))) := rfl

example : FilReader_planArith 4 10 3 = none := by decide
example : FilReader_planArith 4 10 1 = some (4, 1, 3, 1) := by decide
example : FilReader_planArith 16 8 7 = some (8, 7, 0, 8) := by decide

end SppModel.Tie

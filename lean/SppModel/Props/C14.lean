import SppModel.Lemmas.Filters
/-! C14 properties: running filters with symmetric reflection, decimators, linear detrend. -/
namespace SppModel.Filters

/-- the output has the input's length for EVERY width ≥ 1: odd, even, and wider than the data -/
theorem running_len (n w : Nat) (hw : 1 ≤ w) : runningLen n w = n := by
  unfold runningLen
  simp only []
  split <;> omega

theorem runningMean_length (x : List Rat) (w : Nat) (hw : 1 ≤ w) :
    (runningMean x w).length = x.length := by
  simp [runningMean, running_len _ _ hw]

/-- reflection stays in range and is the identity inside the array -/
theorem refl_lt (n : Nat) (i : Int) (hn : 0 < n) : refl n i < n := by
  have h0 : 0 ≤ i % (2 * n : Int) := Int.emod_nonneg _ (by omega)
  have h1 : i % (2 * n : Int) < 2 * n := Int.emod_lt_of_pos _ (by omega)
  unfold refl
  simp only
  split <;> omega

theorem refl_id (n : Nat) (i : Nat) (hi : i < n) : refl n (i : Int) = i := refl_eq_of_lt n i hi

/-- symmetric about both edges, edge value repeated: x[-1-k] ↦ x[k], x[n+k] ↦ x[n-1-k] -/
theorem refl_left (n k : Nat) (hk : k < n) : refl n (-1 - (k : Int)) = k := by
  have h : (-1 - (k : Int)) % (2 * n : Int) = 2 * n - 1 - k := by
    have : (-1 - (k : Int)) = (2 * n - 1 - k) + (2 * n : Int) * (-1) := by ring
    rw [this, Int.add_mul_emod_self_left]
    exact Int.emod_eq_of_lt (by omega) (by omega)
  unfold refl
  simp only [h]
  split <;> omega

theorem refl_right (n k : Nat) (hk : k < n) : refl n ((n : Int) + k) = n - 1 - k := by
  have h : ((n : Int) + k) % (2 * n : Int) = n + k := Int.emod_eq_of_lt (by omega) (by omega)
  unfold refl
  simp only [h]
  split <;> omega

/-- the window of output t is the w consecutive (reflected) positions starting at t - w/2:
    centred on t for odd w -/
theorem windowIdx_length (n w t : Nat) : (windowIdx n w t).length = w := by
  simp [windowIdx]

theorem windowIdx_get (n w t j : Nat) (hj : j < w) :
    (windowIdx n w t).getD j 0 = refl n ((t : Int) + j - ((w / 2 : Nat) : Int)) := by
  unfold windowIdx
  exact getD_map_range w _ 0 j hj

theorem windowIdx_centre (n w t : Nat) (hw : w % 2 = 1) (ht : t < n) :
    (windowIdx n w t).getD (w / 2) 0 = t := by
  rw [windowIdx_get n w t (w / 2) (by omega)]
  have : (t : Int) + ((w / 2 : Nat) : Int) - ((w / 2 : Nat) : Int) = t := by omega
  rw [this, refl_id n t ht]

/-- running mean = mean of that window -/
theorem runningMean_get (x : List Rat) (w t : Nat) (hw : 1 ≤ w) (ht : t < x.length) :
    (runningMean x w).getD t 0
      = ((windowIdx x.length w t).map (fun i => x.getD i 0)).sum / w := by
  unfold runningMean
  rw [running_len _ _ hw]
  exact getD_map_range x.length _ 0 t ht

/-- a constant series is a fixed point (every window reflects to in-range samples) -/
theorem runningMean_const (n w : Nat) (c : Rat) (hw : 1 ≤ w) :
    runningMean (List.replicate n c) w = List.replicate n c := by
  unfold runningMean
  rw [running_len _ _ hw, List.length_replicate]
  apply List.ext_getElem
  · simp
  · intro t h1 h2
    have htn : t < n := by simpa using h2
    have hwq : (w : Rat) ≠ 0 := by exact_mod_cast (by omega : w ≠ 0)
    have hwin : (windowIdx n w t).map (fun i => (List.replicate n c).getD i 0)
        = (List.range w).map (fun _ => c) := by
      unfold windowIdx
      rw [List.map_map]
      apply List.map_congr_left
      intro j _
      have := refl_lt n ((t : Int) + (j : Int) - ((w / 2 : Nat) : Int)) (by omega)
      simp only [Function.comp_apply, List.getD_eq_getElem?_getD, List.getElem?_replicate,
        if_pos this, Option.getD_some]
    simp only [List.getElem_map, List.getElem_range, List.getElem_replicate]
    rw [hwin, sum_map_const_range]
    field_simp

/-- decimation: means of consecutive full groups, the incomplete remainder dropped -/
theorem downsample1d_length (x : List Rat) (f : Nat) : (downsample1d x f).length = x.length / f := by
  simp [downsample1d]

theorem downsample1d_get (x : List Rat) (f i : Nat) (hi : i < x.length / f) :
    (downsample1d x f).getD i 0
      = ((List.range f).map (fun a => x.getD (i * f + a) 0)).sum / f := by
  unfold downsample1d
  exact getD_map_range _ _ 0 i hi

theorem downsample1d_one (x : List Rat) : downsample1d x 1 = x := by
  unfold downsample1d
  simp only [Nat.div_one, List.range_one, List.map_cons, List.map_nil, List.sum_cons, List.sum_nil,
    Nat.mul_one, Nat.cast_one, div_one, add_zero]
  exact map_range_getD x

/-- factor = length: one output, the overall mean -/
theorem downsample1d_full (x : List Rat) (hx : x ≠ []) :
    downsample1d x x.length = [x.sum / x.length] := by
  have hpos : 0 < x.length := List.length_pos_iff.mpr hx
  unfold downsample1d
  rw [Nat.div_self hpos]
  simp only [List.range_one, List.map_cons, List.map_nil]
  rw [map_range_getD_off]

/-- the compiled flat kernel's index arithmetic computes the 2-D decimation for EVERY shape
    (non-square too): row/column roles are right -/
theorem flat_eq_2d (x : List Rat) (d1 d2 f1 f2 : Nat) :
    downsample2dFlat x d1 d2 f1 f2 = (downsample2d x d1 d2 f1 f2).flatten := by
  unfold downsample2dFlat downsample2d
  rw [List.flatMap_def]
  have hidx : ∀ i j a b : Nat,
      d2 * i * f1 + j * f2 + a * d2 + b = (i * f1 + a) * d2 + (j * f2 + b) := by
    intro i j a b; ring
  simp only [hidx]

theorem downsample2d_shape (x : List Rat) (d1 d2 f1 f2 : Nat) :
    (downsample2d x d1 d2 f1 f2).length = d1 / f1
      ∧ ∀ r ∈ downsample2d x d1 d2 f1 f2, r.length = d2 / f2 := by
  unfold downsample2d
  refine ⟨by simp, ?_⟩
  intro r hr
  rw [List.mem_map] at hr
  obtain ⟨i, _, rfl⟩ := hr
  simp

/-- linear detrending returns the least-squares residual: it satisfies both normal equations -/
theorem detrend_length (x : List Rat) : (detrend x).length = x.length := by
  unfold detrend
  simp only
  split <;> simp

theorem detrend_normal_eqs (x : List Rat) (hm : 2 ≤ x.length) :
    (detrend x).sum = 0
      ∧ ((List.range x.length).map
          (fun (i : Nat) => ((i : Nat) : Rat) * (detrend x).getD i 0)).sum = 0 := by
  have hq : (2 : Rat) ≤ (x.length : Rat) := by exact_mod_cast hm
  have hq0 : (x.length : Rat) ≠ 0 := by linarith
  have hD := lsq_den_ne (x.length : Rat) hq
  have hnot : ¬ x.length ≤ 1 := by omega
  have hys : ((List.range x.length).map (fun i => x.getD i 0)).sum = x.sum := by
    rw [map_range_getD]
  constructor
  · unfold detrend
    simp only [if_neg hnot]
    rw [sum_range_sub_line, sum_range_id, hys]
    field_simp
    ring
  · have hget : (List.range x.length).map
          (fun (i : Nat) => ((i : Nat) : Rat) * (detrend x).getD i 0)
        = (List.range x.length).map (fun (i : Nat) => ((i : Nat) : Rat) *
            (x.getD i 0 - ((((x.length : Rat) *
              ((List.range x.length).map (fun (i : Nat) => ((i : Nat) : Rat) * x.getD i 0)).sum
                - (x.length : Rat) * ((x.length : Rat) - 1) / 2 * x.sum)
              / ((x.length : Rat) * ((x.length : Rat) * ((x.length : Rat) - 1)
                    * (2 * (x.length : Rat) - 1) / 6)
                  - (x.length : Rat) * ((x.length : Rat) - 1) / 2
                    * ((x.length : Rat) * ((x.length : Rat) - 1) / 2))) * ((i : Nat) : Rat)
              + (x.sum - (((x.length : Rat) *
              ((List.range x.length).map (fun (i : Nat) => ((i : Nat) : Rat) * x.getD i 0)).sum
                - (x.length : Rat) * ((x.length : Rat) - 1) / 2 * x.sum)
              / ((x.length : Rat) * ((x.length : Rat) * ((x.length : Rat) - 1)
                    * (2 * (x.length : Rat) - 1) / 6)
                  - (x.length : Rat) * ((x.length : Rat) - 1) / 2
                    * ((x.length : Rat) * ((x.length : Rat) - 1) / 2)))
                * ((x.length : Rat) * ((x.length : Rat) - 1) / 2)) / (x.length : Rat)))) := by
      apply List.map_congr_left
      intro i hi
      have hi' : i < x.length := List.mem_range.mp hi
      unfold detrend
      simp only [if_neg hnot]
      rw [getD_map_range _ _ _ _ hi']
    rw [hget, sum_range_mul_sub_line, sum_range_id, sum_range_sq]
    exact lsq_normal2 _ _ _ _ _ hq0 hD

theorem detrend_single (a : Rat) : detrend [a] = [0] := by
  simp [detrend]

/-- a straight line is removed exactly -/
theorem detrend_line (m : Nat) (a b : Rat) (hm : 2 ≤ m) :
    detrend ((List.range m).map (fun (i : Nat) => a * ((i : Nat) : Rat) + b))
      = List.replicate m 0 := by
  have hq : (2 : Rat) ≤ (m : Rat) := by exact_mod_cast hm
  have hq0 : (m : Rat) ≠ 0 := by linarith
  have hD := lsq_den_ne (m : Rat) hq
  have hnot : ¬ m ≤ 1 := by omega
  have hxy : ((List.range m).map (fun (i : Nat) => ((i : Nat) : Rat) *
        ((List.range m).map (fun (i : Nat) => a * ((i : Nat) : Rat) + b)).getD i 0)).sum
      = a * ((m : Rat) * ((m : Rat) - 1) * (2 * (m : Rat) - 1) / 6)
        + b * ((m : Rat) * ((m : Rat) - 1) / 2) := by
    rw [← sum_range_mul_line]
    congr 1
    apply List.map_congr_left
    intro i hi
    rw [getD_map_range _ _ _ _ (List.mem_range.mp hi)]
  unfold detrend
  simp only [List.length_map, List.length_range, if_neg hnot]
  rw [hxy, sum_range_line]
  have hslope : ((m : Rat) * (a * ((m : Rat) * ((m : Rat) - 1) * (2 * (m : Rat) - 1) / 6)
        + b * ((m : Rat) * ((m : Rat) - 1) / 2))
      - (m : Rat) * ((m : Rat) - 1) / 2 * (a * ((m : Rat) * ((m : Rat) - 1) / 2) + (m : Rat) * b))
      / ((m : Rat) * ((m : Rat) * ((m : Rat) - 1) * (2 * (m : Rat) - 1) / 6)
        - (m : Rat) * ((m : Rat) - 1) / 2 * ((m : Rat) * ((m : Rat) - 1) / 2)) = a := by
    rw [div_eq_iff hD]; ring
  rw [hslope]
  apply List.ext_getElem
  · simp
  · intro i h1 h2
    have hi : i < m := by simpa using h1
    simp only [List.getElem_map, List.getElem_range, List.getElem_replicate]
    rw [getD_map_range _ _ _ _ hi]
    field_simp
    ring

/-! ### concrete checks -/

/-- odd width: centred window, symmetric reflection at both edges -/
example : runningMean [1, 2, 3, 4] 3 = [4 / 3, 2, 3, 11 / 3] := by decide +kernel
/-- even width -/
example : runningMean [1, 2, 3, 4] 2 = [1, 3 / 2, 5 / 2, 7 / 2] := by decide +kernel
/-- wider than the data: still `n` outputs -/
example : runningMean [1, 2, 3, 4] 7 = [16 / 7, 17 / 7, 18 / 7, 19 / 7] := by decide +kernel
example : windowIdx 4 7 0 = [2, 1, 0, 0, 1, 2, 3] := by decide +kernel
/-- non-square shapes: 2×4 with factors (2,2), 2×3 with factors (1,3) and (2,1) -/
example : downsample2dFlat [1, 2, 3, 4, 5, 6, 7, 8] 2 4 2 2 = [7 / 2, 11 / 2] := by decide +kernel
example : downsample2dFlat [1, 2, 3, 4, 5, 6] 2 3 1 3 = [2, 5] := by decide +kernel
example : downsample2dFlat [1, 2, 3, 4, 5, 6] 2 3 2 1 = [5 / 2, 7 / 2, 9 / 2] := by decide +kernel
/-- detrending a quadratic `i²` (i < 4): residual of the least-squares line `3 i − 1` -/
example : detrend [0, 1, 4, 9] = [1, -1, -1, 1] := by decide +kernel

end SppModel.Filters

import SppModel.Lemmas.Writer
/-!
# C20 — streaming writers are append-only: every truncation at or after the header is a readable prefix

Model: `SppModel/Model/Writer.lean` (`Op`, `apply`, `states`, `writerOps`, `final`, `truncationOk`);
the inventory of file operations the library's writers perform is GENERATED from the source
(`SppModel/Generated/WriterOps.lean`).  The reader is the C04 model `Samples.readFil`
(header parse, sample count inferred from the file length, decode).
-/
namespace SppModel.Writer
open SppModel SppModel.Samples

/-- output is append-only: every operation after the open leaves the previous bytes as a prefix -/
theorem append_only (file : Bytes) (op : Op) (h : op ≠ .openTrunc) : file <+: apply file op :=
  prefix_apply file op h

/-- state after `openTrunc`, after `write hdr`, after each `cwrite` (in time order), after `close`:
    after the header write and `j` block writes the file is `hdr ++` the first `j` blocks -/
theorem states_writerOps (hdr : Bytes) (blocks : List Bytes) :
    states [] (writerOps hdr blocks)
      = [] :: hdr :: ((List.range blocks.length).map (fun j => hdr ++ (blocks.take (j + 1)).flatten))
          ++ [final hdr blocks] :=
  states_writerOps_eq hdr blocks

/-- indexed form: the state after the header write and `j ≤ blocks.length` block writes -/
theorem state_after (hdr : Bytes) (blocks : List Bytes) (j : Nat) (hj : j ≤ blocks.length) :
    (states [] (writerOps hdr blocks))[j + 1]? = some (hdr ++ (blocks.take j).flatten) :=
  states_writerOps_get hdr blocks j hj

/-- every state after the header write starts with the complete header and is a prefix of the
    final file -/
theorem prefix_chain (hdr : Bytes) (blocks : List Bytes) :
    ∀ s ∈ (states [] (writerOps hdr blocks)).tail, hdr <+: s ∧ s <+: final hdr blocks := by
  intro s hs
  rw [states_writerOps_eq, List.tail_cons] at hs
  rcases List.mem_cons.mp hs with rfl | hs
  · exact ⟨List.prefix_refl _, List.prefix_append _ _⟩
  rcases List.mem_append.mp hs with hs | hs
  · obtain ⟨j, -, rfl⟩ := List.mem_map.mp hs
    exact ⟨List.prefix_append _ _,
      (List.prefix_append_right_inj _).mpr (take_flatten_prefix blocks (j + 1))⟩
  · rw [List.mem_singleton.mp hs]
    exact ⟨List.prefix_append _ _, List.prefix_refl _⟩

/-- strengthening: the states after the open are ordered — each one is a prefix of every later one -/
theorem prefix_chain_ordered (hdr : Bytes) (blocks : List Bytes) :
    List.Pairwise (· <+: ·) (states [] (writerOps hdr blocks)).tail := by
  have h := states_pairwise [] (.write hdr :: (blocks.map .cwrite ++ [.close])) (by
    intro op hop
    rcases List.mem_cons.mp hop with rfl | hop
    · exact Op.noConfusion
    rcases List.mem_append.mp hop with hop | hop
    · obtain ⟨b, -, rfl⟩ := List.mem_map.mp hop
      exact Op.noConfusion
    · rw [List.mem_singleton.mp hop]; exact Op.noConfusion)
  exact (List.pairwise_cons.mp h).2

/-- the header is never patched: every later state agrees with the header on its first
    `hdr.length` bytes -/
theorem header_never_patched (hdr : Bytes) (blocks : List Bytes) :
    ∀ s ∈ (states [] (writerOps hdr blocks)).tail, s.take hdr.length = hdr :=
  fun s hs => (List.prefix_iff_eq_take.mp (prefix_chain hdr blocks s hs).1).symm

/-- when the call returns the file is complete -/
theorem complete_on_return (hdr : Bytes) (blocks : List Bytes) :
    (states [] (writerOps hdr blocks)).getLast? = some (final hdr blocks) := by
  rw [states_writerOps]; exact List.getLast?_concat

/-- MAIN: every byte-length truncation at or after the header reads back, with the library's
    reader model, as exactly the first `k` complete samples -/
theorem truncation_readable (kvs : List (Sigproc.Bytes × Sigproc.Val))
    (hk : ∀ kv ∈ kvs, Sigproc.EntryWF kv)
    (d C n : Nat) (hd : Samples.Depth d) (hC : 0 < C) (hb : (C * d) % 8 = 0)
    (hnb : Samples.lookupU32 kvs "nbits" = some d) (hnc : Samples.lookupU32 kvs "nchans" = some C)
    (ws : List Nat) (hl : ws.length = n * C) (hr : Samples.InRange d ws) (bs : List Nat)
    (he : Samples.encodeSamples d ws = .ok bs)
    (L : Nat) (h1 : (Sigproc.encodeHeader kvs).length ≤ L)
    (h2 : L ≤ (Sigproc.encodeHeader kvs ++ bs).length) :
    let k := Samples.inferNsamples (L - (Sigproc.encodeHeader kvs).length) d C
    k ≤ n ∧ Samples.readFil ((Sigproc.encodeHeader kvs ++ bs).take L) = .ok (d, C, k, ws.take (k * C)) :=
  truncation_readable_aux kvs hk d C n hd hC hb hnb hnc ws hl hr bs he L h1 h2

/-- a longer truncation never loses samples: the inferred count is monotone in the cut -/
theorem truncation_mono (L L' H d C : Nat) (h : L ≤ L') :
    Samples.inferNsamples (L - H) d C ≤ Samples.inferNsamples (L' - H) d C :=
  infer_mono _ _ d C (Nat.sub_le_sub_right h H)

/-- corollary for block-wise writers.  `wss` are the per-block sample lists, each a whole number
    of samples (`length % C = 0`) and in range; `blocks` are their encodings
    (`wss.map (encodeSamples d) = blocks.map .ok`).  The state after the header write and `j` block
    writes reads back as exactly the samples of the first `j` blocks, which are a prefix of all the
    samples.  (`j = 0`: the bare header reads back as 0 samples; `j = wss.length`: the full file.) -/
theorem state_readable (kvs : List (Sigproc.Bytes × Sigproc.Val))
    (hk : ∀ kv ∈ kvs, Sigproc.EntryWF kv)
    (d C : Nat) (hd : Samples.Depth d) (hC : 0 < C) (hb : (C * d) % 8 = 0)
    (hnb : Samples.lookupU32 kvs "nbits" = some d) (hnc : Samples.lookupU32 kvs "nchans" = some C)
    (wss : List (List Nat)) (hws : ∀ w ∈ wss, w.length % C = 0 ∧ Samples.InRange d w)
    (blocks : List Bytes) (hblk : wss.map (Samples.encodeSamples d) = blocks.map Except.ok)
    (j : Nat) (hj : j ≤ wss.length) :
    ∃ s, (states [] (writerOps (Sigproc.encodeHeader kvs) blocks))[j + 1]? = some s ∧
      Samples.readFil s
        = .ok (d, C, (wss.take j).flatten.length / C, (wss.take j).flatten) ∧
      (wss.take j).flatten <+: wss.flatten := by
  have hbm : blocks = wss.map (encP d) := encode_blocks_eq_map hblk
  have hjb : j ≤ blocks.length := by rw [hbm, List.length_map]; exact hj
  refine ⟨_, states_writerOps_get _ blocks j hjb, ?_, take_flatten_prefix wss j⟩
  have hws' : ∀ w ∈ wss.take j, w.length % C = 0 ∧ Samples.InRange d w :=
    fun w hw => hws w (List.mem_of_mem_take hw)
  have hflat : (blocks.take j).flatten = encP d (wss.take j).flatten := by
    rw [hbm, ← List.map_take]
    exact encP_flatten hd _ (fun w hw => wholeBytes_of_samples hb (hws' w hw).1)
  rw [hflat]
  have hdiv := flatten_length_dvd C (wss.take j) (fun w hw => (hws' w hw).1)
  refine readback_fil kvs hk d C _ hd hC hb hnb hnc _ ?_ ?_ _ (encodeSamples_ok hd _)
  · exact (Nat.div_mul_cancel (Nat.dvd_of_mod_eq_zero hdiv)).symm
  · intro x hx
    obtain ⟨w, hw, hxw⟩ := List.mem_flatten.mp hx
    exact (hws' w hw).2 x hxw

/-- the same with the library's `cwrite` producing the blocks (any in-memory dtype for which
    every `cwrite` succeeded) -/
theorem state_readable_cwrite (kvs : List (Sigproc.Bytes × Sigproc.Val))
    (hk : ∀ kv ∈ kvs, Sigproc.EntryWF kv)
    (d C : Nat) (hd : Samples.Depth d) (hC : 0 < C) (hb : (C * d) % 8 = 0)
    (hnb : Samples.lookupU32 kvs "nbits" = some d) (hnc : Samples.lookupU32 kvs "nchans" = some C)
    (dt : Samples.DType)
    (wss : List (List Nat)) (hws : ∀ w ∈ wss, w.length % C = 0 ∧ Samples.InRange d w)
    (blocks : List Bytes) (hblk : wss.map (Samples.cwrite d dt) = blocks.map Except.ok)
    (j : Nat) (hj : j ≤ wss.length) :
    ∃ s, (states [] (writerOps (Sigproc.encodeHeader kvs) blocks))[j + 1]? = some s ∧
      Samples.readFil s
        = .ok (d, C, (wss.take j).flatten.length / C, (wss.take j).flatten) ∧
      (wss.take j).flatten <+: wss.flatten :=
  state_readable kvs hk d C hd hC hb hnb hnc wss hws blocks (encode_blocks_of_cwrite hblk) j hj

/-- the generated inventory: the only operations ever applied to an output file object are
    open('w+'), write, tofile, close (+ the read-only tell/fileno queries); `prep_outfile` writes the
    header exactly once, first; call sites only call cwrite/write/close.  Proved by evaluation of the
    GENERATED definitions, so a source change adding e.g. a `seek` re-checks (and breaks) it. -/
theorem writer_ops_inventory :
    (∀ o ∈ Generated.WriterOps.fileObjOps, o ∈ ["close", "fileno", "tell", "tofile", "write"]) ∧
    Generated.WriterOps.prepOutfileSeq = ["open", "write", "return"] ∧
    Generated.WriterOps.prepOutfileMode = "w+" ∧
    Generated.WriterOps.opener = "io.FileIO" ∧
    (∀ p ∈ Generated.WriterOps.siteOps, p.2 ∈ ["cwrite", "write", "close"]) ∧
    (∀ t ∈ Generated.WriterOps.tofileTargets, t = "self.file_obj") := by
  decide +kernel

/-- every *occurrence* of a writer variable in a function that writes an output file is the receiver of a
    direct `cwrite`/`write`/`close` call, a `with` item, or a read of `.name`; the writer object never escapes
    (no `w.file_obj…`, no passing it on), and these functions make no call into `os`/`shutil`/`io`/`mmap`/
    `fcntl`/`open`/`tempfile` and never ask for a file descriptor.  So the only way bytes reach an output
    file is the modelled `write`/`cwrite` sequence (no preallocation, truncation or positional write). -/
theorem writer_site_uses :
    (∀ p ∈ Generated.WriterOps.siteUses, p.2 ∈ ["call:cwrite", "call:write", "call:close", "with", "attr:name"]) ∧
    Generated.WriterOps.siteForeignCalls = [] := by
  decide +kernel

/-! ## Examples / non-vacuity: an 8-bit, 2-channel file, 3 samples written as blocks of 1 and 2 samples
(`exKvs`, `exHdr`, `exBlocks`, `exFile` are defined in `SppModel/Lemmas/Writer.lean`; the header is 57 bytes) -/

/-- its states: empty after the open, the header, header + block 1, header + both blocks, and the
    same after close -/
example : states [] (writerOps exHdr exBlocks)
    = [[], exHdr, exHdr ++ [0, 255], exHdr ++ [0, 255, 17, 200, 3, 128],
        exHdr ++ [0, 255, 17, 200, 3, 128]] := by decide +kernel

example : exHdr.length = 57 ∧ exFile.length = 63 := by decide +kernel

/-- a cut in the middle of the second sample reads back the first sample only -/
example : truncationOk exFile 57 60 = true := by decide +kernel
example : readFil (exFile.take 60) = .ok (8, 2, 1, [0, 255]) := by rfl

/-- every cut from the end of the header to the end of the file is a readable prefix -/
example : ∀ L ∈ List.range' 57 7, truncationOk exFile 57 L = true := by decide +kernel

/-- the hypothesis `hdr.length ≤ L` is needed: a cut inside the header does not parse -/
example : truncationOk exFile 57 56 = false := by decide +kernel

/-- `truncation_readable` instantiated on it (L = 60: 3 data bytes, 1 complete sample) -/
example : inferNsamples (60 - exHdr.length) 8 2 ≤ 3 ∧
    readFil ((exHdr ++ [0, 255, 17, 200, 3, 128]).take 60)
      = .ok (8, 2, inferNsamples (60 - exHdr.length) 8 2,
          [0, 255, 17, 200, 3, 128].take (inferNsamples (60 - exHdr.length) 8 2 * 2)) :=
  truncation_readable exKvs (by decide +kernel) 8 2 3 (by decide) (by decide) (by decide)
    (by decide +kernel) (by decide +kernel) [0, 255, 17, 200, 3, 128] rfl (by decide) _
    (by rw [encodeSamples_ok (by decide)]; exact congrArg _ (by decide +kernel)) 60
    (by decide +kernel) (by decide +kernel)

/-- `state_readable` instantiated: after the first block the file reads back as that block's sample -/
example : ∃ s, (states [] (writerOps (Sigproc.encodeHeader exKvs) exBlocks))[1 + 1]? = some s ∧
    readFil s = .ok (8, 2, (exSamples.take 1).flatten.length / 2, (exSamples.take 1).flatten) ∧
    (exSamples.take 1).flatten <+: exSamples.flatten :=
  state_readable exKvs (by decide +kernel) 8 2 (by decide) (by decide) (by decide)
    (by decide +kernel) (by decide +kernel) exSamples (by decide) exBlocks
    (by rfl) 1 (by decide)

/-- the append-only hypothesis is needed: a re-open discards the previous bytes -/
example : ¬ ([1, 2, 3] <+: apply [1, 2, 3] .openTrunc) := by decide

/-- a model writer that patched the header afterwards (seek + write) would break the chain: the
    inventory theorem is what rules this out for the library -/
example : "seek" ∉ Generated.WriterOps.fileObjOps := by decide +kernel

end SppModel.Writer
